package recgen

import (
	"math"
	"reflect"

	"verif/harness/internal/rng"
)

// NewState creates the mutator state for one history over records of root's type.
// root is a pointer to a record struct (e.g. reflect.ValueOf(&writer.Record)).
func NewState(cfg *Cfg, root reflect.Value, open func([]byte, int) reflect.Value) *State {
	// the negative-zero defects (negzero-setter, negzero-clone, CopyFromSlice) are repaired in
	// /repo: nothing is avoided any more, a regression must be reported
	cfg.AllowNegZero = true
	// setter-clone-unlinked and copyfrom-over-shared are repaired too (43ba0d9)
	cfg.AllowCloneUnlinked = true
	cfg.AllowCopyOverShared = true
	// the "marks relative to an intermediate value" family is repaired as well (58b1b15): several
	// structural changes per node between two Writes are generated like any other call
	cfg.AllowRevealArray, cfg.AllowRevealOneof, cfg.AllowRevealShared, cfg.AllowFrozenReencode = true, true, true, true
	cfg.AllowAppendStruct = true // repaired by 85a5f3b
	st := &State{Cfg: cfg, Pool: map[string][]*ObjSpec{}, Stats: map[string]int{}}
	st.Env = NewEnv(root.Type().Elem(), &st.AltCalls, open)
	return st
}

// ReplayState creates a state for replaying recorded calls of a history generated with gen.
func ReplayState(cfg *Cfg, gen *State) *State {
	cfg.AllowNegZero = true
	cfg.AllowCloneUnlinked = true
	cfg.AllowCopyOverShared = true
	cfg.AllowRevealArray, cfg.AllowRevealOneof, cfg.AllowRevealShared, cfg.AllowFrozenReencode = true, true, true, true
	cfg.AllowAppendStruct = true // repaired by 85a5f3b
	st := &State{Cfg: cfg, Stats: map[string]int{}}
	st.Env = NewEnv(gen.Env.RootType, &gen.AltCalls, gen.Env.OpenReader)
	return st
}

// Mutate performs one random, type-directed mutation step on rec (a pointer to a record
// struct of type ty) using only its public API. st carries the configuration (st.Cfg: which
// known defects may be triggered), the per-period bookkeeping (call st.NextWrite() after every
// Write of the record), the frozen-object pool, the shadow record and the log of the executed,
// replayable calls (st.TakeLog()).
func Mutate(r *rng.R, rec reflect.Value, ty *Type, st *State) {
	g := &gen{st: st, r: r, root: rec, budget: st.Cfg.MaxCalls, main: true}
	if g.budget == 0 {
		g.budget = 40
	}
	// a quiet period: one primitive value deep inside nested containers changes, nothing else
	if st.quiet {
		return
	}
	if len(st.touched) == 0 && r.Chance(1, 8) && g.quietDeepTouch(rec, ty) {
		st.quiet = true
		return
	}
	// Occasionally let the independent shadow record ("alt") evolve.
	if r.Chance(1, 3) {
		g.mutateAlt(ty)
	}
	// Whole-record CopyFrom from the shadow record or from a reader's record.
	if r.Chance(1, 30) {
		if src := g.pickSrc(nil, ContainsDict(ty)); src != nil {
			g.do(nil, &Call{M: "CopyFrom", Args: []any{src}, Tag: 'C', Ty: ty})
			g.stat("copyfrom-root")
		}
	}
	// CopyFrom a source that differs from the record in ONE optional primitive field's presence
	// (or one primitive value): change detection inside CopyFrom, nothing else changes.
	if r.Chance(1, 10) && has(rec, "Clone") && has(rec, "CopyFrom") {
		if extra := g.nearExtras(rec, ty); len(extra) > 0 {
			if g.do(nil, &Call{M: "CopyFrom", Args: []any{&SrcRef{Kind: "near", Extra: extra}}, Tag: 'C', Ty: ty}) {
				g.stat("copyfrom-near")
			}
		}
	}
	g.mutStruct(rec, ty, nil, 0, map[*Def]int{})
}

type optSite struct {
	nav     []NavStep
	name    string
	ty      *Type
	present bool
	cur     reflect.Value
}

// optSites collects the optional primitive fields reachable through struct fields and the current
// alternative of oneofs.
func optSites(v reflect.Value, t *Type, nav []NavStep, depth int, out *[]optSite) {
	if depth > 6 || isNilPtr(v) || t.Def == nil {
		return
	}
	v = addr(v)
	switch t.Kind {
	case KStruct:
		if t.Def.Dict != "" && depth > 0 {
			return
		}
		for _, f := range t.Def.Fields {
			n := Cap(f.Name)
			switch {
			case f.Type.Kind.Primitive() && f.Optional:
				*out = append(*out, optSite{append([]NavStep(nil), nav...), n, f.Type, call(v, "Has"+n)[0].Bool(), call(v, n)[0]})
			case f.Type.Kind == KStruct || f.Type.Kind == KOneof:
				if f.Optional && !call(v, "Has"+n)[0].Bool() {
					continue
				}
				optSites(call(v, n)[0], f.Type, with(nav, n, -1), depth+1, out)
			}
		}
	case KOneof:
		cur := int(call(v, "Type")[0].Uint())
		if cur >= 1 && cur <= len(t.Def.Fields) {
			f := t.Def.Fields[cur-1]
			if f.Type.Kind == KStruct || f.Type.Kind == KOneof {
				n := Cap(f.Name)
				optSites(call(v, n)[0], f.Type, with(nav, n, -1), depth+1, out)
			}
		}
	}
}

func (g *gen) nearExtras(rec reflect.Value, ty *Type) []*Call {
	var sites []optSite
	func() {
		defer func() { _ = recover() }()
		optSites(rec, ty, nil, 0, &sites)
	}()
	if len(sites) == 0 {
		return nil
	}
	s := sites[g.r.Intn(len(sites))]
	if s.present && g.r.Chance(2, 3) {
		return []*Call{{Nav: s.nav, M: "Unset" + s.name}}
	}
	return []*Call{{Nav: s.nav, M: "Set" + s.name, Args: []any{g.genPrim(s.ty, s.cur)}}}
}

type gen struct {
	st      *State
	r       *rng.R
	root    reflect.Value
	budget  int
	main    bool // calls go to st.Log and are guarded
	sink    *[]*Call
	noSrc   bool
	inDict  bool // generating the content of a dict-struct value
	scratch *State
}

func (g *gen) stat(k string) {
	if g.st.Stats != nil {
		g.st.Stats[k]++
	}
}

// do executes (and records) one call on g.root.
func (g *gen) do(nav []NavStep, c *Call) bool {
	c.Nav = append([]NavStep(nil), nav...)
	g.budget--
	var status int
	if g.main {
		status = g.st.Exec(g.root, c)
	} else {
		if g.scratch == nil {
			g.scratch = &State{Cfg: g.st.Cfg, Env: g.st.Env, unguarded: true}
		}
		status = g.scratch.Exec(g.root, c)
		if len(g.scratch.SetterDrops) > 0 {
			g.st.SetterDrops = append(g.st.SetterDrops, g.scratch.SetterDrops...)
			g.scratch.SetterDrops = nil
		}
		if status == ExecPanic {
			g.st.LastPanic = g.scratch.LastPanic
		}
	}
	switch status {
	case ExecOK:
		if g.main {
			g.st.Log = append(g.st.Log, c)
		} else if g.sink != nil {
			*g.sink = append(*g.sink, c)
		}
		g.stat("call-" + kindOfCall(c))
		return true
	case ExecSkipped:
		g.stat("guard-skipped-" + string(rune(c.Tag)))
	case ExecPanic:
		g.stat("call-panic")
		// keep it in the log: a panic of the public API on a legal call is a finding
		if g.main {
			g.st.Log = append(g.st.Log, c)
		}
	default:
		g.stat("call-navfail")
	}
	return false
}

func kindOfCall(c *Call) string {
	switch c.Tag {
	case 'L':
		return c.M
	case 'T':
		return "oneof-set"
	case 'S':
		return "dict-struct-set"
	case 'C':
		return "CopyFrom"
	}
	if len(c.M) > 5 && c.M[:5] == "Unset" {
		return "Unset"
	}
	if c.M == "SetKey" || c.M == "SetValue" {
		return c.M
	}
	return "Set"
}

func with(nav []NavStep, m string, i int) []NavStep {
	out := make([]NavStep, len(nav)+1)
	copy(out, nav)
	out[len(nav)] = NavStep{m, i}
	return out
}

func navHasIndex(nav []NavStep) bool {
	for _, s := range nav {
		if s.I >= 0 {
			return true
		}
	}
	return false
}

// pickSrc returns a CopyFrom source for the node at nav (nil if none available).
func (g *gen) pickSrc(nav []NavStep, dictNode bool) *SrcRef {
	if g.noSrc || !g.main || navHasIndex(nav) {
		return nil
	}
	cfg := g.st.Cfg
	if cfg.ReaderStream != nil && g.r.Chance(1, 2) && !(dictNode && (cfg.NoFrozen || !cfg.AllowFrozenReencode)) {
		return &SrcRef{Kind: "reader", Stream: cfg.ReaderStream, NRead: cfg.ReaderNRead, Nav: append([]NavStep(nil), nav...)}
	}
	if len(g.st.AltCalls) == 0 {
		return nil
	}
	return &SrcRef{Kind: "alt", N: len(g.st.AltCalls), Nav: append([]NavStep(nil), nav...)}
}

func (g *gen) mutateAlt(ty *Type) {
	env := g.st.Env
	n := len(g.st.AltCalls)
	if !env.altLive.IsValid() || env.altLiveN != n {
		env.altLive = env.altRoot(n)
	}
	sub := &gen{st: g.st, r: g.r, root: env.altLive, budget: 25, sink: &g.st.AltCalls, noSrc: true}
	sub.mutStruct(env.altLive, ty, nil, 0, map[*Def]int{})
	env.altLiveN = len(g.st.AltCalls)
	g.stat("alt-mutations")
}

// newObject builds a fresh object of a dict-struct type through its own setters.
func (g *gen) newObject(t *Type, pt reflect.Type, frozen bool, depth int, stack map[*Def]int) *ObjSpec {
	g.st.nextID++
	spec := &ObjSpec{ID: g.st.nextID, Def: t.Def, Frozen: frozen}
	obj := newInited(pt.Elem())
	sub := &gen{st: g.st, r: g.r, root: obj, budget: 12, sink: &spec.Calls, noSrc: true, inDict: t.Def.Dict != ""}
	rounds := 1 + g.r.Intn(3)
	for i := 0; i < rounds; i++ {
		sub.mutStruct(obj, t, nil, depth+1, stack)
	}
	if frozen {
		call(obj, "Freeze")
	}
	g.st.Env.objs[spec] = obj
	return spec
}

func (g *gen) mutStruct(v reflect.Value, t *Type, nav []NavStep, depth int, stack map[*Def]int) {
	fields := t.Def.Fields
	if len(fields) == 0 || isNilPtr(v) || stack[t.Def] > maxRecur || depth > maxDepth+4 {
		return
	}
	stack[t.Def]++
	defer func() { stack[t.Def]-- }()
	mode := g.r.Intn(20)
	pick := func(i int) bool {
		switch {
		case mode < 10: // one or two fields
			return g.r.Intn(len(fields)) < 2
		case mode < 15:
			return g.r.Bool()
		case mode < 17:
			return true
		default: // 3/20: nothing in this subtree
			return false
		}
	}
	if g.st.Cfg.DictHeavy && depth == 0 {
		mode = 15
	}
	if g.st.Cfg.ForceRevealOneof && g.main {
		mode = 15 // visit every field: oneofs with struct alternatives are rare otherwise
	}
	for i, f := range fields {
		if g.budget <= 0 {
			return
		}
		if !pick(i) {
			continue
		}
		g.mutField(v, f, nav, depth, stack)
	}
}

func (g *gen) mutField(v reflect.Value, f Field, nav []NavStep, depth int, stack map[*Def]int) {
	n := Cap(f.Name)
	ft := f.Type
	switch {
	case ft.Kind.Primitive():
		if f.Optional && g.r.Chance(1, 4) {
			g.do(nav, &Call{M: "Unset" + n})
			return
		}
		cur := call(v, n)[0]
		val := g.genPrim(ft, cur)
		c := &Call{M: "Set" + n, Args: []any{val}}
		if ft.Kind == KFloat64 {
			c.Tag, c.Get = 'F', n
			if f.Optional && !call(v, "Has"+n)[0].Bool() {
				c.Tag = 0 // presence changes: the setter always stores
			}
		}
		g.do(nav, c)
	case f.Optional && !call(v, "Has"+n)[0].Bool():
		// optional struct/oneof/array/multimap field: Set<N>() makes it present (reset state)
		deep := depth >= maxDepth || (ft.Def != nil && stack[ft.Def] >= maxRecur)
		if deep || !has(v, "Set"+n) || v.MethodByName("Set"+n).Type().NumIn() != 0 {
			return
		}
		if g.do(nav, &Call{M: "Set" + n, Tag: 'P', Get: n}) {
			g.stat("optional-composite-set")
			g.mutNode(call(v, n)[0], ft, with(nav, n, -1), depth+1, stack)
		}
	case f.Optional && g.r.Chance(1, 5):
		if g.do(nav, &Call{M: "Unset" + n, Tag: 'P', Get: n}) {
			g.stat("optional-composite-unset")
		}
	case ft.Kind == KStruct && ft.Def.Dict != "":
		g.mutDictField(v, f, nav, depth, stack)
	case ft.Kind == KStruct:
		child := call(v, n)[0]
		cnav := with(nav, n, -1)
		if has(child, "CopyFrom") && g.r.Chance(1, 15) {
			if src := g.pickSrc(cnav, ContainsDict(ft)); src != nil {
				g.do(cnav, &Call{M: "CopyFrom", Args: []any{src}, Tag: 'C', Ty: ft})
				g.stat("copyfrom-sub")
				return
			}
		}
		g.mutStruct(child, ft, cnav, depth+1, stack)
	case ft.Kind == KOneof:
		g.mutOneof(call(v, n)[0], ft, with(nav, n, -1), depth+1, stack)
	case ft.Kind == KArray:
		g.mutArray(call(v, n)[0], ft, with(nav, n, -1), depth+1, stack)
	case ft.Kind == KMultimap:
		child := call(v, n)[0]
		cnav := with(nav, n, -1)
		if has(child, "CopyFrom") && g.r.Chance(1, 20) {
			if src := g.pickSrc(cnav, false); src != nil {
				g.do(cnav, &Call{M: "CopyFrom", Args: []any{src}, Tag: 'C', Ty: ft})
				g.stat("copyfrom-sub")
				return
			}
		}
		g.mutMultimap(child, ft, cnav, depth+1, stack)
	}
}

// mutDictField changes a dict-struct field (Resource, Scope, Metric...) through its setter.
func (g *gen) mutDictField(v reflect.Value, f Field, nav []NavStep, depth int, stack map[*Def]int) {
	n := Cap(f.Name)
	setter := v.MethodByName("Set" + n)
	if !setter.IsValid() {
		return
	}
	pt := setter.Type().In(0)
	canFreeze := has(reflect.New(pt.Elem()), "Freeze")
	pool := g.st.Pool[f.Type.Def.Name]
	var arg any
	kind := ""
	cfg := g.st.Cfg
	// float twins (motif.go): the second twin when this field is visited again, or a new pair
	if g.main && canFreeze && !cfg.NoFrozen {
		tk := navKey(nav) + "/" + n
		if tw := g.st.twins[tk]; tw != nil && g.r.Chance(2, 3) {
			delete(g.st.twins, tk)
			if g.do(nav, &Call{M: "Set" + n, Args: []any{tw}, Tag: 'S', Ty: f.Type, Get: n}) {
				g.stat("dict-set-float-twin-second")
			}
			return
		}
		if g.r.Chance(1, 10) {
			if a, b, ok := g.floatTwins(f.Type, pt, depth, stack); ok {
				if g.do(nav, &Call{M: "Set" + n, Args: []any{a}, Tag: 'S', Ty: f.Type, Get: n}) {
					if g.st.twins == nil {
						g.st.twins = map[string]*ObjSpec{}
					}
					g.st.twins[tk] = b
					g.stat("dict-set-float-twin-first")
				}
				return
			}
		}
	}
	x := g.r.Intn(20)
	if !g.main || cfg.NoFrozen {
		// the shadow record and objects under construction own all their values
		if x >= 7 && x < 15 {
			x = 0
		}
	} else if cfg.ForceCloneUnlinked && g.st.MaybeFrozen(nav, n) {
		x = 0 // focused runs: an unfrozen value replaces a (possibly) shared one
	}
	// (an unfrozen value over a shared one was avoided here - setter-clone-unlinked - until it was
	// repaired in /repo by 43ba0d9)
	switch {
	case x < 7 || !canFreeze:
		arg, kind = g.newObject(f.Type, pt, false, depth, stack), "fresh"
	case x < 15:
		if len(pool) > 0 && (len(pool) >= 6 || g.r.Chance(2, 3)) && (!cfg.DictResets || cfg.AllowFrozenReencode) {
			arg, kind = pool[g.r.Intn(len(pool))], "frozen-pooled"
		} else {
			spec := g.newObject(f.Type, pt, true, depth, stack)
			g.st.Pool[f.Type.Def.Name] = append(pool, spec)
			arg, kind = spec, "frozen-new"
		}
	default:
		if src := g.pickSrc(with(nav, n, -1), true); src != nil {
			arg, kind = src, "from-"+src.Kind
		} else {
			arg, kind = g.newObject(f.Type, pt, false, depth, stack), "fresh"
		}
	}
	c := &Call{M: "Set" + n, Args: []any{arg}, Tag: 'S', Ty: f.Type, Get: n}
	if g.do(nav, c) {
		g.stat("dict-set-" + kind)
	}
	// Deliberate trigger of reveal-shared-twice: a second frozen assignment in the same period.
	if g.main && g.st.Cfg.ForceRevealShared && canFreeze && g.r.Chance(1, 2) {
		spec := g.newObject(f.Type, pt, true, depth, stack)
		g.st.Pool[f.Type.Def.Name] = append(g.st.Pool[f.Type.Def.Name], spec)
		g.do(nav, &Call{M: "Set" + n, Args: []any{spec}, Tag: 'S', Ty: f.Type, Get: n})
		g.stat("dict-set-second")
	}
}

func hasCompositeField(t *Type) bool {
	if t == nil || t.Def == nil {
		return false
	}
	for _, f := range t.Def.Fields {
		if !f.Type.Kind.Primitive() {
			return true
		}
	}
	return false
}

const maxDepth = 11
const maxRecur = 4

func (g *gen) mutOneof(v reflect.Value, t *Type, nav []NavStep, depth int, stack map[*Def]int) {
	alts := t.Def.Fields
	cur := int(call(v, "Type")[0].Uint())
	deep := depth >= maxDepth || stack[t.Def] >= maxRecur
	stack[t.Def]++
	defer func() { stack[t.Def]-- }()

	change := g.r.Chance(1, 3) || (cur == 0 && g.r.Chance(3, 4))
	if !change && cur >= 1 && cur <= len(alts) {
		a := alts[cur-1]
		an := Cap(a.Name)
		if a.Type.Kind.Primitive() {
			val := g.genPrim(a.Type, call(v, an)[0])
			g.do(nav, &Call{M: "Set" + an, Args: []any{val}, Tag: 'T', Alt: cur, Ty: t, Get: an})
		} else {
			g.mutNode(call(v, an)[0], a.Type, with(nav, an, -1), depth+1, stack)
		}
		// Deliberate trigger of reveal-oneof-twice: away and back in one period.
		if g.main && g.st.Cfg.ForceRevealOneof && !a.Type.Kind.Primitive() && g.r.Chance(2, 3) {
			other := 1 + g.r.Intn(len(alts))
			if other != cur {
				g.do(nav, &Call{M: "SetType", Args: []any{other}, Tag: 'T', Alt: other, Ty: t})
				g.do(nav, &Call{M: "SetType", Args: []any{cur}, Tag: 'T', Alt: cur, Ty: t})
				g.stat("oneof-away-and-back")
			}
		}
		return
	}
	// change the type
	k := g.r.Intn(len(alts) + 1)
	for tries := 0; tries < 8 && (k == cur || (k > 0 && deep && !alts[k-1].Type.Kind.Primitive())); tries++ {
		k = g.r.Intn(len(alts) + 1)
	}
	if k > 0 && deep && !alts[k-1].Type.Kind.Primitive() {
		k = 0
	}
	if k == 0 {
		g.do(nav, &Call{M: "SetType", Args: []any{0}, Tag: 'T', Alt: 0, Ty: t})
		return
	}
	a := alts[k-1]
	an := Cap(a.Name)
	if a.Type.Kind.Primitive() {
		if g.r.Chance(7, 10) {
			val := g.genPrim(a.Type, call(v, an)[0])
			g.do(nav, &Call{M: "Set" + an, Args: []any{val}, Tag: 'T', Alt: k, Ty: t, Get: an})
		} else {
			g.do(nav, &Call{M: "SetType", Args: []any{k}, Tag: 'T', Alt: k, Ty: t}) // reveals the stale value
		}
		return
	}
	if g.do(nav, &Call{M: "SetType", Args: []any{k}, Tag: 'T', Alt: k, Ty: t}) || int(call(v, "Type")[0].Uint()) == k {
		g.mutNode(call(v, an)[0], a.Type, with(nav, an, -1), depth+1, stack)
	}
}

func (g *gen) mutNode(v reflect.Value, t *Type, nav []NavStep, depth int, stack map[*Def]int) {
	switch t.Kind {
	case KStruct:
		g.mutStruct(v, t, nav, depth, stack)
	case KOneof:
		g.mutOneof(v, t, nav, depth, stack)
	case KArray:
		g.mutArray(v, t, nav, depth, stack)
	case KMultimap:
		g.mutMultimap(v, t, nav, depth, stack)
	}
}

// walkLen picks a new length near cur, or one of the interesting lengths.
func (g *gen) walkLen(cur int, depth int) int {
	small := g.st.Cfg.NoBigLens || depth > 4
	r := g.r
	if cur >= 59 && cur <= 67 && !small && r.Chance(3, 4) {
		// walk across the 62/63/64/65 boundaries in single steps, then shrink again
		if r.Chance(1, 8) {
			return r.Intn(3)
		}
		if r.Bool() {
			return cur + 1
		}
		return cur - 1
	}
	switch x := r.Intn(16); {
	case x < 4:
		return cur + 1
	case x < 6:
		if cur > 0 {
			return cur - 1
		}
		return 1
	case x < 8:
		return 0
	case x < 10:
		return 1 + r.Intn(2)
	case x < 12:
		return 3 + r.Intn(5)
	case x < 14:
		if small {
			return r.Intn(4)
		}
		return 61 + r.Intn(5) // 61..65
	default:
		if small {
			return cur
		}
		if r.Chance(1, 4) {
			return 66 + r.Intn(70)
		}
		return 10 + r.Intn(20)
	}
}

func (g *gen) lenStat(old, new int) {
	for _, b := range []int{62, 63, 64} {
		if (old < b) != (new < b) {
			g.stat("len-cross-" + string(rune('0'+b/10)) + string(rune('0'+b%10)))
		}
	}
	switch {
	case new == 0:
		g.stat("len-to-0")
	case new <= 2:
		g.stat("len-to-1..2")
	case new >= 61 && new <= 65:
		g.stat("len-to-61..65")
	case new > 65:
		g.stat("len-to->65")
	default:
		g.stat("len-to-3..60")
	}
	if new < old {
		g.stat("len-shrink")
	} else if new > old {
		g.stat("len-grow")
	}
}

func (g *gen) mutArray(v reflect.Value, t *Type, nav []NavStep, depth int, stack map[*Def]int) {
	n := int(call(v, "Len")[0].Int())
	et := t.Elem
	if et.Kind.Primitive() {
		switch x := g.r.Intn(10); {
		case x < 3 && has(v, "Append"):
			var cur reflect.Value
			if n > 0 {
				cur = call(v, "At", iv(n-1))[0]
			}
			if g.do(nav, &Call{M: "Append", Args: []any{g.genPrim(et, cur)}, Tag: 'L', Ty: t}) {
				g.lenStat(n, n+1)
			}
		case x < 7 && has(v, "CopyFromSlice") && et.Kind == KFloat64 && n > 0 && g.r.Chance(1, 3):
			// the same values with the sign of the zeros flipped (a zero is planted when there is
			// none): equal under ==, different bit patterns
			out := make([]float64, n)
			zeros := 0
			for i := range out {
				out[i] = call(v, "At", iv(i))[0].Float()
				if out[i] == 0 {
					out[i] = math.Float64frombits(math.Float64bits(out[i]) ^ (1 << 63))
					zeros++
				}
			}
			if zeros == 0 {
				out[g.r.Intn(n)] = math.Copysign(0, -1)
			}
			g.stat("float-slice-zero-sign-flip")
			g.do(nav, &Call{M: "CopyFromSlice", Args: []any{out}, Tag: 'L', Ty: t})
		case x < 7 && has(v, "CopyFromSlice"):
			nl := n
			if g.r.Chance(1, 2) {
				nl = g.walkLen(n, depth)
			}
			sl := g.genSlice(v, et, n, nl)
			if g.do(nav, &Call{M: "CopyFromSlice", Args: []any{sl}, Tag: 'L', Ty: t}) {
				g.lenStat(n, nl)
			}
		case x < 9:
			nl := g.walkLen(n, depth)
			if g.do(nav, &Call{M: "EnsureLen", Args: []any{nl}, Tag: 'L', Ty: t}) {
				g.lenStat(n, nl)
			}
		}
		return
	}
	deep := depth >= maxDepth || (et.Def != nil && stack[et.Def] >= maxRecur)
	if et.Kind == KStruct && et.Def.Dict != "" {
		// array of dictionary structs: EnsureLen fills new slots with the frozen shared empty
		// value, elements are set by Append(v) only and are never modified in place through
		// At(i) (the API panics: "attempt to modify a frozen struct").
		if has(v, "Append") && g.r.Chance(1, 2) {
			pt := v.MethodByName("Append").Type().In(0)
			// frozen elements only in the main record: inside a value under construction a frozen
			// element below an unfrozen owner is replaced without marks when the owner is later
			// overwritten by an unfrozen value (known defect copyfrom-over-shared)
			frozen := g.main && !g.st.Cfg.NoFrozen && has(reflect.New(pt.Elem()), "Freeze") && g.r.Bool()
			spec := g.newObject(et, pt, frozen, depth, stack)
			if g.do(nav, &Call{M: "Append", Args: []any{spec}, Tag: 'L', Ty: t}) {
				g.lenStat(n, n+1)
				g.stat("append-dict-struct")
			}
		} else if n > 0 && g.r.Chance(1, 2) {
			// shrink only: EnsureLen growth after Append re-initialises the appended slots
			// (Append does not advance initedCount: known defect append-then-ensurelen-reinit)
			nl := g.r.Intn(n)
			if g.do(nav, &Call{M: "EnsureLen", Args: []any{nl}, Tag: 'L', Ty: t}) {
				g.lenStat(n, nl)
			}
		}
		return
	}
	if g.r.Chance(1, 2) {
		nl := g.walkLen(n, depth)
		if deep && nl > 2 {
			nl = g.r.Intn(2)
		}
		if g.st.Cfg.ForceRevealArray && n >= 1 && g.r.Chance(2, 3) {
			// deliberate trigger of reveal-array-twice: shrink below, then grow above
			g.do(nav, &Call{M: "EnsureLen", Args: []any{g.r.Intn(n)}, Tag: 'L', Ty: t})
			nl = n + g.r.Intn(2)
			g.stat("array-shrink-then-grow")
		}
		if s, gr, ok := g.regrowPastCapacity(v, n, depth); ok && !deep {
			if g.do(nav, &Call{M: "EnsureLen", Args: []any{s}, Tag: 'L', Ty: t}) {
				g.stat("array-regrow-past-capacity")
				g.noteRegrown(nav, s, n)
				n, nl = s, gr
			}
		}
		if g.do(nav, &Call{M: "EnsureLen", Args: []any{nl}, Tag: 'L', Ty: t}) {
			g.lenStat(n, nl)
		}
	} else if g.st.Cfg.AllowAppendStruct && et.Kind == KStruct && has(v, "Append") && g.r.Chance(1, 4) {
		pt := v.MethodByName("Append").Type().In(0)
		spec := g.newObject(et, pt, false, depth, stack)
		if g.do(nav, &Call{M: "Append", Args: []any{spec}, Tag: 'L', Ty: t}) {
			g.lenStat(n, n+1)
			g.stat("append-struct")
		}
	}
	n = int(call(v, "Len")[0].Int())
	if n == 0 {
		return
	}
	if call(v, "At", iv(0))[0].Kind() == reflect.Struct {
		return // elements are handed out by value: no in-place mutation through the public API
	}
	cnt := 1 + g.r.Intn(3)
	for j := 0; j < cnt && g.budget > 0; j++ {
		i := g.r.Intn(n)
		if g.r.Chance(1, 3) {
			i = n - 1 // the newest element
		}
		g.mutNode(call(v, "At", iv(i))[0], et, with(nav, "At", i), depth+1, stack)
	}
}

func (g *gen) mutMultimap(v reflect.Value, t *Type, nav []NavStep, depth int, stack map[*Def]int) {
	n := int(call(v, "Len")[0].Int())
	kt, vt := t.Def.Key, t.Def.Val
	deep := depth >= maxDepth || stack[t.Def] >= maxRecur
	stack[t.Def]++
	defer func() { stack[t.Def]-- }()
	if n >= 61 && n <= 66 && g.r.Chance(2, 3) {
		// hold the length at the boundary between the values-only and the full encoding and
		// change values only (no key, no length), at the highest indexes first: the per-element
		// change mask of the values-only encoding is exercised at its last bits.
		g.stat("mm-boundary-hold")
		for _, i := range []int{n - 1, n - 2, g.r.Intn(n)} {
			if g.budget <= 0 || !g.r.Chance(2, 3) {
				continue
			}
			if vt.Kind.Primitive() {
				c := &Call{M: "SetValue", Args: []any{i, g.genPrim(vt, call(v, "Value", iv(i))[0])}, Idx: true}
				if vt.Kind == KFloat64 {
					c.Tag, c.Get, c.GetI1 = 'F', "Value", i+1
				}
				g.do(nav, c)
			} else if vt.Kind == KStruct && vt.Def != nil && vt.Def.Dict != "" {
				// a dictionary-struct value may be a frozen shared object: it is replaced through
				// SetValue, never modified in place (the API refuses that by design)
				g.setDictElem(v, "SetValue", i, vt, nav, depth, stack)
			} else {
				g.mutNode(call(v, "Value", iv(i))[0], vt, with(nav, "Value", i), depth+1, stack)
			}
		}
		return
	}
	regrownLo, regrownHi := 0, 0
	if g.r.Chance(1, 2) {
		if vt.Kind.Primitive() && kt.Kind.Primitive() && has(v, "Append") && g.r.Chance(1, 3) {
			if g.do(nav, &Call{M: "Append", Args: []any{g.genPrim(kt, reflect.Value{}), g.genPrim(vt, reflect.Value{})}, Tag: 'L', Ty: t}) {
				g.lenStat(n, n+1)
			}
		} else {
			nl := g.walkLen(n, depth)
			if deep && nl > 2 {
				nl = g.r.Intn(2)
			}
			if s, gr, ok := g.regrowPastCapacity(v, n, depth); ok && !deep {
				// shrink, then grow beyond the capacity of the backing array in one step
				if g.do(nav, &Call{M: "EnsureLen", Args: []any{s}, Tag: 'L', Ty: t}) {
					g.stat("mm-regrow-past-capacity")
					g.noteRegrown(nav, s, n)
					regrownLo, regrownHi = s, n
					n, nl = s, gr
				}
			}
			if g.do(nav, &Call{M: "EnsureLen", Args: []any{nl}, Tag: 'L', Ty: t}) {
				g.lenStat(n, nl)
				// new elements get keys right away (most of the time)
				for i := n; i < nl && i < n+6 && g.budget > 0 && kt.Kind.Primitive(); i++ {
					if g.r.Chance(5, 6) {
						g.do(nav, &Call{M: "SetKey", Args: []any{i, g.genPrim(kt, reflect.Value{})}, Idx: true})
					}
				}
			}
		}
	}
	n = int(call(v, "Len")[0].Int())
	if n == 0 {
		return
	}
	cnt := 1 + g.r.Intn(3)
	for j := 0; j < cnt && g.budget > 0; j++ {
		i := g.r.Intn(n)
		if g.r.Chance(1, 3) {
			i = n - 1
		}
		if regrownHi > regrownLo && regrownHi <= n && g.r.Chance(2, 3) {
			i = regrownLo + g.r.Intn(regrownHi-regrownLo) // an element that was hidden and is exposed again
		}
		if g.r.Chance(1, 4) {
			if kt.Kind.Primitive() {
				g.do(nav, &Call{M: "SetKey", Args: []any{i, g.genPrim(kt, call(v, "Key", iv(i))[0])}, Idx: true})
			} else if kt.Kind == KStruct && kt.Def != nil && kt.Def.Dict != "" {
				g.setDictElem(v, "SetKey", i, kt, nav, depth, stack)
			} else {
				g.mutNode(call(v, "Key", iv(i))[0], kt, with(nav, "Key", i), depth+1, stack)
			}
		}
		if g.r.Chance(3, 4) {
			if vt.Kind == KStruct && vt.Def != nil && vt.Def.Dict != "" {
				g.setDictElem(v, "SetValue", i, vt, nav, depth, stack)
				continue
			}
			if vt.Kind.Primitive() {
				c := &Call{M: "SetValue", Args: []any{i, g.genPrim(vt, call(v, "Value", iv(i))[0])}, Idx: true}
				if vt.Kind == KFloat64 {
					c.Tag, c.Get, c.GetI1 = 'F', "Value", i+1
				}
				g.do(nav, c)
			} else {
				g.mutNode(call(v, "Value", iv(i))[0], vt, with(nav, "Value", i), depth+1, stack)
			}
		}
	}
}

// setDictElem assigns a dictionary-struct key / value of a multimap through SetKey / SetValue
// (dictionary structs are replaced as a whole): a frozen shared object (new or pooled) or a fresh
// unfrozen one - both over whatever the element holds (a shared value, or an owned copy).
func (g *gen) setDictElem(v reflect.Value, setter string, i int, t *Type, nav []NavStep, depth int, stack map[*Def]int) {
	m := v.MethodByName(setter)
	if !m.IsValid() || m.Type().NumIn() != 2 || m.Type().In(1).Kind() != reflect.Ptr {
		return
	}
	pt := m.Type().In(1)
	canFreeze := has(reflect.New(pt.Elem()), "Freeze")
	pool := g.st.Pool[t.Def.Name]
	var spec *ObjSpec
	switch x := g.r.Intn(10); {
	case x < 4 || !canFreeze || !g.main || g.st.Cfg.NoFrozen:
		spec = g.newObject(t, pt, false, depth, stack)
		g.stat("mm-dict-elem-fresh")
	case x < 7 && len(pool) > 0:
		spec = pool[g.r.Intn(len(pool))]
		g.stat("mm-dict-elem-frozen-pooled")
	default:
		spec = g.newObject(t, pt, true, depth, stack)
		g.st.Pool[t.Def.Name] = append(pool, spec)
		g.stat("mm-dict-elem-frozen-new")
	}
	g.do(nav, &Call{M: setter, Args: []any{i, spec}, Idx: true})
}

// ---------------------------------------------------------------------------------------
// Value distributions.

func (g *gen) genSlice(v reflect.Value, et *Type, n, nl int) any {
	mk := func(i int) any {
		if i < n && !g.r.Chance(1, 3) {
			return prim(call(v, "At", iv(i))[0], et)
		}
		var cur reflect.Value
		if i < n {
			cur = call(v, "At", iv(i))[0]
		}
		return g.genPrim(et, cur)
	}
	switch et.Kind {
	case KUint64:
		out := make([]uint64, nl)
		for i := range out {
			out[i] = mk(i).(uint64)
		}
		return out
	case KInt64:
		out := make([]int64, nl)
		for i := range out {
			out[i] = mk(i).(int64)
		}
		return out
	case KFloat64:
		out := make([]float64, nl)
		for i := range out {
			out[i] = mk(i).(float64)
		}
		return out
	case KBool:
		out := make([]bool, nl)
		for i := range out {
			out[i] = mk(i).(bool)
		}
		return out
	default:
		out := make([]string, nl)
		for i := range out {
			out[i] = mk(i).(string)
		}
		return out
	}
}

func prim(v reflect.Value, t *Type) any {
	switch t.Kind {
	case KBool:
		return v.Bool()
	case KInt64:
		return v.Int()
	case KUint64:
		return v.Uint()
	case KFloat64:
		return v.Float()
	default:
		return v.String()
	}
}

func (g *gen) genPrim(t *Type, cur reflect.Value) any {
	r := g.r
	switch t.Kind {
	case KBool:
		return r.Bool()
	case KInt64:
		c := int64(0)
		if cur.IsValid() {
			c = cur.Int()
		}
		return g.genI64(c)
	case KUint64:
		c := uint64(0)
		if cur.IsValid() {
			c = cur.Uint()
		}
		if t.Enum != "" {
			if r.Chance(1, 12) {
				return r.U64()
			}
			return uint64(r.Intn(7))
		}
		return g.genU64(c)
	case KFloat64:
		c := 0.0
		if cur.IsValid() {
			c = cur.Float()
		}
		return g.genF64(c)
	default:
		return g.genStr(t)
	}
}

func (g *gen) genU64(cur uint64) uint64 {
	r := g.r
	switch x := r.Intn(16); {
	case x == 0:
		g.stat("u64-zero")
		return 0
	case x == 1:
		return 1
	case x == 2:
		g.stat("u64-max")
		return math.MaxUint64
	case x == 3:
		return 1 << 63
	case x == 4:
		return 1<<63 - 1
	case x == 5:
		g.stat("u64-wrap-delta")
		return cur + 1<<63 // successive deltas wrap around
	case x == 6:
		g.stat("u64-wrap-delta")
		return ^cur
	case x < 10:
		g.stat("u64-small-delta")
		return cur + uint64(r.Intn(1000))
	case x == 10:
		return cur - uint64(r.Intn(1000)) // may wrap below zero
	case x < 13:
		return r.BitsExact(1 + r.Intn(64))
	case x == 13:
		return 1700000000000000000 + uint64(r.Intn(1<<30)) // timestamp-like
	default:
		return r.U64()
	}
}

func (g *gen) genI64(cur int64) int64 {
	r := g.r
	switch x := r.Intn(14); {
	case x == 0:
		return 0
	case x == 1:
		return 1
	case x == 2:
		return -1
	case x == 3:
		g.stat("i64-min")
		return math.MinInt64
	case x == 4:
		g.stat("i64-max")
		return math.MaxInt64
	case x == 5:
		return cur + math.MinInt64 // delta wraps
	case x < 9:
		return cur + int64(r.Intn(200)) - 100
	case x < 12:
		v := int64(r.BitsExact(1 + r.Intn(63)))
		if r.Bool() {
			v = -v
		}
		return v
	default:
		return int64(r.U64())
	}
}

// genF64: all float classes. Inside dict-struct values -0 is replaced by +0 unless
// AllowNegZero: the decoder builds new dictionary entries from Clone() of the previous one,
// and Clone drops -0 (defect negzero-clone), which would make every such history fail.
func (g *gen) genF64(cur float64) float64 {
	v := g.genF64raw(cur)
	if g.inDict && !g.st.Cfg.AllowNegZero && v == 0 && math.Signbit(v) {
		return 0
	}
	return v
}

func (g *gen) genF64raw(cur float64) float64 {
	r := g.r
	if g.st.Cfg.AllowNegZero && cur == 0 && ((g.st.Cfg.NegZeroHeavy && r.Chance(2, 3)) || r.Chance(1, 8)) {
		g.stat("float-flip-zero-sign")
		return math.Float64frombits(math.Float64bits(cur) ^ (1 << 63))
	}
	switch x := r.Intn(16); {
	case x < 2:
		g.stat("float-nan")
		// NaN with a random payload (quiet or signalling, either sign)
		bits := uint64(0x7FF)<<52 | (r.U64() & (1<<52 - 1))
		if bits&(1<<52-1) == 0 {
			bits |= 1
		}
		if r.Bool() {
			bits |= 1 << 63
		}
		return math.Float64frombits(bits)
	case x == 2:
		g.stat("float-poszero")
		return 0
	case x == 3:
		g.stat("float-negzero")
		return math.Copysign(0, -1)
	case x == 4:
		g.stat("float-inf")
		if r.Bool() {
			return math.Inf(1)
		}
		return math.Inf(-1)
	case x == 5:
		g.stat("float-subnormal")
		bits := r.U64() & (1<<52 - 1)
		if r.Chance(1, 4) {
			bits = 1
		}
		if r.Bool() {
			bits |= 1 << 63
		}
		return math.Float64frombits(bits)
	case x < 9:
		g.stat("float-smallint")
		return float64(r.Intn(104) - 3)
	case x < 11:
		g.stat("float-near-prev")
		if math.IsNaN(cur) || math.IsInf(cur, 0) {
			return 1.5
		}
		return cur + float64(r.Intn(9)-4)*0.25
	case x == 11:
		g.stat("float-extreme")
		return []float64{math.MaxFloat64, -math.MaxFloat64, math.SmallestNonzeroFloat64, 1e-300, 1e300}[r.Intn(5)]
	case x == 12:
		g.stat("float-same-bits")
		return cur
	case x == 13 || x == 14:
		// the previous value with a WINDOW of bits flipped: the XOR with the previous value has
		// exactly `lead` leading and `trail` trailing zeros, every pair (lead, trail) equally
		// likely - the Gorilla-style codec encodes exactly these two numbers
		lead := r.Intn(64)
		if r.Chance(1, 2) {
			// the codec stores the leading count in 5 bits and clamps it: its boundaries
			lead = []int{0, 1, 15, 16, 30, 31, 32, 33, 34, 47, 48, 62, 63}[r.Intn(13)]
		}
		trail := r.Intn(64 - lead)
		if r.Chance(1, 4) {
			trail = 0
		}
		width := 64 - lead - trail
		var mask uint64 = 1 << uint(trail)
		if width > 1 {
			mask |= 1 << uint(63-lead)
			if width > 2 {
				mask |= (r.U64() & (1<<uint(width-2) - 1)) << uint(trail+1)
			}
		}
		g.stat("float-xor-window")
		if lead == 32 || lead == 31 || lead == 33 {
			g.stat("float-xor-window-lead-31..33")
		}
		return math.Float64frombits(math.Float64bits(cur) ^ mask)
	default:
		g.stat("float-randbits")
		return math.Float64frombits(r.U64())
	}
}

func (g *gen) randStr(n int) string {
	b := make([]byte, n)
	mode := g.r.Intn(3)
	for i := range b {
		switch mode {
		case 0:
			b[i] = byte('a' + g.r.Intn(26))
		case 1:
			b[i] = byte(g.r.U64())
		default:
			b[i] = "0123456789abcdef.-_/"[g.r.Intn(20)]
		}
	}
	return string(b)
}

// genStr: repeated values from a small pool (so that dictionaries are actually referenced)
// and fresh strings of length 0 / 1 / 2 / medium / long.
func (g *gen) genStr(t *Type) string {
	st := g.st
	if len(st.strPool) == 0 {
		// single characters of 2, 3 and 4 bytes: byte length and character count differ (the
		// dictionary admission rule is about bytes); "\xff\xfe" is not valid UTF-8
		st.strPool = []string{"", "a", "k", "ab", "xy", "svc", "http.method", "host.name", "GET",
			"https://opentelemetry.io/schemas/1.21.0", g.randStr(40), g.randStr(300),
			"\u00b5", "\u20ac", "\U0001F600", "\u00b5s", "\xff\xfe"}
	}
	poolN, poolD := 7, 10
	if st.Cfg.DictHeavy {
		poolN, poolD = 1, 2
	}
	if g.r.Chance(poolN, poolD) {
		s := st.strPool[g.r.Intn(len(st.strPool))]
		g.stat("str-pooled")
		if t.Dict != "" && len(s) >= 2 {
			g.stat("str-pooled-dict-eligible")
		}
		return s
	}
	var n int
	switch x := g.r.Intn(12); {
	case x == 0:
		n = 0
	case x == 1:
		n = 1
	case x < 4:
		n = 2
	case x < 8:
		n = 3 + g.r.Intn(18)
	case x < 11:
		n = 20 + g.r.Intn(60)
	default:
		n = 200 + g.r.Intn(400)
		if g.r.Chance(1, 10) {
			n = 5000 + g.r.Intn(3000)
		}
	}
	s := g.randStr(n)
	switch {
	case n == 0:
		g.stat("str-len-0")
	case n == 1:
		g.stat("str-len-1")
	case n == 2:
		g.stat("str-len-2")
	case n < 200:
		g.stat("str-len-3..199")
	default:
		g.stat("str-len-long")
	}
	if len(st.strPool) < 40 && g.r.Chance(1, 3) {
		st.strPool = append(st.strPool, s)
	} else if g.r.Chance(1, 10) {
		st.strPool[g.r.Intn(len(st.strPool))] = s
	}
	return s
}
