package recgen

import (
	"math"
	"reflect"
)

func fromBits(b uint64) float64 { return math.Float64frombits(b) }

// Two motifs that the unbiased walk reaches too rarely (found through a seeded change that left
// the elements hidden by a shrink un-relinked when the backing array is reallocated):
//
//   regrowPastCapacity: on an array / multimap with hidden elements or at least two elements,
//     shrink and then grow beyond the capacity of the backing array in ONE step, so that elements
//     hidden by the shrink are moved in memory and exposed again;
//   quietDeepTouch: a period in which exactly one primitive value deep inside nested containers
//     changes (container inside a container element) and nothing else: the values-only / masked
//     encodings of every level above it have to carry the change.

// backingCap returns the capacity of the unexported backing slice `elems` of a generated array /
// multimap (0 when it cannot be read).
func backingCap(v reflect.Value) int {
	v = addr(v)
	if v.Kind() == reflect.Ptr {
		v = v.Elem()
	}
	if v.Kind() != reflect.Struct {
		return 0
	}
	f := v.FieldByName("elems")
	if !f.IsValid() || f.Kind() != reflect.Slice {
		return 0
	}
	return f.Cap()
}

// regrowPastCapacity returns (shrinkTo, growTo) for the motif, or ok=false.
func (g *gen) regrowPastCapacity(v reflect.Value, n int, depth int) (int, int, bool) {
	if n < 2 || depth > 3 || !g.r.Chance(1, 6) {
		return 0, 0, false
	}
	c := backingCap(v)
	if c < n {
		c = n
	}
	limit := 24
	if g.st.Cfg.NoBigLens {
		limit = 12
	}
	if c+1 > limit {
		return 0, 0, false
	}
	return g.r.Intn(n), c + 1 + g.r.Intn(2), true
}

type deepSite struct {
	nav  []NavStep
	call *Call
}

// deepSites collects setter calls for primitive values that lie inside at least two nested
// containers (array element / multimap value) below the record.
func (g *gen) deepSites(v reflect.Value, t *Type, nav []NavStep, depth, containers int, out *[]deepSite) {
	if depth > 8 || isNilPtr(v) || len(*out) > 64 {
		return
	}
	switch t.Kind {
	case KStruct:
		if t.Def == nil || (t.Def.Dict != "" && depth > 0) {
			return // dictionary structs are replaced as a whole, not changed in place
		}
		v = addr(v)
		for _, f := range t.Def.Fields {
			n := Cap(f.Name)
			if f.Optional && !call(v, "Has"+n)[0].Bool() {
				continue
			}
			if f.Type.Kind.Primitive() {
				if containers >= 2 && !f.Optional && f.Type.Enum == "" {
					cur := call(v, n)[0]
					c := &Call{M: "Set" + n, Args: []any{g.genPrim(f.Type, cur)}}
					if f.Type.Kind == KFloat64 {
						c.Tag, c.Get = 'F', n
					}
					*out = append(*out, deepSite{append([]NavStep(nil), nav...), c})
				}
				continue
			}
			g.deepSites(call(v, n)[0], f.Type, with(nav, n, -1), depth+1, containers, out)
		}
	case KOneof:
		v = addr(v)
		cur := int(call(v, "Type")[0].Uint())
		if cur < 1 || cur > len(t.Def.Fields) {
			return
		}
		a := t.Def.Fields[cur-1]
		an := Cap(a.Name)
		if a.Type.Kind.Primitive() {
			if containers >= 2 {
				val := g.genPrim(a.Type, call(v, an)[0])
				*out = append(*out, deepSite{append([]NavStep(nil), nav...),
					&Call{M: "Set" + an, Args: []any{val}, Tag: 'T', Alt: cur, Ty: t, Get: an}})
			}
			return
		}
		g.deepSites(call(v, an)[0], a.Type, with(nav, an, -1), depth+1, containers, out)
	case KArray:
		v = addr(v)
		n := int(call(v, "Len")[0].Int())
		if t.Elem == nil || t.Elem.Kind.Primitive() || n == 0 {
			return
		}
		if call(v, "At", iv(0))[0].Kind() == reflect.Struct {
			return // elements handed out by value
		}
		for _, i := range pickIdx(g, n) {
			g.deepSites(call(v, "At", iv(i))[0], t.Elem, with(nav, "At", i), depth+1, containers+1, out)
		}
	case KMultimap:
		v = addr(v)
		n := int(call(v, "Len")[0].Int())
		if n == 0 || t.Def == nil {
			return
		}
		vt := t.Def.Val
		for _, i := range pickIdx(g, n) {
			if vt.Kind.Primitive() {
				if containers >= 1 {
					c := &Call{M: "SetValue", Args: []any{i, g.genPrim(vt, call(v, "Value", iv(i))[0])}, Idx: true}
					if vt.Kind == KFloat64 {
						c.Tag, c.Get, c.GetI1 = 'F', "Value", i+1
					}
					*out = append(*out, deepSite{append([]NavStep(nil), nav...), c})
				}
				continue
			}
			g.deepSites(call(v, "Value", iv(i))[0], vt, with(nav, "Value", i), depth+1, containers+1, out)
		}
	}
}

func pickIdx(g *gen, n int) []int {
	if n <= 3 {
		out := make([]int, n)
		for i := range out {
			out[i] = i
		}
		return out
	}
	return []int{g.r.Intn(n), n - 1, 1}
}

// regrown remembers a container on which the regrow motif ran and the index range [lo,hi) of the
// elements that were hidden and exposed again.
type regrown struct {
	nav    []NavStep
	lo, hi int
}

func (g *gen) noteRegrown(nav []NavStep, lo, hi int) {
	if hi > lo && len(g.st.regrownAt) < 16 {
		g.st.regrownAt = append(g.st.regrownAt, regrown{append([]NavStep(nil), nav...), lo, hi})
	}
}

// underRegrown: the site lies inside an element that a regrow motif exposed again.
func (g *gen) underRegrown(nav []NavStep) bool {
	for _, rg := range g.st.regrownAt {
		if len(nav) <= len(rg.nav) {
			continue
		}
		ok := true
		for i := range rg.nav {
			if nav[i] != rg.nav[i] {
				ok = false
				break
			}
		}
		if st := nav[len(rg.nav)]; ok && st.I >= rg.lo && st.I < rg.hi {
			return true
		}
	}
	return false
}

// quietDeepTouch performs the motif; false when the record has no deep primitive value.
func (g *gen) quietDeepTouch(rec reflect.Value, ty *Type) bool {
	var sites []deepSite
	g.deepSites(rec, ty, nil, 0, 0, &sites)
	if len(sites) == 0 {
		return false
	}
	var pref []deepSite
	for _, s := range sites {
		if g.underRegrown(s.nav) {
			pref = append(pref, s)
		}
	}
	if len(pref) > 0 && g.r.Chance(3, 4) {
		sites = pref
		g.stat("quiet-deep-touch-under-regrown")
	}
	s := sites[g.r.Intn(len(sites))]
	if g.do(s.nav, s.call) {
		g.stat("quiet-deep-touch")
		return true
	}
	return false
}

// ---- float twins -----------------------------------------------------------------------------
//
// Two frozen values of a dictionary-struct type that differ ONLY in the bit pattern of one float
// (+0 / -0, two NaN payloads). The first is assigned now, the second when the field is visited
// again: the struct dictionary of the encoder looks values up with Cmp<Struct>, which must tell
// them apart (found through a seeded change that made Float64Compare the numeric comparison).

// floatPlant returns the calls that plant the float bits x at one fixed site of a value of type
// t, or nil when the type has no such site (a float array field, or a multimap field whose value
// is a oneof with a float64 alternative).
func floatPlant(t *Type, x float64) []*Call {
	if t == nil || t.Def == nil {
		return nil
	}
	for _, f := range t.Def.Fields {
		n := Cap(f.Name)
		if f.Optional {
			continue
		}
		if f.Type.Kind == KArray && f.Type.Elem != nil && f.Type.Elem.Kind == KFloat64 && f.Type.Elem.Enum == "" {
			return []*Call{{Nav: []NavStep{{n, -1}}, M: "CopyFromSlice", Args: []any{[]float64{x, 1.5}}, Tag: 'L', Ty: f.Type}}
		}
	}
	for _, f := range t.Def.Fields {
		n := Cap(f.Name)
		if f.Optional || f.Type.Kind != KMultimap || f.Type.Def == nil {
			continue
		}
		kt, vt := f.Type.Def.Key, f.Type.Def.Val
		if kt.Kind != KString || vt.Kind != KOneof || vt.Def == nil {
			continue
		}
		for i, a := range vt.Def.Fields {
			if a.Type.Kind == KFloat64 {
				an := Cap(a.Name)
				mm := []NavStep{{n, -1}}
				return []*Call{
					{Nav: mm, M: "EnsureLen", Args: []any{1}, Tag: 'L', Ty: f.Type},
					{Nav: mm, M: "SetKey", Args: []any{0, "twin"}, Idx: true},
					{Nav: append(append([]NavStep(nil), mm...), NavStep{"Value", 0}), M: "Set" + an, Args: []any{x}, Tag: 'T', Alt: i + 1, Ty: vt, Get: an},
				}
			}
		}
	}
	return nil
}

// floatTwins builds the two specs; ok=false when the type has no float site.
func (g *gen) floatTwins(t *Type, pt reflect.Type, depth int, stack map[*Def]int) (a, b *ObjSpec, ok bool) {
	pairs := [][2]uint64{
		{0, 1 << 63}, {1 << 63, 0},
		{0x7ff8000000000001, 0x7ff8000000000002}, {0x7ff8000000000000, 0xfff8000000000000},
	}
	p := pairs[g.r.Intn(len(pairs))]
	pa, pb := floatPlant(t, fromBits(p[0])), floatPlant(t, fromBits(p[1]))
	if pa == nil {
		return nil, nil, false
	}
	base := g.newObject(t, pt, false, depth, stack)
	mk := func(plant []*Call) *ObjSpec {
		g.st.nextID++
		return &ObjSpec{ID: g.st.nextID, Def: t.Def, Frozen: true, Calls: append(append([]*Call(nil), base.Calls...), plant...)}
	}
	return mk(pa), mk(pb), true
}
