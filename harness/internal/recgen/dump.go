package recgen

import (
	"encoding/hex"
	"fmt"
	"math"
	"reflect"
	"strconv"
	"strings"
)

// addr makes the pointer-receiver methods of a by-value struct reachable (some generated
// getters, e.g. At(i) of an array of multimaps, return the element by value): it returns a
// pointer to a copy. Such elements can be read but not mutated in place.
func addr(v reflect.Value) reflect.Value {
	if v.IsValid() && v.Kind() == reflect.Struct {
		p := reflect.New(v.Type())
		p.Elem().Set(v)
		return p
	}
	return v
}

// call invokes a method by name; panics (reflect) if it does not exist.
func call(v reflect.Value, name string, args ...reflect.Value) []reflect.Value {
	v = addr(v)
	m := v.MethodByName(name)
	if !m.IsValid() {
		panic(fmt.Sprintf("recgen: type %s has no method %s", v.Type(), name))
	}
	return m.Call(args)
}

func has(v reflect.Value, name string) bool { return addr(v).MethodByName(name).IsValid() }

func iv(i int) reflect.Value { return reflect.ValueOf(i) }

func isNilPtr(v reflect.Value) bool {
	return (v.Kind() == reflect.Ptr || v.Kind() == reflect.Interface) && v.IsNil()
}

// Dump is the canonical dump of a value obtained through public getters only.
// v is what the getter returned: a pointer for struct/oneof/array/multimap, the plain value
// for primitives.
func Dump(v reflect.Value, t *Type) string {
	var sb strings.Builder
	dump(&sb, v, t)
	return sb.String()
}

func dumpPrim(sb *strings.Builder, v reflect.Value, t *Type) {
	switch t.Kind {
	case KBool:
		if v.Bool() {
			sb.WriteByte('T')
		} else {
			sb.WriteByte('F')
		}
	case KInt64:
		sb.WriteByte('x')
		sb.WriteString(strconv.FormatUint(uint64(v.Int()), 16))
	case KUint64:
		sb.WriteByte('x')
		sb.WriteString(strconv.FormatUint(v.Uint(), 16))
	case KFloat64:
		sb.WriteByte('f')
		sb.WriteString(strconv.FormatUint(math.Float64bits(v.Float()), 16))
	case KString, KBytes:
		sb.WriteByte('s')
		sb.WriteString(hex.EncodeToString([]byte(v.String())))
	}
}

// KeepFields, when not nil, restricts Dump to what an OLDER schema can carry: of the struct or
// oneof named N only the first KeepFields[N] fields / alternatives exist (a later alternative of a
// oneof is written as "none"). Used for streams written with WriterOptions.Schema.
var KeepFields map[string]int

func kept(d *Def) int {
	if KeepFields != nil {
		if k, ok := KeepFields[d.Name]; ok && k < len(d.Fields) {
			return k
		}
	}
	return len(d.Fields)
}

func dump(sb *strings.Builder, v reflect.Value, t *Type) {
	switch t.Kind {
	case KStruct:
		if isNilPtr(v) {
			sb.WriteString("nil")
			return
		}
		sb.WriteByte('{')
		for i, f := range t.Def.Fields[:kept(t.Def)] {
			if i > 0 {
				sb.WriteByte(',')
			}
			n := Cap(f.Name)
			if f.Optional && !call(v, "Has"+n)[0].Bool() {
				sb.WriteByte('_')
				continue
			}
			dump(sb, call(v, n)[0], f.Type)
		}
		sb.WriteByte('}')
	case KOneof:
		k := int(call(v, "Type")[0].Uint())
		if k == 0 || k > len(t.Def.Fields) || k > kept(t.Def) {
			if k == 0 || k <= len(t.Def.Fields) {
				sb.WriteString("<0>")
			} else {
				fmt.Fprintf(sb, "<%d:?>", k)
			}
			return
		}
		f := t.Def.Fields[k-1]
		fmt.Fprintf(sb, "<%d:", k)
		dump(sb, call(v, Cap(f.Name))[0], f.Type)
		sb.WriteByte('>')
	case KArray:
		n := int(call(v, "Len")[0].Int())
		sb.WriteByte('[')
		for i := 0; i < n; i++ {
			if i > 0 {
				sb.WriteByte(',')
			}
			dump(sb, call(v, "At", iv(i))[0], t.Elem)
		}
		sb.WriteByte(']')
	case KMultimap:
		n := int(call(v, "Len")[0].Int())
		sb.WriteByte('(')
		for i := 0; i < n; i++ {
			if i > 0 {
				sb.WriteByte(',')
			}
			dump(sb, call(v, "Key", iv(i))[0], t.Def.Key)
			sb.WriteByte('=')
			dump(sb, call(v, "Value", iv(i))[0], t.Def.Val)
		}
		sb.WriteByte(')')
	default:
		dumpPrim(sb, v, t)
	}
}

// DumpFields dumps each top-level field of a struct separately (absent optional = "_").
func DumpFields(v reflect.Value, t *Type) []string {
	out := make([]string, len(t.Def.Fields))
	for i, f := range t.Def.Fields {
		n := Cap(f.Name)
		if f.Optional && !call(v, "Has"+n)[0].Bool() {
			out[i] = "_"
			continue
		}
		out[i] = Dump(call(v, n)[0], f.Type)
	}
	return out
}

// ModifiedMask returns bit i = Is<Field i>Modified() of the struct.
func ModifiedMask(v reflect.Value, t *Type) uint64 {
	var m uint64
	for i, f := range t.Def.Fields {
		if call(v, "Is"+Cap(f.Name)+"Modified")[0].Bool() {
			m |= 1 << uint(i)
		}
	}
	return m
}

// ---------------------------------------------------------------------------------------
// Parsing dumps back into trees (for diffs, per-field splits and dictionary statistics).

type Node struct {
	Txt  string // leaf text ("x5", "_", "nil", "<0>")
	Kids []*Node
	Lbl  []string // label of each kid (field name, index, "key"/"val")
	T    *Type
}

type dparser struct {
	s   string
	pos int
	err error
}

func (p *dparser) fail(msg string) *Node {
	if p.err == nil {
		p.err = fmt.Errorf("dump parse error at %d: %s", p.pos, msg)
	}
	return &Node{Txt: "?"}
}

func (p *dparser) peek() byte {
	if p.pos < len(p.s) {
		return p.s[p.pos]
	}
	return 0
}

func (p *dparser) leaf() string {
	st := p.pos
	for p.pos < len(p.s) {
		c := p.s[p.pos]
		if c == ',' || c == '}' || c == ']' || c == ')' || c == '>' || c == '=' {
			break
		}
		p.pos++
	}
	return p.s[st:p.pos]
}

func (p *dparser) val(t *Type) *Node {
	if p.err != nil {
		return &Node{Txt: "?"}
	}
	n := &Node{T: t}
	switch t.Kind {
	case KStruct:
		if strings.HasPrefix(p.s[p.pos:], "nil") {
			p.pos += 3
			n.Txt = "nil"
			return n
		}
		if p.peek() != '{' {
			return p.fail("expected {")
		}
		p.pos++
		for i, f := range t.Def.Fields {
			if i > 0 {
				if p.peek() != ',' {
					return p.fail("expected ,")
				}
				p.pos++
			}
			var k *Node
			if f.Optional && p.peek() == '_' {
				p.pos++
				k = &Node{Txt: "_", T: f.Type}
			} else {
				k = p.val(f.Type)
			}
			n.Kids = append(n.Kids, k)
			n.Lbl = append(n.Lbl, f.Name)
		}
		if p.peek() != '}' {
			return p.fail("expected }")
		}
		p.pos++
	case KOneof:
		if p.peek() != '<' {
			return p.fail("expected <")
		}
		p.pos++
		st := p.pos
		for p.peek() >= '0' && p.peek() <= '9' {
			p.pos++
		}
		k, _ := strconv.Atoi(p.s[st:p.pos])
		if k == 0 {
			n.Txt = "<0>"
		} else {
			if p.peek() != ':' || k > len(t.Def.Fields) {
				return p.fail("bad oneof")
			}
			p.pos++
			n.Txt = fmt.Sprintf("<%d>", k)
			n.Kids = []*Node{p.val(t.Def.Fields[k-1].Type)}
			n.Lbl = []string{t.Def.Fields[k-1].Name}
		}
		if p.peek() != '>' {
			return p.fail("expected >")
		}
		p.pos++
	case KArray:
		if p.peek() != '[' {
			return p.fail("expected [")
		}
		p.pos++
		for i := 0; p.peek() != ']' && p.err == nil; i++ {
			if i > 0 {
				if p.peek() != ',' {
					return p.fail("expected , in array")
				}
				p.pos++
			}
			n.Kids = append(n.Kids, p.val(t.Elem))
			n.Lbl = append(n.Lbl, strconv.Itoa(i))
		}
		p.pos++
	case KMultimap:
		if p.peek() != '(' {
			return p.fail("expected (")
		}
		p.pos++
		for i := 0; p.peek() != ')' && p.err == nil; i++ {
			if i > 0 {
				if p.peek() != ',' {
					return p.fail("expected , in multimap")
				}
				p.pos++
			}
			n.Kids = append(n.Kids, p.val(t.Def.Key))
			n.Lbl = append(n.Lbl, strconv.Itoa(i)+".key")
			if p.peek() != '=' {
				return p.fail("expected =")
			}
			p.pos++
			n.Kids = append(n.Kids, p.val(t.Def.Val))
			n.Lbl = append(n.Lbl, strconv.Itoa(i)+".val")
		}
		p.pos++
	default:
		n.Txt = p.leaf()
	}
	return n
}

// ParseDump parses a dump string according to its type.
func ParseDump(s string, t *Type) (*Node, error) {
	p := &dparser{s: s}
	n := p.val(t)
	if p.err == nil && p.pos != len(s) {
		p.fail("trailing text")
	}
	return n, p.err
}

func firstDiff(a, b *Node, path string) string {
	if a.Txt != b.Txt || len(a.Kids) != len(b.Kids) {
		if len(a.Kids) != len(b.Kids) && a.Txt == b.Txt {
			return fmt.Sprintf("%s: length %d vs %d", path, len(a.Kids), len(b.Kids))
		}
		return fmt.Sprintf("%s: %s vs %s", path, short(a), short(b))
	}
	for i := range a.Kids {
		if d := firstDiff(a.Kids[i], b.Kids[i], path+"/"+a.Lbl[i]); d != "" {
			return d
		}
	}
	return ""
}

func short(n *Node) string {
	if len(n.Kids) == 0 {
		if len(n.Txt) > 40 {
			return n.Txt[:40] + "..."
		}
		return n.Txt
	}
	return fmt.Sprintf("%s(%d kids)", n.Txt, len(n.Kids))
}

// DiffDumps returns the first differing path between two dumps of the same type ("" if equal).
func DiffDumps(a, b string, t *Type) string {
	if a == b {
		return ""
	}
	na, ea := ParseDump(a, t)
	nb, eb := ParseDump(b, t)
	if ea != nil || eb != nil {
		return fmt.Sprintf("unparsable dump (%v / %v)", ea, eb)
	}
	return firstDiff(na, nb, "")
}

// SplitFields returns the dumps of the top-level fields of a struct dump.
func SplitFields(s string, t *Type) []string {
	out := make([]string, 0, len(t.Def.Fields))
	p := &dparser{s: s}
	if p.peek() != '{' {
		return nil
	}
	p.pos++
	for i, f := range t.Def.Fields {
		if i > 0 {
			p.pos++
		}
		st := p.pos
		if f.Optional && p.peek() == '_' {
			p.pos++
		} else {
			p.val(f.Type)
		}
		if p.err != nil {
			return nil
		}
		out = append(out, s[st:p.pos])
	}
	return out
}

// DictLeaf is a dictionary-encoded string/bytes leaf (or a dict-struct node) of a record.
type DictLeaf struct {
	Path string
	Dict string
	Val  string // leaf text (for dict structs: the whole sub-dump)
}

// DictLeaves lists all dictionary-encoded leaves of a parsed dump, in encoding order.
func DictLeaves(n *Node, path string, out *[]DictLeaf) {
	if n.T == nil {
		return
	}
	switch n.T.Kind {
	case KString, KBytes:
		if n.T.Dict != "" && n.Txt != "_" {
			*out = append(*out, DictLeaf{path, n.T.Dict, n.Txt})
		}
		return
	}
	for i, k := range n.Kids {
		DictLeaves(k, path+"/"+n.Lbl[i], out)
	}
}

// ---------------------------------------------------------------------------------------

// FloatBitConflict reports whether copying/assigning src over dst (same type) meets a float
// position where the values compare equal (==) but have different bit patterns (+0 vs -0).
// The generated setters, computeDiff and copy functions compare floats with != and would
// silently keep the old bits there (known defect "negzero-setter").
func FloatBitConflict(dst, src reflect.Value, t *Type) bool {
	switch t.Kind {
	case KFloat64:
		a, b := dst.Float(), src.Float()
		return a == b && math.Float64bits(a) != math.Float64bits(b)
	case KStruct:
		if isNilPtr(dst) || isNilPtr(src) {
			return false
		}
		for _, f := range t.Def.Fields {
			n := Cap(f.Name)
			// Optional absent fields still hold a stale value that the setter compares
			// against, but then presence differs and the setter stores the value anyway.
			if f.Optional && (!call(dst, "Has"+n)[0].Bool() || !call(src, "Has"+n)[0].Bool()) {
				continue
			}
			if FloatBitConflict(call(dst, n)[0], call(src, n)[0], f.Type) {
				return true
			}
		}
	case KOneof:
		kd := int(call(dst, "Type")[0].Uint())
		ks := int(call(src, "Type")[0].Uint())
		if kd != ks || kd == 0 || kd > len(t.Def.Fields) {
			return false
		}
		f := t.Def.Fields[kd-1]
		return FloatBitConflict(call(dst, Cap(f.Name))[0], call(src, Cap(f.Name))[0], f.Type)
	case KArray:
		nd := int(call(dst, "Len")[0].Int())
		ns := int(call(src, "Len")[0].Int())
		if t.Elem.Kind == KFloat64 {
			// CopyFromSlice/copy of primitive arrays: conflict only if nothing else forces
			// the "modified" mark, be conservative: any equal-but-different-bits position.
			for i := 0; i < nd && i < ns; i++ {
				if FloatBitConflict(call(dst, "At", iv(i))[0], call(src, "At", iv(i))[0], t.Elem) {
					return true
				}
			}
			return false
		}
		if t.Elem.Kind.Primitive() {
			return false
		}
		for i := 0; i < nd && i < ns; i++ {
			if FloatBitConflict(call(dst, "At", iv(i))[0], call(src, "At", iv(i))[0], t.Elem) {
				return true
			}
		}
	case KMultimap:
		nd := int(call(dst, "Len")[0].Int())
		ns := int(call(src, "Len")[0].Int())
		for i := 0; i < nd && i < ns; i++ {
			if FloatBitConflict(call(dst, "Value", iv(i))[0], call(src, "Value", iv(i))[0], t.Def.Val) {
				return true
			}
		}
	}
	return false
}

// CollectStrings appends every string/bytes value reachable through the getters WITHOUT copying
// the string data (reflect.Value.String() of a string-kind value shares the memory).
func CollectStrings(v reflect.Value, t *Type, out *[]string) {
	switch t.Kind {
	case KString, KBytes:
		*out = append(*out, v.String())
	case KStruct:
		if isNilPtr(v) {
			return
		}
		for _, f := range t.Def.Fields {
			n := Cap(f.Name)
			if f.Optional && !call(v, "Has"+n)[0].Bool() {
				continue
			}
			if f.Type.Kind == KBool || f.Type.Kind == KInt64 || f.Type.Kind == KUint64 || f.Type.Kind == KFloat64 {
				continue
			}
			CollectStrings(call(v, n)[0], f.Type, out)
		}
	case KOneof:
		k := int(call(v, "Type")[0].Uint())
		if k >= 1 && k <= len(t.Def.Fields) {
			f := t.Def.Fields[k-1]
			CollectStrings(call(v, Cap(f.Name))[0], f.Type, out)
		}
	case KArray:
		if t.Elem.Kind == KBool || t.Elem.Kind == KInt64 || t.Elem.Kind == KUint64 || t.Elem.Kind == KFloat64 {
			return
		}
		n := int(call(v, "Len")[0].Int())
		for i := 0; i < n; i++ {
			CollectStrings(call(v, "At", iv(i))[0], t.Elem, out)
		}
	case KMultimap:
		n := int(call(v, "Len")[0].Int())
		for i := 0; i < n; i++ {
			CollectStrings(call(v, "Key", iv(i))[0], t.Def.Key, out)
			CollectStrings(call(v, "Value", iv(i))[0], t.Def.Val, out)
		}
	}
}

// DictStruct is a dictionary-encoded struct value found in a dump.
type DictStruct struct {
	Path   string
	Dict   string
	Fields int    // number of fields of the struct definition
	Repr   string // canonical text of the value (identity in the dictionary)
}

func nodeRepr(n *Node, sb *strings.Builder) {
	sb.WriteString(n.Txt)
	if len(n.Kids) > 0 {
		sb.WriteByte('(')
		for i, k := range n.Kids {
			if i > 0 {
				sb.WriteByte(',')
			}
			nodeRepr(k, sb)
		}
		sb.WriteByte(')')
	}
}

// DictStructs lists the dictionary-encoded struct values of a parsed dump (outermost first).
func DictStructs(n *Node, path string, out *[]DictStruct) {
	if n.T == nil {
		return
	}
	if n.T.Kind == KStruct && n.T.Def != nil && n.T.Def.Dict != "" && n.Txt != "nil" && n.Txt != "_" {
		var sb strings.Builder
		nodeRepr(n, &sb)
		*out = append(*out, DictStruct{path, n.T.Def.Dict, len(n.T.Def.Fields), sb.String()})
	}
	for i, k := range n.Kids {
		DictStructs(k, path+"/"+n.Lbl[i], out)
	}
}
