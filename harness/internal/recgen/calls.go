package recgen

import (
	"encoding/hex"
	"fmt"
	"math"
	"reflect"
	"strconv"
	"strings"
)

// NavStep is one navigation step from a record root: a getter, optionally with an index.
type NavStep struct {
	M string
	I int // -1: no index argument
}

// Call is one replayable public-API call on a record (or on an object under construction).
type Call struct {
	Nav  []NavStep
	M    string
	Args []any // bool,int,int64,uint64,float64,string,[]T, *ObjSpec, *SrcRef

	// Guard information (see State.Exec).
	Tag   byte   // 0 plain; 'F' float set; 'L' length change; 'T' oneof type/alt set; 'S' dict-struct set; 'C' CopyFrom
	Alt   int    // 'T': target alternative (0 = none)
	Ty    *Type  // 'L': array/multimap type, 'T': oneof type, 'S','C': type of the assigned node
	Get   string // 'F','S','T': getter of the old value
	GetI1 int    // index argument of Get plus one (0: none)
	Idx   bool   // Args[0] is an element index (SetKey, SetValue): checked against Len()
}

// ObjSpec describes an object that is built through its own public API and then passed as an
// argument (SetResource(v), Append(v)). The same spec yields the same pointer within one Env.
type ObjSpec struct {
	ID     int
	Def    *Def
	Calls  []*Call
	Frozen bool
}

// SrcRef is a CopyFrom / SetX source taken from another record.
type SrcRef struct {
	Kind string // "alt": the independently mutated shadow record; "reader": a reader's record;
	// "near": a Clone() of the destination itself with the Extra calls applied (a source that
	// differs from the destination in exactly what Extra changes)
	Extra  []*Call
	N      int    // alt: number of alt calls applied
	Stream []byte // reader: the stream
	NRead  int    // reader: records read before use
	Nav    []NavStep
}

// Env holds the objects of one execution (live generation or one replay).
type Env struct {
	RootType   reflect.Type // struct type of the record (not pointer)
	objs       map[*ObjSpec]reflect.Value
	altByN     map[int]reflect.Value
	altLive    reflect.Value
	altLiveN   int
	readers    map[string]reflect.Value
	AltCalls   *[]*Call
	OpenReader func(stream []byte, nread int) reflect.Value // returns pointer to the reader's record (invalid Value if impossible)
}

func NewEnv(rootType reflect.Type, altCalls *[]*Call, open func([]byte, int) reflect.Value) *Env {
	return &Env{RootType: rootType, objs: map[*ObjSpec]reflect.Value{}, altByN: map[int]reflect.Value{},
		readers: map[string]reflect.Value{}, AltCalls: altCalls, OpenReader: open, altLiveN: -1}
}

func newInited(t reflect.Type) reflect.Value {
	v := reflect.New(t)
	if m := v.MethodByName("Init"); m.IsValid() {
		m.Call(nil)
	}
	return v
}

func navigate(root reflect.Value, nav []NavStep) (v reflect.Value, ok bool) {
	defer func() {
		if e := recover(); e != nil {
			ok = false
		}
	}()
	v = root
	for _, s := range nav {
		if isNilPtr(v) {
			return v, false
		}
		v = addr(v)
		m := v.MethodByName(s.M)
		if !m.IsValid() {
			return v, false
		}
		if s.I >= 0 {
			v = m.Call([]reflect.Value{iv(s.I)})[0]
		} else {
			v = m.Call(nil)[0]
		}
	}
	if len(nav) > 0 && v.Kind() == reflect.Struct {
		return v, false // a by-value element: a copy, cannot be the target of a mutation
	}
	return v, !isNilPtr(v)
}

func (e *Env) build(spec *ObjSpec, pt reflect.Type) reflect.Value {
	if v, ok := e.objs[spec]; ok {
		return v
	}
	v := newInited(pt.Elem())
	scratch := &State{Cfg: &Cfg{}, Env: e, unguarded: true}
	for _, c := range spec.Calls {
		scratch.Exec(v, c)
	}
	if spec.Frozen {
		call(v, "Freeze")
	}
	e.objs[spec] = v
	return v
}

func (e *Env) altRoot(n int) reflect.Value {
	if e.altLive.IsValid() && e.altLiveN == n {
		return e.altLive
	}
	if v, ok := e.altByN[n]; ok {
		return v
	}
	v := newInited(e.RootType)
	scratch := &State{Cfg: &Cfg{}, Env: e, unguarded: true}
	if e.AltCalls != nil {
		for _, c := range (*e.AltCalls)[:n] {
			scratch.Exec(v, c)
		}
	}
	e.altByN[n] = v
	return v
}

func (e *Env) resolve(ref *SrcRef) (reflect.Value, bool) {
	var root reflect.Value
	switch ref.Kind {
	case "alt":
		root = e.altRoot(ref.N)
	case "reader":
		key := fmt.Sprintf("%p/%d/%d", ref.Stream, len(ref.Stream), ref.NRead)
		var ok bool
		if root, ok = e.readers[key]; !ok {
			if e.OpenReader != nil {
				root = e.OpenReader(ref.Stream, ref.NRead)
			}
			e.readers[key] = root
		}
	}
	if !root.IsValid() {
		return root, false
	}
	return navigate(root, ref.Nav)
}

func (e *Env) toArg(a any, pt reflect.Type) (reflect.Value, bool) {
	switch x := a.(type) {
	case *ObjSpec:
		return e.build(x, pt), true
	case *SrcRef:
		v, ok := e.resolve(x)
		if !ok || !v.Type().AssignableTo(pt) {
			return v, false
		}
		return v, true
	}
	rv := reflect.ValueOf(a)
	if rv.Kind() == reflect.Slice && pt.Kind() == reflect.Slice {
		if rv.Type() == pt {
			return rv, true
		}
		out := reflect.MakeSlice(pt, rv.Len(), rv.Len())
		for i := 0; i < rv.Len(); i++ {
			out.Index(i).Set(rv.Index(i).Convert(pt.Elem()))
		}
		return out, true
	}
	if !rv.Type().ConvertibleTo(pt) {
		return rv, false
	}
	return rv.Convert(pt), true
}

// ---------------------------------------------------------------------------------------

// Cfg selects which known genuine defects of the generated code the mutator may trigger.
// Default (all false): every one of them is avoided.
type Cfg struct {
	NegZeroHeavy      bool // flip the sign of zeros most of the time (focused runs)
	AllowNegZero      bool // (a) float set where old==new numerically but the bits differ (+0/-0)
	AllowRevealArray  bool // (b) more than one length change per array/multimap node between Writes
	AllowRevealOneof  bool // (c) more than one type change per oneof node between Writes
	AllowRevealShared bool // (d) more than one dict-struct assignment per field between Writes
	AllowAppendStruct bool // Append(*Struct) to arrays of structs (element has no parent link)
	// (e) SetX(unfrozen v) while the record currently holds a frozen (shared) X: the setter
	// clones the shared value without initialising the clone's parent links.
	AllowCloneUnlinked                                    bool
	ForceRevealArray, ForceRevealOneof, ForceRevealShared bool // focused runs: bias towards the formerly avoided sequences
	ForceCloneUnlinked                                    bool // focused runs only: always put an unfrozen value over a shared one
	// (f) CopyFrom(src) where dst holds a frozen X and src an unfrozen one: dst gets a fresh
	// zero X and the copy marks only differences from zero.
	AllowCopyOverShared bool
	NoFrozen            bool // never assign frozen values / reader-owned dict structs
	// (g) a frozen value whose construction-time marks are gone (it was encoded or decoded
	// before) is encoded in full again: multimaps nested in oneofs/arrays are then marked only
	// by setModifiedRecursively, which does not mark keys/length. Happens when a pooled frozen
	// value is re-assigned after a dictionary reset, or with a reader-owned value.
	AllowFrozenReencode bool
	DictResets          bool // the writer options reset dictionaries (limit or flag)
	NoBigLens           bool // never grow arrays/multimaps beyond ~8 elements (small streams)
	MaxCalls            int  // budget of API calls per Mutate step (default 40)
	DictHeavy           bool // prefer dictionary-encoded fields and many distinct pooled strings

	// GenSafe avoids two defects of the code generated by the CURRENT stefc templates that are
	// still open (found by the h_gen vertical, known findings of C10, triggered by scripted cases):
	//   - CopyFrom over a node whose type contains, anywhere, a dictionary struct (a dict-struct
	//     field of a reset() container holds the frozen shared empty value; SetX(unfrozen) clones
	//     it without parent links: setter-clone-unlinked) or an optional field of composite type
	//     (copy into an absent optional compares with the stale hidden value:
	//     copyfrom-into-absent-optional);
	//   - Set<F>(unfrozen v) of a dictionary-struct field with nested containers anywhere but on
	//     a plain struct path from the root (mutate.go mutDictField: setter-clone-unlinked).
	// The third avoidance (nothing mutated inside keys/values of a multimap that has grown:
	// multimap-realloc-stale-parent) is lifted: repaired in the repository by 3ddaede.
	GenSafe bool

	// Reader source for CopyFrom / SetX(readerRecord.X()).
	ReaderStream []byte
	ReaderNRead  int
}

const (
	ExecOK = iota
	ExecSkipped
	ExecNavFailed
	ExecPanic
)

// State is the mutator / replayer state of one history.
type State struct {
	Cfg *Cfg
	Env *Env

	unguarded bool
	touched   map[string]bool
	quiet     bool // the rest of this period stays without further calls (motif.go quietDeepTouch)
	regrownAt []regrown
	twins     map[string]*ObjSpec // motif.go float twins: the value to assign at the next visit
	locked    []string
	// frozenAt[path of dict-struct field] = the record may currently hold a frozen (shared)
	// pointer there. Persistent across Writes.
	frozenAt   map[string]bool
	usedFrozen map[*ObjSpec]bool
	// SetterDrops lists float Set calls after which the getter did not return the bits that
	// were set (known defect negzero-setter); only possible with AllowNegZero.
	SetterDrops []string

	// generation only
	Pool      map[string][]*ObjSpec
	AltCalls  []*Call
	nextID    int
	strPool   []string
	Stats     map[string]int
	Log       []*Call // calls executed on the main record since the last TakeLog
	LastPanic string
}

// NextWrite must be called after every Write of the record: it opens a new period for the
// "one structural change per node between consecutive Writes" rule.
func (st *State) NextWrite() {
	st.touched = nil
	st.locked = nil
	st.quiet = false
}

func (st *State) TakeLog() []*Call {
	l := st.Log
	st.Log = nil
	return l
}

func navKey(nav []NavStep) string {
	var sb strings.Builder
	for _, s := range nav {
		sb.WriteByte('/')
		sb.WriteString(s.M)
		if s.I >= 0 {
			sb.WriteByte('#')
			sb.WriteString(strconv.Itoa(s.I))
		}
	}
	return sb.String()
}

func (st *State) structuralAllowed(key string) bool {
	if st.touched[key] {
		return false
	}
	for _, p := range st.locked {
		if key == p || strings.HasPrefix(key, p+"/") {
			return false
		}
	}
	return true
}

func (st *State) touch(key string) {
	if st.touched == nil {
		st.touched = map[string]bool{}
	}
	st.touched[key] = true
}

func (st *State) anyTouchedUnder(key string) bool {
	for k := range st.touched {
		if k == key || strings.HasPrefix(k, key+"/") {
			return true
		}
	}
	return false
}

func getOld(node reflect.Value, c *Call) (reflect.Value, bool) {
	m := node.MethodByName(c.Get)
	if !m.IsValid() {
		return reflect.Value{}, false
	}
	if c.GetI1 > 0 {
		return m.Call([]reflect.Value{iv(c.GetI1 - 1)})[0], true
	}
	return m.Call(nil)[0], true
}

func floatSame(a, b float64) bool { return a == b && math.Float64bits(a) != math.Float64bits(b) }

// guard decides whether the call may be executed under the avoidance rules and records the
// structural change it makes. args are the resolved arguments.
func (st *State) guard(node reflect.Value, c *Call, args []reflect.Value) bool {
	cfg := st.Cfg
	key := navKey(c.Nav)
	// (calls below an element of a multimap that has grown were avoided here until the stale
	// parent links after a reallocation were repaired in /repo: multimap-realloc-stale-parent)
	switch c.Tag {
	case 'F':
		if cfg.AllowNegZero {
			return true
		}
		old, ok := getOld(node, c)
		if ok && old.Kind() == reflect.Float64 {
			nv := args[len(args)-1].Float()
			if floatSame(old.Float(), nv) {
				return false
			}
		}
	case 'L':
		cur := int(call(node, "Len")[0].Int())
		newLen := cur + 1 // Append
		switch c.M {
		case "EnsureLen":
			newLen = int(args[0].Int())
		case "CopyFromSlice":
			newLen = args[0].Len()
			if !cfg.AllowNegZero && args[0].Type().Elem().Kind() == reflect.Float64 && newLen == cur {
				allEq, bitsDiffer := true, false
				for i := 0; i < cur; i++ {
					o := call(node, "At", iv(i))[0].Float()
					n := args[0].Index(i).Float()
					if !(o == n) {
						allEq = false
						break
					}
					if math.Float64bits(o) != math.Float64bits(n) {
						bitsDiffer = true
					}
				}
				if allEq && bitsDiffer {
					return false
				}
			}
		}
		if newLen != cur {
			if !cfg.AllowRevealArray && !st.structuralAllowed(key) {
				return false
			}
			st.touch(key)
		}
	case 'T':
		cur := int(call(node, "Type")[0].Uint())
		if cur != c.Alt {
			if !cfg.AllowRevealOneof && !st.structuralAllowed(key) {
				return false
			}
			st.touch(key)
		} else if !cfg.AllowNegZero && c.Get != "" && len(args) == 1 && args[0].Kind() == reflect.Float64 {
			if old, ok := getOld(node, c); ok && floatSame(old.Float(), args[0].Float()) {
				return false
			}
		}
	case 'P':
		// Set<N>()/Unset<N>() of an optional struct/oneof/array/multimap field: like a oneof
		// type change (the value is reset and revealed), at most one per period
		k := key + "/" + c.Get + "?"
		if !cfg.AllowRevealOneof && !st.structuralAllowed(k) {
			return false
		}
		st.touch(k)
	case 'S':
		k := key + "/" + c.Get
		if !cfg.AllowRevealShared && (!st.structuralAllowed(k) || st.anyTouchedUnder(k)) {
			return false
		}
		if !cfg.AllowNegZero {
			if old, ok := getOld(node, c); ok && FloatBitConflict(old, args[0], c.Ty) {
				return false
			}
		}
		// frozen / unfrozen bookkeeping
		after := false
		switch a := c.Args[0].(type) {
		case *ObjSpec:
			if a.Frozen {
				if st.usedFrozen[a] && cfg.DictResets && !cfg.AllowFrozenReencode {
					return false
				}
				if st.usedFrozen == nil {
					st.usedFrozen = map[*ObjSpec]bool{}
				}
				st.usedFrozen[a] = true
				after = true
			} else if st.frozenAt[k] && !cfg.AllowCloneUnlinked {
				return false
			}
		case *SrcRef:
			if st.frozenAt[k] && !cfg.AllowCloneUnlinked {
				return false
			}
			if a.Kind == "reader" && !cfg.AllowFrozenReencode {
				return false
			}
			after = a.Kind == "reader"
		}
		st.setFrozen(k, after)
		st.touch(k)
	case 'C':
		if cfg.GenSafe && TypeHas(c.Ty, func(t *Type, f *Field) bool {
			return (t.Kind == KStruct && t.Def.Dict != "") || (f != nil && f.Optional && !f.Type.Kind.Primitive())
		}) {
			return false
		}
		strict := !(cfg.AllowRevealArray && cfg.AllowRevealOneof && cfg.AllowRevealShared)
		if strict && (!st.structuralAllowed(key) || st.anyTouchedUnder(key)) {
			return false
		}
		if !cfg.AllowNegZero && FloatBitConflict(node, args[0], c.Ty) {
			return false
		}
		var dps []string
		dictFieldPaths(c.Ty, key, &dps, 0)
		fromReader := false
		if a, ok := c.Args[0].(*SrcRef); ok && a.Kind == "reader" {
			fromReader = true
		}
		if fromReader && len(dps) > 0 && !cfg.AllowFrozenReencode {
			return false
		}
		for _, p := range dps {
			if st.frozenAt[p] && !cfg.AllowCopyOverShared {
				return false
			}
		}
		for _, p := range dps {
			st.setFrozen(p, fromReader || st.frozenAt[p])
		}
		st.touch(key)
		st.locked = append(st.locked, key)
	}
	return true
}

// TypeHas reports whether pred holds for a type reachable from t (through fields, oneof
// alternatives, array elements, multimap keys and values); for struct fields pred also gets
// the field.
func TypeHas(t *Type, pred func(t *Type, f *Field) bool) bool {
	seen := map[*Def]bool{}
	var walk func(t *Type, f *Field) bool
	walk = func(t *Type, f *Field) bool {
		if t == nil {
			return false
		}
		if pred(t, f) {
			return true
		}
		switch t.Kind {
		case KArray:
			return walk(t.Elem, nil)
		case KStruct, KOneof:
			if seen[t.Def] {
				return false
			}
			seen[t.Def] = true
			for i := range t.Def.Fields {
				fp := &t.Def.Fields[i]
				if t.Kind == KOneof {
					fp = nil
				}
				if walk(t.Def.Fields[i].Type, fp) {
					return true
				}
			}
		case KMultimap:
			if seen[t.Def] {
				return false
			}
			seen[t.Def] = true
			return walk(t.Def.Key, nil) || walk(t.Def.Val, nil)
		}
		return false
	}
	return walk(t, nil)
}

func (st *State) setFrozen(k string, v bool) {
	if st.frozenAt == nil {
		st.frozenAt = map[string]bool{}
	}
	st.frozenAt[k] = v
}

// MaybeFrozen reports whether the dict-struct field at the path may hold a shared pointer.
func (st *State) MaybeFrozen(nav []NavStep, getter string) bool {
	return st.frozenAt[navKey(nav)+"/"+getter]
}

// dictFieldPaths lists the paths of dict-struct fields reachable from a node through struct
// fields only (dict structs inside arrays/oneofs/multimaps are not tracked).
func dictFieldPaths(t *Type, key string, out *[]string, depth int) {
	if t == nil || t.Kind != KStruct || depth > 6 {
		return
	}
	for _, f := range t.Def.Fields {
		if f.Type.Kind != KStruct {
			continue
		}
		k := key + "/" + Cap(f.Name)
		if f.Type.Def.Dict != "" {
			*out = append(*out, k)
		} else {
			dictFieldPaths(f.Type, k, out, depth+1)
		}
	}
}

// ContainsDict reports whether CopyFrom on a node of this type touches dict-struct fields.
func ContainsDict(t *Type) bool {
	var ps []string
	dictFieldPaths(t, "", &ps, 0)
	return len(ps) > 0
}

// Exec navigates from root and executes the call under the guard. Panics of the code under
// test are caught (ExecPanic, message in st.LastPanic).
func (st *State) Exec(root reflect.Value, c *Call) (status int) {
	defer func() {
		if e := recover(); e != nil {
			st.LastPanic = fmt.Sprint(e)
			status = ExecPanic
		}
	}()
	node, ok := navigate(root, c.Nav)
	if !ok {
		return ExecNavFailed
	}
	m := node.MethodByName(c.M)
	if !m.IsValid() {
		return ExecNavFailed
	}
	mt := m.Type()
	if mt.NumIn() != len(c.Args) {
		return ExecNavFailed
	}
	args := make([]reflect.Value, len(c.Args))
	for i, a := range c.Args {
		if sr, isRef := a.(*SrcRef); isRef && sr.Kind == "near" {
			v, ok := nearCopy(st, node, sr.Extra)
			if !ok || !v.Type().AssignableTo(mt.In(i)) {
				return ExecNavFailed
			}
			args[i] = v
			continue
		}
		v, ok := st.Env.toArg(a, mt.In(i))
		if !ok {
			return ExecNavFailed
		}
		args[i] = v
	}
	if c.Idx {
		if lm := node.MethodByName("Len"); lm.IsValid() && int(args[0].Int()) >= int(lm.Call(nil)[0].Int()) {
			return ExecNavFailed
		}
	}
	if !st.unguarded && !st.guard(node, c, args) {
		return ExecSkipped
	}
	m.Call(args)
	if st.Cfg.AllowNegZero && (c.Tag == 'F' || c.Tag == 'T') && c.Get != "" {
		if nv := args[len(args)-1]; nv.Kind() == reflect.Float64 {
			if got, ok := getOld(node, c); ok && got.Kind() == reflect.Float64 &&
				math.Float64bits(got.Float()) != math.Float64bits(nv.Float()) {
				st.SetterDrops = append(st.SetterDrops, fmt.Sprintf("%s stored bits %x", FmtCall(c, map[*ObjSpec]bool{}), math.Float64bits(got.Float())))
			}
		}
	}
	if c.M == "CopyFromSlice" && len(args) == 1 && args[0].Type().Elem().Kind() == reflect.Float64 {
		for i := 0; i < args[0].Len(); i++ {
			got := call(node, "At", iv(i))[0].Float()
			if want := args[0].Index(i).Float(); math.Float64bits(got) != math.Float64bits(want) {
				st.SetterDrops = append(st.SetterDrops, fmt.Sprintf("%s element %d stored bits %x", FmtCall(c, map[*ObjSpec]bool{}), i, math.Float64bits(got)))
				break
			}
		}
	}
	return ExecOK
}

// nearCopy returns a pointer to <node>.Clone(&Allocators{}) with the extra calls applied.
func nearCopy(st *State, node reflect.Value, extra []*Call) (reflect.Value, bool) {
	node = addr(node)
	m := node.MethodByName("Clone")
	if !m.IsValid() || m.Type().NumIn() != 1 || m.Type().NumOut() != 1 {
		return reflect.Value{}, false
	}
	out := m.Call([]reflect.Value{reflect.New(m.Type().In(0).Elem())})[0]
	if out.Kind() != reflect.Ptr {
		p := reflect.New(out.Type())
		p.Elem().Set(out)
		out = p
	}
	scratch := &State{Cfg: &Cfg{}, Env: st.Env, unguarded: true}
	for _, c := range extra {
		if scratch.Exec(out, c) != ExecOK {
			return out, false
		}
	}
	return out, true
}

// ---------------------------------------------------------------------------------------
// Printing calls (for minimal reproductions).

func fmtArg(a any, seen map[*ObjSpec]bool) string {
	switch x := a.(type) {
	case bool:
		if x {
			return "true"
		}
		return "false"
	case int:
		return strconv.Itoa(x)
	case int64:
		return "i64:" + strconv.FormatInt(x, 10)
	case uint64:
		return "0x" + strconv.FormatUint(x, 16)
	case float64:
		return fmt.Sprintf("f64bits:0x%x(%v)", math.Float64bits(x), x)
	case string:
		if len(x) > 24 {
			return fmt.Sprintf("str[%d]:%s..", len(x), hex.EncodeToString([]byte(x[:8])))
		}
		return strconv.Quote(x)
	case *ObjSpec:
		tag := "new"
		if x.Frozen {
			tag = "frozen"
		}
		if seen[x] {
			return fmt.Sprintf("%s%s#%d", tag, x.Def.Name, x.ID)
		}
		seen[x] = true
		var cs []string
		for _, c := range x.Calls {
			cs = append(cs, FmtCall(c, seen))
		}
		return fmt.Sprintf("%s%s#%d{%s}", tag, x.Def.Name, x.ID, strings.Join(cs, "; "))
	case *SrcRef:
		if x.Kind == "alt" {
			return fmt.Sprintf("alt@%d%s", x.N, navKey(x.Nav))
		}
		if x.Kind == "near" {
			var cs []string
			for _, c := range x.Extra {
				cs = append(cs, FmtCall(c, seen))
			}
			return fmt.Sprintf("cloneOfDestination{%s}", strings.Join(cs, "; "))
		}
		return fmt.Sprintf("readerRecord(stream %dB, after %d reads)%s", len(x.Stream), x.NRead, navKey(x.Nav))
	}
	rv := reflect.ValueOf(a)
	if rv.Kind() == reflect.Slice {
		var es []string
		for i := 0; i < rv.Len(); i++ {
			if i >= 8 {
				es = append(es, fmt.Sprintf("..%d more", rv.Len()-8))
				break
			}
			es = append(es, fmtArg(rv.Index(i).Interface(), seen))
		}
		return "[" + strings.Join(es, ",") + "]"
	}
	return fmt.Sprint(a)
}

// FmtCall renders a call like Point().Value().SetInt64(i64:1).
func FmtCall(c *Call, seen map[*ObjSpec]bool) string {
	var sb strings.Builder
	for _, s := range c.Nav {
		sb.WriteString(s.M)
		if s.I >= 0 {
			fmt.Fprintf(&sb, "(%d).", s.I)
		} else {
			sb.WriteString("().")
		}
	}
	sb.WriteString(c.M)
	sb.WriteByte('(')
	for i, a := range c.Args {
		if i > 0 {
			sb.WriteByte(',')
		}
		sb.WriteString(fmtArg(a, seen))
	}
	sb.WriteByte(')')
	return sb.String()
}
