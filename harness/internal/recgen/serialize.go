package recgen

import (
	"encoding/hex"
	"fmt"
	"math"
	"reflect"
	"strconv"
	"strings"
)

// APISer serialises recorded public-API calls into the `ap` op lines of the Lean record API model
// (lean/Stef/Api.lean, sub-driver lean/Stef/Driver/Api.lean). A call that the model does not
// describe is never approximated: Call() returns false, the reason is counted in Unsupported and
// the caller drops the whole history.
//
//	ap mk <oid> <type>                 object := new <type>, Init()
//	ap fz <oid>                        Freeze()
//	ap cl <oid> <target> <path>        object := Clone() of a node
//	ap rs <hex>                        the stream behind the reader sources of this history
//	ap c <target> <path> <m> <args>    one call; target = w | a | o<id>
type APISer struct {
	RootTy *Type
	// AltCalls are the calls of the shadow record; a source alt@N needs the first N applied.
	AltCalls *[]*Call
	// ReaderHex returns the uncompressed-equivalent stream (hex) of a reader source ("" = unsupported).
	ReaderHex func(stream []byte) string

	Lines       []string
	Unsupported map[string]int

	objIDs     map[*ObjSpec]string
	nextObj    int
	altApplied int
	readerSent bool
	readerOf   *byte
}

func NewAPISer(rootTy *Type, altCalls *[]*Call, readerHex func([]byte) string) *APISer {
	return &APISer{RootTy: rootTy, AltCalls: altCalls, ReaderHex: readerHex, Unsupported: map[string]int{},
		objIDs: map[*ObjSpec]string{}}
}

func (s *APISer) no(reason string) bool {
	s.Unsupported[reason]++
	return false
}

func (s *APISer) emit(f string, a ...any) { s.Lines = append(s.Lines, fmt.Sprintf(f, a...)) }

func fieldIndex(d *Def, capName string) int {
	for i, f := range d.Fields {
		if Cap(f.Name) == capName {
			return i
		}
	}
	return -1
}

// navPath resolves getter steps from a node of type t; returns the path text and the type reached.
func (s *APISer) navPath(t *Type, nav []NavStep, forWrite bool) (string, *Type, bool) {
	var parts []string
	for _, st := range nav {
		if forWrite && t.Kind == KStruct && t.Def.Dict != "" && len(parts) > 0 {
			// a dictionary struct reached through a getter is modified in place: not modelled
			return "", nil, s.no("nav-into-dict-struct")
		}
		switch t.Kind {
		case KStruct:
			i := fieldIndex(t.Def, st.M)
			if i < 0 || st.I >= 0 {
				return "", nil, s.no("nav-unknown-getter")
			}
			parts = append(parts, "f"+strconv.Itoa(i))
			t = t.Def.Fields[i].Type
		case KOneof:
			i := fieldIndex(t.Def, st.M)
			if i < 0 || st.I >= 0 {
				return "", nil, s.no("nav-unknown-getter")
			}
			parts = append(parts, "a"+strconv.Itoa(i+1))
			t = t.Def.Fields[i].Type
		case KArray:
			if st.M != "At" || st.I < 0 {
				return "", nil, s.no("nav-unknown-getter")
			}
			parts = append(parts, "e"+strconv.Itoa(st.I))
			t = t.Elem
		case KMultimap:
			switch {
			case st.M == "Key" && st.I >= 0:
				parts = append(parts, "k"+strconv.Itoa(st.I))
				t = t.Def.Key
			case st.M == "Value" && st.I >= 0:
				parts = append(parts, "v"+strconv.Itoa(st.I))
				t = t.Def.Val
			default:
				return "", nil, s.no("nav-unknown-getter")
			}
		default:
			return "", nil, s.no("nav-through-primitive")
		}
	}
	if len(parts) == 0 {
		return "-", t, true
	}
	if forWrite && t.Kind == KStruct && t.Def.Dict != "" {
		return "", nil, s.no("nav-into-dict-struct")
	}
	return strings.Join(parts, "/"), t, true
}

// joinPath appends one step to a path text ("-" = the node itself).
func joinPath(path, step string) string {
	if path == "-" || path == "" {
		return step
	}
	return path + "/" + step
}

func valText(t *Type, a any) (string, bool) {
	rv := reflect.ValueOf(a)
	switch t.Kind {
	case KBool:
		if rv.Kind() != reflect.Bool {
			return "", false
		}
		if rv.Bool() {
			return "T", true
		}
		return "F", true
	case KInt64:
		switch rv.Kind() {
		case reflect.Int, reflect.Int64:
			return "x" + strconv.FormatUint(uint64(rv.Int()), 16), true
		}
		return "", false
	case KUint64:
		switch rv.Kind() {
		case reflect.Uint64, reflect.Uint:
			return "x" + strconv.FormatUint(rv.Uint(), 16), true
		case reflect.Int, reflect.Int64:
			return "x" + strconv.FormatUint(uint64(rv.Int()), 16), true
		}
		return "", false
	case KFloat64:
		if rv.Kind() != reflect.Float64 {
			return "", false
		}
		return "f" + strconv.FormatUint(math.Float64bits(rv.Float()), 16), true
	case KString, KBytes:
		switch rv.Kind() {
		case reflect.String:
			return "s" + hex.EncodeToString([]byte(rv.String())), true
		case reflect.Slice:
			if b, ok := a.([]byte); ok {
				return "s" + hex.EncodeToString(b), true
			}
		}
		return "", false
	}
	return "", false
}

func intArg(a any) (int, bool) {
	rv := reflect.ValueOf(a)
	switch rv.Kind() {
	case reflect.Int, reflect.Int64, reflect.Int32:
		return int(rv.Int()), true
	case reflect.Uint64, reflect.Uint, reflect.Uint8, reflect.Uint32:
		return int(rv.Uint()), true
	}
	return 0, false
}

// source resolves a CopyFrom / Set<F> / Append argument of composite type t. dstTarget / dstPath
// name the node the call is made on (a "near" source is a clone of it).
func (s *APISer) source(a any, t *Type, dstTarget, dstPath string) (string, bool) {
	switch x := a.(type) {
	case *ObjSpec:
		if x.Def != t.Def {
			return "", s.no("source-type-mismatch")
		}
		return s.object(x)
	case *SrcRef:
		switch x.Kind {
		case "alt":
			if s.AltCalls == nil || x.N > len(*s.AltCalls) || x.N < s.altApplied {
				return "", s.no("source-alt-out-of-order")
			}
			for s.altApplied < x.N {
				c := (*s.AltCalls)[s.altApplied]
				s.altApplied++
				if !s.Call("a", s.RootTy, c) {
					return "", false
				}
			}
			p, st, ok := s.navPath(s.RootTy, x.Nav, false)
			if !ok {
				return "", false
			}
			if st != t && !(st.Kind == t.Kind && st.Def == t.Def) {
				return "", s.no("source-type-mismatch")
			}
			return "a:" + p, true
		case "near":
			s.nextObj++
			id := "o" + strconv.Itoa(s.nextObj)
			s.emit("ap cl %s %s %s", id, dstTarget, dstPath)
			for _, c := range x.Extra {
				if !s.Call(id, t, c) {
					return "", false
				}
			}
			return id, true
		case "reader":
			if s.ReaderHex == nil || len(x.Stream) == 0 {
				return "", s.no("source-reader")
			}
			if s.readerSent && s.readerOf != &x.Stream[0] {
				return "", s.no("source-reader-second-stream")
			}
			if !s.readerSent {
				hx := s.ReaderHex(x.Stream)
				if hx == "" {
					return "", s.no("source-reader")
				}
				s.emit("ap rs %s", hx)
				s.readerSent, s.readerOf = true, &x.Stream[0]
			}
			p, st, ok := s.navPath(s.RootTy, x.Nav, false)
			if !ok {
				return "", false
			}
			if st != t && !(st.Kind == t.Kind && st.Def == t.Def) {
				return "", s.no("source-type-mismatch")
			}
			return fmt.Sprintf("r%d:%s", x.NRead, p), true
		}
	}
	return "", s.no("source-unknown")
}

func (s *APISer) object(x *ObjSpec) (string, bool) {
	if id, ok := s.objIDs[x]; ok {
		return id, true
	}
	s.nextObj++
	id := "o" + strconv.Itoa(s.nextObj)
	s.emit("ap mk %s %s", id, x.Def.Name)
	ty := x.Def.self
	for _, c := range x.Calls {
		if !s.Call(id, ty, c) {
			return "", false
		}
	}
	if x.Frozen {
		s.emit("ap fz %s", id)
	}
	s.objIDs[x] = id
	return id, true
}

// Call serialises one call made on the object `target` whose type is rootTy.
func (s *APISer) Call(target string, rootTy *Type, c *Call) bool {
	path, t, ok := s.navPath(rootTy, c.Nav, true)
	if !ok {
		return false
	}
	line := func(f string, a ...any) bool {
		s.emit("ap c %s %s %s", target, path, fmt.Sprintf(f, a...))
		return true
	}
	m := c.M
	switch t.Kind {
	case KStruct:
		switch {
		case m == "CopyFrom" && len(c.Args) == 1:
			src, ok := s.source(c.Args[0], t, target, path)
			if !ok {
				return false
			}
			return line("cf %s", src)
		case strings.HasPrefix(m, "Unset") && len(c.Args) == 0:
			i := fieldIndex(t.Def, m[5:])
			if i < 0 || !t.Def.Fields[i].Optional {
				return s.no("struct-unknown-method")
			}
			return line("us %d", i)
		case strings.HasPrefix(m, "Set"):
			i := fieldIndex(t.Def, m[3:])
			if i < 0 {
				return s.no("struct-unknown-method")
			}
			f := t.Def.Fields[i]
			switch {
			case len(c.Args) == 0 && f.Optional && !f.Type.Kind.Primitive():
				return line("pr %d", i)
			case len(c.Args) == 1 && f.Type.Kind.Primitive():
				v, ok := valText(f.Type, c.Args[0])
				if !ok {
					return s.no("value-type")
				}
				return line("sp %d %s", i, v)
			case len(c.Args) == 1 && f.Type.Kind == KStruct && f.Type.Def.Dict != "":
				src, ok := s.source(c.Args[0], f.Type, target, joinPath(path, "f"+strconv.Itoa(i)))
				if !ok {
					return false
				}
				return line("so %d %s", i, src)
			}
		}
		return s.no("struct-unknown-method")
	case KOneof:
		switch {
		case m == "CopyFrom" && len(c.Args) == 1:
			src, ok := s.source(c.Args[0], t, target, path)
			if !ok {
				return false
			}
			return line("cf %s", src)
		case m == "SetType" && len(c.Args) == 1:
			k, ok := intArg(c.Args[0])
			if !ok || k < 0 || k > len(t.Def.Fields) {
				return s.no("oneof-settype-arg")
			}
			if k > 0 && t.Def.Fields[k-1].Type.Kind == KStruct && t.Def.Fields[k-1].Type.Def.Dict != "" {
				return s.no("oneof-dict-alternative")
			}
			return line("st %d", k)
		case strings.HasPrefix(m, "Set") && len(c.Args) == 1:
			i := fieldIndex(t.Def, m[3:])
			if i < 0 || !t.Def.Fields[i].Type.Kind.Primitive() {
				return s.no("oneof-unknown-method")
			}
			v, ok := valText(t.Def.Fields[i].Type, c.Args[0])
			if !ok {
				return s.no("value-type")
			}
			return line("sa %d %s", i+1, v)
		}
		return s.no("oneof-unknown-method")
	case KArray:
		et := t.Elem
		if !et.Kind.Primitive() && et.Kind != KStruct && et.Kind != KOneof {
			return s.no("array-of-non-struct-composites")
		}
		switch {
		case m == "EnsureLen" && len(c.Args) == 1:
			n, ok := intArg(c.Args[0])
			if !ok || n < 0 {
				return s.no("ensurelen-arg")
			}
			return line("el %d", n)
		case m == "Append" && len(c.Args) == 1 && et.Kind.Primitive():
			v, ok := valText(et, c.Args[0])
			if !ok {
				return s.no("value-type")
			}
			return line("ap %s", v)
		case m == "Append" && len(c.Args) == 1:
			src, ok := s.source(c.Args[0], et, target, path)
			if !ok {
				return false
			}
			return line("ao %s", src)
		case m == "CopyFromSlice" && len(c.Args) == 1 && et.Kind.Primitive():
			rv := reflect.ValueOf(c.Args[0])
			if rv.Kind() != reflect.Slice {
				return s.no("value-type")
			}
			vs := make([]string, rv.Len())
			for i := range vs {
				v, ok := valText(et, rv.Index(i).Interface())
				if !ok {
					return s.no("value-type")
				}
				vs[i] = v
			}
			if len(vs) == 0 {
				return line("cs -")
			}
			return line("cs %s", strings.Join(vs, ","))
		}
		return s.no("array-unknown-method")
	case KMultimap:
		kt, vt := t.Def.Key, t.Def.Val
		switch {
		case m == "CopyFrom" && len(c.Args) == 1:
			src, ok := s.source(c.Args[0], t, target, path)
			if !ok {
				return false
			}
			return line("cf %s", src)
		case m == "EnsureLen" && len(c.Args) == 1:
			n, ok := intArg(c.Args[0])
			if !ok || n < 0 {
				return s.no("ensurelen-arg")
			}
			return line("el %d", n)
		case (m == "SetKey" || m == "SetValue") && len(c.Args) == 2:
			i, ok := intArg(c.Args[0])
			et := kt
			code := "sk"
			if m == "SetValue" {
				et, code = vt, "sv"
			}
			if ok && i >= 0 && et.Kind == KStruct && et.Def.Dict != "" {
				// SetKey(i, k) / SetValue(i, v) of a dictionary-struct key / value: op sko / svo
				step := "k"
				if m == "SetValue" {
					step = "v"
				}
				src, ok := s.source(c.Args[1], et, target, joinPath(path, step+strconv.Itoa(i)))
				if !ok {
					return false
				}
				return line("%so %d %s", code, i, src)
			}
			if !ok || i < 0 || !et.Kind.Primitive() {
				return s.no("multimap-set-arg")
			}
			v, ok := valText(et, c.Args[1])
			if !ok {
				return s.no("value-type")
			}
			return line("%s %d %s", code, i, v)
		case m == "Append" && len(c.Args) == 2 && kt.Kind.Primitive() && vt.Kind.Primitive():
			k, ok1 := valText(kt, c.Args[0])
			v, ok2 := valText(vt, c.Args[1])
			if !ok1 || !ok2 {
				return s.no("value-type")
			}
			return line("ak %s %s", k, v)
		}
		return s.no("multimap-unknown-method")
	}
	return s.no("call-on-primitive")
}

// RecursiveNames lists the structs / oneofs that the generator stores by pointer because the
// schema marks them recursive (dictionary structs are always stored by pointer: the model knows
// them from the schema encoding).
func RecursiveNames(m *Model) string {
	var out []string
	for name, st := range m.Schema.Structs {
		if st.Recursive() {
			out = append(out, name)
		}
	}
	if len(out) == 0 {
		return "-"
	}
	sortStrings(out)
	return strings.Join(out, ",")
}

func sortStrings(a []string) {
	for i := 1; i < len(a); i++ {
		for j := i; j > 0 && a[j] < a[j-1]; j-- {
			a[j], a[j-1] = a[j-1], a[j]
		}
	}
}

// APIStep is one step of a history: an API call on the writer's record ('c') or a Write ('W').
type APIStep struct {
	Kind byte
	Call *Call
}

// APIFrame is one data frame of the real stream (uncompressed content).
type APIFrame struct {
	Flags   byte
	NRec    int
	Content []byte
}

func fnv1a(b []byte) uint64 {
	h := uint64(14695981039346656037)
	for _, c := range b {
		h = (h ^ uint64(c)) * 1099511628211
	}
	return h
}

// APIOps renders a whole history as `ap` op lines with their expected outputs: every public API
// call (with the objects and sources it uses), at every Write the record the real writer held with
// its top-level modified mask, and at the end the real data frames (flags, record count, length and
// FNV-1a hash of the uncompressed content) that the model must reproduce byte for byte from its own
// values and marks. ok=false: the history uses a call the model does not describe (reasons in
// unsupported); nothing may be emitted then.
func APIOps(schemaID, rootName string, rootTy *Type, gen *State, steps []APIStep, wmasks []uint64, truths []string,
	frames []APIFrame, readerHex func([]byte) string) (lines [][2]string, unsupported map[string]int, ok bool) {
	if gen == nil || len(wmasks) != len(truths) {
		return nil, map[string]int{"no-generator-state": 1}, false
	}
	ser := NewAPISer(rootTy, &gen.AltCalls, readerHex)
	lines = append(lines, [2]string{fmt.Sprintf("ap new %s %s", schemaID, rootName), "ok"})
	flush := func() {
		for _, l := range ser.Lines {
			lines = append(lines, [2]string{l, "ok"})
		}
		ser.Lines = ser.Lines[:0]
	}
	// a restart after the k-th Write: the flags of the frame that is opened then
	restartAfter := map[int]byte{}
	cum, total := 0, 0
	for j, f := range frames {
		cum += f.NRec
		if j+1 < len(frames) {
			restartAfter[cum] = frames[j+1].Flags
		}
	}
	total = cum
	if total != len(truths) {
		return nil, map[string]int{"frame-record-count": 1}, false
	}
	nw := 0
	for _, st := range steps {
		switch st.Kind {
		case 'c':
			if !ser.Call("w", rootTy, st.Call) {
				return nil, ser.Unsupported, false
			}
			flush()
		case 'W':
			if nw >= len(truths) {
				return nil, map[string]int{"more-writes-than-records": 1}, false
			}
			r := "-"
			if fl, yes := restartAfter[nw+1]; yes {
				r = strconv.Itoa(int(fl))
			}
			lines = append(lines, [2]string{"ap W " + r, fmt.Sprintf("%x:%s", wmasks[nw], truths[nw])})
			nw++
		}
	}
	var fd []string
	for _, f := range frames {
		fd = append(fd, fmt.Sprintf("%d:%d:%d:%x", f.Flags, f.NRec, len(f.Content), fnv1a(f.Content)))
	}
	desc := "-"
	if len(fd) > 0 {
		desc = strings.Join(fd, ",")
	}
	lines = append(lines, [2]string{"ap end " + desc, fmt.Sprintf("same frames=%d records=%d", len(frames), len(truths))})
	return lines, nil, true
}
