// Package recgen is a schema-directed, reflection-based toolkit for records of ANY
// stefc-generated Go package: canonical dumps through the public getters, a one-line
// schema encoding for the Lean model, and a type-directed random mutator that changes a
// record only through its public API (setters, EnsureLen, SetType, CopyFrom, Freeze...).
//
// Nothing in this package refers to a concrete generated package; everything is driven by
// a *schema.Schema (parsed from the .stef text by the repository's own idl parser) and
// reflect.Values of generated structs.
package recgen

import (
	"bytes"
	"fmt"
	"sort"
	"strings"

	"github.com/splunk/stef/go/pkg/idl"
	"github.com/splunk/stef/go/pkg/schema"
)

type Kind int

const (
	KBool Kind = iota
	KInt64
	KUint64
	KFloat64
	KString
	KBytes
	KStruct
	KOneof
	KArray
	KMultimap
)

func (k Kind) Primitive() bool { return k <= KBytes }

// Type is a resolved field type.
type Type struct {
	Kind Kind
	Dict string // dictionary name for dict-encoded string/bytes
	Enum string // enum name for enum-typed uint64 fields
	Elem *Type  // array element
	Def  *Def   // struct / oneof / multimap definition
}

type Field struct {
	Name     string
	Optional bool
	Type     *Type
}

// Def is a named definition: struct, oneof or multimap.
type Def struct {
	Name   string
	Kind   Kind   // KStruct, KOneof, KMultimap
	Dict   string // dict name of a dict-struct ("" otherwise)
	Root   bool
	Fields []Field // struct fields / oneof alternatives
	Key    *Type   // multimap
	Val    *Type   // multimap
	self   *Type
}

// Model is the compiled schema.
type Model struct {
	Schema *schema.Schema
	Defs   map[string]*Def
}

// ParseSchema parses .stef text with the repository's idl parser.
func ParseSchema(text []byte, fileName string) (*schema.Schema, error) {
	lexer := idl.NewLexer(bytes.NewBuffer(text))
	parser := idl.NewParser(lexer, fileName)
	if err := parser.Parse(); err != nil {
		return nil, err
	}
	return parser.Schema(), nil
}

// Compile resolves the schema into a type graph.
func Compile(s *schema.Schema) (*Model, error) {
	m := &Model{Schema: s, Defs: map[string]*Def{}}
	for name, st := range s.Structs {
		k := KStruct
		if st.OneOf {
			k = KOneof
		}
		d := &Def{Name: name, Kind: k, Dict: st.DictName, Root: st.IsRoot}
		d.self = &Type{Kind: k, Def: d}
		m.Defs[name] = d
	}
	for name := range s.Multimaps {
		d := &Def{Name: name, Kind: KMultimap}
		d.self = &Type{Kind: KMultimap, Def: d}
		m.Defs[name] = d
	}
	for name, st := range s.Structs {
		d := m.Defs[name]
		for _, f := range st.Fields {
			t, err := m.resolve(&f.FieldType)
			if err != nil {
				return nil, fmt.Errorf("%s.%s: %w", name, f.Name, err)
			}
			d.Fields = append(d.Fields, Field{Name: f.Name, Optional: f.Optional, Type: t})
		}
	}
	for name, mm := range s.Multimaps {
		d := m.Defs[name]
		var err error
		if d.Key, err = m.resolve(&mm.Key.Type); err != nil {
			return nil, err
		}
		if d.Val, err = m.resolve(&mm.Value.Type); err != nil {
			return nil, err
		}
	}
	return m, nil
}

func (m *Model) resolve(ft *schema.FieldType) (*Type, error) {
	switch {
	case ft.Array != nil:
		e, err := m.resolve(&ft.Array.ElemType)
		if err != nil {
			return nil, err
		}
		return &Type{Kind: KArray, Elem: e}, nil
	case ft.Primitive != nil:
		t := &Type{Dict: ft.DictName, Enum: ft.Enum}
		switch ft.Primitive.Type {
		case schema.PrimitiveTypeInt64:
			t.Kind = KInt64
		case schema.PrimitiveTypeUint64:
			t.Kind = KUint64
		case schema.PrimitiveTypeFloat64:
			t.Kind = KFloat64
		case schema.PrimitiveTypeBool:
			t.Kind = KBool
		case schema.PrimitiveTypeString:
			t.Kind = KString
		case schema.PrimitiveTypeBytes:
			t.Kind = KBytes
		default:
			return nil, fmt.Errorf("unknown primitive %d", ft.Primitive.Type)
		}
		return t, nil
	case ft.Struct != "":
		d, ok := m.Defs[ft.Struct]
		if !ok {
			return nil, fmt.Errorf("unknown struct %q", ft.Struct)
		}
		return d.self, nil
	case ft.MultiMap != "":
		d, ok := m.Defs[ft.MultiMap]
		if !ok {
			return nil, fmt.Errorf("unknown multimap %q", ft.MultiMap)
		}
		return d.self, nil
	}
	return nil, fmt.Errorf("unresolvable field type")
}

// Root returns the type of the named struct.
func (m *Model) Root(name string) *Type {
	d := m.Defs[name]
	if d == nil {
		return nil
	}
	return d.self
}

func encType(t *Type) string {
	switch t.Kind {
	case KBool:
		return "b"
	case KInt64:
		return "i"
	case KUint64:
		return "u"
	case KFloat64:
		return "f"
	case KString, KBytes:
		s := "s"
		if t.Kind == KBytes {
			s = "y"
		}
		if t.Dict != "" {
			s += "@" + t.Dict
		}
		return s
	case KArray:
		return "[" + encType(t.Elem)
	default:
		return "#" + t.Def.Name
	}
}

// SchemaEncoding is the one-line encoding of the schema consumed by the Lean side.
//
//	struct   S:Name:DictNameOr-:f1,f2,...      field = fname~opt~type
//	oneof    O:Name:f1,f2,...
//	multimap M:Name:keytype:valuetype
//
// Definitions are separated by ';' and sorted by name. Enums are erased to u.
func SchemaEncoding(s *schema.Schema) string {
	m, err := Compile(s)
	if err != nil {
		return "ERR:" + strings.ReplaceAll(err.Error(), " ", "_")
	}
	names := make([]string, 0, len(m.Defs))
	for n := range m.Defs {
		names = append(names, n)
	}
	sort.Strings(names)
	var parts []string
	for _, n := range names {
		d := m.Defs[n]
		fields := func() string {
			var fs []string
			for _, f := range d.Fields {
				o := "0"
				if f.Optional {
					o = "1"
				}
				fs = append(fs, f.Name+"~"+o+"~"+encType(f.Type))
			}
			return strings.Join(fs, ",")
		}
		switch d.Kind {
		case KStruct:
			dn := d.Dict
			if dn == "" {
				dn = "-"
			}
			parts = append(parts, "S:"+n+":"+dn+":"+fields())
		case KOneof:
			parts = append(parts, "O:"+n+":"+fields())
		case KMultimap:
			parts = append(parts, "M:"+n+":"+encType(d.Key)+":"+encType(d.Val))
		}
	}
	return strings.Join(parts, ";")
}

// Cap capitalises the first letter: method names are the capitalised field names.
func Cap(s string) string {
	if s == "" {
		return s
	}
	if s[0] >= 'a' && s[0] <= 'z' {
		return string(s[0]-'a'+'A') + s[1:]
	}
	return s
}
