package main

import (
	"bytes"
	"encoding/binary"
	"errors"
	"fmt"
	"io"
	"strings"

	"github.com/splunk/stef/go/pkg"

	"verif/harness/internal/rng"
)

// sizesPhase: the real pkg.ReadBufs.ReadFrom over random column trees and hostile size tables;
// the outcome class and every allocated column buffer are replayed on the Lean model
// (Stef.Sizes.readFrom). C03 directly: the buffers allocated for one frame never exceed readLimit.
func sizesPhase(r *rng.R, thorough bool) {
	n := 400
	if thorough {
		n = 6000
	}
	for c := 0; c < n; c++ {
		note("case sizes-%d", c)
		var rb pkg.ReadBufs
		var cols []*pkg.ReadColumnSet
		var shape strings.Builder
		budget := 1 + r.Intn(40)
		var build func(s *pkg.ReadColumnSet, depth int)
		build = func(s *pkg.ReadColumnSet, depth int) {
			cols = append(cols, s)
			shape.WriteByte('(')
			k := 0
			if depth < 5 {
				k = r.Intn(5)
			}
			for i := 0; i < k && budget > 0; i++ {
				budget--
				build(s.AddSubColumn(), depth+1)
			}
			shape.WriteByte(')')
		}
		build(&rb.Columns, 0)
		limit := uint64([]int{0, 1, 10, 100, 1000, 1 << 16, 1 << 20, 1 << 24}[r.Intn(8)])
		if r.Chance(1, 3) {
			limit += uint64(r.Intn(1000))
		}
		// the size table: one UC per column in preorder (more or fewer entries than columns too)
		bw := pkg.NewBitsWriter(0)
		entries := len(cols)
		switch r.Intn(6) {
		case 0:
			entries = r.Intn(len(cols) + 1)
		case 1:
			entries += r.Intn(5)
		}
		var want uint64
		for i := 0; i < entries; i++ {
			var sz uint64
			switch r.Intn(8) {
			case 0:
				sz = 0
			case 1:
				sz = limit // fits alone, not jointly
			case 2:
				sz = limit / 2
			case 3:
				sz = limit/uint64(len(cols)) + uint64(r.Intn(3))
			case 4:
				sz = limit + 1 + uint64(r.Intn(5))
			case 5:
				sz = []uint64{1 << 32, 1 << 47, 1<<48 - 1, 1 << 62, ^uint64(0)}[r.Intn(5)]
			default:
				sz = uint64(r.Intn(int(limit/uint64(len(cols))+2) + 1))
			}
			bw.WriteUvarintCompact(sz)
			if sz < 1<<30 {
				want += sz
			}
		}
		bw.Close()
		table := bw.Bytes()
		var in []byte
		switch r.Intn(10) {
		case 0:
			in = binary.AppendUvarint(in, uint64(len(table)+1+r.Intn(5))) // announces more than follows
		case 1:
			in = binary.AppendUvarint(in, limit+1)
		case 2:
			in = []byte{0xff, 0xff, 0xff, 0xff, 0xff, 0xff, 0xff, 0xff, 0xff, 0x7f} // uvarint overflow
		default:
			in = binary.AppendUvarint(in, uint64(len(table)))
		}
		in = append(in, table...)
		// column data: enough, too little, or none (never more than 4 KiB of it)
		dl := 0
		switch r.Intn(4) {
		case 0:
		case 1:
			dl = r.Intn(64)
		default:
			if want < 4096 {
				dl = int(want) + r.Intn(3)
			}
		}
		for i := 0; i < dl; i++ {
			in = append(in, byte(i))
		}
		err := rb.ReadFrom(bytes.NewBuffer(append([]byte(nil), in...)), limit)
		cls := "ok"
		switch {
		case err == nil:
		case errors.Is(err, pkg.ErrColumnSizeLimitExceeded):
			cls = "err:col-limit"
		case errors.Is(err, pkg.ErrTotalColumnSizeLimitExceeded):
			cls = "err:total-limit"
		case errors.Is(err, io.EOF), errors.Is(err, io.ErrUnexpectedEOF):
			cls = "err:eof"
		default:
			cls = "err:header"
		}
		var total uint64
		var nz []string
		for _, col := range cols {
			l := len(col.Column().Data())
			total += uint64(l)
			if l != 0 {
				nz = append(nz, fmt.Sprint(l))
			}
		}
		stats["sizes-"+cls]++
		if total > limit {
			propFail("C03 column-alloc-exceeds-limit case=sizes-%d shape=%s: ReadBufs.ReadFrom with readLimit=%d allocated %d bytes of column buffers (outcome %s); input=%s", c, shape.String(), limit, total, cls, hx(in))
		}
		// tempBufBytes is not observable; the model's temp= part is compared only through the
		// outcome class, so print alloc only
		emit(fmt.Sprintf("rs %s %d %s", shape.String(), limit, hxOrDash(in)), fmt.Sprintf("%s alloc=[%s]", cls, strings.Join(nz, ", ")))
		if len(nz) >= 2 && cls != "ok" {
			note("nontrivial %x", uint64(c)*7919+total)
		}
	}
}

func hxOrDash(b []byte) string {
	if len(b) == 0 {
		return "-"
	}
	return hx(b)
}
