package main

import (
	"bytes"
	"errors"
	"fmt"
	"io"
	"math"
	"math/bits"

	"github.com/splunk/stef/go/pkg"
	"github.com/splunk/stef/go/pkg/codecs"

	"verif/harness/internal/rng"
)

// column transfers the data an encoder collected into a fresh ReadBufs whose root column the
// decoder was initialised with (the path real frames take: WriteBufs.WriteTo -> ReadBufs.ReadFrom).
func transfer(wb *pkg.WriteBufs, rb *pkg.ReadBufs) ([]byte, error) {
	var buf bytes.Buffer
	if err := wb.WriteTo(&buf); err != nil {
		return nil, err
	}
	all := append([]byte(nil), buf.Bytes()...)
	// column data = everything after the size table: re-extract for the op line
	var data bytes.Buffer
	if err := wb.Columns.WriteDataTo(&data); err != nil {
		return nil, err
	}
	if err := rb.ReadFrom(&buf, uint64(len(all))); err != nil {
		return nil, err
	}
	return data.Bytes(), nil
}

func errStr(err error) string {
	switch {
	case err == nil:
		return ""
	case errors.Is(err, io.EOF):
		return "err:eof"
	case errors.Is(err, codecs.ErrInvalidRefNum):
		return "err:refnum"
	}
	return "err:other"
}

func floatClass(r *rng.R, prev uint64) uint64 {
	switch r.Intn(12) {
	case 0:
		return prev // identical
	case 1:
		return 0
	case 2:
		return 1 << 63 // -0
	case 3:
		return 0x7ff0000000000000 // +inf
	case 4:
		return 0xfff0000000000000
	case 5:
		return 0x7ff8000000000000 | (r.U64() & 0x7ffffffffffff) // NaN with payload
	case 6:
		return r.U64() & 0xfffffffffffff // subnormal
	case 7:
		return math.Float64bits(float64(r.Intn(1000)))
	case 8:
		// controlled xor window: choose leading/trailing zeros of the xor explicitly
		lead := r.Intn(64)
		trail := r.Intn(64 - lead)
		sig := 64 - lead - trail
		x := r.BitsExact(sig) | 1
		if sig == 0 {
			x = 1
			sig = 1
		}
		return prev ^ (x << uint(trail))
	case 9:
		return prev ^ (1 << uint(r.Intn(64)))
	case 10:
		return math.Float64bits(math.Float64frombits(prev) + 0.1)
	}
	return r.U64()
}

var lastDelta uint64 // delta between the two previous intClass values (for boundary deltas of deltas)

func intClass(r *rng.R, prev uint64) (v uint64) {
	defer func() { lastDelta = v - prev }()
	if r.Chance(1, 6) {
		// next delta = last delta + a boundary value: the delta of delta is exactly that boundary
		return prev + lastDelta + uint64(dodBoundaries[r.Intn(len(dodBoundaries))])
	}
	switch r.Intn(8) {
	case 0:
		return prev
	case 1:
		return prev + uint64(r.Intn(10))
	case 2:
		return 0
	case 3:
		return math.MaxUint64
	case 4:
		return 1 << 63
	case 5:
		return prev - uint64(r.Intn(1000)) // may wrap
	case 6:
		return prev + (1 << 62) + uint64(r.Intn(5)) // deltas wrap around
	}
	return r.U64()
}

var strPool = func() [][]byte {
	p := [][]byte{{}, {'a'}, {'a', 'b'}, []byte("hello"), []byte("hello world, a longer string value"), {0, 0}, {0xff}}
	// lengths at the boundaries of the 1-, 2- and 3-byte zig-zag varint length prefix
	for _, n := range []int{63, 64, 65, 8191, 8192, 8193} {
		b := make([]byte, n)
		for i := range b {
			b[i] = byte('a' + i%26)
		}
		p = append(p, b)
	}
	return p
}()

// deltas of deltas at the boundaries of the 1- and 2-byte zig-zag varint
var dodBoundaries = []int64{63, 64, 65, -64, -65, 8191, 8192, -8192, -8193, 1<<20 - 1, 1 << 20}

func strClass(r *rng.R) []byte {
	if r.Chance(2, 3) {
		return strPool[r.Intn(len(strPool))]
	}
	b := make([]byte, r.Intn(300))
	for i := range b {
		b[i] = byte(r.U64())
	}
	return b
}

func codecsPhase(r *rng.R, thorough bool) {
	n := 150
	if thorough {
		n = 4000
	}
	for c := 0; c < n; c++ {
		name := fmt.Sprintf("codec-%d", c)
		note("case %s", name)
		var lim pkg.SizeLimiter
		lim.Init(&pkg.WriterOptions{MaxTotalDictSize: 1 << 30})
		// encoders
		var ue codecs.Uint64Encoder
		var ie codecs.Int64Encoder
		var fe codecs.Float64Encoder
		var be codecs.BoolEncoder
		var se codecs.StringEncoder
		var de codecs.StringDictEncoder
		var dd codecs.StringDictEncoderDict
		dd.Init(&lim)
		ue.Init(&lim, nil)
		ie.Init(&lim, nil)
		fe.Init(&lim, nil)
		be.Init(&lim, nil)
		se.Init(&lim, nil)
		de.Init(&dd, &lim, nil)
		// decoders, each with its own ReadBufs root column
		var urb, frb, brb, srb, drb pkg.ReadBufs
		var ud codecs.Uint64Decoder
		var fd codecs.Float64Decoder
		var bd codecs.BoolDecoder
		var sd codecs.StringDecoder
		var ddec codecs.StringDictDecoder
		var rdict codecs.StringDictDecoderDict
		rdict.Init()
		ud.Init(&urb.Columns)
		fd.Init(&frb.Columns)
		bd.Init(&brb.Columns)
		sd.Init(&srb.Columns)
		ddec.Init(&rdict, &drb.Columns)
		emit("ce new", "ok")
		emit("cx new", "ok")
		_ = ie
		frames := 1 + r.Intn(3)
		// every string a decoder handed out is kept and looked at again after ALL frames of the
		// case were loaded and decoded: a decoded value must not change when later frames are read
		type held struct {
			kind  string
			frame int
			i     int
			got   string
			want  []byte
		}
		var heldStrs []held
		checkHeld := func() {
			for _, h := range heldStrs {
				if h.got != string(h.want) {
					propFail("C20 decoded-string-changed-later case=%s kind=%s frame=%d i=%d: the decoder returned %x (as written); after the later frames of the case were loaded and decoded the same string value reads %x", name, h.kind, h.frame, h.i, h.want, []byte(h.got))
					return
				}
			}
		}
		var prevF, prevU uint64
		hashv := uint64(c)
		classes := map[string]bool{}
		for f := 0; f < frames; f++ {
			k := r.Intn(25)
			var us, fs []uint64
			var bs []bool
			var ss, ds [][]byte
			for i := 0; i < k; i++ {
				u := intClass(r, prevU)
				prevU = u
				us = append(us, u)
				ue.Encode(u)
				emit(fmt.Sprintf("ce u64 %x", u), "ok")
				fv := floatClass(r, prevF)
				x := fv ^ prevF
				if x != 0 {
					classes[fmt.Sprintf("l%d-t%d", bits.LeadingZeros64(x), bits.TrailingZeros64(x))] = true
					stats["f64-xor-nonzero"]++
				} else {
					stats["f64-identical"]++
				}
				prevF = fv
				fs = append(fs, fv)
				fe.Encode(math.Float64frombits(fv))
				emit(fmt.Sprintf("ce f64 %x", fv), "ok")
				b := r.Bool()
				bs = append(bs, b)
				be.Encode(b)
				bi := 0
				if b {
					bi = 1
				}
				emit(fmt.Sprintf("ce bool %d", bi), "ok")
				s := strClass(r)
				ss = append(ss, s)
				se.Encode(string(s))
				emit("ce str "+hx(s), "ok")
				d := strClass(r)
				ds = append(ds, d)
				de.Encode(string(d))
				emit("ce dstr "+hx(d), "ok")
				hashv = hashv*1099511628211 ^ u ^ fv
			}
			stats["codec-values"] += k
			// close the "frame": collect each encoder's column and hand it to its decoder
			type col struct {
				kind string
				coll func(*pkg.WriteColumnSet)
				rb   *pkg.ReadBufs
				cont func()
			}
			cols := []col{
				{"u64", ue.CollectColumns, &urb, ud.Continue},
				{"f64", fe.CollectColumns, &frb, fd.Continue},
				{"bool", be.CollectColumns, &brb, bd.Continue},
				{"str", se.CollectColumns, &srb, sd.Continue},
				{"dstr", de.CollectColumns, &drb, ddec.Continue},
			}
			for _, cl := range cols {
				var wb pkg.WriteBufs
				cl.coll(&wb.Columns)
				data, err := transfer(&wb, cl.rb)
				if err != nil {
					propFail("C20 codec-transfer-error case=%s kind=%s err=%v", name, cl.kind, err)
					return
				}
				emit("ce "+cl.kind+"close", hx(data))
				emit("cx load "+cl.kind+" "+hx(data), "ok")
				cl.cont()
			}
			// decode and check the round trip directly
			for i := 0; i < k; i++ {
				var u uint64
				err := ud.Decode(&u)
				if err != nil {
					emit("cx u64", errStr(err))
				} else {
					emit("cx u64", fmt.Sprintf("%016x", u))
				}
				if err != nil || u != us[i] {
					propFail("C20 dod-roundtrip case=%s frame=%d i=%d wrote=%x read=%x err=%v", name, f, i, us[i], u, err)
				}
				var fv float64
				err = fd.Decode(&fv)
				emit("cx f64", fmt.Sprintf("%016x eof=%d", math.Float64bits(fv), eofFlag(err)))
				if err != nil || math.Float64bits(fv) != fs[i] {
					propFail("C20 float-roundtrip case=%s frame=%d i=%d wrote=%x read=%x err=%v", name, f, i, fs[i], math.Float64bits(fv), err)
				}
				var b bool
				err = bd.Decode(&b)
				bi := 0
				if b {
					bi = 1
				}
				emit("cx bool", fmt.Sprintf("%d eof=%d", bi, eofFlag(err)))
				if err != nil || b != bs[i] {
					propFail("C20 bool-roundtrip case=%s i=%d", name, i)
				}
				var s string
				err = sd.Decode(&s)
				if err != nil {
					emit("cx str", errStr(err))
				} else {
					emit("cx str", hx([]byte(s)))
				}
				if err != nil || s != string(ss[i]) {
					propFail("C20 string-roundtrip case=%s i=%d wrote=%x read=%x err=%v", name, i, ss[i], s, err)
				}
				if err == nil && s == string(ss[i]) {
					heldStrs = append(heldStrs, held{"str", f, i, s, append([]byte(nil), ss[i]...)})
				}
				var d string
				err = ddec.Decode(&d)
				if err != nil {
					emit("cx dstr", errStr(err))
				} else {
					emit("cx dstr", hx([]byte(d)))
				}
				if err != nil || d != string(ds[i]) {
					propFail("C20 dictstring-roundtrip case=%s i=%d wrote=%x read=%x err=%v", name, i, ds[i], d, err)
				}
				if err == nil && d == string(ds[i]) {
					heldStrs = append(heldStrs, held{"dstr", f, i, d, append([]byte(nil), ds[i]...)})
				}
			}
			// reading past the end of each column must be reported as an error, not as data
			if r.Chance(1, 2) {
				var u uint64
				err := ud.Decode(&u)
				if err != nil {
					emit("cx u64", errStr(err))
				} else {
					emit("cx u64", fmt.Sprintf("%016x", u))
					propFail("C20 overread-bytes case=%s u64 decoder returned data past the end", name)
				}
				var s string
				err = sd.Decode(&s)
				if err != nil {
					emit("cx str", errStr(err))
				} else {
					emit("cx str", hx([]byte(s)))
					propFail("C20 overread-bytes case=%s string decoder returned data past the end", name)
				}
				// a bit column is zero padded to a whole byte, so up to 7 reads past the last value
				// still fall inside the column; the 8th read past the values is certainly beyond it.
				var lastErr error
				for q := 0; q < 8; q++ {
					var b bool
					lastErr = bd.Decode(&b)
					bi := 0
					if b {
						bi = 1
					}
					emit("cx bool", fmt.Sprintf("%d eof=%d", bi, eofFlag(lastErr)))
					if lastErr != nil {
						break
					}
				}
				if lastErr == nil {
					propFail("C20 overread-56 case=%s bool decoder returned 8 values past the last one (beyond the end of its column) with Error()==nil", name)
				}
				// the same for the float column: the zero padding bits read as "identical to the
				// previous value" (one bit each), the 8th read past the values is beyond the column
				lastErr = nil
				for q := 0; q < 8; q++ {
					var fv float64
					lastErr = fd.Decode(&fv)
					emit("cx f64", fmt.Sprintf("%016x eof=%d", math.Float64bits(fv), eofFlag(lastErr)))
					if lastErr != nil {
						break
					}
				}
				if lastErr == nil {
					propFail("C20 overread-56 case=%s f64 decoder returned 8 values past the last one (beyond the end of its column) with a nil error", name)
				}
				stats["overread-probes"]++
			}
			// between frames: optionally reset codecs and/or dictionaries on both sides
			if f+1 < frames {
				if r.Bool() {
					ue.Reset()
					fe.Reset()
					ud.Reset()
					fd.Reset()
					emit("ce reset", "ok")
					emit("cx reset", "ok")
					prevF, prevU = 0, 0
					stats["codec-resets"]++
				}
				if r.Bool() {
					dd.Reset()
					rdict.Reset()
					emit("ce resetdict", "ok")
					emit("cx resetdict", "ok")
					stats["dict-resets"]++
				}
			}
		}
		checkHeld()
		stats["held-strings-rechecked"] += len(heldStrs)
		if len(classes) >= 2 {
			note("nontrivial %x", hashv)
		}
		stats["f64-window-classes"] += len(classes)
	}
}

// int64Cases (C20): the signed codec over sequences that WRAP: consecutive values at least 2^63
// apart (the encoder's deltas are modulo 2^64, the decoder wraps back), extremes, sign changes, and
// random values of every magnitude, across frames with and without Reset. Oracle: the harness's.
func int64Cases(r *rng.R, thorough bool) {
	n := 60
	if thorough {
		n = 1500
	}
	fixed := [][]int64{
		{math.MinInt64, math.MaxInt64},
		{-1, math.MaxInt64, -2},
		{math.MaxInt64, math.MinInt64, math.MaxInt64, 0, math.MinInt64},
		{0, math.MinInt64, 0, math.MaxInt64, -1, 1},
		{math.MinInt64 + 1, math.MaxInt64 - 1, math.MinInt64 + 1},
	}
	for c := 0; c < n; c++ {
		name := fmt.Sprintf("i64-%d", c)
		note("case %s", name)
		var lim pkg.SizeLimiter
		lim.Init(&pkg.WriterOptions{})
		var ie codecs.Int64Encoder
		var id codecs.Int64Decoder
		var rb pkg.ReadBufs
		ie.Init(&lim, nil)
		id.Init(&rb.Columns)
		frames := 1 + r.Intn(3)
		for f := 0; f < frames; f++ {
			var vals []int64
			if c < len(fixed) && f == 0 {
				vals = fixed[c]
			} else {
				for k := r.Intn(20); k >= 0; k-- {
					var v int64
					switch r.Intn(5) {
					case 0:
						v = int64(r.U64())
					case 1:
						v = []int64{math.MinInt64, math.MaxInt64, -1, 0, 1, math.MinInt64 + 1, math.MaxInt64 - 1}[r.Intn(7)]
					case 2:
						v = -int64(r.U64() >> uint(r.Intn(64)))
					default:
						v = int64(r.U64() >> uint(r.Intn(64)))
					}
					vals = append(vals, v)
				}
			}
			for _, v := range vals {
				ie.Encode(v)
			}
			var wb pkg.WriteBufs
			ie.CollectColumns(&wb.Columns)
			if _, err := transfer(&wb, &rb); err != nil {
				propFail("C20 codec-transfer-error case=%s kind=i64 err=%v", name, err)
				return
			}
			id.Continue()
			for i, v := range vals {
				var got int64
				if err := id.Decode(&got); err != nil || got != v {
					propFail("C20 int64-roundtrip case=%s frame=%d: the values %v were encoded with Int64Encoder; Int64Decoder returned %d, %v for element %d (want %d)", name, f, vals, got, err, i, v)
					return
				}
			}
			stats["i64-values"] += len(vals)
			if f+1 < frames && r.Bool() {
				ie.Reset()
				id.Reset()
			}
		}
		note("nontrivial %x", uint64(c)<<8|uint64(frames))
	}
}
