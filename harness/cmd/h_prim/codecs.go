package main

import "verif/harness/internal/rng"

func codecsPhase(r *rng.R, thorough bool) {}
