// h_prim drives go/pkg BitsWriter/BitsReader and the primitive codecs of go/pkg/codecs with
// generated operation sequences. Every output line is "<op line>\t<implementation output>".
// The op lines are replayed by the Lean driver (stefmodel); the outputs must agree.
// Lines starting with "#" are comments / statistics, lines starting with "PROP-FAIL" report a
// failure of the property itself (round trip on the implementation alone).
package main

import (
	"bufio"
	"bytes"
	"encoding/hex"
	"fmt"
	"math"
	"math/bits"
	"os"
	"strconv"

	"github.com/splunk/stef/go/pkg"
	"github.com/splunk/stef/go/pkg/codecs"

	"verif/harness/internal/rng"
)

var out = bufio.NewWriterSize(os.Stdout, 1<<20)

func emit(op, res string)         { fmt.Fprintf(out, "%s\t%s\n", op, res) }
func note(f string, a ...any)     { fmt.Fprintf(out, "# "+f+"\n", a...) }
func propFail(f string, a ...any) { fmt.Fprintf(out, "PROP-FAIL "+f+"\n", a...) }

func hx(b []byte) string {
	if len(b) == 0 {
		return "-"
	}
	return hex.EncodeToString(b)
}

func eofFlag(err error) int {
	if err != nil {
		return 1
	}
	return 0
}

type wop struct {
	kind string // bits, bit, uvc, vc
	val  uint64
	n    uint
}

var stats = map[string]int{}

// runCase writes the ops with the real BitsWriter, closes, then reads them back with the real
// BitsReader using the matching read ops, checking the round trip directly.
func runCase(name string, ops []wop, overread int) {
	stats["cases"]++
	note("case %s", name)
	totalBits := uint(0)
	hasVar := false
	hsh := uint64(1469598103934665603)
	for _, o := range ops {
		totalBits += o.n
		if o.kind == "uvc" || o.kind == "vc" {
			hasVar = true
			totalBits += 8
		}
		hsh = (hsh ^ o.val ^ uint64(o.n)<<56 ^ uint64(len(o.kind))) * 1099511628211
	}
	if totalBits > 64 && (hasVar || len(ops) > 1) {
		note("nontrivial %x", hsh)
	}
	if stats["cases"]%977 == 1 {
		note("sample case=%s ops=%v", name, ops)
	}
	allInDomain := true
	for _, o := range ops {
		if !opInDomain(o) {
			allInDomain = false
		}
	}
	if !allInDomain {
		stats["cases-out-of-domain"]++
	}
	var w pkg.BitsWriter
	emit("bw new", "ok")
	for _, o := range ops {
		switch o.kind {
		case "bits":
			w.WriteBits(o.val, o.n)
			emit(fmt.Sprintf("bw bits %x %d", o.val, o.n), "ok")
		case "bit":
			w.WriteBit(uint(o.val))
			emit(fmt.Sprintf("bw bit %x", o.val), "ok")
		case "uvc":
			n := w.WriteUvarintCompact(o.val)
			emit(fmt.Sprintf("bw uvc %x", o.val), fmt.Sprintf("n=%d", n))
			stats[fmt.Sprintf("uvc-class-%d", bits.LeadingZeros64(o.val))]++
		case "vc":
			n := w.WriteVarintCompact(int64(o.val))
			emit(fmt.Sprintf("bw vc %x", o.val), fmt.Sprintf("n=%d", n))
		}
		stats["op-"+o.kind]++
	}
	bc := w.BitCount()
	w.Close()
	data := append([]byte(nil), w.Bytes()...)
	// (plain hex here, not hx: the model prints an empty buffer as the empty string)
	emit("bw close", fmt.Sprintf("bytes=%s bits=%d", hex.EncodeToString(data), bc))

	r := pkg.NewBitsReader()
	r.Reset(data)
	emit("br new "+hx(data), "ok")
	for i, o := range ops {
		var got uint64
		var op string
		switch o.kind {
		case "bits":
			got = r.ReadBits(o.n)
			op = fmt.Sprintf("br bits %d", o.n)
		case "bit":
			got = r.ReadBit()
			op = "br bit"
		case "uvc":
			got = r.ReadUvarintCompact()
			op = "br uvc"
		case "vc":
			got = uint64(r.ReadVarintCompact())
			op = "br vc"
		}
		emit(op, fmt.Sprintf("%016x eof=%d", got, eofFlag(r.Error())))
		want := o.val
		if o.kind == "bits" && o.n < 64 {
			want &= (uint64(1) << o.n) - 1
		}
		if allInDomain && (got != want || r.Error() != nil) {
			propFail("C20 roundtrip case=%s op#%d kind=%s wrote=%x n=%d read=%x err=%v", name, i, o.kind, o.val, o.n, got, r.Error())
		}
	}
	// over-read: keep reading past the end
	for k := 0; k < overread; k++ {
		v := r.ReadBits(8)
		emit("br bits 8", fmt.Sprintf("%016x eof=%d", v, eofFlag(r.Error())))
		stats["overread-ops"]++
	}
}

// opInDomain: the documented caller contract (value fits in nbits; compact varints below
// 2^48 / within [-2^47, 2^47-1]). Out-of-domain ops are still replayed on the model
// (correspondence), but the round-trip property is not evaluated on such a case.
func opInDomain(o wop) bool {
	switch o.kind {
	case "uvc":
		return o.val < 1<<48
	case "vc":
		return int64(o.val) < 1<<47 && int64(o.val) >= -(1<<47)
	case "bits":
		return o.n >= 64 || o.val>>o.n == 0
	case "bit":
		return o.val <= 1
	}
	return true
}

func classValues(r *rng.R, zeros int) []uint64 {
	if zeros == 64 {
		return []uint64{0}
	}
	nb := 64 - zeros
	lo := uint64(1) << (nb - 1)
	hi := lo | (lo - 1)
	return []uint64{lo, hi, r.BitsExact(nb), r.BitsExact(nb)}
}

func bitsPhase(r *rng.R, thorough bool) {
	// 1. every leading-zero class x every alignment x boundary and random payloads
	for zeros := 0; zeros <= 64; zeros++ {
		for align := 0; align < 64; align++ {
			var ops []wop
			if align > 0 {
				ops = append(ops, wop{"bits", r.U64() & ((1 << uint(align)) - 1), uint(align)})
			}
			for _, v := range classValues(r, zeros) {
				ops = append(ops, wop{"uvc", v, 0})
			}
			ops = append(ops, wop{"bit", 1, 0})
			runCase(fmt.Sprintf("uvc-z%d-a%d", zeros, align), ops, 0)
		}
	}
	// 2. WriteBits of every width at every alignment (spill path)
	for n := 0; n <= 64; n++ {
		for align := 0; align <= 64; align += 1 {
			var ops []wop
			rem := align
			for rem > 0 {
				k := rem
				if k > 64 {
					k = 64
				}
				ops = append(ops, wop{"bits", r.BitsExact(k), uint(k)})
				rem -= k
			}
			v := r.U64()
			if n < 64 {
				v &= (uint64(1) << uint(n)) - 1
			}
			ops = append(ops, wop{"bits", v, uint(n)}, wop{"bits", 0x5, 3})
			runCase(fmt.Sprintf("bits-n%d-a%d", n, align), ops, 0)
		}
	}
	// 3. random mixed sequences, including signed compact varints and over-reads
	nseq := 300
	if thorough {
		nseq = 6000
	}
	for i := 0; i < nseq; i++ {
		var ops []wop
		ln := 1 + r.Intn(60)
		for j := 0; j < ln; j++ {
			switch r.Intn(5) {
			case 0:
				n := r.Intn(65)
				v := r.U64()
				if n < 64 {
					v &= (uint64(1) << uint(n)) - 1
				}
				ops = append(ops, wop{"bits", v, uint(n)})
			case 1:
				ops = append(ops, wop{"bit", uint64(r.Intn(2)), 0})
			case 2:
				ops = append(ops, wop{"uvc", r.BitsExact(r.Intn(49)), 0})
			case 3:
				m := r.BitsExact(r.Intn(48))
				if r.Bool() {
					m = uint64(-int64(m))
				}
				ops = append(ops, wop{"vc", m, 0})
			case 4:
				// extremes of the signed domain
				vals := []int64{0, -1, 1, (1 << 47) - 1, -(1 << 47), 63, -64}
				ops = append(ops, wop{"vc", uint64(vals[r.Intn(len(vals))]), 0})
			}
		}
		over := 0
		if i%3 == 0 {
			over = 1 + r.Intn(12)
		}
		runCase(fmt.Sprintf("rand-%d", i), ops, over)
	}
	// 4. a few out-of-domain cases (correspondence only)
	for i := 0; i < 40; i++ {
		ops := []wop{{"bits", r.U64() & 0x3ff, 10}}
		if i%2 == 0 {
			ops = append(ops, wop{"uvc", r.BitsExact(49 + r.Intn(16)), 0})
		} else {
			ops = append(ops, wop{"bits", r.U64(), uint(1 + r.Intn(40))})
		}
		ops = append(ops, wop{"bits", 0x2a, 6})
		runCase(fmt.Sprintf("ood-%d", i), ops, 2)
	}
	// 5. readers over raw random buffers (reader-only; checks refill paths)
	nbuf := 200
	if thorough {
		nbuf = 3000
	}
	for i := 0; i < nbuf; i++ {
		ln := r.Intn(40)
		buf := make([]byte, ln)
		for k := range buf {
			buf[k] = byte(r.U64())
			if r.Chance(1, 4) {
				buf[k] = 0
			}
		}
		// ONE reader is reused for all raw cases (Reset on a reader whose previous buffer was read
		// only in part, or that ran into its end): Reset must leave nothing of the previous
		// buffer behind - the model starts every case from a fresh state
		if sharedRaw == nil || i%7 == 0 {
			sharedRaw = pkg.NewBitsReader()
		} else {
			stats["raw-reader-reused"]++
		}
		rd := sharedRaw
		rd.Reset(buf)
		note("case raw-%d", i)
		emit("br new "+hx(buf), "ok")
		stats["raw-reader-cases"]++
		steps := 1 + r.Intn(30)
		for s := 0; s < steps; s++ {
			panicked := false
			func() {
				defer func() {
					if e := recover(); e != nil {
						panicked = true
					}
				}()
				rawStep(r, rd)
			}()
			if panicked {
				emit(lastRawOp, "panic")
				stats["raw-reader-panics"]++
				sharedRaw = nil
				break
			}
			if rd.Error() != nil {
				break // after EOF the Go uint counters wrap; callers stop at the first error
			}
		}
	}
}

var lastRawOp string
var sharedRaw *pkg.BitsReader

func rawStep(r *rng.R, rd *pkg.BitsReader) {
	{
		{
			switch r.Intn(5) {
			case 0:
				n := uint(r.Intn(65))
				lastRawOp = fmt.Sprintf("br bits %d", n)
				v := rd.ReadBits(n)
				emit(fmt.Sprintf("br bits %d", n), fmt.Sprintf("%016x eof=%d", v, eofFlag(rd.Error())))
			case 1:
				v := rd.ReadBit()
				emit("br bit", fmt.Sprintf("%016x eof=%d", v, eofFlag(rd.Error())))
			case 2:
				v := rd.ReadUvarintCompact()
				emit("br uvc", fmt.Sprintf("%016x eof=%d", v, eofFlag(rd.Error())))
			case 3:
				n := uint(r.Intn(57))
				v := rd.PeekBits(n)
				emit(fmt.Sprintf("br peek %d", n), fmt.Sprintf("%016x eof=%d", v, eofFlag(rd.Error())))
				rd.Consume(n)
				emit(fmt.Sprintf("br consume %d", n), "ok")
			case 4:
				v := uint64(rd.ReadVarintCompact())
				emit("br vc", fmt.Sprintf("%016x eof=%d", v, eofFlag(rd.Error())))
			}
		}
	}
}

var _ = bytes.NewBuffer
var _ = math.Float64bits
var _ = codecs.ErrInvalidRefNum

func main() {
	thorough := os.Getenv("VERIF_TIER") == "thorough"
	r := rng.FromEnv(20)
	phase := "all"
	if len(os.Args) > 1 {
		phase = os.Args[1]
	}
	if phase == "all" || phase == "bits" {
		bitsPhase(r, thorough)
	}
	if phase == "all" || phase == "codecs" {
		codecsPhase(r, thorough)
		int64Cases(rng.FromEnv(2011), thorough)
		overlongVarintCases(rng.FromEnv(2020))
	}
	if phase == "limiter" {
		limiterPhase(r, thorough)
	}
	if phase == "alloc" {
		allocPhase(r, thorough)
		sizesPhase(r, thorough)
		decHostilePhase(r, thorough)
	}
	keys := make([]string, 0, len(stats))
	for k := range stats {
		keys = append(keys, k)
	}
	for _, k := range keys {
		note("stat %s %s", k, strconv.Itoa(stats[k]))
	}
	out.Flush()
}
