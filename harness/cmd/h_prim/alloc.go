package main

import (
	"fmt"
	"math"

	"github.com/splunk/stef/go/pkg"

	"verif/harness/internal/rng"
)

// allocPhase drives the real pkg.AllocSizeChecker; the Lean model (Stef/Alloc.lean) must agree on
// every answer. Direct oracle: a granted request never leaves the counter above
// RecordAllocLimit, and a refused one is refused for a reason (overflow or limit).
func allocPhase(r *rng.R, thorough bool) {
	n := 300
	if thorough {
		n = 5000
	}
	sizes := []uint{0, 1, 7, 64, 4096, 1 << 20, pkg.RecordAllocLimit - 1, pkg.RecordAllocLimit, pkg.RecordAllocLimit + 1,
		1 << 31, 1 << 32, 1 << 62, 1 << 63, math.MaxUint - 1, math.MaxUint}
	for c := 0; c < n; c++ {
		note("case alloc-%d", c)
		var a pkg.AllocSizeChecker
		emit("al reset", "ok")
		var granted uint64
		sawErr := false
		for s := 0; s < 3+r.Intn(25); s++ {
			pick := func() uint {
				if r.Chance(1, 3) {
					return uint(r.Intn(100000))
				}
				return sizes[r.Intn(len(sizes))]
			}
			switch r.Intn(5) {
			case 0:
				a.ResetAllocSize()
				emit("al reset", "ok")
				granted = 0
			case 1:
				k := pick()
				a.AddAllocSize(k)
				emit(fmt.Sprintf("al add %d", k), "ok")
				if granted+uint64(k) < granted {
					granted = math.MaxUint64
				} else {
					granted += uint64(k)
				}
			case 2, 3:
				k := pick()
				err := a.PrepAllocSize(k)
				emit(fmt.Sprintf("al prep %d", k), fmt.Sprintf("err=%s over=%s", b01(err != nil), b01(a.IsOverLimit())))
				if err == nil {
					granted += uint64(k)
					if granted > pkg.RecordAllocLimit {
						propFail("C03 alloc-granted-over-limit case=alloc-%d total=%d", c, granted)
					}
				} else {
					sawErr = true
				}
			case 4:
				x, y := pick(), pick()
				if r.Bool() {
					y = uint(r.Intn(2000))
				}
				err := a.PrepAllocSizeN(x, y)
				emit(fmt.Sprintf("al prepn %d %d", x, y), fmt.Sprintf("err=%s over=%s", b01(err != nil), b01(a.IsOverLimit())))
				if err == nil {
					granted += uint64(x) * uint64(y)
					if granted > pkg.RecordAllocLimit {
						propFail("C03 alloc-granted-over-limit case=alloc-%d total=%d", c, granted)
					}
				} else {
					sawErr = true
				}
			}
		}
		if sawErr {
			note("nontrivial %x", r.U64())
		}
		stats["alloc-cases"]++
	}
}
