package main

import (
	"fmt"

	"github.com/splunk/stef/go/pkg"

	"verif/harness/internal/rng"
)

func b01(b bool) string {
	if b {
		return "1"
	}
	return "0"
}

// limiterPhase drives the real pkg.SizeLimiter with random operation sequences; the Lean model
// (Stef/Limiter.lean) must answer DictLimitReached/FrameLimitReached identically after every op.
// It also evaluates the limiter's own contract directly: the dict flag is up iff the accumulated
// element sizes since the last reset reached the limit at some point; the frame flag is up iff
// the accumulated bits since the last frame reset are >= limit*8.
func limiterPhase(r *rng.R, thorough bool) {
	n := 300
	if thorough {
		n = 6000
	}
	for c := 0; c < n; c++ {
		note("case lim-%d", c)
		var l pkg.SizeLimiter
		emit("sl new", "ok")
		limits := []uint{0, 1, 2, 17, 100, 4096}
		dl, fl := limits[r.Intn(len(limits))], limits[r.Intn(len(limits))]
		l.Init(&pkg.WriterOptions{MaxTotalDictSize: dl, MaxUncompressedFrameByteSize: fl})
		emit(fmt.Sprintf("sl init %d %d", dl, fl), "ok")
		var dictSum, bitSum uint
		reached := false
		steps := 5 + r.Intn(40)
		hit := false
		for s := 0; s < steps; s++ {
			switch r.Intn(7) {
			case 0, 1:
				k := uint(r.Intn(60))
				l.AddDictElemSize(k)
				emit(fmt.Sprintf("sl dict %d", k), "ok")
				if dl != 0 {
					dictSum += k
					if dictSum >= dl {
						reached = true
					}
				}
			case 2:
				k := uint(r.Intn(300))
				l.AddFrameBits(k)
				emit(fmt.Sprintf("sl bits %d", k), "ok")
				bitSum += k
			case 3:
				k := uint(r.Intn(40))
				l.AddFrameBytes(k)
				emit(fmt.Sprintf("sl bytes %d", k), "ok")
				bitSum += k * 8
			case 4:
				if r.Chance(1, 3) {
					l.ResetDict()
					emit("sl resetdict", "ok")
					dictSum, reached = 0, false
				}
			case 5:
				if r.Chance(1, 3) {
					l.ResetFrameSize()
					emit("sl resetframe", "ok")
					bitSum = 0
				}
			}
			d, f := l.DictLimitReached(), l.FrameLimitReached()
			emit("sl q", fmt.Sprintf("dict=%s frame=%s", b01(d), b01(f)))
			wantF := fl != 0 && bitSum >= fl*8
			if d != reached {
				propFail("C08 limiter-dict-flag case=lim-%d step=%d limit=%d sum=%d got=%v want=%v", c, s, dl, dictSum, d, reached)
			}
			if f != wantF {
				propFail("C08 limiter-frame-flag case=lim-%d step=%d limit=%d bits=%d got=%v want=%v", c, s, fl, bitSum, f, wantF)
			}
			if d || f {
				hit = true
			}
		}
		if hit {
			note("nontrivial %x", r.U64())
		}
		stats["limiter-cases"]++
	}
}
