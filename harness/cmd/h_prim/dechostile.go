package main

import (
	"bytes"
	"encoding/binary"
	"fmt"
	"math"
	"runtime/debug"
	"strings"

	"github.com/splunk/stef/go/pkg"
	"github.com/splunk/stef/go/pkg/codecs"

	"verif/harness/internal/rng"
)

// decHostilePhase: C03 at the level of the primitive decoders. A column's bytes are untrusted:
// every decoder, fed arbitrary column content (with the emphasis on extreme varints: lengths up
// to MaxInt64, MinInt64, dangling continuation bytes), returns values or an error; it never panics
// and never returns a string longer than its column.
func decHostilePhase(r *rng.R, thorough bool) {
	overlongVarintCases(rng.FromEnv(2021))
	n := 800
	if thorough {
		n = 20000
	}
	extremes := []int64{1<<63 - 1, 1<<63 - 2, -1 << 63, -1<<63 + 1, 1 << 62, 1<<31 - 1, 1 << 31, 1 << 32, -1, -2, 0, 1, 64, 65, 1 << 20}
	for c := 0; c < n; c++ {
		name := fmt.Sprintf("dechostile-%d", c)
		note("case %s", name)
		// column content: a mix of zig-zag varints (extreme and small) and raw bytes
		var col []byte
		for k := r.Intn(6); k >= 0; k-- {
			switch r.Intn(4) {
			case 0:
				col = binary.AppendVarint(col, extremes[r.Intn(len(extremes))])
			case 1:
				col = binary.AppendVarint(col, int64(r.Intn(40))-8)
			case 2:
				for j := r.Intn(12); j > 0; j-- {
					col = append(col, byte(r.U64()))
				}
			default:
				for j := 1 + r.Intn(10); j > 0; j-- {
					col = append(col, 0xff)
				}
			}
		}
		kinds := []string{"str", "dstr", "bytes", "u64", "i64", "f64", "bool"}
		kind := kinds[r.Intn(len(kinds))]
		stats["dechostile-"+kind]++
		hostileOuts = hostileOuts[:0]
		res, pan, site := runDecoder(kind, col)
		if pan == "" && opKind[kind] != "" && res != "readfrom-err" {
			// the same column on the Lean decoder model, read by read (up to the first error)
			emit("cx new", "ok")
			emit("cx load "+opKind[kind]+" "+hx(col), "ok")
			for _, o := range hostileOuts {
				emit("cx "+opKind[kind], o)
			}
		}
		if pan != "" {
			note("nontrivial %x", uint64(c)*2654435761)
			propFail("C03 decoder-panic:%s case=%s the %s decoder panicked on a %d-byte column (%s) at %s; column=%s", slugPanic(pan), name, kind, len(col), pan, site, hx(col))
			continue
		}
		if strings.HasPrefix(res, "toolong") {
			propFail("C03 decoder-returns-more-than-column case=%s the %s decoder returned a value longer than its %d-byte column; column=%s", name, kind, len(col), hx(col))
		}
		if strings.Contains(res, "err") {
			note("nontrivial %x", uint64(c)*2654435761+1)
			stats["dechostile-errors"]++
		}
	}
}

// overlongVarintCases: a column that STARTS with a byte sequence that is not a 64-bit LEB128 varint
// (more than ten bytes with the continuation bit, or a tenth byte above 1): every decoder that reads a
// varint first (integers, string lengths, dictionary references) must report an error for its first
// value - such a position holds no value, whatever bits a lenient reader could make of it.
func overlongVarintCases(r *rng.R) {
	var cols [][]byte
	for _, n := range []int{10, 11, 12, 16, 20} {
		c := make([]byte, n)
		for i := range c {
			c[i] = 0x80 | byte(r.Intn(128))
		}
		cols = append(cols, append(c, byte(r.Intn(2))), append(append([]byte(nil), c...), 0x01, 0x05, 0x68, 0x69))
	}
	for _, tenth := range []byte{0x02, 0x7f, 0x03} {
		c := []byte{0x80, 0x80, 0x80, 0x80, 0x80, 0x80, 0x80, 0x80, 0x80, tenth}
		cols = append(cols, c, append(append([]byte(nil), c...), 0x02, 0x68, 0x69))
	}
	for ci, col := range cols {
		for _, kind := range []string{"u64", "i64", "str", "dstr", "bytes"} {
			name := fmt.Sprintf("overlong-%d-%s", ci, kind)
			note("case %s", name)
			stats["overlong-varint-cases"]++
			hostileOuts = hostileOuts[:0]
			first := ""
			res, pan, site := runDecoderFirst(kind, col, &first)
			if pan != "" {
				propFail("C03 decoder-panic:%s case=%s the %s decoder panicked on a %d-byte column (%s) at %s; column=%s", slugPanic(pan), name, kind, len(col), pan, site, hx(col))
				continue
			}
			note("nontrivial %x", uint64(ci)<<8|uint64(len(kind)))
			if res != "readfrom-err" && first != "err" {
				propFail("C20 overlong-varint-decoded-as-data case=%s the %s decoder returned a value (no error) for a column that starts with a byte sequence that is not a 64-bit varint; column=%s", name, kind, hx(col))
			}
		}
	}
}

// runDecoderFirst: as runDecoder; *first is "err" when the FIRST Decode call returned an error.
func runDecoderFirst(kind string, col []byte, first *string) (res, pan, site string) {
	firstProbe = first
	defer func() { firstProbe = nil }()
	return runDecoder(kind, col)
}

var firstProbe *string

var hostileOuts []string
var opKind = map[string]string{"str": "str", "dstr": "dstr", "u64": "u64", "f64": "f64", "bool": "bool"}

func slugPanic(msg string) string {
	var sb strings.Builder
	lastN := false
	for _, c := range strings.ToLower(msg) {
		switch {
		case c >= '0' && c <= '9':
			if !lastN {
				sb.WriteByte('N')
			}
			lastN = true
			continue
		case c >= 'a' && c <= 'z':
			sb.WriteRune(c)
		default:
			sb.WriteByte('-')
		}
		lastN = false
	}
	out := strings.Trim(sb.String(), "-")
	for strings.Contains(out, "--") {
		out = strings.ReplaceAll(out, "--", "-")
	}
	if len(out) > 60 {
		out = out[:60]
	}
	return out
}

func runDecoder(kind string, col []byte) (res, pan, site string) {
	defer func() {
		if e := recover(); e != nil {
			pan = fmt.Sprint(e)
			for _, l := range strings.Split(string(debug.Stack()), "\n") {
				l = strings.TrimSpace(l)
				if strings.HasPrefix(l, "/repo/") {
					if k := strings.LastIndex(l, " +0x"); k > 0 {
						l = l[:k]
					}
					site = strings.TrimPrefix(l, "/repo/")
					break
				}
			}
		}
	}()
	// hand the column to the decoder the way a frame does: size table + data through ReadBufs
	var rb pkg.ReadBufs
	var in bytes.Buffer
	bw := pkg.NewBitsWriter(0)
	bw.WriteUvarintCompact(uint64(len(col)))
	bw.Close()
	in.Write(binary.AppendUvarint(nil, uint64(len(bw.Bytes()))))
	in.Write(bw.Bytes())
	in.Write(col)
	type dec interface{ Continue() }
	var reads func() (string, error)
	switch kind {
	case "str":
		var d codecs.StringDecoder
		d.Init(&rb.Columns)
		defer func() {}()
		reads = func() (string, error) {
			var s string
			err := d.Decode(&s)
			if err != nil {
				hostileOuts = append(hostileOuts, errStr(err))
			} else {
				hostileOuts = append(hostileOuts, hx([]byte(s)))
			}
			return s, err
		}
		if err := rb.ReadFrom(&in, uint64(in.Len())); err != nil {
			return "readfrom-err", "", ""
		}
		d.Continue()
	case "dstr":
		var dict codecs.StringDictDecoderDict
		dict.Init()
		var d codecs.StringDictDecoder
		d.Init(&dict, &rb.Columns)
		reads = func() (string, error) {
			var s string
			err := d.Decode(&s)
			if err != nil {
				hostileOuts = append(hostileOuts, errStr(err))
			} else {
				hostileOuts = append(hostileOuts, hx([]byte(s)))
			}
			return s, err
		}
		if err := rb.ReadFrom(&in, uint64(in.Len())); err != nil {
			return "readfrom-err", "", ""
		}
		d.Continue()
	case "bytes":
		var d codecs.BytesDecoder
		d.Init(&rb.Columns)
		reads = func() (string, error) { var s pkg.Bytes; err := d.Decode(&s); return string(s), err }
		if err := rb.ReadFrom(&in, uint64(in.Len())); err != nil {
			return "readfrom-err", "", ""
		}
		d.Continue()
	case "u64":
		var d codecs.Uint64Decoder
		d.Init(&rb.Columns)
		reads = func() (string, error) {
			var v uint64
			err := d.Decode(&v)
			if err != nil {
				hostileOuts = append(hostileOuts, errStr(err))
			} else {
				hostileOuts = append(hostileOuts, fmt.Sprintf("%016x", v))
			}
			return "", err
		}
		if err := rb.ReadFrom(&in, uint64(in.Len())); err != nil {
			return "readfrom-err", "", ""
		}
		d.Continue()
	case "i64":
		var d codecs.Int64Decoder
		d.Init(&rb.Columns)
		reads = func() (string, error) { var v int64; err := d.Decode(&v); return "", err }
		if err := rb.ReadFrom(&in, uint64(in.Len())); err != nil {
			return "readfrom-err", "", ""
		}
		d.Continue()
	case "f64":
		var d codecs.Float64Decoder
		d.Init(&rb.Columns)
		reads = func() (string, error) {
			var v float64
			err := d.Decode(&v)
			hostileOuts = append(hostileOuts, fmt.Sprintf("%016x eof=%d", math.Float64bits(v), eofFlag(err)))
			return "", err
		}
		if err := rb.ReadFrom(&in, uint64(in.Len())); err != nil {
			return "readfrom-err", "", ""
		}
		d.Continue()
	default:
		var d codecs.BoolDecoder
		d.Init(&rb.Columns)
		reads = func() (string, error) {
			var v bool
			err := d.Decode(&v)
			bi := 0
			if v {
				bi = 1
			}
			hostileOuts = append(hostileOuts, fmt.Sprintf("%d eof=%d", bi, eofFlag(err)))
			return "", err
		}
		if err := rb.ReadFrom(&in, uint64(in.Len())); err != nil {
			return "readfrom-err", "", ""
		}
		d.Continue()
	}
	for i := 0; i < 40; i++ {
		s, err := reads()
		if i == 0 && firstProbe != nil {
			*firstProbe = "ok"
			if err != nil {
				*firstProbe = "err"
			}
		}
		if err != nil {
			return "err", "", ""
		}
		if len(s) > len(col) {
			return "toolong", "", ""
		}
	}
	return "ok", "", ""
}
