package main

// Concurrent use: Serialize / Deserialize / PrettyPrint / idl.Parse / NewWireSchema are functions of
// their arguments; calls on DIFFERENT values from several goroutines must give what the same calls
// give one after the other (the gRPC server serializes its wire schema in every stream handler, and
// every writer with a schema override does when it writes its header). The expected answers are
// computed sequentially first; the goroutines then repeat the calls on their own values and compare.
// A disagreement is reported with the two answers; the schedule itself cannot be replayed, the
// report says how often it occurred in how many calls.

import (
	"bytes"
	"fmt"
	"sync"

	"github.com/splunk/stef/go/pkg/idl"
	"github.com/splunk/stef/go/pkg/schema"

	"verif/harness/internal/rng"
)

type concWorker struct {
	counts [][]uint64
	bytes  [][]byte // sequential Serialize of each
	texts  []string // schema texts
	prints []string // sequential PrettyPrint(Parse(text))
	wires  [][]uint64
	roots  []string
}

func mkWS(cs []uint64) *schema.WireSchema {
	var w schema.WireSchema
	if err := w.Deserialize(bytes.NewReader(encCounts(cs))); err != nil {
		return nil
	}
	return &w
}

func concurrentCases() {
	r := rng.FromEnv(13003)
	workers := 8
	iters := 1500
	if thorough {
		iters = 12000
	}
	note("case concurrent-use workers=%d iterations=%d", workers, iters)
	ws := make([]*concWorker, workers)
	for i := range ws {
		w := &concWorker{}
		for k := 0; k < 4; k++ {
			l := 1 + r.Intn(40)
			if k == 3 {
				l = 200 + r.Intn(800)
			}
			cs := make([]uint64, l)
			for j := range cs {
				cs[j] = uint64(1 + r.Intn(200)) // distinct content per worker
				if r.Chance(1, 10) {
					cs[j] = uint64(r.Intn(1 << 20))
				}
			}
			x := mkWS(cs)
			if x == nil {
				continue
			}
			var b bytes.Buffer
			if err := x.Serialize(&b); err != nil {
				continue
			}
			w.counts = append(w.counts, cs)
			w.bytes = append(w.bytes, b.Bytes())
		}
		for k := 0; k < 3; k++ {
			text := genSchema(r, genOpts{oddFormat: r.Bool()})
			s, err := idl.Parse([]byte(text), "t.stef")
			if err != nil {
				continue
			}
			root := ""
			for name, st := range s.Structs {
				if st.IsRoot && (root == "" || name < root) {
					root = name
				}
			}
			w.texts = append(w.texts, text)
			w.prints = append(w.prints, s.PrettyPrint())
			w.roots = append(w.roots, root)
			var wc []uint64
			if root != "" {
				x := schema.NewWireSchema(s, root)
				wc = wireCounts(&x)
			}
			w.wires = append(w.wires, wc)
		}
		ws[i] = w
	}
	var mu sync.Mutex
	bad := map[string]int{}
	first := map[string]string{}
	calls := 0
	report := func(sig, f string, a ...any) {
		mu.Lock()
		bad[sig]++
		if _, ok := first[sig]; !ok {
			first[sig] = fmt.Sprintf(f, a...)
		}
		mu.Unlock()
	}
	var wg sync.WaitGroup
	start := make(chan struct{})
	for i, w := range ws {
		wg.Add(1)
		go func(i int, w *concWorker) {
			defer wg.Done()
			defer func() {
				if p := recover(); p != nil {
					report("concurrent-use-panic", "goroutine %d panicked: %v", i, p)
				}
			}()
			<-start
			n := 0
			for it := 0; it < iters; it++ {
				for k, cs := range w.counts {
					x := mkWS(cs)
					n++
					if x == nil {
						report("concurrent-deserialize-differs", "Deserialize of %d counts failed under concurrent use, succeeded alone", len(cs))
						continue
					}
					if got := wireCounts(x); !eqCounts(got, cs) {
						report("concurrent-deserialize-differs", "counts %v deserialize as %v while other goroutines deserialize other schemas", cs, got)
					}
					var b bytes.Buffer
					err := x.Serialize(&b)
					n++
					if err != nil || !bytes.Equal(b.Bytes(), w.bytes[k]) {
						report("concurrent-serialize-differs", "Serialize of counts %v gives %s (err %v) while other goroutines serialize OTHER WireSchema values into their own buffers; alone it gives %s", cs, hx(b.Bytes()), err, hx(w.bytes[k]))
					}
				}
				if it%8 == 0 {
					for k, text := range w.texts {
						s, err := idl.Parse([]byte(text), "t.stef")
						n++
						if err != nil {
							report("concurrent-parse-differs", "idl.Parse fails under concurrent use (%v), succeeded alone: %s", err, quote(text))
							continue
						}
						if p := s.PrettyPrint(); p != w.prints[k] {
							report("concurrent-print-differs", "PrettyPrint(Parse(t)) differs under concurrent use for %s", quote(text))
						}
						if w.roots[k] != "" {
							x := schema.NewWireSchema(s, w.roots[k])
							if got := wireCounts(&x); !eqCounts(got, w.wires[k]) {
								report("concurrent-wireschema-differs", "NewWireSchema lists %v under concurrent use, %v alone, for %s", got, w.wires[k], quote(text))
							}
						}
					}
				}
			}
			mu.Lock()
			calls += n
			mu.Unlock()
		}(i, w)
	}
	close(start)
	wg.Wait()
	stats["concurrent-calls"] += calls
	note("nontrivial %x", uint64(calls))
	for sig, n := range bad {
		propFail("C13", sig, "%d of %d calls made from %d goroutines on values of their own disagree with the same calls made one after the other; first: %s", n, calls, workers, first[sig])
	}
}
