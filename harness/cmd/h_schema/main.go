// h_schema drives the REAL schema front end of /repo: idl.Parse (lexer, parser, ResolveRefs,
// computeRecursive, PruneUnused), schema.PrettyPrint, schema.NewWireSchema and
// WireSchema.Serialize/Deserialize.
//
// Output protocol (AGENTS.md): "<op line>\t<implementation output>" lines are replayed on the
// Lean model (sub-driver lean/Stef/Driver/Schema.lean, first tokens "idl" and "ws"), "#" lines
// are case markers / statistics, "PROP-FAIL <Cxx> <signature> ..." lines report that the
// property itself failed on the implementation (evaluated here, independent of the model).
//
//	idl parse <hex text>   -> ok <canonical dump> | err <line>:<col>:<ofs> <class> | panic <site>
//	                          (the model remembers the schema of the last successful parse)
//	idl print              -> <hex of PrettyPrint(last schema)>
//	ws new <root>          -> counts <c1,c2,...>       (NewWireSchema(last schema, root))
//	ws init <root>         -> counts <c1,c2,...>       (order in which the GENERATED Encoder.Init
//	                          code of otelstef fetches the struct field counts, read off the Go
//	                          source with go/ast and simulated here)
//	ws deser <hex bytes>   -> ok <n> <hex of Serialize> | err:<eof|ueof|overflow|limit>
//
// modes (argv[1]): c12 (parser inputs), c13 (print/parse, wire schema, serde), all.
package main

import (
	"bufio"
	"bytes"
	"encoding/binary"
	"encoding/hex"
	"errors"
	"fmt"
	"go/ast"
	"go/parser"
	"go/token"
	"io"
	"os"
	"path/filepath"
	"regexp"
	"sort"
	"strconv"
	"strings"
	"time"

	"github.com/splunk/stef/go/otel/otelstef"
	"github.com/splunk/stef/go/pkg/idl"
	"github.com/splunk/stef/go/pkg/schema"

	"verif/harness/internal/rng"
)

var out = bufio.NewWriterSize(os.Stdout, 1<<20)

func emit(op, res string)     { fmt.Fprintf(out, "%s\t%s\n", op, res) }
func note(f string, a ...any) { fmt.Fprintf(out, "# "+f+"\n", a...) }

var stats = map[string]int{}
var thorough = os.Getenv("VERIF_TIER") == "thorough"
var repoDir = func() string {
	if v := os.Getenv("VERIF_REPO"); v != "" {
		return v
	}
	return "/repo"
}()

// propFail prints at most a few full lines per signature (the check only needs one per
// signature; thousands of identical known-finding lines would only bloat the log).
var failCount = map[string]int{}

func propFail(prop, sig, f string, a ...any) {
	failCount[prop+" "+sig]++
	stats["propfail-"+prop+"-"+sig]++
	if failCount[prop+" "+sig] <= 5 {
		fmt.Fprintf(out, "PROP-FAIL %s %s %s\n", prop, sig, fmt.Sprintf(f, a...))
	}
}

func hx(b []byte) string {
	if len(b) == 0 {
		return "-"
	}
	return hex.EncodeToString(b)
}

func quote(s string) string {
	if len(s) > 160 {
		s = s[:160] + "..."
	}
	return strconv.QuoteToASCII(s)
}

func fnv(s string) uint64 {
	h := uint64(1469598103934665603)
	for i := 0; i < len(s); i++ {
		h = (h ^ uint64(s[i])) * 1099511628211
	}
	return h
}

func isASCII(s string) bool {
	for i := 0; i < len(s); i++ {
		if s[i] >= 0x80 {
			return false
		}
	}
	return true
}

// ---------------------------------------------------------------- canonical dump

type dumpOpts struct {
	eraseArrayDicts bool // omit dictionary names on arrays and array elements
	enumAsUint64    bool // print enum-typed fields as uint64 and omit enum definitions
}

func safeRecursive(ft *schema.FieldType) (r bool) {
	defer func() {
		if recover() != nil {
			r = false
		}
	}()
	return ft.Recursive()
}

func dumpFT(ft *schema.FieldType, o dumpOpts, inArray bool) string {
	var s string
	switch {
	case ft.Primitive != nil && ft.Enum != "":
		if o.enumAsUint64 {
			s = "uint64"
		} else {
			s = "e." + ft.Enum
		}
	case ft.Primitive != nil:
		switch ft.Primitive.Type {
		case schema.PrimitiveTypeInt64:
			s = "int64"
		case schema.PrimitiveTypeUint64:
			s = "uint64"
		case schema.PrimitiveTypeFloat64:
			s = "float64"
		case schema.PrimitiveTypeBool:
			s = "bool"
		case schema.PrimitiveTypeString:
			s = "string"
		case schema.PrimitiveTypeBytes:
			s = "bytes"
		default:
			s = "prim?"
		}
	case ft.Array != nil:
		s = "[" + dumpFT(&ft.Array.ElemType, o, true) + "]"
		inArray = true
	case ft.Struct != "":
		s = "s." + ft.Struct
	case ft.MultiMap != "":
		s = "m." + ft.MultiMap
	case ft.Enum != "":
		s = "e?." + ft.Enum
	default:
		return "none"
	}
	if ft.DictName != "" && !(o.eraseArrayDicts && inArray) {
		s += "@" + ft.DictName
	}
	if ft.Primitive == nil && safeRecursive(ft) {
		s += "~"
	}
	return s
}

func sortedKeys[T any](m map[string]T) []string {
	var ks []string
	for k := range m {
		ks = append(ks, k)
	}
	sort.Strings(ks)
	return ks
}

func dumpSchema(s *schema.Schema, o dumpOpts) string {
	var b strings.Builder
	b.WriteString("pkg:" + strings.Join(s.PackageName, "."))
	if !o.enumAsUint64 {
		for _, k := range sortedKeys(s.Enums) {
			e := s.Enums[k]
			b.WriteString(" enum:" + k + "{")
			for i, f := range e.Fields {
				if i > 0 {
					b.WriteString(",")
				}
				fmt.Fprintf(&b, "%s=%d", f.Name, f.Value)
			}
			b.WriteString("}")
		}
	}
	for _, k := range sortedKeys(s.Multimaps) {
		m := s.Multimaps[k]
		b.WriteString(" mm:" + k)
		b.WriteString("{" + dumpFT(&m.Key.Type, o, false) + "," + dumpFT(&m.Value.Type, o, false) + "}")
	}
	for _, k := range sortedKeys(s.Structs) {
		st := s.Structs[k]
		if st.OneOf {
			b.WriteString(" oneof:" + k)
		} else {
			b.WriteString(" struct:" + k)
		}
		if st.DictName != "" {
			b.WriteString("@" + st.DictName)
		}
		if st.IsRoot {
			b.WriteString("!")
		}
		if st.Recursive() {
			b.WriteString("~")
		}
		b.WriteString("{")
		for i, f := range st.Fields {
			if i > 0 {
				b.WriteString(",")
			}
			b.WriteString(f.Name + ":" + dumpFT(&f.FieldType, o, false))
			if f.Optional {
				b.WriteString("?")
			}
		}
		b.WriteString("}")
	}
	return b.String()
}

// ---------------------------------------------------------------- error classes

func tokName(s string) string {
	switch s {
	case "\x00":
		return "error"
	case string(rune(19)):
		return "number"
	}
	return s
}

func classify(msg string) string {
	has := func(p string) bool { return strings.HasPrefix(msg, p) }
	switch {
	case has("expected struct, oneof or multimap"):
		return "expected-def"
	case has("expected "):
		rest := strings.TrimPrefix(msg, "expected ")
		i := strings.Index(rest, " but got ")
		if i < 0 {
			return "other:" + strconv.QuoteToASCII(msg)
		}
		return "expected:" + tokName(rest[:i]) + ":" + tokName(rest[i+9:])
	case has("struct name expected"):
		return "struct-name"
	case has("multimap name expected"):
		return "multimap-name"
	case has("enum name expected"):
		return "enum-name"
	case has("duplicate top-level identifier: "):
		return "dup-top:" + strings.TrimPrefix(msg, "duplicate top-level identifier: ")
	case has("duplicate field name: "):
		return "dup-field:" + strings.TrimPrefix(msg, "duplicate field name: ")
	case has("duplicate enum field name: "):
		return "dup-enum-field:" + strings.TrimPrefix(msg, "duplicate enum field name: ")
	case has("oneof cannot have dict modifier"):
		return "oneof-dict"
	case has("oneof cannot be a root"):
		return "oneof-root"
	case has("root struct must have at least one field"):
		return "root-empty"
	case has("dict name expected"):
		return "dict-name"
	case has("type specifier expected after []"):
		return "array-type"
	case has("type specifier expected"):
		return "type-expected"
	case has("only string or bytes can have dict modifier"):
		return "dict-prim"
	case has("identifier expected"):
		return "pkg-ident"
	case has("enum field value expected"):
		return "enum-value"
	case has("unknown type: "):
		return "unknown-type"
	case has("ambiguous type: "):
		return "ambiguous-type"
	}
	return "other:" + strconv.QuoteToASCII(msg)
}

func slug(s string) string {
	var b strings.Builder
	for _, c := range strings.ToLower(s) {
		switch {
		case c >= 'a' && c <= 'z', c >= '0' && c <= '9':
			b.WriteRune(c)
		default:
			if b.Len() > 0 && !strings.HasSuffix(b.String(), "-") {
				b.WriteByte('-')
			}
		}
	}
	r := strings.TrimSuffix(b.String(), "-")
	if len(r) > 40 {
		r = r[:40]
	}
	if r == "" {
		r = "unknown"
	}
	return r
}

// ---------------------------------------------------------------- running the real parser

type parseResult struct {
	kind   string // ok, err, panic
	sch    *schema.Schema
	class  string
	pos    idl.Pos
	hasPos bool
	site   string
	out    string
}

// realParse runs idl.Parse under a watchdog: C12 demands termination, and a parser that spins
// cannot be stopped from outside, so on a timeout the input is reported and the harness exits.
func realParse(text string) parseResult {
	done := make(chan parseResult, 1)
	go func() { done <- realParse1(text) }()
	select {
	case r := <-done:
		return r
	case <-time.After(1500 * time.Millisecond):
		propFail("C12", "parser-hang", "idl.Parse did not return within 1.5 s on input %s", quote(text))
		note("harness stops here: the spinning parser goroutine cannot be cancelled")
		out.Flush()
		os.Exit(0)
	}
	panic("unreachable")
}

func realParse1(text string) (r parseResult) {
	defer func() {
		if p := recover(); p != nil {
			r = parseResult{kind: "panic", site: slug(fmt.Sprint(p))}
			r.out = "panic " + r.site
		}
	}()
	s, err := idl.Parse([]byte(text), "t.stef")
	if err != nil {
		r.kind = "err"
		var pe *idl.Error
		if errors.As(err, &pe) {
			r.hasPos = true
			r.pos = pe.Pos
			r.class = classify(pe.Msg)
			r.out = fmt.Sprintf("err %d:%d:%d %s", pe.Pos.Line, pe.Pos.Col, pe.Pos.ByteOfs, r.class)
		} else {
			r.class = "untyped:" + strconv.QuoteToASCII(err.Error())
			r.out = "err ?:?:? " + r.class
		}
		return r
	}
	r.kind = "ok"
	r.sch = s
	r.out = "ok " + dumpSchema(s, dumpOpts{})
	return r
}

func lineBreaksBefore(text string, ofs int) int {
	n := 0
	for i := 0; i < ofs && i < len(text); i++ {
		switch text[i] {
		case '\r':
			n++
			if i+1 < ofs && i+1 < len(text) && text[i+1] == '\n' {
				i++
			}
		case '\n':
			n++
		}
	}
	return n
}

// wellFormed evaluates the C12 well-formedness conclusion on a returned schema.
func wellFormed(s *schema.Schema) (sig, desc string) {
	if s == nil || s.Structs == nil || s.Multimaps == nil || s.Enums == nil {
		return "illformed-nil-schema", "nil schema or maps"
	}
	count := map[string]int{}
	for k, v := range s.Structs {
		count[k]++
		if v == nil || v.Name != k {
			return "illformed-struct-key", k
		}
	}
	for k, v := range s.Multimaps {
		count[k]++
		if v == nil || v.Name != k {
			return "illformed-multimap-key", k
		}
	}
	for k, v := range s.Enums {
		count[k]++
		if v == nil || v.Name != k {
			return "illformed-enum-key", k
		}
	}
	for k, c := range count {
		if c != 1 {
			return "illformed-dup-top-level", k
		}
	}
	var checkFT func(where string, ft *schema.FieldType, depth int) (string, string)
	checkFT = func(where string, ft *schema.FieldType, depth int) (string, string) {
		set := 0
		if ft.Array != nil {
			set++
		}
		if ft.Struct != "" {
			set++
		}
		if ft.MultiMap != "" {
			set++
		}
		if ft.Enum != "" {
			set++
		}
		if ft.Primitive != nil && ft.Enum == "" {
			set++
		}
		if set == 0 {
			return "illformed-empty-type", where
		}
		if set > 1 {
			return "illformed-ambiguous-type", where
		}
		switch {
		case ft.Struct != "":
			d, ok := s.Structs[ft.Struct]
			if !ok || s.Multimaps[ft.Struct] != nil || s.Enums[ft.Struct] != nil {
				return "illformed-unresolved-ref", where + " -> " + ft.Struct
			}
			if ft.StructDef != d {
				return "illformed-structdef-pointer", where + " -> " + ft.Struct
			}
		case ft.MultiMap != "":
			d, ok := s.Multimaps[ft.MultiMap]
			if !ok || s.Structs[ft.MultiMap] != nil || s.Enums[ft.MultiMap] != nil {
				return "illformed-unresolved-ref", where + " -> " + ft.MultiMap
			}
			if ft.MultimapDef != d {
				return "illformed-multimapdef-pointer", where + " -> " + ft.MultiMap
			}
		case ft.Enum != "":
			_, ok := s.Enums[ft.Enum]
			if !ok || s.Structs[ft.Enum] != nil || s.Multimaps[ft.Enum] != nil {
				return "illformed-unresolved-ref", where + " -> " + ft.Enum
			}
			if ft.Primitive == nil || ft.Primitive.Type != schema.PrimitiveTypeUint64 {
				return "illformed-enum-not-uint64", where
			}
		case ft.Array != nil:
			if depth > 4 {
				return "illformed-deep-array", where
			}
			return checkFT(where+"[]", &ft.Array.ElemType, depth+1)
		}
		return "", ""
	}
	for k, st := range s.Structs {
		names := map[string]bool{}
		for _, f := range st.Fields {
			if f == nil {
				return "illformed-nil-field", k
			}
			if names[f.Name] {
				return "illformed-dup-field", k + "." + f.Name
			}
			names[f.Name] = true
			if sg, d := checkFT(k+"."+f.Name, &f.FieldType, 0); sg != "" {
				return sg, d
			}
		}
		if st.IsRoot && len(st.Fields) == 0 {
			return "illformed-root-without-fields", k
		}
	}
	for k, m := range s.Multimaps {
		if sg, d := checkFT(k+".key", &m.Key.Type, 0); sg != "" {
			return sg, d
		}
		if sg, d := checkFT(k+".value", &m.Value.Type, 0); sg != "" {
			return sg, d
		}
	}
	return "", ""
}

// declaredTwice is an independent scan of an (ASCII) schema text: the first top-level name that is
// declared twice by struct / oneof / multimap / enum declarations, or "".
func declaredTwice(text string) string {
	if !isASCII(text) {
		return ""
	}
	// strip // comments
	var sb strings.Builder
	// (the lexer ends a comment at \r as well as at \n: lexer.go skipComment)
	for _, line := range strings.FieldsFunc(text, func(c rune) bool { return c == '\n' || c == '\r' }) {
		if i := strings.Index(line, "//"); i >= 0 {
			line = line[:i]
		}
		sb.WriteString(line)
		sb.WriteByte('\n')
	}
	var toks []string
	cur := ""
	flush := func() {
		if cur != "" {
			toks = append(toks, cur)
			cur = ""
		}
	}
	for _, c := range sb.String() {
		switch {
		case c == '{' || c == '}' || c == '(' || c == ')' || c == '[' || c == ']' || c == '=':
			flush()
			toks = append(toks, string(c))
		case c == ' ' || c == '\t' || c == '\n' || c == '\r':
			flush()
		default:
			cur += string(c)
		}
	}
	flush()
	depth := 0
	seen := map[string]bool{}
	for i, t := range toks {
		switch t {
		case "{":
			depth++
		case "}":
			depth--
		case "struct", "oneof", "multimap", "enum":
			if depth == 0 && i+1 < len(toks) {
				n := toks[i+1]
				if seen[n] {
					return n
				}
				seen[n] = true
			}
		}
	}
	return ""
}

// dupEnumMember names an enum member that an ACCEPTED schema declares twice (finding
// dup-enum-member-accepted, fixed in ed6fa67: the parser now answers "duplicate enum field
// name"). The check stays so that a regression is reported under its old signature.
func dupEnumMember(s *schema.Schema) string {
	for _, k := range sortedKeys(s.Enums) {
		seen := map[string]bool{}
		for _, f := range s.Enums[k].Fields {
			if seen[f.Name] {
				return k + "." + f.Name
			}
			seen[f.Name] = true
		}
	}
	return ""
}

var seenNontrivial = map[uint64]bool{}
var sampleCount = 0

// parseCase runs one input through the real parser, prints the op line for the model (ASCII
// inputs only) and evaluates the C12 property on the implementation.
func parseCase(name, text string) parseResult {
	stats["parse-cases"]++
	note("case %s", name)
	r := realParse(text)
	if isASCII(text) {
		emit("idl parse "+hx([]byte(text)), r.out)
	} else {
		stats["parse-nonascii(no-model-op)"]++
	}
	stats["parse-result-"+r.kind]++
	nontrivial := false
	switch r.kind {
	case "panic":
		nontrivial = true
		propFail("C12", "parser-panic-"+r.site, "idl.Parse panics (%s) on input %s", r.site, quote(text))
	case "err":
		cls := r.class
		if i := strings.Index(cls, ":"); i > 0 {
			cls = cls[:i]
		}
		stats["parse-errclass-"+cls]++
		if !r.hasPos {
			propFail("C12", "error-not-positioned", "error is not an *idl.Error: %s input %s", r.class, quote(text))
		} else if r.pos.Line < 1 || r.pos.Col < 1 || r.pos.ByteOfs > uint(len(text)) || r.pos.Unknown() {
			propFail("C12", "error-position-outside-input", "pos %d:%d ofs %d for input of %d bytes %s",
				r.pos.Line, r.pos.Col, r.pos.ByteOfs, len(text), quote(text))
		}
		if r.hasPos && !r.pos.Unknown() && r.pos.ByteOfs <= uint(len(text)) {
			// the LINE of the position against a count of the harness's own: the line terminators (CR LF
			// as one, a lone CR, a lone LF) in the text before the reported byte offset
			if want := uint(1 + lineBreaksBefore(text, int(r.pos.ByteOfs))); r.pos.Line != want {
				propFail("C12", "error-line-wrong", "the error position says line %d (col %d, byte offset %d); the text has %d line terminators before that offset, so it is line %d; input %s",
					r.pos.Line, r.pos.Col, r.pos.ByteOfs, want-1, want, quote(text))
			}
		}
		nontrivial = !strings.HasPrefix(r.class, "expected:package") && r.class != "pkg-ident"
	case "ok":
		if sg, d := wellFormed(r.sch); sg != "" {
			propFail("C12", sg, "idl.Parse returned an ill-formed schema (%s) for input %s", d, quote(text))
		}
		if d := dupEnumMember(r.sch); d != "" {
			propFail("C12", "dup-enum-member-accepted", "enum member name %s is declared twice and accepted; input %s", d, quote(text))
		}
		if d := declaredTwice(text); d != "" {
			// judged on the input text: the returned schema cannot show it (a map keyed by name)
			propFail("C12", "dup-top-level-accepted", "the top-level name %s is declared twice and the input is accepted; input %s", d, quote(text))
		}
		nontrivial = len(r.sch.Structs) > 0
		stats["parse-ok-structs"] += len(r.sch.Structs)
	}
	if nontrivial {
		h := fnv(text)
		if !seenNontrivial[h] {
			seenNontrivial[h] = true
			note("nontrivial %x", h)
		}
	}
	if stats["parse-cases"]%1499 == 7 && sampleCount < 10 {
		sampleCount++
		note("sample %s input=%s -> %s", name, quote(text), quote(r.out))
	}
	return r
}

// ---------------------------------------------------------------- wire schema helpers

func wireCounts(w *schema.WireSchema) []uint64 {
	it := schema.NewWireSchemaIter(w)
	var cs []uint64
	for !it.Done() {
		c, err := it.NextFieldCount()
		if err != nil {
			break
		}
		cs = append(cs, uint64(c))
	}
	return cs
}

func countsStr(cs []uint64) string {
	if len(cs) == 0 {
		return "counts -"
	}
	var p []string
	for _, c := range cs {
		p = append(p, strconv.FormatUint(c, 10))
	}
	return "counts " + strings.Join(p, ",")
}

func newWire(s *schema.Schema, root string) (cs []uint64, panicked string) {
	defer func() {
		if p := recover(); p != nil {
			panicked = slug(fmt.Sprint(p))
		}
	}()
	w := schema.NewWireSchema(s, root)
	return wireCounts(&w), ""
}

func roots(s *schema.Schema) []string {
	var rs []string
	for _, k := range sortedKeys(s.Structs) {
		if s.Structs[k].IsRoot {
			rs = append(rs, k)
		}
	}
	return rs
}

func eqCounts(a, b []uint64) bool {
	if len(a) != len(b) {
		return false
	}
	for i := range a {
		if a[i] != b[i] {
			return false
		}
	}
	return true
}

// initOrderFromSchema is the harness's own statement of the order in which code generated by
// stefc (templates struct/oneof/multimap/array .go.tmpl) fetches struct field counts in Init:
// an encoder marks itself in the state while it initialises (on-stack), fetches its own count
// first (only the first fetch per struct consumes a wire count), then initialises its field
// encoders in field order; a field whose encoder type is marked is not descended into.
// It shares no code with schema.NewWireSchema / structCountTree.
func initOrderFromSchema(s *schema.Schema, root string) []uint64 {
	var order []uint64
	fetched := map[string]bool{}
	onStack := map[string]bool{}
	var initFT func(ft *schema.FieldType, depth int)
	initStruct := func(st *schema.Struct, depth int) {
		onStack["s:"+st.Name] = true
		if !fetched[st.Name] {
			fetched[st.Name] = true
			order = append(order, uint64(len(st.Fields)))
		}
		for _, f := range st.Fields {
			initFT(&f.FieldType, depth+1)
		}
		onStack["s:"+st.Name] = false
	}
	initFT = func(ft *schema.FieldType, depth int) {
		if depth > 10000 {
			return
		}
		switch {
		case ft.Primitive != nil:
		case ft.Array != nil:
			e := &ft.Array.ElemType
			if e.Primitive != nil {
				return
			}
			key := "a:" + e.Struct + e.MultiMap
			if onStack[key] {
				return
			}
			onStack[key] = true
			initFT(e, depth+1)
			onStack[key] = false
		case ft.Struct != "":
			if onStack["s:"+ft.Struct] {
				return
			}
			if st := s.Structs[ft.Struct]; st != nil {
				initStruct(st, depth)
			}
		case ft.MultiMap != "":
			if onStack["m:"+ft.MultiMap] {
				return
			}
			if m := s.Multimaps[ft.MultiMap]; m != nil {
				onStack["m:"+ft.MultiMap] = true
				initFT(&m.Key.Type, depth+1)
				initFT(&m.Value.Type, depth+1)
				onStack["m:"+ft.MultiMap] = false
			}
		}
	}
	if st := s.Structs[root]; st != nil {
		initStruct(st, 0)
	}
	return order
}

// ---------------------------------------------------------------- C13: print -> parse oracle

type triggers struct {
	arrayElemDict bool // a dictionary on an array element type (or on an array)
	enumField     bool // an enum-typed field
	enumDict      bool // an enum-typed field with a dict modifier
	empty         bool // no struct left after pruning (no root)
}

func findTriggers(s *schema.Schema) triggers {
	var t triggers
	var visit func(ft *schema.FieldType)
	visit = func(ft *schema.FieldType) {
		if ft.Enum != "" {
			t.enumField = true
			if ft.DictName != "" {
				t.enumDict = true
			}
		}
		if ft.Array != nil {
			if ft.Array.ElemType.DictName != "" || ft.DictName != "" {
				t.arrayElemDict = true
			}
			visit(&ft.Array.ElemType)
		}
	}
	for _, st := range s.Structs {
		for _, f := range st.Fields {
			visit(&f.FieldType)
		}
	}
	for _, m := range s.Multimaps {
		visit(&m.Key.Type)
		visit(&m.Value.Type)
	}
	t.empty = len(s.Structs) == 0
	return t
}

func safePrint(s *schema.Schema) (txt string, panicked string) {
	defer func() {
		if p := recover(); p != nil {
			panicked = slug(fmt.Sprint(p))
		}
	}()
	return s.PrettyPrint(), ""
}

// printParseCase: text is parsed; on success the schema is printed, re-parsed and compared.
func printParseCase(name, text string) {
	r := parseCase(name, text)
	if r.kind != "ok" {
		return
	}
	stats["c13-schemas"]++
	s := r.sch
	tr := findTriggers(s)
	if tr.arrayElemDict {
		stats["c13-trigger-array-elem-dict"]++
	}
	if tr.enumField {
		stats["c13-trigger-enum-field"]++
	}
	if tr.enumDict {
		stats["c13-trigger-enum-dict"]++
	}
	if tr.empty {
		stats["c13-trigger-empty"]++
	}
	if !tr.arrayElemDict && !tr.enumField && !tr.empty {
		stats["c13-triggerfree"]++
	}
	asc := isASCII(text)
	// wire schema of every root of the original
	rs := roots(s)
	wires := map[string][]uint64{}
	for _, root := range rs {
		cs, p := newWire(s, root)
		if p != "" {
			propFail("C13", "wire-panic-"+p, "NewWireSchema panics for root %s of %s", root, quote(text))
			if asc {
				emit("ws new "+root, "panic")
			}
			continue
		}
		wires[root] = cs
		if io := initOrderFromSchema(s, root); !eqCounts(io, cs) {
			propFail("C13", "wire-order-mismatch",
				"root %s: NewWireSchema lists %v but generated Init code would fetch the counts in order %v; schema %s", root, cs, io, quote(text))
		}
		stats["c13-wire-roots"]++
		stats["c13-wire-counts"] += len(cs)
		if asc {
			emit("ws new "+root, countsStr(cs))
			// wire_order in full generality (recursion included), checked on the model: the
			// model of the generated Init order must consume exactly the counts that the REAL
			// NewWireSchema lists, in the same order.
			emit("ws init "+root, countsStr(cs))
		}
		serdeOfCounts(cs, fmt.Sprintf("wire %s/%s", name, root))
	}
	printed, pp := safePrint(s)
	if pp != "" {
		propFail("C13", "print-panic-"+pp, "PrettyPrint panics for %s", quote(text))
		return
	}
	if asc {
		emit("idl print", hx([]byte(printed)))
	}
	r2 := parseCase(name+"/reparse", printed)
	switch r2.kind {
	case "panic":
		propFail("C13", "print-reparse-panic", "parsing the pretty-printed text panics: %s", quote(printed))
		return
	case "err":
		switch {
		case tr.enumDict && r2.class == "dict-prim":
			propFail("C13", "print-enum-dict-unparsable",
				"an enum-typed field with dict(...) prints as `uint64 dict(...)`, which the parser rejects (%s); original %s", r2.out, quote(text))
		case tr.empty && r2.class == "expected-def":
			propFail("C13", "print-empty-schema-unparsable",
				"a schema without root prunes to the empty schema, whose printed form %s is rejected (%s); original %s", quote(printed), r2.out, quote(text))
		default:
			propFail("C13", "print-reparse-error", "printed text is rejected: %s printed %s original %s", r2.out, quote(printed), quote(text))
		}
		return
	}
	s2 := r2.sch
	d1, d2 := dumpSchema(s, dumpOpts{}), dumpSchema(s2, dumpOpts{})
	if d1 != d2 {
		// which known normalisations explain the difference completely?
		explained := false
		cands := []dumpOpts{}
		if tr.arrayElemDict {
			cands = append(cands, dumpOpts{eraseArrayDicts: true})
		}
		if tr.enumField {
			cands = append(cands, dumpOpts{enumAsUint64: true})
		}
		if tr.arrayElemDict && tr.enumField {
			cands = append(cands, dumpOpts{eraseArrayDicts: true, enumAsUint64: true})
		}
		for _, o := range cands {
			if dumpSchema(s, o) == dumpSchema(s2, o) {
				explained = true
				if o.eraseArrayDicts {
					propFail("C13", "print-array-elem-dict",
						"PrettyPrint drops dict(...) of an array element type: %s re-parses as %s", quote(d1), quote(d2))
				}
				if o.enumAsUint64 {
					propFail("C13", "print-enum-as-uint64",
						"PrettyPrint prints enum-typed fields as uint64 (enum definition is lost): %s re-parses as %s", quote(d1), quote(d2))
				}
				break
			}
		}
		if !explained {
			propFail("C13", "print-parse-mismatch", "schema %s re-parses as %s (printed %s)", quote(d1), quote(d2), quote(printed))
		}
	} else {
		stats["c13-print-parse-equal"]++
	}
	// same roots, same wire schema for every root
	rs2 := roots(s2)
	if strings.Join(rs, ",") != strings.Join(rs2, ",") {
		propFail("C13", "print-roots-differ", "roots %v become %v: %s", rs, rs2, quote(text))
		return
	}
	for _, root := range rs2 {
		cs, p := newWire(s2, root)
		if p != "" {
			propFail("C13", "wire-panic-"+p, "NewWireSchema panics on the re-parsed schema, root %s", root)
			continue
		}
		if isASCII(printed) {
			emit("ws new "+root, countsStr(cs))
		}
		if w1, ok := wires[root]; ok && !eqCounts(w1, cs) {
			propFail("C13", "print-wire-mismatch", "root %s: wire schema %v becomes %v after print->parse; original %s", root, w1, cs, quote(text))
		}
	}
}

// ---------------------------------------------------------------- C13: serialize / deserialize

func encCounts(cs []uint64) []byte {
	b := binary.AppendUvarint(nil, uint64(len(cs)))
	for _, c := range cs {
		b = binary.AppendUvarint(b, c)
	}
	return b
}

func errClass(err error) string {
	switch {
	case err == io.EOF:
		return "err:eof"
	case err == io.ErrUnexpectedEOF:
		return "err:ueof"
	case strings.Contains(err.Error(), "overflow"):
		return "err:overflow"
	case strings.Contains(err.Error(), "struct count limit"):
		return "err:limit"
	}
	return "err:other:" + slug(err.Error())
}

// realDeser runs Deserialize then Serialize on the real code.
func realDeser(b []byte) (outp string, cs []uint64, ok bool) {
	defer func() {
		if p := recover(); p != nil {
			outp, ok = "panic", false
		}
	}()
	var w schema.WireSchema
	if err := w.Deserialize(bytes.NewReader(b)); err != nil {
		return errClass(err), nil, false
	}
	cs = wireCounts(&w)
	var buf bytes.Buffer
	if err := w.Serialize(&buf); err != nil {
		return "err:serialize", nil, false
	}
	return fmt.Sprintf("ok %d %s", len(cs), hx(buf.Bytes())), cs, true
}

var serdeSeen = map[uint64]bool{}

// serdeOfCounts: the round trip property on a given list of counts.
func serdeOfCounts(cs []uint64, what string) {
	b := encCounts(cs)
	h := fnv(string(b))
	if serdeSeen[h] {
		return
	}
	serdeSeen[h] = true
	stats["serde-cases"]++
	note("case serde %s n=%d", what, len(cs))
	outp, got, ok := realDeser(b)
	emit("ws deser "+hx(b), outp)
	if len(cs) > 1024 {
		stats["serde-over-limit"]++
		if ok || outp != "err:limit" {
			propFail("C13", "serde-limit-not-enforced", "%d counts: Deserialize answered %s", len(cs), outp)
		}
		return
	}
	if len(cs) > 0 {
		note("nontrivial %x", h)
	}
	if !ok {
		propFail("C13", "serde-roundtrip", "Deserialize of a valid serialization of %d counts failed: %s", len(cs), outp)
		return
	}
	if !eqCounts(got, cs) {
		propFail("C13", "serde-roundtrip", "counts %v deserialize as %v", cs, got)
		return
	}
	// Serialize(Deserialize(b)) == b for canonical b
	want := fmt.Sprintf("ok %d %s", len(cs), hx(b))
	if outp != want {
		propFail("C13", "serde-roundtrip", "re-serialization differs: %s vs %s", outp, want)
	}
	// the same bytes into a WireSchema value that was USED before (it holds the counts of the
	// previous case, larger or smaller): the result must not depend on the receiver's history
	func() {
		defer func() {
			if p := recover(); p != nil {
				propFail("C13", "deserialize-panic", "Deserialize into a used WireSchema panics on %s", hx(b))
			}
		}()
		prev := wireCounts(&reusedWS)
		if err := reusedWS.Deserialize(bytes.NewReader(b)); err != nil {
			propFail("C13", "serde-reuse", "Deserialize into a used WireSchema (it held %d counts) fails: %v; bytes %s", len(prev), err, hx(b))
			reusedWS = schema.WireSchema{}
			return
		}
		stats["serde-reuse-cases"]++
		if got2 := wireCounts(&reusedWS); !eqCounts(got2, cs) {
			propFail("C13", "serde-reuse", "counts %v deserialize as %v into a WireSchema value that held %v before", cs, got2, prev)
			reusedWS = schema.WireSchema{}
		}
	}()
}

var reusedWS schema.WireSchema

func serdeRaw(b []byte, what string) {
	stats["serde-raw-cases"]++
	note("case deser-raw %s len=%d", what, len(b))
	outp, cs, ok := realDeser(b)
	emit("ws deser "+hx(b), outp)
	stats["serde-raw-"+strings.SplitN(outp, " ", 2)[0]]++
	if outp == "panic" {
		propFail("C13", "deserialize-panic", "Deserialize panics on %s", hx(b))
	}
	if ok {
		// what was accepted must itself round trip
		serdeOfCounts(cs, "accepted-"+what)
	}
}

func interestingCount(r *rng.R) uint64 {
	switch r.Intn(8) {
	case 0:
		return uint64(r.Intn(20))
	case 1:
		return uint64(120 + r.Intn(20))
	case 2:
		return uint64(16380 + r.Intn(10))
	case 3:
		return uint64(1)<<uint(r.Intn(64)) - uint64(r.Intn(2))
	case 4:
		return ^uint64(0) - uint64(r.Intn(3))
	case 5:
		return r.U64()
	case 6:
		return r.BitsExact(1 + r.Intn(64))
	}
	return uint64(r.Intn(64))
}

func serdeCases() {
	r := rng.FromEnv(13002)
	lens := []int{0, 1, 2, 3, 7, 63, 127, 128, 129, 1000, 1023, 1024, 1025, 1026, 2048, 16384}
	for _, n := range lens {
		cs := make([]uint64, n)
		for i := range cs {
			cs[i] = interestingCount(r)
		}
		serdeOfCounts(cs, "len")
	}
	n := 300
	if thorough {
		n = 5000
	}
	for i := 0; i < n; i++ {
		l := r.Intn(12)
		if r.Chance(1, 10) {
			l = r.Intn(1100)
		}
		cs := make([]uint64, l)
		for j := range cs {
			cs[j] = interestingCount(r)
		}
		serdeOfCounts(cs, "rand")
	}
	// raw byte strings: truncated, over-long, overflowing, random
	raws := [][]byte{
		{}, {0x80}, {0x01}, {0x02, 0x01}, {0x01, 0x80}, {0x80, 0x00}, {0x81, 0x00, 0x05},
		{0x01, 0xff, 0xff, 0xff, 0xff, 0xff, 0xff, 0xff, 0xff, 0xff, 0x01},
		{0x01, 0xff, 0xff, 0xff, 0xff, 0xff, 0xff, 0xff, 0xff, 0xff, 0x02},
		{0x01, 0xff, 0xff, 0xff, 0xff, 0xff, 0xff, 0xff, 0xff, 0xff, 0x7f},
		{0x01, 0xff, 0xff, 0xff, 0xff, 0xff, 0xff, 0xff, 0xff, 0xff, 0xff, 0x00},
		{0x01, 0x80, 0x80, 0x80, 0x80, 0x80, 0x80, 0x80, 0x80, 0x80, 0x00},
		{0x01, 0x80, 0x80, 0x80, 0x80, 0x80, 0x80, 0x80, 0x80, 0x80, 0x01},
		{0xff, 0xff, 0xff, 0xff, 0xff, 0xff, 0xff, 0xff, 0xff, 0x01},
		{0xff, 0xff, 0xff, 0xff, 0xff, 0xff, 0xff, 0xff, 0xff, 0x02},
		{0x80, 0x08}, {0x81, 0x08}, {0x00, 0x01, 0x02},
	}
	for i, b := range raws {
		serdeRaw(b, fmt.Sprintf("fixed%d", i))
	}
	n = 400
	if thorough {
		n = 8000
	}
	for i := 0; i < n; i++ {
		var b []byte
		switch r.Intn(4) {
		case 0: // random bytes
			b = make([]byte, r.Intn(24))
			for j := range b {
				b[j] = byte(r.U64())
			}
		case 1: // valid then truncated
			l := 1 + r.Intn(6)
			cs := make([]uint64, l)
			for j := range cs {
				cs[j] = interestingCount(r)
			}
			b = encCounts(cs)
			b = b[:r.Intn(len(b)+1)]
		case 2: // valid with one byte flipped
			l := 1 + r.Intn(6)
			cs := make([]uint64, l)
			for j := range cs {
				cs[j] = interestingCount(r)
			}
			b = encCounts(cs)
			b[r.Intn(len(b))] ^= byte(1 << uint(r.Intn(8)))
		case 3: // mostly continuation bytes
			b = make([]byte, r.Intn(14))
			for j := range b {
				b[j] = byte(r.U64()) | 0x80
				if r.Chance(1, 6) {
					b[j] &= 0x7f
				}
			}
		}
		serdeRaw(b, "rand")
	}
}

// ---------------------------------------------------------------- generated code (otelstef)

// initOrderFromGeneratedCode reads the generated encoders of otelstef with go/ast and simulates
// the order in which `Init` fetches struct field counts: it returns, for the given root, the
// default counts (second argument of getFieldCount in common.go) in order of first fetch.
type initStep struct {
	fetch string // "<X>" for state.StructFieldCounts.<X>FieldCount()
	guard string // encoder type guarded by `state.<T>Encoder != nil`
}

func parseGenerated(dir string) (inits map[string][]initStep, defaults map[string]uint64, err error) {
	fset := token.NewFileSet()
	pkgs, err := parser.ParseDir(fset, dir, func(fi os.FileInfo) bool { return !strings.HasSuffix(fi.Name(), "_test.go") }, 0)
	if err != nil {
		return nil, nil, err
	}
	inits = map[string][]initStep{}
	defaults = map[string]uint64{}
	for _, p := range pkgs {
		for _, f := range p.Files {
			for _, d := range f.Decls {
				fd, ok := d.(*ast.FuncDecl)
				if !ok || fd.Recv == nil || fd.Body == nil {
					continue
				}
				recv := ""
				if st, ok := fd.Recv.List[0].Type.(*ast.StarExpr); ok {
					if id, ok := st.X.(*ast.Ident); ok {
						recv = id.Name
					}
				}
				// defaults: func (s *StructFieldCounts) XFieldCount() { return getFieldCount(&s.countX, "X", ..., N) }
				if recv == "StructFieldCounts" && strings.HasSuffix(fd.Name.Name, "FieldCount") {
					ast.Inspect(fd.Body, func(n ast.Node) bool {
						if c, ok := n.(*ast.CallExpr); ok {
							if id, ok := c.Fun.(*ast.Ident); ok && id.Name == "getFieldCount" && len(c.Args) == 5 {
								if lit, ok := c.Args[4].(*ast.BasicLit); ok {
									v, _ := strconv.ParseUint(lit.Value, 0, 64)
									defaults[strings.TrimSuffix(fd.Name.Name, "FieldCount")] = v
								}
							}
						}
						return true
					})
				}
				if fd.Name.Name != "Init" || !strings.HasSuffix(recv, "Encoder") {
					continue
				}
				typ := strings.TrimSuffix(recv, "Encoder")
				var steps []initStep
				ast.Inspect(fd.Body, func(n ast.Node) bool {
					switch v := n.(type) {
					case *ast.CallExpr:
						// state.StructFieldCounts.XFieldCount()
						if sel, ok := v.Fun.(*ast.SelectorExpr); ok && strings.HasSuffix(sel.Sel.Name, "FieldCount") {
							if in, ok := sel.X.(*ast.SelectorExpr); ok && in.Sel.Name == "StructFieldCounts" {
								steps = append(steps, initStep{fetch: strings.TrimSuffix(sel.Sel.Name, "FieldCount")})
							}
						}
					case *ast.IfStmt:
						// if state.TEncoder != nil { recursion } else { new + Init }
						if be, ok := v.Cond.(*ast.BinaryExpr); ok && be.Op == token.NEQ {
							if sel, ok := be.X.(*ast.SelectorExpr); ok {
								if id, ok := sel.X.(*ast.Ident); ok && id.Name == "state" && strings.HasSuffix(sel.Sel.Name, "Encoder") && v.Else != nil {
									steps = append(steps, initStep{guard: strings.TrimSuffix(sel.Sel.Name, "Encoder")})
								}
							}
						}
					}
					return true
				})
				inits[typ] = steps
			}
		}
	}
	return inits, defaults, nil
}

func simulateInit(inits map[string][]initStep, defaults map[string]uint64, root string) []uint64 {
	var order []uint64
	fetched := map[string]bool{}
	onStack := map[string]bool{}
	var run func(t string, depth int)
	run = func(t string, depth int) {
		if depth > 200 {
			return
		}
		onStack[t] = true
		for _, st := range inits[t] {
			if st.fetch != "" {
				if !fetched[st.fetch] {
					fetched[st.fetch] = true
					order = append(order, defaults[st.fetch])
				}
				continue
			}
			if onStack[st.guard] {
				continue
			}
			if _, ok := inits[st.guard]; ok {
				run(st.guard, depth+1)
			}
		}
		onStack[t] = false
	}
	run(root, 0)
	return order
}

func generatedCodeCases(otelText string) {
	r := realParse(otelText)
	if r.kind != "ok" {
		note("note otel.stef does not parse: %s", r.out)
		return
	}
	inits, defaults, err := parseGenerated(filepath.Join(repoDir, "go/otel/otelstef"))
	if err != nil {
		note("note cannot read generated code: %v", err)
	}
	for _, root := range []string{"Metrics", "Spans"} {
		note("case generated otelstef %s", root)
		stats["gen-cases"]++
		var w schema.WireSchema
		var gerr error
		if root == "Metrics" {
			w, gerr = otelstef.MetricsWireSchema()
		} else {
			w, gerr = otelstef.SpansWireSchema()
		}
		if gerr != nil {
			propFail("C13", "gen-wire-schema-error", "%sWireSchema(): %v", root, gerr)
			continue
		}
		gen := wireCounts(&w)
		cs, p := newWire(r.sch, root)
		if p != "" {
			propFail("C13", "wire-panic-"+p, "NewWireSchema(otel.stef, %s) panics", root)
			continue
		}
		// model state: last parsed schema must be otel.stef
		emit("idl parse "+hx([]byte(otelText)), r.out)
		emit("ws new "+root, countsStr(cs))
		note("nontrivial %x", fnv("gen"+root))
		if !eqCounts(gen, cs) {
			propFail("C13", "gen-wire-mismatch", "otelstef.%sWireSchema() = %v but NewWireSchema(otel.stef) = %v", root, gen, cs)
		}
		if inits != nil {
			sim := simulateInit(inits, defaults, root)
			emit("ws init "+root, countsStr(sim))
			if !eqCounts(sim, cs) {
				propFail("C13", "gen-init-order-mismatch",
					"generated Encoder.Init of %s fetches counts in order %v, wire schema lists %v", root, sim, cs)
			}
		}
	}
}

// ---------------------------------------------------------------- generator of valid schemas

type genOpts struct {
	enums         bool // enum-typed fields allowed
	arrayElemDict bool // dict on array element types allowed
	rootless      bool
	oddFormat     bool
	dupEnumMember bool // one enum repeats one of its member names (an INVALID schema: error path)
	// dupField: the first struct / oneof written gets dupN fields and field dupAt repeats the name of
	// field dupOf (an INVALID schema: "duplicate field name" must be the answer for every pair)
	dupN, dupOf, dupAt int
}

type gdef struct {
	kind string // struct oneof multimap enum
	name string
}

var identPool = []string{"A", "B1", "C_c", "Dd", "E9", "F_", "Gx", "H", "Ii", "J2", "Kk", "L", "Value", "Key", "Root", "Dict", "x", "y1", "zz", "Struct", "Bytes", "pkg"}

func genIdent(r *rng.R, used map[string]bool) string {
	for {
		var s string
		if r.Chance(2, 3) {
			s = identPool[r.Intn(len(identPool))]
			if used[s] {
				s += strconv.Itoa(r.Intn(1000))
			}
		} else {
			const first = "abcdefghijklmnopqrstuvwxyzABCDEFGHIJKLMNOPQRSTUVWXYZ"
			const rest = first + "0123456789_"
			n := 1 + r.Intn(8)
			b := []byte{first[r.Intn(len(first))]}
			for i := 1; i < n; i++ {
				b = append(b, rest[r.Intn(len(rest))])
			}
			s = string(b)
		}
		if !used[s] && !isKeyword(s) {
			used[s] = true
			return s
		}
	}
}

var keywordList = []string{"package", "struct", "oneof", "multimap", "enum", "optional", "root", "dict", "key", "value",
	"bool", "int64", "uint64", "float64", "string", "bytes"}

func isKeyword(s string) bool {
	for _, k := range keywordList {
		if k == s {
			return true
		}
	}
	return false
}

type writer struct {
	r   *rng.R
	odd bool
	b   strings.Builder
}

func (w *writer) sep() {
	if !w.odd {
		w.b.WriteByte(' ')
		return
	}
	switch w.r.Intn(12) {
	case 0:
		w.b.WriteString("\n")
	case 1:
		w.b.WriteString("\t")
	case 2:
		w.b.WriteString("\r\n")
	case 3:
		w.b.WriteString("\r")
	case 4:
		w.b.WriteString(" // c " + identPool[w.r.Intn(len(identPool))] + " {}\n")
	case 5:
		w.b.WriteString("  ")
	case 6:
		w.b.WriteString("\n\n")
	case 7:
		w.b.WriteString(" //\r")
	default:
		w.b.WriteByte(' ')
	}
}

// tok writes a token followed by a separator; punct may be glued.
func (w *writer) tok(t string) {
	w.b.WriteString(t)
	w.sep()
}

func (w *writer) glue(t string) { // punctuation that may follow without space
	s := w.b.String()
	if w.r.Bool() && len(s) > 0 && s[len(s)-1] == ' ' {
		w.b.Reset()
		w.b.WriteString(s[:len(s)-1])
	}
	w.b.WriteString(t)
	if w.r.Bool() {
		w.sep()
	}
}

func fmtEnumValue(r *rng.R, v uint64, odd bool) string {
	if !odd {
		return strconv.FormatUint(v, 10)
	}
	switch r.Intn(6) {
	case 0:
		// the lexer's number alphabet is [0-9_bxoBXO]: hex digits a,c,d,e,f end the token
		if h := strconv.FormatUint(v, 16); !strings.ContainsAny(h, "acdef") {
			return "0x" + h
		}
		return strconv.FormatUint(v, 10)
	case 1:
		return "0b" + strconv.FormatUint(v, 2)
	case 2:
		return "0o" + strconv.FormatUint(v, 8)
	case 3:
		if v == 0 {
			return "0"
		}
		return "0" + strconv.FormatUint(v, 8)
	case 4:
		s := strconv.FormatUint(v, 10)
		if len(s) > 3 {
			return s[:len(s)-3] + "_" + s[len(s)-3:]
		}
		return s
	}
	return strconv.FormatUint(v, 10)
}

func genSchema(r *rng.R, o genOpts) string {
	used := map[string]bool{}
	var defs []gdef
	nS := 1 + r.Intn(5)
	nO := r.Intn(3)
	nM := r.Intn(3)
	nE := 0
	if o.enums {
		nE = 1 + r.Intn(2)
	} else if r.Chance(1, 4) {
		nE = 1 // defined but never used: pruned
	}
	for i := 0; i < nS; i++ {
		defs = append(defs, gdef{"struct", genIdent(r, used)})
	}
	for i := 0; i < nO; i++ {
		defs = append(defs, gdef{"oneof", genIdent(r, used)})
	}
	for i := 0; i < nM; i++ {
		defs = append(defs, gdef{"multimap", genIdent(r, used)})
	}
	for i := 0; i < nE; i++ {
		defs = append(defs, gdef{"enum", genIdent(r, used)})
	}
	// shuffle definition order
	for i := len(defs) - 1; i > 0; i-- {
		j := r.Intn(i + 1)
		defs[i], defs[j] = defs[j], defs[i]
	}
	// roots
	rootSet := map[string]bool{}
	var structs []string
	for _, d := range defs {
		if d.kind == "struct" {
			structs = append(structs, d.name)
		}
	}
	nroots := 1 + r.Intn(2)
	if r.Chance(1, 8) {
		nroots = 3
	}
	if o.rootless && r.Chance(1, 2) {
		nroots = 0
	}
	for i := 0; i < nroots && i < len(structs); i++ {
		rootSet[structs[r.Intn(len(structs))]] = true
	}
	dictNames := []string{"D", "D2", genIdent(r, map[string]bool{}), "Shared"}
	// the enum that gets the repeated member name (dupEnumMember): any of the enums
	dupEnum := ""
	if o.dupEnumMember {
		var es []string
		for _, d := range defs {
			if d.kind == "enum" {
				es = append(es, d.name)
			}
		}
		if len(es) > 0 {
			dupEnum = es[r.Intn(len(es))]
		}
	}
	w := &writer{r: r, odd: o.oddFormat}
	if w.odd && r.Bool() {
		w.b.WriteString("// generated\n")
	}
	w.tok("package")
	np := 1 + r.Intn(3)
	for i := 0; i < np; i++ {
		if i > 0 {
			w.glue(".")
		}
		w.b.WriteString(genIdent(r, map[string]bool{}))
		if i == np-1 {
			w.sep()
		} else if w.odd && r.Chance(1, 4) {
			w.sep()
		}
	}
	dictMod := func() {
		w.b.WriteString("dict")
		if w.odd && r.Chance(1, 4) {
			w.sep()
		}
		w.b.WriteString("(")
		if w.odd && r.Chance(1, 4) {
			w.sep()
		}
		w.b.WriteString(dictNames[r.Intn(len(dictNames))])
		if w.odd && r.Chance(1, 4) {
			w.sep()
		}
		w.b.WriteString(")")
		w.sep()
	}
	// a (non-array) type: returns true if dict may follow
	baseType := func(allowDict bool) (dictEmitted bool) {
		k := r.Intn(10)
		if k < 5 || len(defs) == 0 {
			p := []string{"bool", "int64", "uint64", "float64", "string", "bytes"}[r.Intn(6)]
			w.tok(p)
			if allowDict && (p == "string" || p == "bytes") && r.Chance(1, 3) {
				dictMod()
				return true
			}
			return false
		}
		for tries := 0; ; tries++ {
			d := defs[r.Intn(len(defs))]
			if d.kind == "enum" && !o.enums {
				if tries > 20 {
					w.tok("bool")
					return false
				}
				continue
			}
			w.tok(d.name)
			if allowDict && d.kind != "enum" && r.Chance(1, 8) {
				dictMod() // `F S dict(D)` is accepted for any named type
				return true
			}
			if allowDict && d.kind == "enum" && o.enums && r.Chance(1, 12) {
				dictMod()
				return true
			}
			return false
		}
	}
	fieldType := func() bool {
		if r.Chance(1, 4) {
			w.b.WriteString("[")
			if w.odd && r.Chance(1, 4) {
				w.sep()
			}
			w.b.WriteString("]")
			if w.odd && r.Chance(1, 4) {
				w.sep()
			}
			return baseType(o.arrayElemDict)
		}
		return baseType(true)
	}
	dupPlanted := false
	for _, d := range defs {
		switch d.kind {
		case "struct", "oneof":
			w.tok(d.kind)
			w.tok(d.name)
			if d.kind == "struct" {
				if rootSet[d.name] {
					w.tok("root")
					if w.odd && r.Chance(1, 5) {
						// both modifiers, in this order (the parser takes at most one modifier: a
						// syntax error today; if it is ever accepted, the printed form must parse)
						dictMod()
					}
				} else if r.Chance(1, 4) {
					dictMod()
					if w.odd && r.Chance(1, 8) {
						w.tok("root") // both modifiers, the other order
					}
				}
			}
			w.glue("{")
			nf := r.Intn(6)
			if r.Chance(1, 12) {
				nf = 7 + r.Intn(14) // wide structs / oneofs: 7..20 fields
			}
			if rootSet[d.name] && nf == 0 {
				nf = 1
			}
			fu := map[string]bool{}
			// in odd mode, sometimes one field name is repeated (a duplicate field name must be
			// refused wherever the two fields are: every pair of positions is drawn over time)
			dupAt, dupOf := -1, -1
			if w.odd && nf >= 2 && r.Chance(1, 6) && o.dupN == 0 {
				dupAt = 1 + r.Intn(nf-1)
				dupOf = r.Intn(dupAt)
			}
			if o.dupN > 0 && !dupPlanted {
				dupPlanted = true
				nf, dupOf, dupAt = o.dupN, o.dupOf, o.dupAt
			}
			var fnames []string
			for i := 0; i < nf; i++ {
				if i == dupAt {
					w.tok(fnames[dupOf])
					fnames = append(fnames, fnames[dupOf])
				} else {
					fnames = append(fnames, genIdent(r, fu))
					w.tok(fnames[i])
				}
				fieldType()
				if r.Chance(1, 4) {
					w.tok("optional")
					if w.odd && r.Chance(1, 6) {
						w.tok("optional")
					}
				}
			}
			w.glue("}")
			w.sep()
		case "multimap":
			w.tok("multimap")
			w.tok(d.name)
			w.glue("{")
			w.tok("key")
			if fieldType() && o.arrayElemDict && r.Chance(1, 4) {
				dictMod() // a second dict: lands on the array / overrides the first
			}
			w.tok("value")
			fieldType()
			w.glue("}")
			w.sep()
		case "enum":
			w.tok("enum")
			w.tok(d.name)
			w.glue("{")
			ne := r.Intn(5)
			eu := map[string]bool{}
			dupAt := -1
			if o.dupEnumMember && d.name == dupEnum {
				ne = 2 + r.Intn(4)
				dupAt = 1 + r.Intn(ne-1)
			}
			var members []string
			for i := 0; i < ne; i++ {
				m := ""
				if i == dupAt {
					m = members[r.Intn(len(members))] // repeats an earlier member, adjacent or not
				} else {
					m = genIdent(r, eu)
				}
				members = append(members, m)
				w.tok(m)
				w.glue("=")
				v := uint64(r.Intn(10))
				if r.Chance(1, 5) {
					v = interestingCount(r)
				}
				w.tok(fmtEnumValue(r, v, o.oddFormat))
			}
			w.glue("}")
			w.sep()
		}
	}
	return w.b.String()
}

// ---------------------------------------------------------------- mutator

// tokenize splits IDL text the way the grammar sees it (comments dropped).
func tokenize(text string) []string {
	var toks []string
	i := 0
	isL := func(c byte) bool { return c >= 'a' && c <= 'z' || c >= 'A' && c <= 'Z' }
	isD := func(c byte) bool { return c >= '0' && c <= '9' }
	for i < len(text) {
		c := text[i]
		switch {
		case c == ' ' || c == '\t' || c == '\n' || c == '\r' || c == '\v' || c == '\f':
			i++
		case c == '/' && i+1 < len(text) && text[i+1] == '/':
			for i < len(text) && text[i] != '\n' && text[i] != '\r' {
				i++
			}
		case isL(c):
			j := i
			for j < len(text) && (isL(text[j]) || isD(text[j]) || text[j] == '_') {
				j++
			}
			toks = append(toks, text[i:j])
			i = j
		case isD(c):
			j := i
			for j < len(text) && (isD(text[j]) || strings.IndexByte("_bxoBXO", text[j]) >= 0) {
				j++
			}
			toks = append(toks, text[i:j])
			i = j
		default:
			toks = append(toks, string(c))
			i++
		}
	}
	return toks
}

func join(toks []string) string { return strings.Join(toks, " ") }

var vocab = append(append([]string{}, keywordList...),
	".", "=", "[", "]", "(", ")", "{", "}", "Ident", "A", "7", "0x1F", "09", "1_0", "$", "/", "//", "\n", "")

const allProductions = `package a.b
enum E { X = 1 Y = 0x2 }
multimap M { key string dict(K) value []A }
oneof O { I int64 S A F []float64 }
struct A dict(DA) { N string dict(DN) optional E E B []bytes dict(DB) R []A M M O O optional }
struct R root { A A U uint64 T bool }`

func mutationCases(r *rng.R, name, text string, full bool, budget int) {
	toks := tokenize(text)
	run := func(kind string, i int, m []string) {
		parseCase(fmt.Sprintf("mut %s %s@%d", name, kind, i), join(m))
		stats["mut-"+kind]++
	}
	del := func(i int) []string {
		m := append([]string{}, toks[:i]...)
		return append(m, toks[i+1:]...)
	}
	dup := func(i int) []string {
		m := append([]string{}, toks[:i+1]...)
		return append(m, toks[i:]...)
	}
	rep := func(i int, v string) []string {
		m := append([]string{}, toks...)
		m[i] = v
		return m
	}
	if full {
		for i := range toks {
			run("del", i, del(i))
			run("dup", i, dup(i))
			for _, v := range vocab {
				if v != toks[i] {
					run("rep", i, rep(i, v))
				}
			}
		}
		// truncations: every prefix of the token sequence
		for i := range toks {
			run("prefix", i, toks[:i])
		}
		return
	}
	for k := 0; k < budget && len(toks) > 0; k++ {
		i := r.Intn(len(toks))
		switch r.Intn(5) {
		case 0:
			run("del", i, del(i))
		case 1:
			run("dup", i, dup(i))
		case 2:
			run("prefix", i, toks[:i])
		default:
			run("rep", i, rep(i, vocab[r.Intn(len(vocab))]))
		}
	}
}

// raw-text mutations: byte level (keeps the original formatting and comments)
func byteMutations(r *rng.R, name, text string, budget int) {
	for k := 0; k < budget && len(text) > 0; k++ {
		b := []byte(text)
		i := r.Intn(len(b))
		switch r.Intn(4) {
		case 0:
			b = append(b[:i], b[i+1:]...)
		case 1:
			b[i] = byte(r.Intn(128))
		case 2:
			b = b[:i]
		case 3:
			b = append(b[:i], append([]byte{byte(r.Intn(128))}, b[i:]...)...)
		}
		parseCase(fmt.Sprintf("bytemut %s @%d", name, i), string(b))
		stats["mut-byte"]++
	}
}

func randomTexts(r *rng.R, n int) {
	for k := 0; k < n; k++ {
		var s string
		switch r.Intn(4) {
		case 0: // random ASCII bytes
			b := make([]byte, r.Intn(120))
			for i := range b {
				b[i] = byte(r.Intn(128))
			}
			s = string(b)
			stats["random-ascii"]++
		case 1: // printable ASCII biased to the lexer's alphabet
			const al = "abcxyzABC019_ \n\r\t/.=[](){}#;,\"-+"
			b := make([]byte, r.Intn(80))
			for i := range b {
				b[i] = al[r.Intn(len(al))]
			}
			s = "package " + string(b)
			stats["random-alphabet"]++
		case 2: // token soup
			n := r.Intn(40)
			var t []string
			for i := 0; i < n; i++ {
				t = append(t, vocab[r.Intn(len(vocab))])
			}
			s = "package p " + join(t)
			stats["random-token-soup"]++
		case 3: // definitions soup: well-formed heads with random bodies
			n := 1 + r.Intn(4)
			t := []string{"package", "p"}
			for i := 0; i < n; i++ {
				t = append(t, []string{"struct", "oneof", "multimap", "enum"}[r.Intn(4)], identPool[r.Intn(6)])
				if r.Chance(1, 3) {
					t = append(t, "root")
				}
				t = append(t, "{")
				m := r.Intn(8)
				for j := 0; j < m; j++ {
					t = append(t, vocab[r.Intn(len(vocab))])
				}
				t = append(t, "}")
			}
			s = join(t)
			stats["random-def-soup"]++
		}
		parseCase("random", s)
	}
}

func nonASCIITexts(r *rng.R, n int) {
	fixed := []string{
		"package é struct Ä root { ü int64 }",
		"package a struct A root { F int64 }",
		"package a struct A root { F int64 }",
		"package a struct A root { F \xff }",
		"\xef\xbb\xbfpackage a struct A root { F int64 }",
		"package a struct A root { F int64 } \xc3",
		"package a enum E { X = ١ } struct A root { F E }",
		"package a struct A١ root { F int64 }",
	}
	for _, s := range fixed {
		parseCase("nonascii-fixed", s)
	}
	for k := 0; k < n; k++ {
		b := []byte(allProductions)
		for j := 0; j < 1+r.Intn(3); j++ {
			i := r.Intn(len(b))
			b[i] = byte(128 + r.Intn(128))
		}
		parseCase("nonascii-random", string(b))
	}
}

// ---------------------------------------------------------------- fixed cases

var fixedParseCases = []string{
	"", " ", "package", "package a", "package a.", "package a struct", "package a struct A {}",
	"package a struct A root {}", "package a struct A root { X }", // missing type (panicked before a64277c)
	"package a struct A root { X optional }",
	"package a struct A root { F M } multimap M { key value string }",
	"package a struct A root { F M } multimap M { key dict(D) value string }",
	"package a struct A root { F B } struct B { X }",
	"package a struct A root { F int64 } struct B { X }",
	"package a struct A root { F []B } oneof B { X }",
	"package a struct A root { X Y }", "package a struct A root { X A }",
	"package a struct A root { X []A optional }",
	"package a struct A root { X int64 X int64 }",
	"package a struct A root { X int64 } struct A { }",
	"package a struct A root { X int64 } multimap A { key string value string }",
	"package a enum A { } struct A root { X int64 }",
	"package a oneof A root { X int64 }", "package a oneof A dict(D) { X int64 }",
	"package a struct A dict(D) root { X int64 }", "package a struct A root dict(D) { X int64 }",
	"package a struct A root { X int64 dict(D) }", "package a struct A root { X string dict(D) }",
	"package a struct A root { X string dict() }", "package a struct A root { X string dict(D }",
	"package a struct A root { X [] }", "package a struct A root { X [ int64 }", "package a struct A root { X [][]int64 }",
	"package a struct A root { X E } enum E { A = 1 A = 2 }", // accepted before ed6fa67 (dup-enum-member-accepted)
	"package a struct A root { X E } enum E { A = 1 B = 2 A = 3 }", "package a struct A root { X E } enum E { A = 1 A = 1 }",
	"package a struct A root { X E } enum E { A = 1\n  B = 2\r\n  // c\n  B = 3 }", "package a struct A root { X E } enum E { A = 1 A }",
	"package a struct A root { X int64 } enum E { A = 1 A = 2 }",            // unused enum: still an error (was pruned before)
	"package a struct A root { X E Y F } enum E { A = 1 } enum F { A = 2 }", // same member in two enums: fine
	"package a struct A root { X E } enum E { A = 1 a = 2 E = 3 X = 4 }",
	"package a struct A root { X E dict(D) } enum E { A = 1 }",
	"package a struct A root { X []E dict(D) } enum E { A = 1 }",
	"package a struct A root { X E } enum E { A = }", "package a struct A root { X E } enum E { A = x }",
	"package a struct A root { X E } enum E { A = 18446744073709551615 B = 18446744073709551616 }",
	"package a struct A root { X E } enum E { A = 0x B = 1 }", "package a struct A root { X E } enum E { A = 0b102 }",
	"package a struct A root { X E } enum E { A = 1__0 }", "package a struct A root { X E } enum E { A = 1_0 B = 0_7 C = 0x_F D = 0b1_1 E = 0o17 F = 017 G = 0 H = 00 I = 0B1 J = 0XbB K = 08 }",
	"package a struct A root { X E } enum E { A = 1_ }", "package a struct A root { X E } enum E { A = _1 }",
	"package a struct A root { X E } enum E { A = 0xo1 }", "package a struct A root { X E } enum E { A = 1b }",
	"package a struct A root { X E } enum E { A = $ }",
	"package a struct A root { X M } multimap M { key []string dict(A) dict(B) value M }",
	"package a struct A root { X M } multimap M { key string dict(A) dict(B) value int64 dict(C) }",
	"package a struct A root { X M dict(Q) } multimap M { key string value A dict(Z) }",
	"package a / struct A root { X int64 }", "package a /x struct A root { X int64 }", "/ package a struct A root { X int64 } /",
	"package a // c\nstruct A root { X int64 } // end", "package a // c\rstruct A root { X int64 } //",
	"package a\r\nstruct A root {\r\n X int64\r\n}\r\n", "package a\n\rstruct A root {\n\r X $\n\r}",
	"package a struct A root { X int64 } $", "package a struct A root { X int64 } }", "package a struct A root { X int64 ",
	"package a struct A root { X int64 } struct", "package a.b.c.d struct A root { X int64 }", "package a . b struct A root { X int64 }",
	"package a struct A root { key int64 }", "package a struct root root { X int64 }", "package a struct A root { X int64 optional optional }",
	"package a struct A { X int64 }", "package a struct A { X B } struct B { Y A }", "package a multimap M { key M value M }",
	"package a struct A root { X M } multimap M { key M value M }",
	"package a struct A root { X O } oneof O { A A O O M M L []O } multimap M { key O value []M }",
	"package a struct A root { X1 int64 } struct B root { Y A Z B } struct C root { Z []C }",
	"package a struct A root { X 5 }", "package a struct A root { 5 int64 }", "package 5", "package a struct A root { X int64 } 12345678901234567890123",
	"package\x00a struct A root { X int64 }", "package a struct A root { X\vint64\fY bool }",
	"package a struct A_1 root { X_ int64 _Y bool }",
}

// ---------------------------------------------------------------- main

func checkedInSchemas() (names []string, texts []string) {
	pats := []string{"go/otel/otel.stef", "examples/*/*.stef", "stefc/generator/testdata/*.stef"}
	for _, p := range pats {
		ms, _ := filepath.Glob(filepath.Join(repoDir, p))
		sort.Strings(ms)
		for _, m := range ms {
			b, err := os.ReadFile(m)
			if err != nil {
				continue
			}
			rel, _ := filepath.Rel(repoDir, m)
			names = append(names, rel)
			texts = append(texts, string(b))
		}
	}
	return
}

func runC12() {
	r := rng.FromEnv(12001)
	for i, s := range fixedParseCases {
		parseCase(fmt.Sprintf("fixed%d", i), s)
	}
	names, texts := checkedInSchemas()
	stats["checked-in-schemas"] = len(names)
	for i := range names {
		parseCase("file "+names[i], texts[i])
	}
	// every production with one token missing, duplicated or replaced (systematic)
	mutationCases(r, "all-productions", allProductions, true, 0)
	// the checked-in schemas: systematic for the small ones, sampled for the large ones
	for i := range names {
		n := len(tokenize(texts[i]))
		if thorough && n <= 400 {
			mutationCases(r, names[i], texts[i], true, 0)
		} else if n <= 60 {
			mutationCases(r, names[i], texts[i], true, 0)
		} else {
			b := 60
			if thorough {
				b = 1500
			}
			mutationCases(r, names[i], texts[i], false, b)
		}
		bb := 10
		if thorough {
			bb = 200
		}
		byteMutations(r, names[i], texts[i], bb)
	}
	// generated valid schemas and their mutants
	n := 150
	if thorough {
		n = 2500
	}
	for k := 0; k < n; k++ {
		o := genOpts{enums: r.Bool(), arrayElemDict: r.Bool(), rootless: r.Chance(1, 10), oddFormat: r.Bool()}
		t := genSchema(r, o)
		rr := parseCase(fmt.Sprintf("gen%d", k), t)
		if rr.kind != "ok" {
			stats["gen-invalid(!)"]++
			note("note generator produced an input that does not parse: %s -> %s", quote(t), rr.out)
		}
		mutationCases(r, fmt.Sprintf("gen%d", k), t, false, 12)
	}
	// generated schemas in which one enum declares a member name twice: rejected with a
	// positioned "duplicate enum field name" error since ed6fa67 (model and code must agree on
	// class and position); accepted before (PROP-FAIL dup-enum-member-accepted when the enum is
	// reachable from a root, i.e. survives PruneUnused).
	n = 60
	if thorough {
		n = 1500
	}
	for k := 0; k < n; k++ {
		o := genOpts{enums: true, arrayElemDict: r.Bool(), oddFormat: r.Bool(), dupEnumMember: true}
		t := genSchema(r, o)
		rr := parseCase(fmt.Sprintf("gendupenum%d", k), t)
		stats["gen-dup-enum-member"]++
		if rr.kind == "err" && strings.HasPrefix(rr.class, "dup-enum-field:") {
			stats["gen-dup-enum-member-rejected"]++
		}
	}
	// generated schemas in which the first struct / oneof repeats a field name: every pair of
	// positions in structs of 2..20 fields (quick: a diagonal sample plus random pairs)
	for size := 2; size <= 20; size++ {
		for of := 0; of < size-1; of++ {
			for at := of + 1; at < size; at++ {
				if !thorough && !(at == size-1 || at == of+1 || r.Chance(1, 6)) {
					continue
				}
				o := genOpts{enums: r.Bool(), oddFormat: r.Chance(1, 4), dupN: size, dupOf: of, dupAt: at}
				t := genSchema(r, o)
				rr := parseCase(fmt.Sprintf("gendupfield-%d-%d-%d", size, of, at), t)
				stats["gen-dup-field"]++
				if rr.kind == "err" && strings.HasPrefix(rr.class, "dup-field:") {
					stats["gen-dup-field-rejected"]++
				}
			}
		}
	}
	// sequences: what one parse leaves behind must not reach the next (idl.Parse is called many times
	// in one process). Each first text ends its parse in a particular lexer state (after a CR, after
	// CR LF, inside a comment, at an error, at EOF inside a token), each second text starts with the
	// character that state is sensitive to and holds an error further down; positions are checked
	// by the independent line count and against the model, as for every case.
	firsts := []string{"package a\r\nstruct A {\r", "package a\r", "package a\r\n", "\r", "package a // c\r", "package a\rstruct A { F }\r",
		"package a\nstruct A root {\n  F int64\n}\r", "package a /", "package a\n// comment", "package a struct A { F [", "package 1\r"}
	seconds := []string{"\npackage a\n\nstruct A {\n  F\n}\n", "\n\nstruct", "\n\r\npackage a\nenum E {\n  A = x\n}", "\npackage a\n\nstruct A root {\n  F int64\n  F int64\n}\n",
		"\n// c\npackage a\nstruct A { F unknown }\n", "\r\npackage a\noneof O {\n 7 }", "\n\n\n!"}
	for i, f := range firsts {
		for j, sec := range seconds {
			parseCase(fmt.Sprintf("seq-%d-%d-first", i, j), f)
			parseCase(fmt.Sprintf("seq-%d-%d-second", i, j), sec)
			stats["parse-sequences"]++
		}
	}
	n = 1500
	if thorough {
		n = 40000
	}
	randomTexts(r, n)
	n = 100
	if thorough {
		n = 3000
	}
	nonASCIITexts(r, n)
}

func runC13() {
	r := rng.FromEnv(13001)
	names, texts := checkedInSchemas()
	stats["checked-in-schemas"] = len(names)
	otel := ""
	for i := range names {
		printParseCase("file "+names[i], texts[i])
		if names[i] == "go/otel/otel.stef" {
			otel = texts[i]
		}
	}
	if otel != "" {
		generatedCodeCases(otel)
	} else {
		note("note go/otel/otel.stef not found under %s", repoDir)
	}
	// explicit witnesses of the recorded defects and their neighbours
	fixed := []string{
		"package a struct R root { F []string dict(D) }",
		"package a struct R root { F []string }",
		"package a struct R root { F string dict(D) }",
		"package a struct R root { F E } enum E { X = 1 }",
		"package a struct R root { F []E } enum E { X = 1 }",
		"package a struct R root { F E dict(D) } enum E { X = 1 }",
		"package a struct R { F int64 }",
		"package a enum E { }",
		"package a struct R root { F M } multimap M { key []string dict(A) dict(B) value []R dict(C) }",
		"package a struct R root { F M } multimap M { key string dict(A) dict(B) value E } enum E { X = 1 }",
		"package a struct R root { F S dict(D) G []S dict(D2) } struct S dict(DS) { X O } oneof O { A R B []O }",
		"package a.b.c struct R root { F S optional G M optional } struct S { } multimap M { key S value M }",
		allProductions,
		// field modifiers in the other order (refused by the grammar: dict(..) belongs to the type,
		// optional follows it; if a parser accepts them, what it builds must still survive print -> parse)
		"package a struct R root { F []string optional dict(D) }",
		"package a struct R root { F []S optional dict(DS) G string optional dict(D) } struct S dict(DS) { X int64 }",
		"package a struct R root { F string optional dict(D) }",
		"package a struct R root { F M optional dict(D) } multimap M { key string value []string optional }",
	}
	for i, t := range fixed {
		printParseCase(fmt.Sprintf("fixed%d", i), t)
	}
	// pass A: schemas without the trigger patterns of recorded / repaired findings (any failure
	// here is a fresh violation); pass B: schemas that may contain them (enum-typed fields, dict on
	// array elements, no root). The signatures of repaired findings are kept so that a
	// regression is reported under its old name.
	n := 400
	if thorough {
		n = 8000
	}
	for k := 0; k < n; k++ {
		o := genOpts{oddFormat: r.Bool()}
		stats["gen-pass-A"]++
		printParseCase(fmt.Sprintf("genA%d", k), genSchema(r, o))
	}
	for k := 0; k < n/2; k++ {
		o := genOpts{enums: r.Bool(), arrayElemDict: r.Bool(), rootless: r.Chance(1, 6), oddFormat: r.Bool()}
		stats["gen-pass-B"]++
		printParseCase(fmt.Sprintf("genB%d", k), genSchema(r, o))
	}
	// pass C: generated schemas with `dict(X) optional` rewritten to `optional dict(X)`
	swapRe := regexp.MustCompile(`dict\(([A-Za-z0-9_]+)\)(\s+)optional`)
	for k := 0; k < n/4; k++ {
		o := genOpts{enums: r.Bool(), arrayElemDict: true, oddFormat: r.Bool()}
		t := genSchema(r, o)
		t2 := swapRe.ReplaceAllString(t, "optional${2}dict($1)")
		if t2 == t {
			continue
		}
		stats["gen-pass-C-swapped-modifiers"]++
		printParseCase(fmt.Sprintf("genC%d", k), t2)
	}
	serdeCases()
	concurrentCases()
}

func main() {
	defer out.Flush()
	mode := "all"
	if len(os.Args) > 1 {
		mode = os.Args[1]
	}
	switch mode {
	case "c12":
		runC12()
	case "c13":
		runC13()
	default:
		runC12()
		runC13()
	}
	keys := make([]string, 0, len(stats))
	for k := range stats {
		keys = append(keys, k)
	}
	sort.Strings(keys)
	for _, k := range keys {
		note("stat %s %d", k, stats[k])
	}
	for k, c := range failCount {
		if c > 5 {
			note("note %s reported %d times (first 5 printed)", k, c)
		}
	}
}
