package main

import (
	"fmt"

	"verif/harness/internal/rng"
)

// evolve returns B = A plus 1..4 fields appended at the END of randomly chosen structs and
// oneofs. Appended types: primitives, optional primitives, dict-encoded strings, enums,
// existing struct / oneof / multimap types, arrays, and NEW struct / oneof / multimap types
// (reachable only through appended fields: they insert entries in the middle of the
// depth-first list of field counts). Root names and every existing field stay as they are.
func evolve(r *rng.R, a *gSchema, pkg string, wild bool) (*gSchema, map[string]int) {
	for {
		b, feat := evolveOnce(r, a, pkg)
		// fields appended to A's definitions are new, but the definitions are frozen as a whole
		// here: a violation inside one (e.g. an A dict struct that B puts on a cycle) => redraw
		if sanitizeNew(b, a, feat, wild) {
			return b, feat
		}
	}
}

// sanitizeNew applies sanitize to B, allowing changes only to what B added.
func sanitizeNew(b, a *gSchema, feat map[string]int, wild bool) bool {
	if !wild {
		// array element dictionaries on fields appended to A's definitions: dropped here (the
		// definitions themselves are frozen for sanitize)
		for _, d := range b.Defs {
			da := a.def(d.Name)
			if da == nil {
				continue
			}
			for i := len(da.Fields); i < len(d.Fields); i++ {
				if t := &d.Fields[i].Ty; t.Array && t.Dict != "" {
					t.Dict = ""
				}
			}
		}
	}
	frozen := map[string]bool{}
	for _, d := range a.Defs {
		frozen[d.Name] = true
	}
	return sanitize(b, frozen, feat, wild)
}

func evolveOnce(r *rng.R, a *gSchema, pkg string) (*gSchema, map[string]int) {
	b := a.clone()
	b.Pkg = pkg
	g := &sgen{r: r, s: b, feat: map[string]int{}}
	for _, d := range b.Defs {
		for _, f := range d.Fields {
			if f.Ty.Dict != "" {
				if f.Ty.Prim == "string" && !contains(g.strDict, f.Ty.Dict) {
					g.strDict = append(g.strDict, f.Ty.Dict)
				}
				if f.Ty.Prim == "bytes" && !contains(g.bytDict, f.Ty.Dict) {
					g.bytDict = append(g.bytDict, f.Ty.Dict)
				}
			}
		}
		if d.Kind == "multimap" {
			for _, t := range []gType{d.Key, d.Val} {
				if t.Dict != "" && t.Prim == "string" && !contains(g.strDict, t.Dict) {
					g.strDict = append(g.strDict, t.Dict)
				}
				if t.Dict != "" && t.Prim == "bytes" && !contains(g.bytDict, t.Dict) {
					g.bytDict = append(g.bytDict, t.Dict)
				}
			}
		}
	}
	maxRank := 0
	for _, d := range b.Defs {
		if d.rank > maxRank {
			maxRank = d.rank
		}
	}
	var targets []*gDef
	for _, d := range b.Defs {
		if d.Kind == "struct" || d.Kind == "oneof" {
			targets = append(targets, d)
		}
	}
	nNew := 0
	newStruct := func(depth int) *gDef {
		nNew++
		maxRank++
		d := &gDef{Kind: "struct", Name: fmt.Sprintf("N%d", nNew), rank: maxRank}
		if r.Chance(1, 4) {
			d.Dict = d.Name
			g.feat["new-dict-struct"]++
		}
		b.Defs = append(b.Defs, d) // registered before its fields are drawn: they may refer to it (optional/array)
		n := 1 + r.Intn(3)
		for i := 1; i <= n; i++ {
			t, opt := g.fieldType(d, "field")
			d.Fields = append(d.Fields, gField{Name: fmt.Sprintf("F%d", i), Ty: t, Optional: opt})
		}
		return d
	}
	ops := 1 + r.Intn(4)
	for k := 0; k < ops; k++ {
		d := targets[r.Intn(len(targets))]
		if len(d.Fields) >= 10 {
			continue
		}
		var t gType
		opt := false
		kind := ""
		switch x := r.Intn(16); {
		case x < 2:
			t, kind = gType{Prim: g.pick(prims)}, "prim"
		case x < 5:
			t, opt, kind = gType{Prim: g.pick(prims)}, true, "optional-prim"
		case x < 6:
			t, kind = g.primType(true), "prim-maybe-dict"
			if t.Dict == "" {
				t = gType{Prim: "string", Dict: "DSN"}
				if !contains(g.strDict, "DSN") {
					g.strDict = append(g.strDict, "DSN")
				}
			}
			kind = "dict-string"
		case x < 9:
			n := newStruct(0)
			t, kind = gType{Ref: n.Name}, "new-struct"
			switch r.Intn(4) {
			case 0:
				opt, kind = true, "optional-new-struct"
			case 1:
				t.Array, kind = true, "array-of-new-struct"
			}
		case x < 10:
			nNew++
			m := &gDef{Kind: "multimap", Name: fmt.Sprintf("NM%d", nNew)}
			m.Key = g.primType(true)
			if r.Bool() {
				m.Val = gType{Ref: newStruct(0).Name}
			} else {
				m.Val, _ = g.fieldType(nil, "value")
			}
			b.Defs = append(b.Defs, m)
			t, kind = gType{Ref: m.Name}, "new-multimap"
			opt = r.Chance(1, 4)
		case x < 11:
			nNew++
			o := &gDef{Kind: "oneof", Name: fmt.Sprintf("NO%d", nNew)}
			b.Defs = append(b.Defs, o)
			n := 1 + r.Intn(3)
			for i := 1; i <= n; i++ {
				at, _ := g.fieldType(nil, "alt")
				o.Fields = append(o.Fields, gField{Name: fmt.Sprintf("A%d", i), Ty: at})
			}
			t, kind = gType{Ref: o.Name}, "new-oneof"
		default:
			// anything the schema generator can draw over the existing (and new) types
			t, opt = g.fieldType(d, "field")
			kind = "existing-type"
			if x := b.def(t.Ref); x != nil {
				kind = "existing-" + x.Kind
			}
			if t.Array {
				kind = "array-" + kind
			} else if opt {
				kind = "optional-" + kind
			}
		}
		name := fmt.Sprintf("F%d", len(d.Fields)+1)
		if d.Kind == "oneof" {
			name = fmt.Sprintf("A%d", len(d.Fields)+1)
			opt = false
		} else if x := b.def(t.Ref); x != nil && x.Kind == "struct" && !t.Array && x.rank <= d.rank {
			opt = true
		}
		d.Fields = append(d.Fields, gField{Name: name, Ty: t, Optional: opt})
		g.feat["append-to-"+d.Kind]++
		g.feat["append-"+kind]++
		if opt {
			g.feat["append-optional"]++
		}
	}
	return b, g.feat
}

func contains(xs []string, x string) bool {
	for _, y := range xs {
		if y == x {
			return true
		}
	}
	return false
}
