package main

import (
	"fmt"
	"os"
	"path/filepath"

	"github.com/splunk/stef/go/pkg/schema"
)

// Small fixed schemas (all accepted by the idl parser) for which stefc used to generate code
// that does not compile or cannot be initialised. Since repo commit 90dfff4
// (stefc/generator/validate.go) stefc REFUSES most of them before generating anything: they are
// regression cases now. lib/hgen.py counts a refusal of the expected class; if stefc accepts
// such a schema again and the defect reproduces, the PROP-FAIL with the old signature fires.
// (the name clashes are refused since repo 2f1d523.)
type hazard struct {
	name, expect, refusal, why, text string
}

var hazardList = []hazard{
	{"hz_dictname", "generated-code-does-not-compile:struct-dict-name", "struct-dict-name",
		"struct S dict(D) with D != S: writerstate.go/readerstate.go refer to <D>EncoderDict/<D>DecoderDict, the struct template defines <S>EncoderDict",
		"package hgen.pa\nstruct R1 root {\n  F1 S1\n}\nstruct S1 dict(Shared) {\n  F1 string\n}\n"},
	{"hz_dictmix", "generated-code-does-not-compile:dict-shared-string-bytes", "dict-shared-string-bytes",
		"one dictionary name used by a string field and a bytes field: a single state field of type codecs.BytesDict*/StringDict* is handed to both codecs",
		"package hgen.pa\nstruct R1 root {\n  F1 string dict(D1)\n  F2 bytes dict(D1)\n}\n"},
	{"hz_array_elem_dict", "generated-code-does-not-compile:array-elem-dict-undeclared", "array-elem-dict",
		"a string/bytes dictionary used only by array element types ([]string dict(D)) is never declared in WriterState/ReaderState",
		"package hgen.pa\nstruct R1 root {\n  F1 []string dict(D1)\n}\n"},
	{"hz_recursive_dict_struct", "generated-code-does-not-compile:recursive-dict-struct", "optional-dict-struct|recursive-dict-struct",
		"a dictionary struct on a recursion cycle (stored by pointer twice over): the decoder passes *S where **S is expected, SetF() generated without its argument",
		"package hgen.pa\nstruct R1 root {\n  F1 S1\n}\nstruct S1 dict(S1) {\n  F1 S1 optional\n  F2 int64\n}\n"},
	{"hz_recursive_dict_array", "generated-code-does-not-compile:recursive-dict-struct", "recursive-dict-struct",
		"a dictionary struct that contains itself through an array (no optional field involved)",
		"package hgen.pa\nstruct R1 root {\n  F1 S1\n}\nstruct S1 dict(S1) {\n  F1 []S1\n  F2 int64\n}\n"},
	{"hz_mutual_containment", "init-never-terminates", "self-containment",
		"two structs that contain each other through non-optional fields",
		"package hgen.pa\nstruct R1 root {\n  F1 S1\n}\nstruct S1 {\n  F1 S2\n}\nstruct S2 {\n  F1 S1\n  F2 bool\n}\n"},
	{"hz_optional_dict_struct", "generated-code-does-not-compile:optional-dict-struct", "optional-dict-struct",
		"an optional field whose type is a dictionary struct: the presence setter Set<F>() and the dictionary setter Set<F>(*S) collide, the copy code calls s.Set<F>() without its argument",
		"package hgen.pa\nstruct R1 root {\n  F1 S1 optional\n}\nstruct S1 dict(S1) {\n  F1 int64\n}\n"},
	{"hz_oneof_names", "generated-code-does-not-compile:name-clash", "name-clash",
		"oneof alternatives named Type / None collide with the generated Type()/SetType() methods and the <Oneof>TypeNone constant",
		"package hgen.pa\nstruct R1 root {\n  F1 O1\n}\noneof O1 {\n  Type int64\n  None bool\n}\n"},
	{"hz_struct_names", "generated-code-does-not-compile:name-clash", "name-clash",
		"struct fields named Init / Clone collide with the generated methods (field init vs method init)",
		"package hgen.pa\nstruct R1 root {\n  Init bool\n  Clone int64\n}\n"},
	{"hz_keyword", "generated-code-does-not-compile:go-keyword-field", "go-keyword-field",
		"a field whose lower-cased name is a Go keyword (type) is used verbatim as a struct member / parameter name",
		"package hgen.pa\nstruct R1 root {\n  type uint64\n  X string\n}\n"},
	{"hz_lowercase", "generated-code-does-not-compile:name-clash", "lowercase-field",
		"a field name that starts with a lower case letter: the getter foo() and the struct member foo get the same Go name (found while repairing the name clashes, repo 2f1d523)",
		"package hgen.pa\nstruct R1 root {\n  foo uint64\n  Bar string\n}\n"},
	{"hz_setter_names", "generated-code-does-not-compile:name-clash", "name-clash",
		"a field SetX next to a field X: the setter of X and the getter of SetX collide",
		"package hgen.pa\nstruct R1 root {\n  X uint64\n  SetX uint64\n}\n"},
	{"hz_root_and_dict", "generated-code-does-not-compile:root-and-dict-struct", "root-and-dict-struct",
		"a struct that is both root and dict(..): the grammar allows ONE struct modifier (the parser refuses the second); if it is ever accepted, the reader template passes *Root where the dictionary decoder wants **Root",
		"package hgen.pa\nstruct R1 root dict(R1) {\n  F1 uint64\n  F2 string\n}\n"},
	{"hz_dict_and_root", "generated-code-does-not-compile:root-and-dict-struct", "root-and-dict-struct",
		"the same with the modifiers in the other order",
		"package hgen.pa\nstruct R1 dict(R1) root {\n  F1 uint64\n  F2 string\n}\n"},
	{"hz_direct_recursion", "init-never-terminates", "self-containment",
		"a struct that contains itself through a NON-optional field is accepted by the parser and compiles, but Init()/New<Struct>() recurse without bound (stack overflow, not recoverable)",
		"package hgen.pa\nstruct R1 root {\n  F1 R1\n  F2 int64\n}\n"},
}

func hazards(outdir, hdir string) []*entry {
	var es []*entry
	for _, h := range hazardList {
		s, err, pan := parse(h.text)
		if err != nil || pan != "" {
			note("hazard %s is no longer accepted by the parser: %v %s", h.name, err, pan)
			continue
		}
		e := &entry{ID: h.name, Kind: "hazard", Dir: filepath.Join(outdir, h.name), Schemas: []string{"a.stef"}, Pkgs: []string{"pa"},
			Expect: h.expect, Why: h.why, Refusal: h.refusal}
		if err := writeModule(e, hdir, []string{h.text}, []*schema.Schema{s}, []string{h.name}); err != nil {
			fmt.Fprintln(os.Stderr, "h_gen:", err)
			os.Exit(2)
		}
		stats["hazard-schemas"]++
		es = append(es, e)
	}
	return es
}
