package main

import (
	"fmt"
	"strings"

	"verif/harness/internal/rng"
)

// In-memory IDL schema of the generator / evolver. Only shapes the repository's idl parser
// accepts are representable; text() renders .stef source.

type gType struct {
	Array bool
	Prim  string // bool int64 uint64 float64 string bytes ("" = reference)
	Ref   string // struct / oneof / multimap / enum name
	Dict  string // dict(Name) modifier on string/bytes
}

func (t gType) text() string {
	s := ""
	if t.Array {
		s = "[]"
	}
	if t.Prim != "" {
		s += t.Prim
	} else {
		s += t.Ref
	}
	if t.Dict != "" {
		s += " dict(" + t.Dict + ")"
	}
	return s
}

type gField struct {
	Name     string
	Ty       gType
	Optional bool
}

type gDef struct {
	Kind   string // struct oneof multimap enum
	Name   string
	Dict   string // struct dict(Name)
	Root   bool
	Fields []gField
	Key    gType
	Val    gType
	Enum   []uint64
	rank   int  // position in the inline-containment order (structs only)
	leaf   bool // a dictionary "leaf" struct: primitive-ish content only, never optional, never recursive
}

type gSchema struct {
	Pkg  string
	Defs []*gDef
}

func (s *gSchema) def(name string) *gDef {
	for _, d := range s.Defs {
		if d.Name == name {
			return d
		}
	}
	return nil
}

func (s *gSchema) clone() *gSchema {
	c := &gSchema{Pkg: s.Pkg}
	for _, d := range s.Defs {
		e := *d
		e.Fields = append([]gField(nil), d.Fields...)
		e.Enum = append([]uint64(nil), d.Enum...)
		c.Defs = append(c.Defs, &e)
	}
	return c
}

func (s *gSchema) text() string {
	var sb strings.Builder
	fmt.Fprintf(&sb, "package %s\n", s.Pkg)
	for _, d := range s.Defs {
		sb.WriteString("\n")
		switch d.Kind {
		case "enum":
			fmt.Fprintf(&sb, "enum %s {\n", d.Name)
			for i, v := range d.Enum {
				fmt.Fprintf(&sb, "  V%d = %d\n", i, v)
			}
			sb.WriteString("}\n")
		case "multimap":
			fmt.Fprintf(&sb, "multimap %s {\n  key %s\n  value %s\n}\n", d.Name, d.Key.text(), d.Val.text())
		default:
			sb.WriteString(d.Kind + " " + d.Name)
			if d.Root {
				sb.WriteString(" root")
			} else if d.Dict != "" {
				sb.WriteString(" dict(" + d.Dict + ")")
			}
			sb.WriteString(" {\n")
			for _, f := range d.Fields {
				sb.WriteString("  " + f.Name + " " + f.Ty.text())
				if f.Optional {
					sb.WriteString(" optional")
				}
				sb.WriteString("\n")
			}
			sb.WriteString("}\n")
		}
	}
	return sb.String()
}

// ---------------------------------------------------------------------------------------

type sgen struct {
	wild    bool
	r       *rng.R
	s       *gSchema
	strDict []string // dictionaries of string fields
	bytDict []string // dictionaries of bytes fields (never shared with strings: known defect)
	feat    map[string]int
	// mandatoryBack: a struct field that refers back to a struct of lower or equal rank may stay
	// NON-optional when the cycle it closes holds an optional / array / oneof / multimap edge
	// elsewhere (a cycle that closes back through a shared struct: the shape on which "walk every
	// type once" recursion analyses go wrong). Off for the evolver, which must not touch A's fields.
	mandatoryBack bool
}

var prims = []string{"bool", "int64", "uint64", "float64", "string", "bytes"}

func (g *sgen) names(kind string) []string {
	var out []string
	for _, d := range g.s.Defs {
		if d.Kind == kind {
			out = append(out, d.Name)
		}
	}
	return out
}

func (g *sgen) pick(xs []string) string { return xs[g.r.Intn(len(xs))] }

func (g *sgen) primType(allowDict bool) gType {
	p := g.pick(prims)
	t := gType{Prim: p}
	if allowDict && (p == "string" || p == "bytes") && g.r.Chance(2, 5) {
		pool := &g.strDict
		pfx := "DS"
		if p == "bytes" {
			pool, pfx = &g.bytDict, "DB"
		}
		if len(*pool) == 0 || (len(*pool) < 2 && g.r.Chance(1, 3)) {
			*pool = append(*pool, fmt.Sprintf("%s%d", pfx, len(*pool)+1))
		} else {
			g.feat["dict-shared-between-fields"]++
		}
		t.Dict = g.pick(*pool)
		g.feat["dict-"+p]++
	}
	return t
}

// fieldType draws a field type for a field of owner (nil for multimap key/value and oneof
// alternatives, which may refer to anything). inline=true: a non-optional struct field, which
// must respect the inline-containment order (no infinite values).
func (g *sgen) fieldType(owner *gDef, position string) (t gType, optional bool) {
	structs := g.names("struct")
	oneofs := g.names("oneof")
	maps := g.names("multimap")
	enums := g.names("enum")
	for tries := 0; tries < 20; tries++ {
		switch x := g.r.Intn(20); {
		case x < 6:
			t = g.primType(true)
		case x < 7 && len(enums) > 0:
			t = gType{Ref: g.pick(enums)}
			g.feat["enum-field"]++
		case x < 11 && len(structs) > 0:
			t = gType{Ref: g.pick(structs)}
		case x < 13 && len(oneofs) > 0:
			t = gType{Ref: g.pick(oneofs)}
		case x < 15 && len(maps) > 0:
			t = gType{Ref: g.pick(maps)}
		case x < 20:
			// arrays: of primitives, enums, structs, oneofs, multimaps (no arrays of arrays in the IDL)
			switch y := g.r.Intn(10); {
			case y < 4:
				t = g.primType(true)
			case y < 5 && len(enums) > 0:
				t = gType{Ref: g.pick(enums)}
			case y < 8 && len(structs) > 0:
				t = gType{Ref: g.pick(structs)}
			case y < 9 && len(oneofs) > 0:
				t = gType{Ref: g.pick(oneofs)}
			case len(maps) > 0:
				t = gType{Ref: g.pick(maps)}
			default:
				t = g.primType(false)
			}
			t.Array = true
		default:
			continue
		}
		break
	}
	if t.Prim == "" && t.Ref == "" {
		t = gType{Prim: "int64"}
	}
	if d := g.s.def(t.Ref); d != nil && d.leaf {
		// dictionary leaf structs are used as plain fields, array elements, multimap keys/values;
		// as a oneof alternative only inside an array (a direct alternative is a known defect)
		if position == "alt" {
			t.Array = true
		}
		return t, false
	}
	if position == "field" {
		optional = g.r.Chance(1, 3)
		if d := g.s.def(t.Ref); d != nil && d.Kind == "struct" && !t.Array && owner != nil {
			// inline struct containment must be acyclic: a non-optional struct field may only
			// refer to a struct of higher rank; anything else becomes optional (recursion).
			if d.rank <= owner.rank && !(g.mandatoryBack && g.r.Chance(1, 3)) {
				optional = true
			}
		}
	}
	return t, optional
}

func (g *sgen) classify(owner *gDef, f gField) {
	t := f.Ty
	d := g.s.def(t.Ref)
	k := "prim"
	if d != nil {
		k = d.Kind
	}
	switch {
	case t.Array:
		g.feat["array-of-"+k]++
	case f.Optional:
		g.feat["optional-"+k]++
	default:
		g.feat["field-"+k]++
	}
	if d != nil && d.Kind == "struct" && d.Dict != "" {
		g.feat["dict-struct-use"]++
	}
}

// genSchema draws a schema: 1..3 roots, up to 10 types, up to 6 fields each.
//
// wild: the shapes stefc refuses (see sanitize) are NOT removed, and with some probability one
// more refused shape is planted: such a schema is expected to be refused by the compiler.
func genSchema(r *rng.R, pkg string, wild bool) (*gSchema, map[string]int) {
	g := &sgen{r: r, s: &gSchema{Pkg: pkg}, feat: map[string]int{}, wild: wild, mandatoryBack: true}
	nRoots := 1
	switch x := r.Intn(10); {
	case x >= 8:
		nRoots = 3
	case x >= 5:
		nRoots = 2
	}
	nStructs := r.Intn(5)
	nOneofs := r.Intn(3)
	nMaps := r.Intn(3)
	nEnums := r.Intn(2)
	nLeaf := 0
	if r.Chance(1, 2) {
		nLeaf = 1 + r.Intn(2) // dictionary structs that stefc can generate working code for
	}
	for nRoots+nStructs+nOneofs+nMaps+nEnums+nLeaf > 10 {
		if nStructs > 0 {
			nStructs--
		} else {
			nLeaf--
		}
	}
	rank := 0
	add := func(kind, pfx string, n int, root bool) {
		for i := 1; i <= n; i++ {
			d := &gDef{Kind: kind, Name: fmt.Sprintf("%s%d", pfx, i), Root: root, rank: rank}
			rank++
			g.s.Defs = append(g.s.Defs, d)
		}
	}
	add("struct", "R", nRoots, true)
	add("struct", "S", nStructs, false)
	add("struct", "D", nLeaf, false)
	for _, d := range g.s.Defs {
		if strings.HasPrefix(d.Name, "D") {
			d.leaf = true
			d.Dict = d.Name // the generated code only compiles when the names agree (known defect)
			d.rank += 1000  // may be contained inline by any struct
		}
	}
	add("oneof", "O", nOneofs, false)
	add("multimap", "M", nMaps, false)
	add("enum", "E", nEnums, false)
	g.feat[fmt.Sprintf("roots-%d", nRoots)]++
	for _, d := range g.s.Defs {
		switch d.Kind {
		case "enum":
			n := 1 + r.Intn(4)
			v := uint64(r.Intn(2))
			for i := 0; i < n; i++ {
				d.Enum = append(d.Enum, v)
				v += uint64(1 + r.Intn(3))
			}
		case "multimap":
			d.Key, _ = g.fieldType(nil, "key")
			d.Val, _ = g.fieldType(nil, "value")
			kd, vd := g.s.def(d.Key.Ref), g.s.def(d.Val.Ref)
			kk, vk := "prim", "prim"
			if kd != nil {
				kk = kd.Kind
			}
			if vd != nil {
				vk = vd.Kind
			}
			if d.Key.Array {
				kk = "array"
			}
			if d.Val.Array {
				vk = "array"
			}
			g.feat["multimap-key-"+kk]++
			g.feat["multimap-value-"+vk]++
		case "struct":
			if d.leaf {
				g.leafFields(d)
				g.feat["dict-struct"]++
				continue
			}
			n := 1 + r.Intn(6)
			for i := 1; i <= n; i++ {
				t, opt := g.fieldType(d, "field")
				f := gField{Name: fmt.Sprintf("F%d", i), Ty: t, Optional: opt}
				d.Fields = append(d.Fields, f)
				g.classify(d, f)
			}
		case "oneof":
			n := r.Intn(6)
			if n == 0 && r.Chance(2, 3) {
				n = 2
			}
			for i := 1; i <= n; i++ {
				t, _ := g.fieldType(nil, "alt")
				d.Fields = append(d.Fields, gField{Name: fmt.Sprintf("A%d", i), Ty: t})
				k := "prim"
				if x := g.s.def(t.Ref); x != nil {
					k = x.Kind
				}
				if t.Array {
					k = "array"
				}
				g.feat["oneof-alt-"+k]++
			}
		}
	}
	if r.Chance(1, 4) {
		g.plantSharedCycle()
	}
	g.ensureReferenced()
	g.breakMandatoryCycles()
	g.assignDictStructs()
	sanitize(g.s, nil, g.feat, wild)
	if wild {
		g.plantRefused()
	}
	g.recursionFeatures()
	return g.s, g.feat
}

// plantRefused (wild mode) plants one more shape that stefc refuses: a struct dictionary not
// named after its struct, one dictionary on a string and a bytes field, a dictionary on an
// array element type, or a struct that contains itself through a non-optional field.
func (g *sgen) plantRefused() {
	var structs []*gDef
	for _, d := range g.s.Defs {
		if d.Kind == "struct" && len(d.Fields) > 0 {
			structs = append(structs, d)
		}
	}
	if len(structs) == 0 {
		return
	}
	d := structs[g.r.Intn(len(structs))]
	switch g.r.Intn(6) {
	case 0:
		for _, x := range structs {
			if x.Dict != "" {
				x.Dict = x.Dict + "Dict"
				g.feat["wild-struct-dict-name"]++
				return
			}
		}
	case 1:
		if len(d.Fields) < 9 {
			n := len(d.Fields)
			d.Fields = append(d.Fields, gField{Name: fmt.Sprintf("F%d", n+1), Ty: gType{Prim: "string", Dict: "DMIX"}},
				gField{Name: fmt.Sprintf("F%d", n+2), Ty: gType{Prim: "bytes", Dict: "DMIX"}})
			g.feat["wild-dict-shared-string-bytes"]++
		}
	case 2:
		if len(d.Fields) < 10 {
			d.Fields = append(d.Fields, gField{Name: fmt.Sprintf("F%d", len(d.Fields)+1), Ty: gType{Array: true, Prim: "string", Dict: "DARR"}})
			g.feat["wild-array-elem-dict"]++
		}
	case 3:
		if len(d.Fields) < 10 {
			d.Fields = append(d.Fields, gField{Name: fmt.Sprintf("F%d", len(d.Fields)+1), Ty: gType{Ref: d.Name}})
			g.feat["wild-self-containment"]++
		}
	case 4, 5:
		if len(d.Fields) >= 10 || g.s.def("W1") != nil {
			return
		}
		w := &gDef{Kind: "struct", Name: "W1", Dict: "W1", rank: 2000, Fields: []gField{{Name: "F1", Ty: gType{Prim: "int64"}}}}
		g.s.Defs = append(g.s.Defs, w)
		f := gField{Name: fmt.Sprintf("F%d", len(d.Fields)+1), Ty: gType{Ref: "W1"}, Optional: true}
		g.feat["wild-optional-dict-struct"]++
		if g.r.Bool() {
			o := &gDef{Kind: "oneof", Name: "WO1", Fields: []gField{{Name: "A1", Ty: gType{Prim: "bool"}}, {Name: "A2", Ty: gType{Ref: "W1"}}}}
			g.s.Defs = append(g.s.Defs, o)
			f = gField{Name: f.Name, Ty: gType{Ref: "WO1"}}
			g.feat["wild-optional-dict-struct"]--
			g.feat["wild-oneof-alt-dict-struct"]++
		}
		d.Fields = append(d.Fields, f)
	}
}

// typeEdges lists the definitions a definition refers to (enums excluded).
func typeEdges(s *gSchema, d *gDef) []string {
	var out []string
	add := func(t gType) {
		if x := s.def(t.Ref); x != nil && x.Kind != "enum" {
			out = append(out, t.Ref)
		}
	}
	for _, f := range d.Fields {
		add(f.Ty)
	}
	if d.Kind == "multimap" {
		add(d.Key)
		add(d.Val)
	}
	return out
}

func onCycle(s *gSchema, name string) bool {
	seen := map[string]bool{}
	var dfs func(string) bool
	dfs = func(n string) bool {
		for _, to := range typeEdges(s, s.def(n)) {
			if to == name {
				return true
			}
			if !seen[to] {
				seen[to] = true
				if dfs(to) {
					return true
				}
			}
		}
		return false
	}
	return dfs(name)
}

// sanitize makes a drawn schema one that stefc generates WORKING code for.
//
// Shapes that stefc refuses since repo commit 90dfff4 (stefc/generator/validate.go) - removed in
// the normal ("legal") mode only; in wild mode they stay, the schema is then expected to be
// refused by stefc and is counted as such by lib/hgen.py:
//   - a dict modifier on an array element type: dropped
//   - an optional field of dictionary-struct type: the struct loses its dict modifier
//   - a oneof alternative of dictionary-struct type: the struct loses its dict modifier
//   - a recursive dictionary struct: it loses its dict modifier
//
// Shapes that stefc still ACCEPTS and generates broken code for (recorded known findings,
// triggered by the fixed schemas fx_dictrec / fx_dictkey) - removed in both modes:
//   - a dictionary struct that can reach a recursive type (Write panics in byteSize)
//   - a multimap key of dictionary-struct type with a dictionary-struct field (New<Root>Reader
//     panics): the nested struct loses its dict modifier
//
// No longer restricted (repaired in the repository): optional fields inside dictionary structs
// (82431a4), mixed dict modifiers on []string fields (refused as array element dictionaries).
//
// Definitions named in frozen (the A part of an evolution pair) are never changed: if one of
// them would have to be, sanitize returns false and the caller draws again.
func sanitize(s *gSchema, frozen map[string]bool, feat map[string]int, wild bool) bool {
	ok := true
	dropDict := func(x *gDef, why string) {
		if x.Dict == "" {
			return
		}
		if frozen[x.Name] {
			ok = false
			return
		}
		x.Dict = ""
		feat["sanitized-"+why]++
	}
	if !wild {
		for _, d := range s.Defs {
			var ts []*gType
			for i := range d.Fields {
				ts = append(ts, &d.Fields[i].Ty)
			}
			if d.Kind == "multimap" {
				ts = append(ts, &d.Key, &d.Val)
			}
			for _, t := range ts {
				if t.Array && t.Dict != "" {
					if frozen[d.Name] {
						ok = false
					} else {
						t.Dict = ""
						feat["sanitized-array-elem-dict"]++
					}
				}
			}
		}
		for _, d := range s.Defs {
			for _, f := range d.Fields {
				x := s.def(f.Ty.Ref)
				if f.Ty.Array || x == nil || x.Kind != "struct" || x.Dict == "" {
					continue
				}
				if d.Kind == "struct" && f.Optional {
					dropDict(x, "optional-dict-struct")
				}
				if d.Kind == "oneof" {
					dropDict(x, "oneof-alt-dict-struct")
				}
			}
		}
		for _, d := range s.Defs {
			if d.Kind == "struct" && d.Dict != "" && onCycle(s, d.Name) {
				dropDict(d, "recursive-dict-struct")
			}
		}
	}
	// (two more avoidances stood here until the repository repaired the defects: a multimap key of
	// dictionary-struct type with a dictionary-struct field - reader-panic-freeze, e75a995 - and a
	// dictionary struct that reaches a recursive type - writer-panic-byteSize, 03a6b52.)
	return ok
}

// leafFields draws the fields of a dictionary leaf struct: primitives (with dictionaries, some
// optional), enums, arrays of primitives, and later leaf structs - nothing recursive.
func (g *sgen) leafFields(d *gDef) {
	enums := g.names("enum")
	n := 1 + g.r.Intn(4)
	for i := 1; i <= n; i++ {
		var t gType
		switch x := g.r.Intn(10); {
		case x < 5:
			t = g.primType(true)
		case x < 6 && len(enums) > 0:
			t = gType{Ref: g.pick(enums)}
		case x < 8:
			t = g.primType(false)
			t.Array = true
		default:
			t = g.primType(true)
			for _, o := range g.s.Defs {
				if o.leaf && o.rank > d.rank && g.r.Bool() {
					t = gType{Ref: o.Name}
				}
			}
		}
		f := gField{Name: fmt.Sprintf("F%d", i), Ty: t}
		if x := g.s.def(t.Ref); (x == nil || x.Kind == "enum") && g.r.Chance(1, 4) {
			f.Optional = true // optional primitives / arrays inside a dictionary struct (repaired by 82431a4)
			g.feat["dict-struct-optional-field"]++
		}
		d.Fields = append(d.Fields, f)
		g.classify(d, f)
	}
}

// assignDictStructs gives the dict(Name) modifier to about half of the structs for which stefc is
// able to generate working code (see sanitize for the shapes that are known not to work): not on
// or reaching a recursion cycle, never the type of an optional field or of a oneof alternative.
// The dictionary is named after the struct: the generated code only compiles when the names agree.
func (g *sgen) assignDictStructs() {
	banned := map[string]bool{}
	for _, d := range g.s.Defs {
		for _, f := range d.Fields {
			if f.Ty.Array {
				continue
			}
			if (d.Kind == "struct" && f.Optional) || d.Kind == "oneof" {
				banned[f.Ty.Ref] = true
			}
		}
	}
	for _, d := range g.s.Defs {
		if d.Kind != "struct" || d.Root || banned[d.Name] || onCycle(g.s, d.Name) {
			continue
		}
		reaches := false
		seen := map[string]bool{}
		var walk func(n string)
		walk = func(n string) {
			for _, to := range typeEdges(g.s, g.s.def(n)) {
				if !seen[to] {
					seen[to] = true
					if onCycle(g.s, to) {
						reaches = true
					}
					walk(to)
				}
			}
		}
		walk(d.Name)
		if reaches || !g.r.Chance(1, 2) {
			continue
		}
		d.Dict = d.Name
		g.feat["dict-struct"]++
	}
}

// ensureReferenced gives every non-root definition at least one referencing field when a
// struct with room exists (unreferenced definitions are pruned by the parser with a warning).
func (g *sgen) ensureReferenced() {
	used := map[string]bool{}
	mark := func(t gType) {
		if t.Ref != "" {
			used[t.Ref] = true
		}
	}
	for _, d := range g.s.Defs {
		for _, f := range d.Fields {
			mark(f.Ty)
		}
		if d.Kind == "multimap" {
			mark(d.Key)
			mark(d.Val)
		}
	}
	for _, d := range g.s.Defs {
		if d.Root || used[d.Name] {
			continue
		}
		var hosts []*gDef
		for _, h := range g.s.Defs {
			if h.Kind == "struct" && len(h.Fields) < 6 && h != d {
				hosts = append(hosts, h)
			}
		}
		if len(hosts) == 0 {
			continue
		}
		h := hosts[g.r.Intn(len(hosts))]
		f := gField{Name: fmt.Sprintf("F%d", len(h.Fields)+1), Ty: gType{Ref: d.Name}}
		if d.Kind == "struct" && d.rank <= h.rank {
			if g.r.Bool() {
				f.Optional = true
			} else {
				f.Ty.Array = true
			}
		}
		h.Fields = append(h.Fields, f)
		g.classify(h, f)
		used[d.Name] = true
	}
}

// recursionFeatures records through which constructs the type graph is cyclic.
func (g *sgen) recursionFeatures() {
	type edge struct {
		to, via string
	}
	adj := map[string][]edge{}
	for _, d := range g.s.Defs {
		addE := func(t gType, via string) {
			x := g.s.def(t.Ref)
			if x == nil || x.Kind == "enum" {
				return
			}
			if t.Array {
				via = "array"
			}
			adj[d.Name] = append(adj[d.Name], edge{t.Ref, via})
		}
		switch d.Kind {
		case "struct":
			for _, f := range d.Fields {
				via := "field"
				if f.Optional {
					via = "optional"
				}
				addE(f.Ty, via)
			}
		case "oneof":
			for _, f := range d.Fields {
				addE(f.Ty, "oneof-alt")
			}
		case "multimap":
			addE(d.Key, "multimap-key")
			addE(d.Val, "multimap-value")
		}
	}
	reach := func(from, to string) bool {
		seen := map[string]bool{}
		var dfs func(string) bool
		dfs = func(n string) bool {
			if n == to {
				return true
			}
			if seen[n] {
				return false
			}
			seen[n] = true
			for _, e := range adj[n] {
				if dfs(e.to) {
					return true
				}
			}
			return false
		}
		return dfs(from)
	}
	for n, es := range adj {
		for _, e := range es {
			if e.to == n {
				g.feat["recursion-self-via-"+e.via]++
			} else if reach(e.to, n) {
				g.feat["recursion-mutual-via-"+e.via]++
			}
		}
	}
}

// breakMandatoryCycles: a struct must not contain itself through non-optional plain struct fields
// only (stefc refuses that: it could never be initialised). Back references that were left
// mandatory (mandatoryBack) and close such a cycle become optional; the others stay and are
// counted (feature mandatory-back-edge).
func (g *sgen) breakMandatoryCycles() {
	mand := func(d *gDef) []*gField {
		var out []*gField
		if d == nil || d.Kind != "struct" {
			return nil
		}
		for i := range d.Fields {
			f := &d.Fields[i]
			if x := g.s.def(f.Ty.Ref); x != nil && x.Kind == "struct" && !f.Ty.Array && !f.Optional {
				out = append(out, f)
			}
		}
		return out
	}
	var reaches func(from, to string, seen map[string]bool) bool
	reaches = func(from, to string, seen map[string]bool) bool {
		if from == to {
			return true
		}
		if seen[from] {
			return false
		}
		seen[from] = true
		for _, f := range mand(g.s.def(from)) {
			if reaches(f.Ty.Ref, to, seen) {
				return true
			}
		}
		return false
	}
	for _, d := range g.s.Defs {
		for _, f := range mand(d) {
			x := g.s.def(f.Ty.Ref)
			if x.rank > d.rank {
				continue
			}
			if reaches(x.Name, d.Name, map[string]bool{}) {
				f.Optional = true
			} else {
				g.feat["mandatory-back-edge"]++
			}
		}
	}
}

// plantSharedCycle adds a recursion cycle that closes back to an ancestor through a struct shared
// by two paths: P -> A -> S -> P and P -> B -> S -> P with P's fields optional (or arrays), the
// others mandatory, B on the second path only. Needs three plain structs after P.
func (g *sgen) plantSharedCycle() {
	var st []*gDef
	for _, d := range g.s.Defs {
		if d.Kind == "struct" && !d.leaf {
			st = append(st, d)
		}
	}
	if len(st) < 4 {
		return
	}
	pi := g.r.Intn(len(st) - 3)
	rest := st[pi+1:]
	// three distinct later structs in rank order: a < b < sh
	i := g.r.Intn(len(rest) - 2)
	j := i + 1 + g.r.Intn(len(rest)-i-2)
	k := j + 1 + g.r.Intn(len(rest)-j-1)
	p, a, b, sh := st[pi], rest[i], rest[j], rest[k]
	addField := func(d *gDef, t gType, opt bool) {
		f := gField{Name: fmt.Sprintf("F%d", len(d.Fields)+1), Ty: t, Optional: opt}
		d.Fields = append(d.Fields, f)
		g.classify(d, f)
	}
	for _, x := range []*gDef{a, b} {
		t := gType{Ref: x.Name}
		if g.r.Chance(1, 4) {
			t.Array = true
			addField(p, t, false)
		} else {
			addField(p, t, true)
		}
	}
	addField(a, gType{Ref: sh.Name}, false)
	addField(b, gType{Ref: sh.Name}, false)
	addField(sh, gType{Ref: p.Name}, false)
	g.feat["planted-shared-cycle"]++
}
