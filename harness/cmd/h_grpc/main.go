// h_grpc drives the real chunkAssembler (go/grpc/server.go) and grpcWriter (client.go) through
// the verif hooks with generated chunk lists x message splittings x read sizes, and one
// end-to-end run over a real loopback gRPC stream.
package main

import (
	"bufio"
	"bytes"
	"context"
	"encoding/hex"
	"errors"
	"fmt"
	"io"
	"net"
	"os"
	"runtime"
	"strings"
	"sync"
	"time"

	"google.golang.org/grpc"
	"google.golang.org/grpc/credentials/insecure"

	stefgrpc "github.com/splunk/stef/go/grpc"
	"github.com/splunk/stef/go/grpc/stef_proto"
	"github.com/splunk/stef/go/otel/otelstef"
	"github.com/splunk/stef/go/pkg"

	"verif/harness/internal/rng"
)

var out = bufio.NewWriterSize(os.Stdout, 1<<20)

func emit(op, res string)         { fmt.Fprintf(out, "%s\t%s\n", op, res) }
func note(f string, a ...any)     { fmt.Fprintf(out, "# "+f+"\n", a...) }
func propFail(f string, a ...any) { fmt.Fprintf(out, "PROP-FAIL "+f+"\n", a...) }

func hx(b []byte) string {
	if len(b) == 0 {
		return "-"
	}
	return hex.EncodeToString(b)
}

var stats = map[string]int{}

type msg struct {
	b   []byte
	end bool
}

type scripted struct {
	msgs []msg
	pos  int
}

func (s *scripted) RecvMsg() ([]byte, bool, error) {
	if s.pos >= len(s.msgs) {
		return nil, false, io.EOF
	}
	m := s.msgs[s.pos]
	s.pos++
	// hand out a private copy, as gRPC does (the assembler may alias it)
	return append([]byte(nil), m.b...), m.end, nil
}

func genChunks(r *rng.R) [][]byte {
	n := r.Intn(6)
	var cs [][]byte
	for i := 0; i < n; i++ {
		var ln int
		switch r.Intn(6) {
		case 0:
			ln = 0
		case 1:
			ln = 1
		case 2:
			ln = 1 + r.Intn(8)
		case 3:
			ln = 8 + r.Intn(40)
		case 4:
			ln = r.Intn(200)
		case 5:
			ln = 4096 + r.Intn(300)
		}
		if ln > 64 && os.Getenv("VERIF_TIER") != "thorough" && r.Chance(1, 2) {
			ln = r.Intn(64)
		}
		b := make([]byte, ln)
		for k := range b {
			b[k] = byte(r.U64())
		}
		cs = append(cs, b)
	}
	return cs
}

func split(r *rng.R, chunk []byte) []msg {
	var ms []msg
	rest := chunk
	for {
		if r.Chance(1, 3) || len(rest) == 0 {
			if len(rest) == 0 || r.Chance(1, 2) {
				break
			}
		}
		k := r.Intn(len(rest) + 1)
		ms = append(ms, msg{rest[:k], false})
		rest = rest[k:]
		if len(ms) > 6 {
			break
		}
	}
	ms = append(ms, msg{rest, true})
	return ms
}

func runCase(r *rng.R, id int) {
	chunks := genChunks(r)
	var msgs []msg
	for _, c := range chunks {
		msgs = append(msgs, split(r, c)...)
	}
	// optionally an incomplete trailing chunk (must never be delivered)
	trailing := false
	if r.Chance(1, 4) {
		msgs = append(msgs, msg{[]byte{0xEE, 0xEE}, false})
		trailing = true
	}
	name := fmt.Sprintf("asm-%d", id)
	note("case %s", name)
	var sb strings.Builder
	sb.WriteString("ca new")
	for _, m := range msgs {
		e := 0
		if m.end {
			e = 1
		}
		fmt.Fprintf(&sb, " %s:%d", hx(m.b), e)
	}
	emit(sb.String(), "ok")
	src := &scripted{msgs: msgs}
	asm := stefgrpc.VerifNewChunkAssembler(src)
	var want []byte
	for _, c := range chunks {
		want = append(want, c...)
	}
	var got []byte
	multi := false
	for _, c := range chunks {
		if len(c) > 0 {
			multi = true
		}
	}
	if len(msgs) > len(chunks) && multi {
		note("nontrivial %x", r.U64())
	}
	if id%53 == 0 {
		note("sample case=%s chunks=%d msgs=%d trailing=%v", name, len(chunks), len(msgs), trailing)
	}
	stats["chunks"] += len(chunks)
	stats["messages"] += len(msgs)
	zeroReads := 0
	for step := 0; step < 400; step++ {
		var n int
		switch r.Intn(5) {
		case 0:
			n = 1
		case 1:
			n = 1 + r.Intn(7)
		case 2:
			n = 64
		case 3:
			n = 4096
		case 4:
			n = 0
		}
		p := make([]byte, n)
		// chunk alignment oracle: messages consumed before/after this Read
		k, err := asm.Read(p)
		stats["reads"]++
		if err != nil {
			emit(fmt.Sprintf("ca read %d", n), "err")
			if !errors.Is(err, io.EOF) {
				propFail("C15 unexpected-error case=%s err=%v", name, err)
			}
			break
		}
		emit(fmt.Sprintf("ca read %d", n), fmt.Sprintf("n=%d %s", k, hx(p[:k])))
		got = append(got, p[:k]...)
		// released bytes must belong to chunks whose end message was consumed
		var consumedComplete []byte
		var acc []byte
		for _, m := range msgs[:src.pos] {
			acc = append(acc, m.b...)
			if m.end {
				consumedComplete = append(consumedComplete, acc...)
				acc = nil
			}
		}
		if len(got) > len(consumedComplete) || !bytes.Equal(got, consumedComplete[:len(got)]) {
			propFail("C15 released-before-end-of-chunk case=%s after %d reads: delivered %d bytes, complete consumed chunks hold %d", name, step+1, len(got), len(consumedComplete))
			break
		}
		if k == 0 {
			zeroReads++
			if zeroReads > 50 {
				break
			}
		}
	}
	if !bytes.Equal(got, want) {
		propFail("C15 bytes-changed case=%s want=%s got=%s", name, hx(want), hx(got))
	}
	st := asm.Stats()
	emit("ca stats", fmt.Sprintf("chunks=%d bytes=%d", st.MessagesReceived, st.BytesReceived))
}

// --- client side: WriteChunk sends exactly one message header++content flagged end of chunk.

type fakeClientStream struct {
	grpc.ClientStream
	sent []*stef_proto.STEFClientMessage
}

func (f *fakeClientStream) Send(m *stef_proto.STEFClientMessage) error {
	cp := &stef_proto.STEFClientMessage{StefBytes: append([]byte(nil), m.StefBytes...), IsEndOfChunk: m.IsEndOfChunk}
	f.sent = append(f.sent, cp)
	return nil
}
func (f *fakeClientStream) Recv() (*stef_proto.STEFServerMessage, error) { return nil, io.EOF }

func writerCases(r *rng.R, n int) {
	for i := 0; i < n; i++ {
		note("case cw-%d", i)
		fs := &fakeClientStream{}
		w := stefgrpc.VerifNewGrpcWriter(fs)
		k := 1 + r.Intn(4)
		// a LENDING producer (every second case): header and content of all chunks of the case
		// live in two buffers that are reused from call to call, as pkg.FrameEncoder does with its
		// compressed-frame buffer; ChunkWriter lends the slices for the duration of the call only.
		// One-part chunks (empty header or empty content) are frequent in these cases.
		lending := i%2 == 1
		var hbuf, cbuf [64]byte
		// every fourth case: ONE scratch buffer for everything the producer lends - a header-only chunk
		// whose header is the front of the scratch buffer (spare capacity behind it), later a chunk whose
		// content lives in the same array under a header from elsewhere: a writer that keeps a lent
		// slice builds its next message inside the caller's memory.
		shared := i%4 == 3
		var sbuf [128]byte
		var hown [12]byte
		if lending {
			k = 2 + r.Intn(4)
		}
		for j := 0; j < k; j++ {
			h := make([]byte, r.Intn(12))
			c := make([]byte, r.Intn(40))
			if lending {
				hl, cl := r.Intn(12), r.Intn(40)
				if r.Chance(1, 3) {
					hl = 0
				} else if r.Chance(1, 3) {
					cl = 0
				}
				h, c = hbuf[:hl], cbuf[:cl]
				if shared {
					switch (j + i/4) % 3 {
					case 0: // header only, at the front of the scratch buffer
						if hl == 0 {
							hl = 3
						}
						h, c = sbuf[:hl], sbuf[:0]
					case 1: // content at the front of the scratch buffer, header from elsewhere
						if cl == 0 {
							cl = 9
						}
						if hl == 0 {
							hl = 3
						}
						h, c = hown[:hl], sbuf[:cl]
					default: // both in the scratch buffer, content behind the header
						h, c = sbuf[:hl], sbuf[64:64+cl]
					}
					stats["writechunks-one-scratch-buffer"]++
				}
				stats["writechunks-lent-buffers"]++
				if len(h) == 0 || len(c) == 0 {
					stats["writechunks-one-part"]++
				}
			}
			for x := range h {
				h[x] = byte(r.U64())
			}
			for x := range c {
				c[x] = byte(r.U64())
			}
			hWant, cWant := append([]byte(nil), h...), append([]byte(nil), c...)
			before := len(fs.sent)
			if err := w.WriteChunk(h, c); err != nil {
				propFail("C15 writechunk-error %v", err)
			}
			if !bytes.Equal(h, hWant) || !bytes.Equal(c, cWant) {
				propFail("C15 writechunk-modifies-callers-slices case=cw-%d chunk %d: header %s content %s lent to WriteChunk came back as %s / %s", i, j, hx(hWant), hx(cWant), hx(h), hx(c))
			}
			h, c = hWant, cWant
			if len(fs.sent) == before {
				propFail("C15 writechunk-message-count no message sent for a chunk (header=%s content=%s)", hx(h), hx(c))
				continue
			}
			// the receiver's rule: the messages of this call, concatenated, are the chunk; exactly the
			// last one is marked end of chunk (how many messages a chunk takes is the writer's business:
			// the model's answer - one - is the tie below, not the property)
			var cat []byte
			endsOK := true
			for k, m := range fs.sent[before:] {
				cat = append(cat, m.StefBytes...)
				if m.IsEndOfChunk != (k == len(fs.sent)-before-1) {
					endsOK = false
				}
			}
			m := fs.sent[len(fs.sent)-1]
			e := 0
			if m.IsEndOfChunk {
				e = 1
			}
			if len(fs.sent) == before+1 {
				emit(fmt.Sprintf("cw chunk %s %s", hx(h), hx(c)), fmt.Sprintf("%s:%d", hx(m.StefBytes), e))
			} else {
				emit(fmt.Sprintf("cw chunk %s %s", hx(h), hx(c)), fmt.Sprintf("%d-messages", len(fs.sent)-before))
			}
			if !bytes.Equal(cat, append(append([]byte(nil), h...), c...)) || !endsOK {
				propFail("C15 writechunk-content header=%s content=%s sent=%s in %d messages, end-of-chunk marks in place: %v", hx(h), hx(c), hx(cat), len(fs.sent)-before, endsOK)
			}
			stats["writechunks"]++
		}
	}
}

// writerBigCases: chunks around and above the default gRPC message size (4 MiB), written after a
// small chunk on the same writer. However the writer maps a chunk to messages, the receiver's rule
// (concatenate StefBytes until a message carries IsEndOfChunk) must reconstruct exactly the chunks
// written, and the real assembler must deliver their bytes and count them. Not replayed on the
// model (the lines would be megabytes long): the oracle is the harness's.
func writerBigCases(r *rng.R) {
	// (4 MiB - 1 KiB is pkg.DefaultMaxFrameSize, where the full frames of a busy writer end, and a natural
	// message size for a writer that splits: exact multiples of it are boundary cases of any splitting)
	sizes := []int{4<<20 - 1024 - 3, 4<<20 - 1024 + 1 + r.Intn(900), 4<<20 - 1024 + 512, 1 << 20, 2 << 20, 1<<20 + 1, 64 << 10, 4<<20 - 1024, 2 * (4<<20 - 1024)}
	if os.Getenv("VERIF_TIER") == "thorough" {
		sizes = append(sizes, 4<<20-1024+1, 4<<20-1, 4<<20+1, 9<<20+r.Intn(1000), 3*(4<<20-1024), 4<<20, 8<<20)
	}
	for i, sz := range sizes {
		name := fmt.Sprintf("cw-big-%d", i)
		note("case %s", name)
		note("nontrivial %x", uint64(sz))
		fs := &fakeClientStream{}
		w := stefgrpc.VerifNewGrpcWriter(fs)
		var chunks [][]byte
		for _, ln := range []int{43, sz, 19} {
			h := make([]byte, 3)
			c := make([]byte, ln-3)
			for x := range h {
				h[x] = byte(r.U64())
			}
			for x := 0; x < len(c); x += 97 {
				c[x] = byte(r.U64())
			}
			if err := w.WriteChunk(h, c); err != nil {
				propFail("C15 writechunk-error case=%s %v", name, err)
			}
			chunks = append(chunks, append(append([]byte(nil), h...), c...))
		}
		stats["big-writechunks"] += len(chunks)
		// receiver's rule on the messages sent
		var got [][]byte
		var acc []byte
		var msgs []msg
		for _, m := range fs.sent {
			acc = append(acc, m.StefBytes...)
			msgs = append(msgs, msg{m.StefBytes, m.IsEndOfChunk})
			if m.IsEndOfChunk {
				got = append(got, acc)
				acc = nil
			}
		}
		ok := len(acc) == 0 && len(got) == len(chunks)
		for k := 0; ok && k < len(chunks); k++ {
			ok = bytes.Equal(got[k], chunks[k])
		}
		if !ok {
			var gl, ml []int
			for _, g := range got {
				gl = append(gl, len(g))
			}
			for _, m := range fs.sent {
				ml = append(ml, len(m.StefBytes))
			}
			propFail("C15 writechunk-not-chunk-aligned case=%s chunks written: [43 %d 19] bytes; chunks a receiver reconstructs from the messages sent: %v (+%d dangling bytes); message sizes %v", name, sz, gl, len(acc), ml)
		}
		// the real assembler on these messages
		asm := stefgrpc.VerifNewChunkAssembler(&scripted{msgs: msgs})
		var all, want []byte
		for _, c := range chunks {
			want = append(want, c...)
		}
		buf := make([]byte, 1<<20)
		for step := 0; step < 64; step++ {
			k, err := asm.Read(buf)
			all = append(all, buf[:k]...)
			if err != nil {
				break
			}
		}
		if !bytes.Equal(all, want) {
			propFail("C15 bytes-changed case=%s big chunk of %d bytes: assembler delivered %d bytes, want %d", name, sz, len(all), len(want))
		}
		if st := asm.Stats(); int(st.MessagesReceived) != len(chunks) {
			propFail("C15 chunk-count case=%s assembler counted %d chunks, %d were written", name, st.MessagesReceived, len(chunks))
		}
	}
}

// splitHugeChunkCases: one chunk of the size of a large valid frame (up to the decoder's 64 MiB
// frame limit) arrives split over many messages. The assembler must deliver exactly its bytes,
// count one chunk and report no error, however its accumulator grows. Harness oracle only.
func splitHugeChunkCases(r *rng.R) {
	type cfg struct{ total, part int }
	cfgs := []cfg{{pkg.FrameSizeLimit - 100, 1 << 20}}
	if os.Getenv("VERIF_TIER") == "thorough" {
		cfgs = append(cfgs, cfg{60 << 20, 4 << 20}, cfg{60 << 20, 1 << 20}, cfg{50<<20 + r.Intn(1<<20), 3<<20 + r.Intn(1000)}, cfg{40 << 20, 64 << 10})
	}
	for i, c := range cfgs {
		name := fmt.Sprintf("split-huge-%d", i)
		note("case %s", name)
		note("nontrivial %x", uint64(c.total)^uint64(c.part))
		chunk := make([]byte, c.total)
		for x := 0; x < len(chunk); x += 251 {
			chunk[x] = byte(r.U64())
		}
		var msgs []msg
		for o := 0; o < len(chunk); o += c.part {
			e := o + c.part
			if e > len(chunk) {
				e = len(chunk)
			}
			msgs = append(msgs, msg{chunk[o:e], e == len(chunk)})
		}
		msgs = append(msgs, msg{[]byte{1, 2, 3}, true})
		stats["huge-split-messages"] += len(msgs)
		asm := stefgrpc.VerifNewChunkAssembler(&scripted{msgs: msgs})
		var all []byte
		var rerr error
		buf := make([]byte, 1<<20+r.Intn(4096))
		for step := 0; step < 4096; step++ {
			k, err := asm.Read(buf)
			all = append(all, buf[:k]...)
			if err != nil {
				rerr = err
				break
			}
		}
		want := append(append([]byte(nil), chunk...), 1, 2, 3)
		if rerr != io.EOF {
			propFail("C15 split-chunk-error case=%s one chunk of %d bytes (below pkg.FrameSizeLimit) split into messages of %d bytes, the last one marked end of chunk, then a 3 byte chunk: Read returned %v after delivering %d bytes", name, c.total, c.part, rerr, len(all))
		} else if !bytes.Equal(all, want) {
			propFail("C15 bytes-changed case=%s one chunk of %d bytes split into messages of %d bytes: assembler delivered %d bytes, want %d", name, c.total, c.part, len(all), len(want))
		}
		if st := asm.Stats(); rerr == io.EOF && int(st.MessagesReceived) != 2 {
			propFail("C15 chunk-count case=%s assembler counted %d chunks, 2 were sent", name, st.MessagesReceived)
		}
	}
}

// --- end to end over loopback gRPC: bytes observed by the server-side reader equal the
// concatenation of the chunks the client-side writer emitted.

type tee struct {
	inner pkg.ChunkWriter
	all   []byte
}

func (t *tee) WriteChunk(h, c []byte) error {
	t.all = append(t.all, h...)
	t.all = append(t.all, c...)
	return t.inner.WriteChunk(h, c)
}

func endToEnd(r *rng.R) {
	note("case e2e")
	lis, err := net.Listen("tcp", "127.0.0.1:0")
	if err != nil {
		note("note e2e skipped: %v", err)
		return
	}
	schema, _ := otelstef.MetricsWireSchema()
	gotCh := make(chan []byte, 1)
	srv := stefgrpc.NewStreamServer(stefgrpc.ServerSettings{
		ServerSchema: &schema,
		Callbacks: stefgrpc.Callbacks{OnStream: func(reader stefgrpc.GrpcReader, stream stefgrpc.STEFStream) error {
			var all []byte
			buf := make([]byte, 37)
			for {
				n, err := reader.Read(buf)
				all = append(all, buf[:n]...)
				if err != nil {
					break
				}
			}
			gotCh <- all
			return nil
		}},
	})
	gs := grpc.NewServer()
	stef_proto.RegisterSTEFDestinationServer(gs, srv)
	go gs.Serve(lis)
	defer gs.Stop()
	conn, err := grpc.NewClient(lis.Addr().String(), grpc.WithTransportCredentials(insecure.NewCredentials()))
	if err != nil {
		propFail("C15 e2e-dial %v", err)
		return
	}
	defer conn.Close()
	cl, err := stefgrpc.NewClient(stefgrpc.ClientSettings{
		GrpcClient:   stef_proto.NewSTEFDestinationClient(conn),
		ClientSchema: stefgrpc.ClientSchema{RootStructName: "Metrics", WireSchema: &schema},
		Callbacks:    stefgrpc.ClientCallbacks{OnAck: func(uint64) error { return nil }},
	})
	if err != nil {
		propFail("C15 e2e-client %v", err)
		return
	}
	cw, opts, err := cl.Connect(context.Background())
	if err != nil {
		propFail("C15 e2e-connect %v", err)
		return
	}
	t := &tee{inner: cw}
	opts.MaxUncompressedFrameByteSize = 200
	w, err := otelstef.NewMetricsWriter(t, opts)
	if err != nil {
		propFail("C15 e2e-writer %v", err)
		return
	}
	for i := 0; i < 300; i++ {
		w.Record.Point().SetTimestamp(r.U64())
		w.Record.Metric().SetName(fmt.Sprintf("m%d", r.Intn(5)))
		if err := w.Write(); err != nil {
			propFail("C15 e2e-write %v", err)
			return
		}
	}
	w.Flush()
	time.Sleep(100 * time.Millisecond)
	cl.Disconnect(context.Background())
	select {
	case got := <-gotCh:
		stats["e2e-bytes"] = len(got)
		if !bytes.Equal(got, t.all) {
			propFail("C15 e2e-bytes-changed wrote %d bytes, server observed %d", len(t.all), len(got))
		}
	case <-time.After(10 * time.Second):
		propFail("C15 e2e-timeout server did not finish")
	}
}

func main() {
	thorough := os.Getenv("VERIF_TIER") == "thorough"
	r := rng.FromEnv(15)
	n := 400
	if thorough {
		n = 8000
	}
	for i := 0; i < n; i++ {
		runCase(r, i)
	}
	writerCases(r, n/4)
	writerBigCases(r)
	splitHugeChunkCases(r)
	endToEnd(r)
	sequentialStreams(r)
	slowConsumerHalfClose(r)
	for k, v := range stats {
		note("stat %s %d", k, v)
	}
	out.Flush()
}

// --- several streams, one after another, to ONE StreamServer: every second stream is abandoned by
// the server-side handler in the middle of a chunk (the handler returns after consuming a prefix
// of it, as a receiver does on a decode error or when its consumer says "try again later"). The
// reader of every stream must observe exactly the bytes written to THAT stream: nothing of a
// previous stream may survive in whatever the server keeps between streams.
func sequentialStreams(r *rng.R) {
	note("case e2e-sequential-streams")
	defer runtime.GOMAXPROCS(runtime.GOMAXPROCS(1)) // keeps per-P caches (sync.Pool) predictable
	lis, err := net.Listen("tcp", "127.0.0.1:0")
	if err != nil {
		note("note e2e-sequential-streams skipped: %v", err)
		return
	}
	schema, _ := otelstef.MetricsWireSchema()
	type result struct {
		got []byte
	}
	resCh := make(chan result, 1)
	var mu sync.Mutex
	abandonAfter := -1
	srv := stefgrpc.NewStreamServer(stefgrpc.ServerSettings{
		ServerSchema: &schema,
		Callbacks: stefgrpc.Callbacks{OnStream: func(reader stefgrpc.GrpcReader, stream stefgrpc.STEFStream) error {
			mu.Lock()
			limit := abandonAfter
			mu.Unlock()
			var all []byte
			buf := make([]byte, 11)
			for {
				if limit >= 0 && len(all) >= limit {
					resCh <- result{all}
					return fmt.Errorf("try again later")
				}
				b := buf
				if limit >= 0 && limit-len(all) < len(b) {
					b = b[:limit-len(all)]
				}
				n, err := reader.Read(b)
				all = append(all, b[:n]...)
				if err != nil {
					resCh <- result{all}
					return nil
				}
			}
		}},
	})
	gs := grpc.NewServer()
	stef_proto.RegisterSTEFDestinationServer(gs, srv)
	go gs.Serve(lis)
	defer gs.Stop()
	conn, err := grpc.NewClient(lis.Addr().String(), grpc.WithTransportCredentials(insecure.NewCredentials()))
	if err != nil {
		propFail("C15 e2e-dial %v", err)
		return
	}
	defer conn.Close()
	rounds := 8
	for k := 0; k < rounds; k++ {
		abandon := k%2 == 0
		// chunks of this stream: distinct bytes per stream
		var chunks [][]byte
		for j := 0; j < 2+r.Intn(3); j++ {
			c := make([]byte, 20+r.Intn(60))
			for x := range c {
				c[x] = byte(k*31 + j*7 + x)
			}
			chunks = append(chunks, c)
		}
		var want []byte
		for _, c := range chunks {
			want = append(want, c...)
		}
		mu.Lock()
		abandonAfter = -1
		if abandon {
			abandonAfter = len(chunks[0]) + 3 + r.Intn(len(chunks[1])-6) // inside the second chunk
		}
		limit := abandonAfter
		mu.Unlock()
		cl, err := stefgrpc.NewClient(stefgrpc.ClientSettings{
			GrpcClient:   stef_proto.NewSTEFDestinationClient(conn),
			ClientSchema: stefgrpc.ClientSchema{RootStructName: "Metrics", WireSchema: &schema},
			Callbacks:    stefgrpc.ClientCallbacks{OnAck: func(uint64) error { return nil }},
		})
		if err != nil {
			propFail("C15 e2e-client %v", err)
			return
		}
		cw, _, err := cl.Connect(context.Background())
		if err != nil {
			propFail("C15 e2e-connect stream %d: %v", k, err)
			return
		}
		for _, c := range chunks {
			cw.WriteChunk(c[:5], c[5:]) // errors after the handler left are expected on abandoned streams
		}
		time.Sleep(30 * time.Millisecond)
		cl.Disconnect(context.Background())
		select {
		case res := <-resCh:
			exp := want
			if abandon {
				exp = want[:limit]
			}
			stats["sequential-streams"]++
			if !bytes.Equal(res.got, exp) {
				propFail("C15 stream-sees-foreign-bytes stream %d of %d to one server (previous stream abandoned mid-chunk: %v): reader observed %s, this stream's chunks are %s", k+1, rounds, k > 0 && !abandon, hx(res.got), hx(exp))
				return
			}
		case <-time.After(10 * time.Second):
			propFail("C15 e2e-timeout stream %d: server handler did not finish", k)
			return
		}
	}
	note("nontrivial %x", uint64(rounds))
}

// --- a slow consumer and a client that half-closes the stream right after its last message (a raw
// gRPC client stream: handshake by hand, then CloseSend - not Client.Disconnect, which cancels the
// stream and may legitimately lose what is in flight). gRPC delivers every message sent before the
// half-close; the server-side reader must hand all of them out before it reports the end of the
// stream, however far behind it is.
func slowConsumerHalfClose(r *rng.R) {
	note("case e2e-slow-consumer-half-close")
	lis, err := net.Listen("tcp", "127.0.0.1:0")
	if err != nil {
		note("note e2e-slow-consumer-half-close skipped: %v", err)
		return
	}
	schema, _ := otelstef.MetricsWireSchema()
	type result struct {
		got []byte
		err error
	}
	resCh := make(chan result, 1)
	srv := stefgrpc.NewStreamServer(stefgrpc.ServerSettings{
		ServerSchema: &schema,
		Callbacks: stefgrpc.Callbacks{OnStream: func(reader stefgrpc.GrpcReader, stream stefgrpc.STEFStream) error {
			var all []byte
			buf := make([]byte, 7)
			for {
				time.Sleep(1500 * time.Microsecond)
				n, err := reader.Read(buf)
				all = append(all, buf[:n]...)
				if err != nil {
					resCh <- result{all, err}
					return nil
				}
			}
		}},
	})
	gs := grpc.NewServer()
	stef_proto.RegisterSTEFDestinationServer(gs, srv)
	go gs.Serve(lis)
	defer gs.Stop()
	conn, err := grpc.NewClient(lis.Addr().String(), grpc.WithTransportCredentials(insecure.NewCredentials()))
	if err != nil {
		propFail("C15 e2e-dial %v", err)
		return
	}
	defer conn.Close()
	ctx, cancel := context.WithTimeout(context.Background(), 30*time.Second)
	defer cancel()
	st, err := stef_proto.NewSTEFDestinationClient(conn).Stream(ctx)
	if err != nil {
		propFail("C15 e2e-stream %v", err)
		return
	}
	if err := st.Send(&stef_proto.STEFClientMessage{FirstMessage: &stef_proto.STEFClientFirstMessage{RootStructName: "Metrics"}}); err != nil {
		propFail("C15 e2e-first-message %v", err)
		return
	}
	if _, err := st.Recv(); err != nil { // capabilities
		propFail("C15 e2e-capabilities %v", err)
		return
	}
	var want []byte
	nchunks := 30 + r.Intn(20)
	for k := 0; k < nchunks; k++ {
		c := make([]byte, 3+r.Intn(9))
		for x := range c {
			c[x] = byte(r.U64())
		}
		want = append(want, c...)
		if k%3 == 0 && len(c) > 2 {
			// a chunk split over two messages
			st.Send(&stef_proto.STEFClientMessage{StefBytes: c[:2]})
			st.Send(&stef_proto.STEFClientMessage{StefBytes: c[2:], IsEndOfChunk: true})
		} else {
			st.Send(&stef_proto.STEFClientMessage{StefBytes: c, IsEndOfChunk: true})
		}
	}
	st.CloseSend()
	stats["slow-consumer-chunks"] += nchunks
	select {
	case res := <-resCh:
		if !bytes.Equal(res.got, want) {
			propFail("C15 bytes-lost-at-end-of-stream %d chunks (%d bytes) sent and the stream half-closed while the reader was behind: the reader observed %d bytes (%s) and then %v; sent %s", nchunks, len(want), len(res.got), hx(res.got), res.err, hx(want))
		}
	case <-time.After(25 * time.Second):
		propFail("C15 e2e-timeout slow consumer: server handler did not finish")
	}
	note("nontrivial %x", uint64(nchunks))
}
