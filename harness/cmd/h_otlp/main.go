// h_otlp drives the OTLP <-> STEF converters of go/pdata (properties C17 and C18).
//
//	h_otlp metrics   C17: OTLP metrics -> STEF (unsorted and sorted converter) -> OTLP (unsorted and
//	                 sorted converter), multisets of data points compared with an own flattening
//	h_otlp traces    C18: OTLP traces -> STEF (plain and sorting mode), records read back and compared
//	                 field by field with the spans
//
// Output protocol: see AGENTS.md. Op lines ("otlp <op> <encoded input>\t<canonical output>") are
// replayed on the Lean model (lean/Stef/Driver/Otlp.lean).
package main

import (
	"bufio"
	"fmt"
	"hash/fnv"
	"os"
	"sort"
	"strings"

	"github.com/splunk/stef/go/pkg"

	"verif/harness/internal/rng"
)

var out = bufio.NewWriterSize(os.Stdout, 1<<20)

func emit(op, res string)     { fmt.Fprintf(out, "%s\t%s\n", op, res) }
func note(f string, a ...any) { fmt.Fprintf(out, "# "+f+"\n", a...) }

var stats = map[string]int{}
var samples = 0
var reported = map[string]int{} // PROP-FAIL lines printed per signature

func propFail(prop, sig, desc string) {
	reported[prop+" "+sig]++
	stats["propfail-"+prop+"-"+sig]++
	if reported[prop+" "+sig] <= 2 {
		fmt.Fprintf(out, "PROP-FAIL %s %s %s\n", prop, sig, desc)
	}
}

func hash64(s string) uint64 {
	h := fnv.New64a()
	h.Write([]byte(s))
	return h.Sum64()
}

// optsFor picks writer options; the name is printed with every failure so that it can be replayed.
func optsFor(r *rng.R) (pkg.WriterOptions, string) {
	name := "default"
	switch r.Intn(8) {
	case 0:
		name = fmt.Sprintf("frame=%d", 64+r.Intn(400))
	case 1:
		name = "zstd"
	case 2:
		name = fmt.Sprintf("frame=%d+rcodec", 64+r.Intn(400))
	}
	return parseOpts(name), name
}

func parseOpts(name string) pkg.WriterOptions {
	var o pkg.WriterOptions
	for _, part := range strings.Split(name, "+") {
		switch {
		case part == "zstd":
			o.Compression = pkg.CompressionZstd
		case part == "restart":
			o.FrameRestartFlags = pkg.RestartDictionaries | pkg.RestartCodecs
		case part == "rdict":
			o.FrameRestartFlags |= pkg.RestartDictionaries
		case part == "rcodec":
			o.FrameRestartFlags |= pkg.RestartCodecs
		case strings.HasPrefix(part, "frame="):
			var n uint
			fmt.Sscanf(part[6:], "%d", &n)
			o.MaxUncompressedFrameByteSize = n
		}
	}
	return o
}

var curOpts = "default"

// ------------------------------------------------------------------ C17

func nontrivialM(t Metrics) bool {
	pts, carry, attrs := 0, false, false
	for _, rm := range t.RMs {
		for _, sm := range rm.Scopes {
			for _, m := range sm.Mets {
				pts += len(m.Pts)
				if len(m.Pts) >= 2 {
					carry = true
				}
				for _, p := range m.Pts {
					if len(p.Attrs) > 0 {
						attrs = true
					}
				}
			}
		}
	}
	return pts >= 2 && carry && attrs
}

func describeM(t Metrics, vs [4]verdict) string {
	var parts []string
	for i, v := range vs {
		if !v.ok {
			parts = append(parts, combos[i].name+": "+v.desc)
		}
	}
	return strings.Join(parts, " | ") + " || writer options: " + curOpts + " || minimal input: " + clip(EncodeMetrics(t), 1500)
}

func statM(t Metrics) {
	for _, rm := range t.RMs {
		stats["m-resources"]++
		for _, sm := range rm.Scopes {
			stats["m-scopes"]++
			for _, m := range sm.Mets {
				stats[fmt.Sprintf("m-metric-type-%d", m.Type)]++
				for _, p := range m.Pts {
					stats["m-points"]++
					if p.Flags&1 != 0 {
						stats["m-points-flagged"]++
					}
					stats["m-exemplars"] += len(p.Ex)
					stats["m-point-attrs"] += len(p.Attrs)
				}
			}
		}
	}
}

// runMetricsCase evaluates one input. class < 0: clean stream.
func runMetricsCase(name string, t Metrics, class int, optsName string, thorough bool) {
	opts := parseOpts(optsName)
	curOpts = optsName
	note("case %s", name)
	stats["m-cases"]++
	statM(t)
	if nontrivialM(t) {
		note("nontrivial %x", hash64(EncodeMetrics(t)))
	}
	emitMetricsOps(t, class)
	vs := evalMetrics(t, opts)
	if allOK(vs) {
		stats["m-cases-ok"]++
		// every third clean case: the previous clean batch and this one through ONE converter and
		// ONE writer (state that survives between batches: the reused record, dictionaries, the
		// converter's scratch buffers)
		if class < 0 {
			if havePrevM && stats["m-cases-ok"]%3 == 0 {
				stats["m-multi-batch-cases"]++
				if mv := evalMetricsSeq(prevM, t, opts); !allOK(mv) {
					for i, v := range mv {
						if !v.ok {
							propFail("C17", "multi-batch-"+combos[i].name+"-"+v.field, fmt.Sprintf("two batches through one converter and one writer (%s): %s; writer options: %s; first batch: %s; second batch: %s",
								combos[i].name, v.desc, optsName, clip(EncodeMetrics(prevM), 3000), clip(EncodeMetrics(t), 3000)))
							break
						}
					}
				}
			}
			prevM, havePrevM = t, true
		}
		return
	}
	stats["m-cases-failing"]++
	eval := func(x Metrics) [4]verdict { return evalMetrics(x, opts) }
	if class >= 0 {
		c := mclasses[class]
		dt := c.detrigger(t)
		evalD := eval // evaluation of a detriggered input
		if c.opts != "" {
			evalD = func(x Metrics) [4]verdict { return evalMetrics(x, pkg.WriterOptions{}) }
		}
		if allOK(evalD(dt)) {
			// every failing combination must be one the class explains
			sigs := map[string]bool{}
			explained := true
			for i, v := range vs {
				if v.ok {
					continue
				}
				s := c.sig(combos[i].name, v.field, vs)
				if s == "" {
					explained = false
					break
				}
				sigs[s] = true
			}
			if explained {
				var names []string
				for s := range sigs {
					names = append(names, s)
				}
				sort.Strings(names)
				for _, s := range names {
					if reported["C17 "+s] == 0 {
						// shrink the first witness of each signature, keeping the class explanation intact
						min := shrinkM(t, func(x Metrics) bool {
							xv := eval(x)
							if allOK(xv) || !allOK(evalD(c.detrigger(x))) {
								return false
							}
							for i, v := range xv {
								if !v.ok && c.sig(combos[i].name, v.field, xv) == s {
									return true
								}
							}
							return false
						})
						mv := eval(min)
						propFail("C17", s, describeM(min, mv))
						if samples < 10 {
							samples++
							note("sample known-finding %s minimal input: %s", s, clip(EncodeMetrics(min), 600))
						}
					} else {
						propFail("C17", s, "")
					}
				}
				return
			}
		} else {
			t = dt // the trigger is not the cause: report what fails without it
			eval = evalD
			if c.opts != "" {
				opts, curOpts = pkg.WriterOptions{}, "default"
			}
			vs = eval(t)
		}
	}
	// a fresh violation: shrink while the same combination keeps failing on the same field
	first := -1
	for i, v := range vs {
		if !v.ok {
			first = i
			break
		}
	}
	field := vs[first].field
	min := shrinkM(t, func(x Metrics) bool {
		v := checkRoundTrip(x, roundTrip(x, combos[first].wSorted, combos[first].rSorted, opts, false))
		return !v.ok && v.field == field
	})
	mv := eval(min)
	sig := "unexpected-" + combos[first].name + "-" + field
	propFail("C17", sig, describeM(min, mv))
	if reported["C17 "+sig] <= 2 {
		note("sample violation %s minimal input: %s", sig, clip(EncodeMetrics(min), 600))
	}
}

func metricsPhase(thorough bool) {
	nClean, nTrig := 1600, 120
	if thorough {
		nClean, nTrig = 25000, 2500
	}
	r := rng.FromEnv(1700)
	// the clean profile: every float class everywhere (NaN payloads, -0.0, inf, subnormal; also in key
	// positions and histogram bounds, since repo commits 05846e0 / 59db810 / 7828c58), nested maps of any
	// size (since 571960a)
	g := &G{r: r, allowArrays: true}
	for i := 0; i < nClean; i++ {
		g.big = thorough && i%10 == 0
		t := g.metrics()
		_, oname := optsFor(r)
		stats["m-opts-"+strings.Split(oname, "=")[0]]++
		if samples < 3 && CountPoints(t) >= 2 && CountPoints(t) <= 4 {
			samples++
			note("sample clean metrics input: %s", clip(EncodeMetrics(t), 500))
		}
		runMetricsCase(fmt.Sprintf("m-clean-%d", i), t, -1, oname, thorough)
	}
	for k, c := range mclasses {
		g := &G{r: rng.FromEnv(uint64(1710 + k)), allowArrays: true}
		c.setup(g)
		oname := "default"
		if c.opts != "" {
			oname = c.opts
		}
		for i := 0; i < nTrig; i++ {
			t := g.metrics()
			stats["m-trigger-cases-"+c.name]++
			runMetricsCase(fmt.Sprintf("m-%s-%d", c.name, i), t, k, oname, thorough)
		}
	}
}

// ------------------------------------------------------------------ C18

func nontrivialT(t Traces) bool {
	spans, varied := 0, false
	for _, rs := range t.RSs {
		for _, ss := range rs.Scopes {
			for i, s := range ss.Spans {
				spans++
				if i > 0 && (len(s.Events) != len(ss.Spans[i-1].Events) || len(s.Links) != len(ss.Spans[i-1].Links)) {
					varied = true
				}
			}
		}
	}
	return spans >= 2 && varied
}

func describeT(t Traces, vs [2]verdict) string {
	var parts []string
	for i, v := range vs {
		if !v.ok {
			parts = append(parts, tmodes[i].name+": "+v.desc)
		}
	}
	return strings.Join(parts, " | ") + " || writer options: " + curOpts + " || minimal input: " + clip(EncodeTraces(t), 1500)
}

func statT(t Traces) {
	for _, rs := range t.RSs {
		stats["t-resources"]++
		for _, ss := range rs.Scopes {
			stats["t-scopes"]++
			for _, s := range ss.Spans {
				stats["t-spans"]++
				stats["t-events"] += len(s.Events)
				stats["t-links"] += len(s.Links)
				stats["t-span-attrs"] += len(s.Attrs)
			}
		}
	}
}

func allOKT(vs [2]verdict) bool { return vs[0].ok && vs[1].ok }

func runTracesCase(name string, t Traces, class int, opts pkg.WriterOptions) {
	note("case %s", name)
	stats["t-cases"]++
	statT(t)
	if nontrivialT(t) {
		note("nontrivial %x", hash64(EncodeTraces(t)))
	}
	emitTracesOps(t, class)
	vs := evalTraces(t, opts)
	if allOKT(vs) {
		stats["t-cases-ok"]++
		if class < 0 {
			if havePrevT && stats["t-cases-ok"]%3 == 0 {
				stats["t-multi-batch-cases"]++
				if mv := evalTracesSeq(prevT, t, opts); !allOKT(mv) {
					for i, v := range mv {
						if !v.ok {
							propFail("C18", "multi-batch-"+tmodes[i].name+"-"+v.field, fmt.Sprintf("two batches through one converter and one writer (%s): %s; first batch: %s; second batch: %s",
								tmodes[i].name, v.desc, clip(EncodeTraces(prevT), 3000), clip(EncodeTraces(t), 3000)))
							break
						}
					}
				}
			}
			if stats["t-cases-ok"]%3 == 1 && len(t.RSs) > 0 {
				// one converter serving a second stream (reconnect): the first stream ends with the
				// resource the second one starts with (what a converter that remembers its last
				// resource gets wrong), or with whatever the previous case held
				first := Traces{RSs: []RS{t.RSs[0]}}
				if havePrevT && stats["t-cases-ok"]%2 == 0 {
					first = prevT
				}
				stats["t-converter-reuse-cases"]++
				if mv := evalTracesReuse(first, t, opts); !allOKT(mv) {
					for i, v := range mv {
						if !v.ok {
							propFail("C18", "converter-reuse-"+tmodes[i].name+"-"+v.field, fmt.Sprintf("one converter used for a second stream with a writer of its own (%s): %s; batch of the first stream: %s; batch of the second stream: %s",
								tmodes[i].name, v.desc, clip(EncodeTraces(first), 3000), clip(EncodeTraces(t), 3000)))
							break
						}
					}
				}
			}
			prevT, havePrevT = t, true
		}
		return
	}
	stats["t-cases-failing"]++
	eval := func(x Traces) [2]verdict { return evalTraces(x, opts) }
	if class >= 0 {
		c := tclasses[class]
		dt := c.detrigger(t)
		if allOKT(eval(dt)) {
			sigs := map[string]bool{}
			explained := true
			for i, v := range vs {
				if v.ok {
					continue
				}
				s := c.sig(tmodes[i].name, v.field, vs)
				if s == "" {
					explained = false
					break
				}
				sigs[s] = true
			}
			if explained {
				var names []string
				for s := range sigs {
					names = append(names, s)
				}
				sort.Strings(names)
				for _, s := range names {
					if reported["C18 "+s] == 0 {
						min := shrinkT(t, func(x Traces) bool {
							xv := eval(x)
							if allOKT(xv) || !allOKT(eval(c.detrigger(x))) {
								return false
							}
							for i, v := range xv {
								if !v.ok && c.sig(tmodes[i].name, v.field, xv) == s {
									return true
								}
							}
							return false
						})
						propFail("C18", s, describeT(min, eval(min)))
						if samples < 10 {
							samples++
							note("sample known-finding %s minimal input: %s", s, clip(EncodeTraces(min), 600))
						}
					} else {
						propFail("C18", s, "")
					}
				}
				return
			}
		} else {
			t = dt
			vs = eval(t)
		}
	}
	first := 0
	if vs[0].ok {
		first = 1
	}
	field := vs[first].field
	min := shrinkT(t, func(x Traces) bool {
		v := checkTraces(x, tmodes[first].sorted, convertTraces(x, tmodes[first].sorted, opts))
		return !v.ok && v.field == field
	})
	sig := "unexpected-" + tmodes[first].name + "-" + field
	propFail("C18", sig, describeT(min, eval(min)))
	if reported["C18 "+sig] <= 2 {
		note("sample violation %s minimal input: %s", sig, clip(EncodeTraces(min), 600))
	}
}

func tracesPhase(thorough bool) {
	nClean, nTrig := 1900, 150
	if thorough {
		nClean, nTrig = 30000, 3000
	}
	r := rng.FromEnv(1800)
	// the clean traces profile: attribute values of every kind and float class, nested maps of any size;
	// resource and scope attributes are restricted to the kinds otlptools.CmpVal implements
	g := &G{r: r, allowArrays: true}
	for i := 0; i < nClean; i++ {
		g.big = thorough && i%10 == 0
		t := g.traces()
		opts, oname := optsFor(r)
		stats["t-opts-"+strings.Split(oname, "=")[0]]++
		curOpts = oname
		if samples < 3 {
			n := 0
			for _, rs := range t.RSs {
				for _, ss := range rs.Scopes {
					n += len(ss.Spans)
				}
			}
			if n >= 1 && n <= 2 {
				samples++
				note("sample clean traces input: %s", clip(EncodeTraces(t), 500))
			}
		}
		runTracesCase(fmt.Sprintf("t-clean-%d", i), t, -1, opts)
	}
	curOpts = "default"
	dupKeyCases(thorough)
	for k, c := range tclasses {
		g := &G{r: rng.FromEnv(uint64(1810 + k)), allowArrays: true}
		c.setup(g)
		for i := 0; i < nTrig; i++ {
			t := g.traces()
			stats["t-trigger-cases-"+c.name]++
			runTracesCase(fmt.Sprintf("t-%s-%d", c.name, i), t, k, pkg.WriterOptions{})
		}
	}
}

func main() {
	thorough := os.Getenv("VERIF_TIER") == "thorough"
	phase := "all"
	if len(os.Args) > 1 {
		phase = os.Args[1]
	}
	if phase == "replay-metrics" {
		replayMetrics(parseOpts(os.Getenv("OPTS")), os.Args[2:])
		out.Flush()
		return
	}
	if phase == "replay-traces" {
		replayTraces(parseOpts(os.Getenv("OPTS")), os.Args[2:])
		out.Flush()
		return
	}
	if phase == "all" || phase == "metrics" {
		metricsPhase(thorough)
	}
	if phase == "all" || phase == "traces" {
		tracesPhase(thorough)
	}
	if phase == "hostile" {
		hostilePhase(thorough)
	}
	stats["shrink-evaluations"] = shrinkEvals
	keys := make([]string, 0, len(stats))
	for k := range stats {
		keys = append(keys, k)
	}
	sort.Strings(keys)
	for _, k := range keys {
		note("stat %s %d", k, stats[k])
	}
	out.Flush()
}

var (
	prevM     Metrics
	havePrevM bool
	prevT     Traces
	havePrevT bool
)

// dupKeyCases: span, event and link attribute maps that hold one key SEVERAL times with different
// values (legal in OTLP on the wire and in a pcommon.Map that came from an unmarshaler). Every
// entry must arrive in the record, in both converter modes. Oracle: the harness's own (the
// model replay is skipped: the order the converter's sort leaves equal keys in is not specified).
func dupKeyCases(thorough bool) {
	n := 80
	if thorough {
		n = 2000
	}
	g := &G{r: rng.FromEnv(1830), allowArrays: true}
	r := g.r
	dup := func(a Attrs) Attrs {
		if len(a) == 0 {
			a = append(a, KVp{K: "k", V: AV{K: KStr, S: "first"}})
		}
		for c := 1 + r.Intn(3); c > 0; c-- {
			src := a[r.Intn(len(a))]
			v := AV{K: KStr, S: fmt.Sprintf("dup-%d", r.Intn(1000))}
			switch r.Intn(4) {
			case 0:
				v = AV{K: KInt, I: r.U64() % 100}
			case 1:
				v = AV{K: KEmpty}
			}
			at := r.Intn(len(a) + 1)
			a = append(a[:at:at], append(Attrs{{K: src.K, V: v}}, a[at:]...)...)
		}
		return a
	}
	for i := 0; i < n; i++ {
		t := g.traces()
		done := 0
		for ri := range t.RSs {
			for si := range t.RSs[ri].Scopes {
				sps := t.RSs[ri].Scopes[si].Spans
				for k := range sps {
					if r.Chance(1, 2) {
						sps[k].Attrs = dup(sps[k].Attrs)
						done++
					}
					for e := range sps[k].Events {
						if r.Chance(1, 3) {
							sps[k].Events[e].Attrs = dup(sps[k].Events[e].Attrs)
							done++
						}
					}
					for l := range sps[k].Links {
						if r.Chance(1, 3) {
							sps[k].Links[l].Attrs = dup(sps[k].Links[l].Attrs)
							done++
						}
					}
				}
			}
		}
		if done == 0 {
			continue
		}
		if !jsonSafeTraces(t) {
			stats["t-dupkey-skipped-not-json-safe"]++
			continue
		}
		name := fmt.Sprintf("t-dupkey-%d", i)
		note("case %s", name)
		stats["t-dupkey-cases"]++
		stats["t-dupkey-maps"] += done
		note("nontrivial %x", hash64(EncodeTraces(t)))
		vs := evalTraces(t, pkg.WriterOptions{})
		for m, v := range vs {
			if !v.ok {
				propFail("C18", "dupkey-"+tmodes[m].name+"-"+v.field, fmt.Sprintf("attribute maps holding a key more than once (%s): %s; input: %s", tmodes[m].name, v.desc, clip(EncodeTraces(t), 3000)))
			}
		}
	}
}
