package main

// Known trigger classes: each has a generator switch, a predicate-free "detrigger" transformation that
// removes exactly that trigger from an input, and the signature(s) under which its failures are
// reported. A failure is attributed to a class only when the detriggered input passes.

import "strings"

func mapValues(a Attrs, f func(AV, int) AV, depth int) Attrs {
	if a == nil {
		return nil
	}
	r := make(Attrs, len(a))
	for i := range a {
		r[i] = KVp{a[i].K, mapValue(a[i].V, f, depth)}
	}
	return r
}

// mapValue rebuilds a value bottom-up applying f to every node; depth 0 = the attribute value itself.
func mapValue(v AV, f func(AV, int) AV, depth int) AV {
	c := v
	switch v.K {
	case KSlice:
		c.Arr = make([]AV, len(v.Arr))
		for i := range v.Arr {
			c.Arr[i] = mapValue(v.Arr[i], f, depth+1)
		}
	case KMap:
		c.KV = mapValues(v.KV, f, depth+1)
	}
	return f(c, depth)
}

func forAttrsM(t Metrics, f func(AV, int) AV) Metrics {
	c := cloneMetrics(t)
	for _, s := range attrSitesM(&c) {
		*s = mapValues(*s, f, 0)
	}
	return c
}

func forPointsM(t Metrics, f func(m *Met, p *Pt)) Metrics {
	c := cloneMetrics(t)
	for i := range c.RMs {
		for j := range c.RMs[i].Scopes {
			for k := range c.RMs[i].Scopes[j].Mets {
				m := &c.RMs[i].Scopes[j].Mets[k]
				for l := range m.Pts {
					f(m, &m.Pts[l])
				}
			}
		}
	}
	return c
}

type mclass struct {
	name      string
	opts      string // writer options of the class ("" = default); the detriggered run uses the default
	setup     func(g *G)
	detrigger func(Metrics) Metrics
	// sig maps a failing combination to the signature, "" when the failure is not one this class explains
	sig func(combo, field string, vs [4]verdict) string
}

func in(s string, set ...string) bool {
	for _, x := range set {
		if s == x {
			return true
		}
	}
	return false
}

var mclasses = []mclass{
	{
		name:  "valueless",
		setup: func(g *G) { g.valueless = true },
		detrigger: func(t Metrics) Metrics {
			return forPointsM(t, func(m *Met, p *Pt) {
				if (m.Type == MGauge || m.Type == MSum) && p.VT == 0 && p.Flags&1 == 0 {
					p.VT, p.V = 1, 0
				}
			})
		},
		sig: func(c, f string, _ [4]verdict) string {
			// both writers store the point as PointValueTypeNone, which reads back as NoRecordedValue
			if f == "flags" {
				return "valueless-number-point-becomes-nrv"
			}
			return ""
		},
	},
	{
		// not a converter defect: with RestartDictionaries every Write restarts the frame and resets the
		// dictionaries; a shared (frozen) resource/scope/metric that comes back is then re-encoded without
		// the entries of its nested maps. Only the sorted converter shares structs by pointer.
		name:      "restart-dicts",
		opts:      "rdict",
		setup:     func(g *G) {},
		detrigger: func(t Metrics) Metrics { return t },
		sig: func(c, f string, _ [4]verdict) string {
			if strings.HasPrefix(c, "s") && in(f, "resource", "scope", "metric") {
				return "restart-dictionaries-nested-map-lost"
			}
			return ""
		},
	},
}

// ------------------------------------------------------------------ traces

func forAttrsT(t Traces, f func(AV, int) AV) Traces {
	c := cloneTraces(t)
	for _, s := range attrSitesT(&c) {
		*s = mapValues(*s, f, 0)
	}
	return c
}

type tclass struct {
	name      string
	setup     func(g *G)
	detrigger func(Traces) Traces
	sig       func(mode, field string, vs [2]verdict) string
}

var tclasses = []tclass{
	{
		name:  "dropped-counts",
		setup: func(g *G) { g.droppedCounts = true },
		detrigger: func(t Traces) Traces {
			c := cloneTraces(t)
			for i := range c.RSs {
				for j := range c.RSs[i].Scopes {
					for k := range c.RSs[i].Scopes[j].Spans {
						c.RSs[i].Scopes[j].Spans[k].DroppedEvents = 0
						c.RSs[i].Scopes[j].Spans[k].DroppedLinks = 0
					}
				}
			}
			return c
		},
		sig: func(m, f string, _ [2]verdict) string {
			if in(f, "dropped_events_count", "dropped_links_count") {
				return "span-dropped-events-links-count-lost"
			}
			return ""
		},
	},
}
