package main

// Generators of OTLP metric and trace trees. The clean profile avoids every known trigger; a
// trigger profile = clean profile + exactly one injected trigger.

import (
	"fmt"
	"verif/harness/internal/rng"
)

type G struct {
	r *rng.R
	// what the value generator may produce
	allowArrays bool // array values
	big         bool
	inMap       int
	// wide attribute lists of this many entries on the spans of the current batch (0 = off)
	wideN    int
	wideVals []uint64
	// trigger switches
	valueless     bool
	droppedCounts bool
}

var strPool = []string{"", "a", "b", "k0", "k1", "k2", "http.method", "svc", "é", "日本", "x y", "A", "name", "host.name", "\x00", "zz"}
var namePool = []string{"m0", "m1", "cpu.time", "", "req", "é"}

func (g *G) str() string {
	if g.r.Chance(1, 12) {
		n := 1 + g.r.Intn(12)
		b := make([]byte, n)
		for i := range b {
			b[i] = byte('a' + g.r.Intn(26))
		}
		return string(b)
	}
	return strPool[g.r.Intn(len(strPool))]
}

func (g *G) key() string {
	if g.r.Chance(1, 30) {
		return ""
	}
	return strPool[1+g.r.Intn(len(strPool)-1)]
}

var floatClasses = []uint64{
	0x0000000000000000, // +0
	0x3ff0000000000000, // 1
	0xbff0000000000000, // -1
	0x7ff0000000000000, // +inf
	0xfff0000000000000, // -inf
	0x0000000000000001, // smallest subnormal
	0x000fffffffffffff, // largest subnormal
	0x800fffffffffffff, // negative subnormal
	0x0010000000000000, // smallest normal
	0x7fefffffffffffff, // max
	0xffefffffffffffff, // -max
	0x400921fb54442d18, // pi
	0x3fb999999999999a, // 0.1
}

var nanClasses = []uint64{
	0x7ff8000000000000, // quiet NaN
	0xfff8000000000000, // negative quiet NaN
	0x7ff0000000000001, // signalling NaN, smallest payload
	0x7ff8000000000123, // quiet NaN with payload
	0xffffffffffffffff,
	0x7ff4000000000000,
}

const negZero = uint64(0x8000000000000000)

func isNaNBits(b uint64) bool {
	return b&0x7ff0000000000000 == 0x7ff0000000000000 && b&0x000fffffffffffff != 0
}

// flt returns float bits; nan says whether NaN patterns are allowed at this position.
func (g *G) flt(nan bool) uint64 {
	switch g.r.Intn(10) {
	case 0, 1, 2, 3:
		return floatClasses[g.r.Intn(len(floatClasses))]
	case 4:
		if nan {
			return nanClasses[g.r.Intn(len(nanClasses))]
		}
		return floatClasses[g.r.Intn(len(floatClasses))]
	case 5:
		return negZero
	default:
		for {
			b := g.r.U64()
			if isNaNBits(b) && !nan {
				continue
			}
			return b
		}
	}
}

func (g *G) u64() uint64 {
	switch g.r.Intn(8) {
	case 0:
		return 0
	case 1:
		return uint64(g.r.Intn(4))
	case 2:
		return ^uint64(0)
	case 3:
		return 1 << 63
	case 4:
		return uint64(1)<<63 - 1
	case 5:
		return 1700000000000000000 + uint64(g.r.Intn(5))*1000000000
	default:
		return g.r.BitsExact(g.r.Intn(65))
	}
}

func (g *G) u32() uint32 {
	switch g.r.Intn(4) {
	case 0:
		return 0
	case 1:
		return uint32(g.r.Intn(4))
	case 2:
		return ^uint32(0)
	}
	return uint32(g.r.U64())
}

func (g *G) bytes() []byte {
	n := g.r.Intn(5)
	if g.r.Chance(1, 10) {
		n = 16
	}
	b := make([]byte, n)
	for i := range b {
		b[i] = byte(g.r.U64())
	}
	return b
}

// value generates an AnyValue of any kind; depth bounds nesting. inMap is true below a map.
func (g *G) value(depth int) AV {
	k := g.r.Intn(8)
	if depth <= 0 && (k == KSlice || k == KMap) {
		k = g.r.Intn(6)
	}
	if k == KSlice && !g.allowArrays {
		k = KStr
	}
	switch k {
	case KEmpty:
		return AV{K: KEmpty}
	case KStr:
		return AV{K: KStr, S: g.str()}
	case KBool:
		return AV{K: KBool, B: g.r.Bool()}
	case KInt:
		return AV{K: KInt, I: g.u64()}
	case KDouble:
		return AV{K: KDouble, I: g.flt(true)}
	case KBytes:
		return AV{K: KBytes, Y: g.bytes()}
	case KSlice:
		n := g.r.Intn(4)
		v := AV{K: KSlice}
		for i := 0; i < n; i++ {
			v.Arr = append(v.Arr, g.value(depth-1))
		}
		return v
	default:
		// nested maps of 0, 1, 2 and several entries (maps of two or more entries were the trigger of the
		// nested-map-index defect, fixed by repo commit 571960a)
		n := g.r.Intn(3)
		if g.r.Chance(1, 3) {
			n = 2 + g.r.Intn(3)
		}
		v := AV{K: KMap}
		g.inMap++
		v.KV = g.attrsN(n, depth-1)
		g.inMap--
		return v
	}
}

func (g *G) attrsN(n, depth int) Attrs {
	var a Attrs
	seen := map[string]bool{}
	for len(a) < n {
		k := g.key()
		if seen[k] {
			k = g.str() + g.str()
			if seen[k] {
				continue
			}
		}
		seen[k] = true
		a = append(a, KVp{k, g.value(depth)})
	}
	return a
}

// relocAttrs: a map holding an array whose element varies, followed by a varying number of further
// attributes, so that consecutive uses grow the re-used attribute list and relocate its elements (this
// was the trigger of the codec defect nested-array-stale-after-relocation, fixed by repo commit 3ddaede).
func (g *G) relocAttrs() Attrs {
	a := Attrs{{"m", AV{K: KMap, KV: Attrs{{"a", AV{K: KSlice, Arr: []AV{{K: KInt, I: uint64(g.r.Intn(3))}}}}}}}}
	n := g.r.Intn(4)
	for i := 0; i < n; i++ {
		a = append(a, KVp{"x" + string(rune('0'+i)), AV{K: KInt, I: uint64(i)}})
	}
	return a
}

func (g *G) attrs() Attrs {
	if g.inMap == 0 && g.r.Chance(1, 8) {
		return g.relocAttrs()
	}
	n := 0
	switch g.r.Intn(6) {
	case 0:
		n = 0
	case 1, 2:
		n = 1
	case 3:
		n = 2
	default:
		n = 2 + g.r.Intn(4)
	}
	return g.attrsN(n, 2)
}

func (g *G) traceID() (id [16]byte) {
	if g.r.Chance(1, 5) {
		return
	}
	for i := range id {
		id[i] = byte(g.r.U64())
	}
	if g.r.Chance(1, 6) {
		for i := 1; i < 16; i++ {
			id[i] = 0
		}
		id[0] = byte(1 + g.r.Intn(2))
	}
	return
}

func (g *G) spanID() (id [8]byte) {
	if g.r.Chance(1, 5) {
		return
	}
	for i := range id {
		id[i] = byte(g.r.U64())
	}
	if g.r.Chance(1, 6) {
		for i := 1; i < 8; i++ {
			id[i] = 0
		}
		id[0] = byte(1 + g.r.Intn(2))
	}
	return
}

func (g *G) exemplars() []Ex {
	n := 0
	switch g.r.Intn(5) {
	case 0, 1:
		n = 0
	case 2:
		n = 1
	default:
		n = 1 + g.r.Intn(3)
	}
	var r []Ex
	for i := 0; i < n; i++ {
		e := Ex{Ts: g.u64(), VT: g.r.Intn(3), TraceID: g.traceID(), SpanID: g.spanID()}
		switch e.VT {
		case 1:
			e.V = g.u64()
		case 2:
			e.V = g.flt(true)
		}
		if g.r.Chance(1, 2) {
			e.Attrs = g.attrsN(g.r.Intn(3), 1)
		}
		r = append(r, e)
	}
	return r
}

func (g *G) u64s(n int) []uint64 {
	var r []uint64
	for i := 0; i < n; i++ {
		r = append(r, g.u64())
	}
	return r
}

func (g *G) optF() (bool, uint64) {
	if g.r.Bool() {
		return true, g.flt(true)
	}
	return false, 0
}

// point generates a clean data point of the given metric type. tsPool / attrPool make repeated
// time stamps and attribute sets likely.
func (g *G) point(typ int, attrPool []Attrs, boundsPool [][]uint64) Pt {
	p := Pt{}
	if g.r.Chance(3, 4) {
		p.Attrs = attrPool[g.r.Intn(len(attrPool))]
	} else {
		p.Attrs = g.attrs()
	}
	p.Start = g.u64()
	p.Ts = g.u64()
	flagged := g.r.Chance(1, 8)
	switch typ {
	case MGauge, MSum:
		p.VT = 1 + g.r.Intn(2)
		if p.VT == 1 {
			p.V = g.u64()
		} else {
			p.V = g.flt(true)
		}
		// exemplars also on flagged points (they were dropped on the way back before repo commit ede8608)
		p.Ex = g.exemplars()
		if flagged {
			p.Flags = 1
			if g.r.Chance(1, 3) {
				// the OTLP staleness marker: no value and the NoRecordedValue flag (the sorting converter
				// dropped such points before repo commit 42fcfbf)
				p.VT, p.V = 0, 0
			}
		}
		if g.valueless && g.r.Chance(1, 3) {
			// trigger: no value and no flag
			p.VT, p.V, p.Flags = 0, 0, 0
		}
	case MHist:
		p.Bounds = boundsPool[g.r.Intn(len(boundsPool))]
		p.Buckets = g.u64s(len(p.Bounds) + 1)
		p.Count = g.u64()
		p.HasSum, p.Sum = g.optF()
		p.HasMin, p.Min = g.optF()
		p.HasMax, p.Max = g.optF()
		p.Ex = g.exemplars()
		if flagged {
			p.Flags = 1
		} else if g.r.Chance(1, 6) {
			// no bucket counts and no bounds: valid OTLP (rejected by the converters before repo commit 9c5d1f7)
			p.Bounds, p.Buckets = nil, nil
		}
	case MExp:
		p.Count = g.u64()
		p.HasSum, p.Sum = g.optF()
		p.HasMin, p.Min = g.optF()
		p.HasMax, p.Max = g.optF()
		p.Scale = int32(g.r.Intn(41) - 20)
		if g.r.Chance(1, 8) {
			p.Scale = int32(g.r.U64())
		}
		p.ZeroCount = g.u64()
		p.ZeroThreshold = g.flt(true)
		p.PosOff = int32(g.r.Intn(21) - 10)
		p.NegOff = int32(g.r.U64())
		p.Pos = g.u64s(g.r.Intn(5))
		p.Neg = g.u64s(g.r.Intn(4))
		p.Ex = g.exemplars()
		if flagged {
			p.Flags = 1
		}
	case MSummary:
		p.Count = g.u64()
		p.Sum = g.flt(true)
		n := g.r.Intn(4)
		for i := 0; i < n; i++ {
			p.Quantiles = append(p.Quantiles, [2]uint64{g.flt(true), g.flt(true)})
		}
		if flagged {
			// a flagged summary point came back unflagged before repo commit ede8608
			p.Flags = 1
		}
	}
	return p
}

func (g *G) bounds() []uint64 {
	n := g.r.Intn(5)
	var b []uint64
	for i := 0; i < n; i++ {
		b = append(b, g.flt(true))
	}
	return b
}

// metrics generates a clean batch: pools of resources, scopes, metric identities, attribute sets and
// bounds, combined with repetition and interleaving.
func (g *G) metrics() Metrics {
	nRes, nSc, nMet := 1+g.r.Intn(3), 1+g.r.Intn(3), 1+g.r.Intn(4)
	type resID struct {
		URL     string
		Attrs   Attrs
		Dropped uint32
	}
	var resPool []resID
	for i := 0; i < nRes; i++ {
		resPool = append(resPool, resID{g.url(), g.attrs(), g.u32()})
	}
	type scID struct {
		Name, Ver, URL string
		Attrs          Attrs
		Dropped        uint32
	}
	var scPool []scID
	for i := 0; i < nSc; i++ {
		scPool = append(scPool, scID{namePool[g.r.Intn(len(namePool))], g.str(), g.url(), g.attrsN(g.r.Intn(3), 1), g.u32()})
	}
	var metPool []Met
	for i := 0; i < nMet; i++ {
		m := Met{Name: namePool[g.r.Intn(len(namePool))], Desc: g.str(), Unit: g.str(), Type: g.r.Intn(5)}
		if g.r.Chance(1, 3) {
			m.Meta = g.attrsN(1+g.r.Intn(2), 1)
		}
		if m.Type == MSum {
			m.Mono = g.r.Bool()
		}
		if m.Type == MSum || m.Type == MHist || m.Type == MExp {
			m.Temp = g.r.Intn(3)
		}
		metPool = append(metPool, m)
		// the same name with another type / description: identities that differ late in the comparison
		if g.r.Chance(1, 4) {
			m2 := m
			m2.Type = g.r.Intn(5)
			m2.Mono = m2.Type == MSum && g.r.Bool()
			m2.Temp = 0
			if m2.Type == MSum || m2.Type == MHist || m2.Type == MExp {
				m2.Temp = g.r.Intn(3)
			}
			metPool = append(metPool, m2)
		}
	}
	var attrPool []Attrs
	for i := 0; i < 1+g.r.Intn(3); i++ {
		attrPool = append(attrPool, g.attrs())
	}
	var boundsPool [][]uint64
	for i := 0; i < 1+g.r.Intn(3); i++ {
		boundsPool = append(boundsPool, g.bounds())
	}
	// pools whose members differ only where one holds a NaN or a zero of the other sign: these used to be
	// merged (nan-bounds-merge, nan-attr-merge, negzero-* findings, fixed by 05846e0 / 59db810 / 7828c58)
	if g.r.Chance(1, 5) {
		// bounds that differ only in a NaN position
		b := []uint64{floatClasses[1+g.r.Intn(len(floatClasses)-1)], floatClasses[1+g.r.Intn(len(floatClasses)-1)]}
		b2 := []uint64{b[0], nanClasses[g.r.Intn(len(nanClasses))]}
		boundsPool = [][]uint64{b, b2}
	}
	if g.r.Chance(1, 4) {
		// bounds that differ only in the sign of a zero
		x := floatClasses[1+g.r.Intn(len(floatClasses)-1)]
		boundsPool = append(boundsPool, []uint64{0, x}, []uint64{negZero, x})
	}
	if g.r.Chance(1, 5) {
		// attribute sets that differ only in a NaN value
		a := g.attrsN(g.r.Intn(2), 1)
		a1 := append(cloneAttrs(a), KVp{"f", AV{K: KDouble, I: floatClasses[1+g.r.Intn(len(floatClasses)-1)]}})
		a2 := append(cloneAttrs(a), KVp{"f", AV{K: KDouble, I: nanClasses[g.r.Intn(len(nanClasses))]}})
		attrPool = []Attrs{a1, a2}
	}

	var t Metrics
	nRM := g.r.Intn(5)
	if g.big {
		nRM = 2 + g.r.Intn(6)
	}
	budget := 24
	if g.big {
		budget = 120
	}
	for i := 0; i < nRM; i++ {
		rp := resPool[g.r.Intn(len(resPool))]
		rm := RM{URL: rp.URL, Attrs: rp.Attrs, Dropped: rp.Dropped}
		nSM := g.r.Intn(4)
		for j := 0; j < nSM; j++ {
			sp := scPool[g.r.Intn(len(scPool))]
			sm := SM{Name: sp.Name, Ver: sp.Ver, URL: sp.URL, Attrs: sp.Attrs, Dropped: sp.Dropped}
			nM := g.r.Intn(5)
			for k := 0; k < nM; k++ {
				m := metPool[g.r.Intn(len(metPool))]
				nP := g.r.Intn(5)
				if g.r.Chance(1, 10) {
					nP = 5 + g.r.Intn(6)
				}
				if nP > budget {
					nP = budget
				}
				budget -= nP
				m.Pts = nil
				for l := 0; l < nP; l++ {
					m.Pts = append(m.Pts, g.point(m.Type, attrPool, boundsPool))
				}
				sm.Mets = append(sm.Mets, m)
			}
			rm.Scopes = append(rm.Scopes, sm)
		}
		t.RMs = append(t.RMs, rm)
	}
	return t
}

func (g *G) url() string {
	switch g.r.Intn(4) {
	case 0:
		return ""
	case 1:
		return "https://opentelemetry.io/schemas/1.21.0"
	}
	return g.str()
}

// ------------------------------------------------------------------ traces

func (g *G) span() Span {
	s := Span{TraceID: g.traceID(), SpanID: g.spanID(), Name: namePool[g.r.Intn(len(namePool))], Kind: int32(g.r.Intn(6)),
		Start: g.u64(), End: g.u64(), Flags: g.u32(), Dropped: g.u32(), StatusCode: int32(g.r.Intn(3))}
	if g.r.Chance(1, 8) {
		// ptrace.SpanKind and ptrace.StatusCode are open int32 enums: values a newer protocol
		// revision may define travel as numbers and must come back as the same numbers
		s.Kind = []int32{6, 7, 100, 1 << 20, 1<<31 - 1}[g.r.Intn(5)]
	}
	if g.r.Chance(1, 8) {
		s.StatusCode = []int32{3, 77, 1 << 20, 1<<31 - 1}[g.r.Intn(4)]
	}
	if g.r.Bool() {
		s.Parent = g.spanID()
	}
	if g.droppedCounts {
		s.DroppedEvents, s.DroppedLinks = g.u32(), g.u32()
	}
	if g.r.Chance(1, 3) {
		s.TraceState = "k=v," + g.str()
	}
	if g.r.Chance(1, 3) {
		s.StatusMsg = g.str()
	}
	if g.r.Chance(2, 3) {
		s.Attrs = g.attrs()
	}
	if g.wideN > 0 && g.r.Chance(3, 4) {
		// a WIDE attribute list with the same keys in consecutive spans and one value that
		// differs, preferably the last (the values-only multimap encoding and its change mask
		// around 62 / 63 / 64 / 65 entries)
		if g.wideVals == nil {
			for i := 0; i < g.wideN; i++ {
				g.wideVals = append(g.wideVals, uint64(i))
			}
		}
		j := g.wideN - 1
		if g.r.Chance(1, 3) {
			j = g.r.Intn(g.wideN)
		}
		g.wideVals[j]++
		s.Attrs = nil
		for i, v := range g.wideVals {
			s.Attrs = append(s.Attrs, KVp{fmt.Sprintf("w%03d", i), AV{K: KInt, I: v}})
		}
		return s
	}
	if g.r.Chance(1, 4) {
		// the same attribute slot holding +0.0 and -0.0 in consecutive spans
		z := AV{K: KDouble}
		if g.r.Bool() {
			z.I = negZero
		}
		var rest Attrs
		for _, kv := range s.Attrs {
			if kv.K != "z" {
				rest = append(rest, kv)
			}
		}
		s.Attrs = append(Attrs{{"z", z}}, rest...)
	}
	nE := g.r.Intn(4)
	if g.r.Chance(1, 3) {
		nE = 0
	}
	for i := 0; i < nE; i++ {
		e := Event{Name: g.str(), Ts: g.u64(), Dropped: g.u32()}
		if g.r.Bool() {
			e.Attrs = g.attrsN(g.r.Intn(3), 1)
		}
		s.Events = append(s.Events, e)
	}
	nL := g.r.Intn(4)
	if g.r.Chance(1, 3) {
		nL = 0
	}
	for i := 0; i < nL; i++ {
		l := Link{TraceID: g.traceID(), SpanID: g.spanID(), Flags: g.u32(), Dropped: g.u32()}
		if g.r.Chance(1, 3) {
			l.TraceState = g.str()
		}
		if g.r.Bool() {
			l.Attrs = g.attrsN(g.r.Intn(3), 1)
		}
		s.Links = append(s.Links, l)
	}
	return s
}

// nearAttrs: a deep copy of an attribute list in which exactly ONE value differs (identities
// that a comparison must still tell apart: a comparator that loses its place after an equal nested
// map or array merges them).
func (g *G) nearAttrs(a Attrs) (Attrs, bool) {
	if len(a) == 0 {
		return a, false
	}
	c := cloneAttrs(a)
	j := g.r.Intn(len(c))
	if len(c) > 1 && g.r.Chance(2, 3) {
		j = 1 + g.r.Intn(len(c)-1) // prefer a later attribute
	}
	switch v := &c[j].V; v.K {
	case KStr:
		v.S += "~"
	case KBool:
		v.B = !v.B
	case KInt:
		v.I++
	case KBytes:
		v.Y = append(v.Y, 0x7e)
	default:
		*v = AV{K: KStr, S: "near-" + g.str()}
	}
	return c, true
}

// floatTwins: two attribute lists that differ ONLY in a double that is equal under == or unordered
// (+0.0 / -0.0, two NaNs of different payload or sign), at the top level or inside an array value:
// different identities that a float comparison which is not the total order on bit patterns merges.
func (g *G) floatTwins(a Attrs) (Attrs, Attrs) {
	x, y := uint64(0), negZero
	if g.r.Chance(1, 3) {
		x = nanClasses[g.r.Intn(len(nanClasses))]
		y = x ^ 1
		if g.r.Bool() {
			y = x ^ (1 << 63)
		}
	}
	if g.r.Bool() {
		x, y = y, x
	}
	vx, vy := AV{K: KDouble, I: x}, AV{K: KDouble, I: y}
	if g.allowArrays && g.r.Chance(1, 3) {
		head := AV{K: KStr, S: g.str()}
		vx, vy = AV{K: KSlice, Arr: []AV{head, vx}}, AV{K: KSlice, Arr: []AV{head, vy}}
	}
	var rest Attrs
	for _, kv := range a {
		if kv.K != "load" {
			rest = append(rest, kv)
		}
	}
	a1 := append(cloneAttrs(rest), KVp{"load", vx})
	a2 := append(cloneAttrs(rest), KVp{"load", vy})
	return a1, a2
}

// mapFirstAttrs: a nested map (or an array holding one) of several entries first, plain attributes after
// it - the shape on which a comparator that reuses scratch space across nesting levels goes wrong.
func (g *G) mapFirstAttrs() Attrs {
	n := 2 + g.r.Intn(3)
	g.inMap++
	m := AV{K: KMap, KV: g.attrsN(n, 0)}
	g.inMap--
	first := m
	if g.allowArrays && g.r.Chance(1, 3) {
		first = AV{K: KSlice, Arr: []AV{m}}
	}
	a := Attrs{{"k8s.labels", first}}
	for i, k := range []string{"pod.name", "pod.ip", "zone", "rack"}[:1+g.r.Intn(4)] {
		a = append(a, KVp{k, AV{K: KStr, S: fmt.Sprintf("v%d-%s", i, g.str())}})
	}
	return a
}

func (g *G) traces() Traces {
	g.wideN, g.wideVals = 0, nil
	if g.r.Chance(1, 10) {
		g.wideN = []int{62, 63, 64, 65, 64, 128}[g.r.Intn(6)]
	}
	nRes, nSc := 1+g.r.Intn(3), 1+g.r.Intn(3)
	type resID struct {
		URL     string
		Attrs   Attrs
		Dropped uint32
	}
	var resPool []resID
	// resource and scope attributes of every kind (the sorting mode's comparison panicked on double, bytes
	// and map values before repo commit 679d5d5), and identities that differ only in the dropped
	// attributes count (merged before that commit)
	for i := 0; i < nRes; i++ {
		ra := g.attrs()
		if g.r.Chance(1, 4) {
			ra = g.mapFirstAttrs()
		}
		resPool = append(resPool, resID{g.url(), ra, g.u32()})
		if g.r.Chance(1, 3) {
			x := resPool[len(resPool)-1]
			x.Dropped++
			resPool = append(resPool, x)
		}
		if g.r.Chance(1, 2) {
			// identities that differ in exactly one attribute value
			x := resPool[len(resPool)-1]
			if na, ok := g.nearAttrs(x.Attrs); ok {
				x.Attrs = na
				resPool = append(resPool, x)
			}
		}
		if g.r.Chance(1, 4) {
			// identities that differ only in the sign of a zero / the payload of a NaN
			x, y := resPool[len(resPool)-1], resPool[len(resPool)-1]
			x.Attrs, y.Attrs = g.floatTwins(x.Attrs)
			resPool = append(resPool, x, y)
		}
	}
	type scID struct {
		Name, Ver, URL string
		Attrs          Attrs
		Dropped        uint32
	}
	var scPool []scID
	for i := 0; i < nSc; i++ {
		sa := g.attrsN(g.r.Intn(3), 1)
		if g.r.Chance(1, 4) {
			sa = g.mapFirstAttrs()
		}
		scPool = append(scPool, scID{namePool[g.r.Intn(len(namePool))], g.str(), g.url(), sa, g.u32()})
		if g.r.Chance(1, 3) {
			x := scPool[len(scPool)-1]
			x.Dropped++
			scPool = append(scPool, x)
		}
		if g.r.Chance(1, 2) {
			x := scPool[len(scPool)-1]
			if na, ok := g.nearAttrs(x.Attrs); ok {
				x.Attrs = na
				scPool = append(scPool, x)
			}
		}
		if g.r.Chance(1, 4) {
			x, y := scPool[len(scPool)-1], scPool[len(scPool)-1]
			x.Attrs, y.Attrs = g.floatTwins(x.Attrs)
			scPool = append(scPool, x, y)
		}
	}
	var t Traces
	nRS := g.r.Intn(5)
	if g.big {
		nRS = 2 + g.r.Intn(6)
	}
	for i := 0; i < nRS; i++ {
		rp := resPool[g.r.Intn(len(resPool))]
		rs := RS{URL: rp.URL, Attrs: rp.Attrs, Dropped: rp.Dropped}
		nSS := g.r.Intn(4)
		for j := 0; j < nSS; j++ {
			sp := scPool[g.r.Intn(len(scPool))]
			ss := SS{Name: sp.Name, Ver: sp.Ver, URL: sp.URL, Attrs: sp.Attrs, Dropped: sp.Dropped}
			nS := g.r.Intn(5)
			for k := 0; k < nS; k++ {
				ss.Spans = append(ss.Spans, g.span())
			}
			rs.Scopes = append(rs.Scopes, ss)
		}
		t.RSs = append(t.RSs, rs)
	}
	return t
}
