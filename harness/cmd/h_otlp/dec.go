package main

// Decoder of the text encoding of enc.go (used to replay a printed minimal input:
// `h_otlp replay-metrics <tokens...>` / `h_otlp replay-traces <tokens...>`).

import (
	"encoding/hex"
	"fmt"
	"strconv"

	"github.com/splunk/stef/go/pkg"
)

type dec struct {
	toks []string
	pos  int
	err  error
}

func (d *dec) next() string {
	if d.pos >= len(d.toks) {
		d.err = fmt.Errorf("unexpected end of input")
		return "0"
	}
	t := d.toks[d.pos]
	d.pos++
	return t
}

func (d *dec) num() uint64 {
	v, err := strconv.ParseUint(d.next(), 16, 64)
	if err != nil && d.err == nil {
		d.err = err
	}
	return v
}

func (d *dec) n() int {
	v := d.num()
	if v > 100000 {
		d.err = fmt.Errorf("length too large")
		return 0
	}
	return int(v)
}

func (d *dec) bytes() []byte {
	t := d.next()
	if t == "-" {
		return nil
	}
	b, err := hex.DecodeString(t)
	if err != nil && d.err == nil {
		d.err = err
	}
	return b
}

func (d *dec) str() string   { return string(d.bytes()) }
func (d *dec) boolean() bool { return d.num() != 0 }

func (d *dec) value() AV {
	if d.err != nil {
		return AV{}
	}
	switch d.next() {
	case "n":
		return AV{K: KEmpty}
	case "s":
		return AV{K: KStr, S: d.str()}
	case "b":
		return AV{K: KBool, B: d.boolean()}
	case "i":
		return AV{K: KInt, I: d.num()}
	case "d":
		return AV{K: KDouble, I: d.num()}
	case "y":
		return AV{K: KBytes, Y: d.bytes()}
	case "a":
		v := AV{K: KSlice}
		n := d.n()
		for i := 0; i < n && d.err == nil; i++ {
			v.Arr = append(v.Arr, d.value())
		}
		return v
	case "m":
		return AV{K: KMap, KV: d.attrs()}
	}
	d.err = fmt.Errorf("bad value tag at %d", d.pos-1)
	return AV{}
}

func (d *dec) attrs() Attrs {
	var a Attrs
	n := d.n()
	for i := 0; i < n && d.err == nil; i++ {
		k := d.str()
		a = append(a, KVp{k, d.value()})
	}
	return a
}

func (d *dec) u64s() []uint64 {
	var r []uint64
	n := d.n()
	for i := 0; i < n && d.err == nil; i++ {
		r = append(r, d.num())
	}
	return r
}

func (d *dec) point() Pt {
	p := Pt{}
	p.Attrs = d.attrs()
	p.Start, p.Ts, p.Flags = d.num(), d.num(), uint32(d.num())
	p.VT, p.V = int(d.num()), d.num()
	p.Count = d.num()
	p.HasSum, p.Sum = d.boolean(), d.num()
	p.HasMin, p.Min = d.boolean(), d.num()
	p.HasMax, p.Max = d.boolean(), d.num()
	p.Buckets, p.Bounds = d.u64s(), d.u64s()
	p.Scale, p.ZeroCount, p.ZeroThreshold = int32(uint32(d.num())), d.num(), d.num()
	p.PosOff = int32(uint32(d.num()))
	p.Pos = d.u64s()
	p.NegOff = int32(uint32(d.num()))
	p.Neg = d.u64s()
	nq := d.n()
	for i := 0; i < nq && d.err == nil; i++ {
		p.Quantiles = append(p.Quantiles, [2]uint64{d.num(), d.num()})
	}
	ne := d.n()
	for i := 0; i < ne && d.err == nil; i++ {
		e := Ex{Ts: d.num(), VT: int(d.num()), V: d.num()}
		copy(e.TraceID[:], d.bytes())
		copy(e.SpanID[:], d.bytes())
		e.Attrs = d.attrs()
		p.Ex = append(p.Ex, e)
	}
	return p
}

func DecodeMetrics(toks []string) (Metrics, error) {
	d := &dec{toks: toks}
	var t Metrics
	nr := d.n()
	for i := 0; i < nr && d.err == nil; i++ {
		rm := RM{URL: d.str(), Dropped: uint32(d.num()), Attrs: d.attrs()}
		ns := d.n()
		for j := 0; j < ns && d.err == nil; j++ {
			sm := SM{Name: d.str(), Ver: d.str(), URL: d.str(), Dropped: uint32(d.num()), Attrs: d.attrs()}
			nm := d.n()
			for k := 0; k < nm && d.err == nil; k++ {
				m := Met{Name: d.str(), Desc: d.str(), Unit: d.str(), Meta: d.attrs(), Type: int(d.num()), Temp: int(d.num()), Mono: d.boolean()}
				np := d.n()
				for l := 0; l < np && d.err == nil; l++ {
					m.Pts = append(m.Pts, d.point())
				}
				sm.Mets = append(sm.Mets, m)
			}
			rm.Scopes = append(rm.Scopes, sm)
		}
		t.RMs = append(t.RMs, rm)
	}
	if d.err == nil && d.pos != len(toks) {
		d.err = fmt.Errorf("trailing tokens")
	}
	return t, d.err
}

func DecodeTraces(toks []string) (Traces, error) {
	d := &dec{toks: toks}
	var t Traces
	nr := d.n()
	for i := 0; i < nr && d.err == nil; i++ {
		rs := RS{URL: d.str(), Dropped: uint32(d.num()), Attrs: d.attrs()}
		ns := d.n()
		for j := 0; j < ns && d.err == nil; j++ {
			ss := SS{Name: d.str(), Ver: d.str(), URL: d.str(), Dropped: uint32(d.num()), Attrs: d.attrs()}
			nsp := d.n()
			for k := 0; k < nsp && d.err == nil; k++ {
				s := Span{}
				copy(s.TraceID[:], d.bytes())
				copy(s.SpanID[:], d.bytes())
				copy(s.Parent[:], d.bytes())
				s.TraceState, s.Flags, s.Name, s.Kind = d.str(), uint32(d.num()), d.str(), int32(uint32(d.num()))
				s.Start, s.End = d.num(), d.num()
				s.Attrs = d.attrs()
				s.Dropped, s.DroppedEvents, s.DroppedLinks = uint32(d.num()), uint32(d.num()), uint32(d.num())
				s.StatusCode, s.StatusMsg = int32(uint32(d.num())), d.str()
				ne := d.n()
				for e := 0; e < ne && d.err == nil; e++ {
					s.Events = append(s.Events, Event{Name: d.str(), Ts: d.num(), Attrs: d.attrs(), Dropped: uint32(d.num())})
				}
				nl := d.n()
				for l := 0; l < nl && d.err == nil; l++ {
					ln := Link{}
					copy(ln.TraceID[:], d.bytes())
					copy(ln.SpanID[:], d.bytes())
					ln.TraceState, ln.Flags = d.str(), uint32(d.num())
					ln.Attrs = d.attrs()
					ln.Dropped = uint32(d.num())
					s.Links = append(s.Links, ln)
				}
				ss.Spans = append(ss.Spans, s)
			}
			rs.Scopes = append(rs.Scopes, ss)
		}
		t.RSs = append(t.RSs, rs)
	}
	if d.err == nil && d.pos != len(toks) {
		d.err = fmt.Errorf("trailing tokens")
	}
	return t, d.err
}

func replayMetrics(opts pkg.WriterOptions, toks []string) {
	t, err := DecodeMetrics(toks)
	if err != nil {
		fmt.Fprintln(out, "decode error:", err)
		return
	}
	for _, l := range Flatten(t, false) {
		fmt.Fprintln(out, "in   ", l)
	}
	for _, c := range combos {
		r := roundTrip(t, c.wSorted, c.rSorted, opts, true)
		v := checkRoundTrip(t, r)
		fmt.Fprintf(out, "%s ok=%v %s\n", c.name, v.ok, v.desc)
		for _, l := range r.recordsTxt {
			fmt.Fprintln(out, "  rec", l)
		}
		for _, l := range Flatten(r.out, false) {
			fmt.Fprintln(out, "  out", l)
		}
	}
}

func replayTraces(opts pkg.WriterOptions, toks []string) {
	t, err := DecodeTraces(toks)
	if err != nil {
		fmt.Fprintln(out, "decode error:", err)
		return
	}
	for _, m := range tmodes {
		r := convertTraces(t, m.sorted, opts)
		v := checkTraces(t, m.sorted, r)
		fmt.Fprintf(out, "%s ok=%v %s err=%s\n", m.name, v.ok, v.desc, r.err)
		for _, rec := range r.recs {
			fmt.Fprintln(out, "  rec", rec.Render(false))
		}
	}
}
