package main

// Canonical text forms. The same formats are produced by lean/Stef/Driver/Otlp.lean.
//   strings / bytes : lower-case hex of the bytes, "-" when empty
//   integers        : lower-case hex of the unsigned 64-bit pattern
//   floats          : hex of the IEEE bit pattern
//   values          : n | s:<hex> | b:0/1 | i:<hex> | d:<hex> | y:<hex> | [v,v] | {k=v,k=v}
// `sorted` renders every map sorted by key bytes (the oracle's multiset comparison); otherwise
// maps are rendered in stored order (model correspondence).

import (
	"encoding/hex"
	"sort"
	"strconv"
	"strings"

	"github.com/splunk/stef/go/otel/otelstef"
)

func hs(s string) string {
	if len(s) == 0 {
		return "-"
	}
	return hex.EncodeToString([]byte(s))
}

func hb(b []byte) string {
	if len(b) == 0 {
		return "-"
	}
	return hex.EncodeToString(b)
}

func hx(v uint64) string { return strconv.FormatUint(v, 16) }

func b01(b bool) string {
	if b {
		return "1"
	}
	return "0"
}

func rValue(sb *strings.Builder, v AV, sorted bool) {
	switch v.K {
	case KEmpty:
		sb.WriteString("n")
	case KStr:
		sb.WriteString("s:" + hs(v.S))
	case KBool:
		sb.WriteString("b:" + b01(v.B))
	case KInt:
		sb.WriteString("i:" + hx(v.I))
	case KDouble:
		sb.WriteString("d:" + hx(v.I))
	case KBytes:
		sb.WriteString("y:" + hb(v.Y))
	case KSlice:
		sb.WriteString("[")
		for i, e := range v.Arr {
			if i > 0 {
				sb.WriteString(",")
			}
			rValue(sb, e, sorted)
		}
		sb.WriteString("]")
	case KMap:
		rAttrs(sb, v.KV, sorted)
	default:
		sb.WriteString("?")
	}
}

func rAttrs(sb *strings.Builder, a Attrs, sorted bool) {
	if sorted {
		b := append(Attrs(nil), a...)
		// by key; entries with the SAME key (possible in a map that came off the wire) in the order
		// of their rendered values: the order the converter's sort leaves equal keys in is not fixed
		rv := func(kv KVp) string {
			var vb strings.Builder
			rValue(&vb, kv.V, sorted)
			return vb.String()
		}
		sort.SliceStable(b, func(i, j int) bool {
			if b[i].K != b[j].K {
				return b[i].K < b[j].K
			}
			return rv(b[i]) < rv(b[j])
		})
		a = b
	}
	sb.WriteString("{")
	for i, kv := range a {
		if i > 0 {
			sb.WriteString(",")
		}
		sb.WriteString(hs(kv.K))
		sb.WriteString("=")
		rValue(sb, kv.V, sorted)
	}
	sb.WriteString("}")
}

func rU64s(sb *strings.Builder, xs []uint64) {
	sb.WriteString("[")
	for i, x := range xs {
		if i > 0 {
			sb.WriteString(",")
		}
		sb.WriteString(hx(x))
	}
	sb.WriteString("]")
}

func opt(has bool, v uint64) string {
	if !has {
		return "-"
	}
	return hx(v)
}

func rExemplars(sb *strings.Builder, exs []Ex, sorted bool) {
	sb.WriteString("ex[")
	for i, e := range exs {
		if i > 0 {
			sb.WriteString(",")
		}
		sb.WriteString("x(" + hx(e.Ts) + ",")
		switch e.VT {
		case 0:
			sb.WriteString("none")
		case 1:
			sb.WriteString("i:" + hx(e.V))
		case 2:
			sb.WriteString("d:" + hx(e.V))
		}
		sb.WriteString("," + hb(trimZero(e.SpanID[:])) + "," + hb(trimZero(e.TraceID[:])) + ",")
		rAttrs(sb, e.Attrs, sorted)
		sb.WriteString(")")
	}
	sb.WriteString("]")
}

// ids are rendered in full (fixed length) unless all-zero, which is rendered as "-".
func trimZero(b []byte) []byte {
	for _, x := range b {
		if x != 0 {
			return b
		}
	}
	return nil
}

// rPointBody renders the part of a data point that depends on the metric type.
func rPointBody(sb *strings.Builder, typ int, p Pt) {
	if p.Flags&1 != 0 {
		sb.WriteString("nrv")
		return
	}
	switch typ {
	case MGauge, MSum:
		switch p.VT {
		case 0:
			sb.WriteString("empty")
		case 1:
			sb.WriteString("i:" + hx(p.V))
		case 2:
			sb.WriteString("d:" + hx(p.V))
		}
	case MHist:
		sb.WriteString("h(" + hx(p.Count) + "," + opt(p.HasSum, p.Sum) + "," + opt(p.HasMin, p.Min) + "," + opt(p.HasMax, p.Max) + ",")
		rU64s(sb, p.Buckets)
		sb.WriteString(",")
		rU64s(sb, p.Bounds)
		sb.WriteString(")")
	case MExp:
		sb.WriteString("e(" + hx(p.Count) + "," + opt(p.HasSum, p.Sum) + "," + opt(p.HasMin, p.Min) + "," + opt(p.HasMax, p.Max) + "," +
			hx(uint64(uint32(p.Scale))) + "," + hx(p.ZeroCount) + "," + hx(p.ZeroThreshold) + "," + hx(uint64(uint32(p.PosOff))) + ",")
		rU64s(sb, p.Pos)
		sb.WriteString("," + hx(uint64(uint32(p.NegOff))) + ",")
		rU64s(sb, p.Neg)
		sb.WriteString(")")
	case MSummary:
		sb.WriteString("q(" + hx(p.Count) + "," + hx(p.Sum) + ",[")
		for i, q := range p.Quantiles {
			if i > 0 {
				sb.WriteString(",")
			}
			sb.WriteString(hx(q[0]) + ":" + hx(q[1]))
		}
		sb.WriteString("])")
	default:
		sb.WriteString("?")
	}
}

func rMetricIdentity(sb *strings.Builder, m Met, sorted bool) {
	sb.WriteString("met(" + hs(m.Name) + "," + hs(m.Desc) + "," + hs(m.Unit) + "," + strconv.Itoa(m.Type) + ",")
	switch m.Type {
	case MSum:
		sb.WriteString(strconv.Itoa(m.Temp) + "," + b01(m.Mono))
	case MHist, MExp:
		sb.WriteString(strconv.Itoa(m.Temp) + ",-")
	default:
		sb.WriteString("-,-")
	}
	sb.WriteString(",")
	rAttrs(sb, m.Meta, sorted)
	sb.WriteString(")")
}

// Flatten renders one line per data point.
func Flatten(t Metrics, sorted bool) []string {
	var out []string
	for _, rm := range t.RMs {
		var rs strings.Builder
		rs.WriteString("res(" + hs(rm.URL) + "," + hx(uint64(rm.Dropped)) + ",")
		rAttrs(&rs, rm.Attrs, sorted)
		rs.WriteString(")")
		for _, sm := range rm.Scopes {
			var ss strings.Builder
			ss.WriteString(" scope(" + hs(sm.Name) + "," + hs(sm.Ver) + "," + hs(sm.URL) + "," + hx(uint64(sm.Dropped)) + ",")
			rAttrs(&ss, sm.Attrs, sorted)
			ss.WriteString(") ")
			for _, m := range sm.Mets {
				var ms strings.Builder
				rMetricIdentity(&ms, m, sorted)
				for _, p := range m.Pts {
					var sb strings.Builder
					sb.WriteString(rs.String())
					sb.WriteString(ss.String())
					sb.WriteString(ms.String())
					sb.WriteString(" ")
					rAttrs(&sb, p.Attrs, sorted)
					sb.WriteString(" " + hx(p.Start) + " " + hx(p.Ts) + " " + hx(uint64(p.Flags)) + " ")
					rPointBody(&sb, m.Type, p)
					sb.WriteString(" ")
					if m.Type == MSummary {
						sb.WriteString("ex[]")
					} else {
						rExemplars(&sb, p.Ex, sorted)
					}
					out = append(out, sb.String())
				}
			}
		}
	}
	return out
}

func CountPoints(t Metrics) int {
	n := 0
	for _, rm := range t.RMs {
		for _, sm := range rm.Scopes {
			for _, m := range sm.Mets {
				n += len(m.Pts)
			}
		}
	}
	return n
}

// ------------------------------------------------------------------ STEF records (as read by the Go readers)

func stefValue(v *otelstef.AnyValue) AV {
	switch v.Type() {
	case otelstef.AnyValueTypeNone:
		return AV{K: KEmpty}
	case otelstef.AnyValueTypeString:
		return AV{K: KStr, S: v.String()}
	case otelstef.AnyValueTypeBool:
		return AV{K: KBool, B: v.Bool()}
	case otelstef.AnyValueTypeInt64:
		return AV{K: KInt, I: uint64(v.Int64())}
	case otelstef.AnyValueTypeFloat64:
		return AV{K: KDouble, I: f64bits(v.Float64())}
	case otelstef.AnyValueTypeBytes:
		return AV{K: KBytes, Y: []byte(v.Bytes())}
	case otelstef.AnyValueTypeArray:
		r := AV{K: KSlice}
		for i := 0; i < v.Array().Len(); i++ {
			r.Arr = append(r.Arr, stefValue(v.Array().At(i)))
		}
		return r
	case otelstef.AnyValueTypeKVList:
		r := AV{K: KMap}
		for i := 0; i < v.KVList().Len(); i++ {
			r.KV = append(r.KV, KVp{v.KVList().Key(i), stefValue(v.KVList().Value(i))})
		}
		return r
	}
	return AV{K: -1}
}

func stefAttrs(a *otelstef.Attributes) Attrs {
	var r Attrs
	for i := 0; i < a.Len(); i++ {
		r = append(r, KVp{a.Key(i), stefValue(a.Value(i))})
	}
	return r
}

func rStefResource(sb *strings.Builder, r *otelstef.Resource, sorted bool) {
	sb.WriteString("res(" + hs(r.SchemaURL()) + "," + hx(r.DroppedAttributesCount()) + ",")
	rAttrs(sb, stefAttrs(r.Attributes()), sorted)
	sb.WriteString(")")
}

func rStefScope(sb *strings.Builder, s *otelstef.Scope, sorted bool) {
	sb.WriteString("scope(" + hs(s.Name()) + "," + hs(s.Version()) + "," + hs(s.SchemaURL()) + "," + hx(s.DroppedAttributesCount()) + ",")
	rAttrs(sb, stefAttrs(s.Attributes()), sorted)
	sb.WriteString(")")
}

// RenderMetricsRecord renders the logical value of a metrics record (everything the record holds,
// including fields the OTLP side ignores for the metric type at hand).
func RenderMetricsRecord(rec *otelstef.Metrics) string {
	var sb strings.Builder
	m := rec.Metric()
	sb.WriteString("metric(" + hs(m.Name()) + "," + hs(m.Description()) + "," + hs(m.Unit()) + "," + hx(uint64(m.Type())) + ",")
	rAttrs(&sb, stefAttrs(m.Metadata()), false)
	sb.WriteString(",[")
	for i := 0; i < m.HistogramBounds().Len(); i++ {
		if i > 0 {
			sb.WriteString(",")
		}
		sb.WriteString(hx(f64bits(m.HistogramBounds().At(i))))
	}
	sb.WriteString("]," + hx(uint64(m.AggregationTemporality())) + "," + b01(m.Monotonic()) + ") ")
	rStefResource(&sb, rec.Resource(), false)
	sb.WriteString(" ")
	rStefScope(&sb, rec.Scope(), false)
	sb.WriteString(" ")
	rAttrs(&sb, stefAttrs(rec.Attributes()), false)
	p := rec.Point()
	sb.WriteString(" pt(" + hx(p.StartTimestamp()) + "," + hx(p.Timestamp()) + ",")
	v := p.Value()
	switch v.Type() {
	case otelstef.PointValueTypeNone:
		sb.WriteString("none")
	case otelstef.PointValueTypeInt64:
		sb.WriteString("i:" + hx(uint64(v.Int64())))
	case otelstef.PointValueTypeFloat64:
		sb.WriteString("d:" + hx(f64bits(v.Float64())))
	case otelstef.PointValueTypeHistogram:
		h := v.Histogram()
		sb.WriteString("h(" + hx(uint64(h.Count())) + "," + opt(h.HasSum(), f64bits(h.Sum())) + "," + opt(h.HasMin(), f64bits(h.Min())) + "," +
			opt(h.HasMax(), f64bits(h.Max())) + ",[")
		for i := 0; i < h.BucketCounts().Len(); i++ {
			if i > 0 {
				sb.WriteString(",")
			}
			sb.WriteString(hx(h.BucketCounts().At(i)))
		}
		sb.WriteString("])")
	case otelstef.PointValueTypeExpHistogram:
		h := v.ExpHistogram()
		sb.WriteString("e(" + hx(h.Count()) + "," + opt(h.HasSum(), f64bits(h.Sum())) + "," + opt(h.HasMin(), f64bits(h.Min())) + "," +
			opt(h.HasMax(), f64bits(h.Max())) + "," + hx(uint64(h.Scale())) + "," + hx(h.ZeroCount()) + "," + hx(f64bits(h.ZeroThreshold())) + "," +
			hx(uint64(h.PositiveBuckets().Offset())) + ",[")
		for i := 0; i < h.PositiveBuckets().BucketCounts().Len(); i++ {
			if i > 0 {
				sb.WriteString(",")
			}
			sb.WriteString(hx(h.PositiveBuckets().BucketCounts().At(i)))
		}
		sb.WriteString("]," + hx(uint64(h.NegativeBuckets().Offset())) + ",[")
		for i := 0; i < h.NegativeBuckets().BucketCounts().Len(); i++ {
			if i > 0 {
				sb.WriteString(",")
			}
			sb.WriteString(hx(h.NegativeBuckets().BucketCounts().At(i)))
		}
		sb.WriteString("])")
	case otelstef.PointValueTypeSummary:
		s := v.Summary()
		sb.WriteString("q(" + hx(s.Count()) + "," + hx(f64bits(s.Sum())) + ",[")
		for i := 0; i < s.QuantileValues().Len(); i++ {
			if i > 0 {
				sb.WriteString(",")
			}
			sb.WriteString(hx(f64bits(s.QuantileValues().At(i).Quantile())) + ":" + hx(f64bits(s.QuantileValues().At(i).Value())))
		}
		sb.WriteString("])")
	default:
		sb.WriteString("?")
	}
	sb.WriteString(",ex[")
	for i := 0; i < p.Exemplars().Len(); i++ {
		e := p.Exemplars().At(i)
		if i > 0 {
			sb.WriteString(",")
		}
		sb.WriteString("x(" + hx(e.Timestamp()) + ",")
		switch e.Value().Type() {
		case otelstef.ExemplarValueTypeNone:
			sb.WriteString("none")
		case otelstef.ExemplarValueTypeInt64:
			sb.WriteString("i:" + hx(uint64(e.Value().Int64())))
		case otelstef.ExemplarValueTypeFloat64:
			sb.WriteString("d:" + hx(f64bits(e.Value().Float64())))
		default:
			sb.WriteString("?")
		}
		sb.WriteString("," + hb([]byte(e.SpanID())) + "," + hb([]byte(e.TraceID())) + ",")
		rAttrs(&sb, stefAttrs(e.FilteredAttributes()), false)
		sb.WriteString(")")
	}
	sb.WriteString("])")
	return sb.String()
}

// ------------------------------------------------------------------ span records

// SpanRec is the logical content of one STEF span record (what the reader returns), or the
// content the property expects for a span.
type SpanRec struct {
	ResURL     string
	ResAttrs   Attrs
	ResDropped uint64
	ScName     string
	ScVer      string
	ScURL      string
	ScAttrs    Attrs
	ScDropped  uint64

	TraceID, SpanID, Parent []byte
	TraceState              string
	Flags                   uint64
	Name                    string
	Kind                    uint64
	Start, End              uint64
	Attrs                   Attrs
	Dropped                 uint64
	StatusMsg               string
	StatusCode              uint64
	Events                  []EventRec
	Links                   []LinkRec
}

type EventRec struct {
	Name    string
	Ts      uint64
	Attrs   Attrs
	Dropped uint64
}

type LinkRec struct {
	TraceID, SpanID []byte
	TraceState      string
	Flags           uint64
	Attrs           Attrs
	Dropped         uint64
}

func ReadSpanRecord(rec *otelstef.Spans) SpanRec {
	r, sc, s := rec.Resource(), rec.Scope(), rec.Span()
	out := SpanRec{
		ResURL: r.SchemaURL(), ResAttrs: stefAttrs(r.Attributes()), ResDropped: r.DroppedAttributesCount(),
		ScName: sc.Name(), ScVer: sc.Version(), ScURL: sc.SchemaURL(), ScAttrs: stefAttrs(sc.Attributes()), ScDropped: sc.DroppedAttributesCount(),
		TraceID: append([]byte(nil), s.TraceID()...), SpanID: append([]byte(nil), s.SpanID()...), Parent: append([]byte(nil), s.ParentSpanID()...),
		TraceState: s.TraceState(), Flags: s.Flags(), Name: s.Name(), Kind: uint64(s.Kind()), Start: s.StartTimeUnixNano(), End: s.EndTimeUnixNano(),
		Attrs: stefAttrs(s.Attributes()), Dropped: s.DroppedAttributesCount(), StatusMsg: s.Status().Message(), StatusCode: s.Status().Code(),
	}
	for i := 0; i < s.Events().Len(); i++ {
		e := s.Events().At(i)
		out.Events = append(out.Events, EventRec{e.Name(), e.TimeUnixNano(), stefAttrs(e.Attributes()), e.DroppedAttributesCount()})
	}
	for i := 0; i < s.Links().Len(); i++ {
		l := s.Links().At(i)
		out.Links = append(out.Links, LinkRec{append([]byte(nil), l.TraceID()...), append([]byte(nil), l.SpanID()...), l.TraceState(), l.Flags(),
			stefAttrs(l.Attributes()), l.DroppedAttributesCount()})
	}
	return out
}

// Fields renders a span record as a list of (field name, text) pairs, so that the first differing
// field can be named.
func (r SpanRec) Fields(sorted bool) [][2]string {
	at := func(a Attrs) string {
		var sb strings.Builder
		rAttrs(&sb, a, sorted)
		return sb.String()
	}
	f := [][2]string{
		{"resource.schema_url", hs(r.ResURL)}, {"resource.attributes", at(r.ResAttrs)}, {"resource.dropped", hx(r.ResDropped)},
		{"scope.name", hs(r.ScName)}, {"scope.version", hs(r.ScVer)}, {"scope.schema_url", hs(r.ScURL)}, {"scope.attributes", at(r.ScAttrs)},
		{"scope.dropped", hx(r.ScDropped)},
		{"trace_id", hb(r.TraceID)}, {"span_id", hb(r.SpanID)}, {"parent_span_id", hb(r.Parent)}, {"trace_state", hs(r.TraceState)},
		{"flags", hx(r.Flags)}, {"name", hs(r.Name)}, {"kind", hx(r.Kind)}, {"start", hx(r.Start)}, {"end", hx(r.End)},
		{"attributes", at(r.Attrs)}, {"dropped_attributes", hx(r.Dropped)}, {"status.message", hs(r.StatusMsg)}, {"status.code", hx(r.StatusCode)},
		{"events.len", strconv.Itoa(len(r.Events))},
	}
	for i, e := range r.Events {
		p := "event" + strconv.Itoa(i) + "."
		f = append(f, [2]string{p + "name", hs(e.Name)}, [2]string{p + "time", hx(e.Ts)}, [2]string{p + "attributes", at(e.Attrs)},
			[2]string{p + "dropped", hx(e.Dropped)})
	}
	f = append(f, [2]string{"links.len", strconv.Itoa(len(r.Links))})
	for i, l := range r.Links {
		p := "link" + strconv.Itoa(i) + "."
		f = append(f, [2]string{p + "trace_id", hb(l.TraceID)}, [2]string{p + "span_id", hb(l.SpanID)}, [2]string{p + "trace_state", hs(l.TraceState)},
			[2]string{p + "flags", hx(l.Flags)}, [2]string{p + "attributes", at(l.Attrs)}, [2]string{p + "dropped", hx(l.Dropped)})
	}
	return f
}

func (r SpanRec) Render(sorted bool) string {
	var sb strings.Builder
	for i, f := range r.Fields(sorted) {
		if i > 0 {
			sb.WriteString(" ")
		}
		sb.WriteString(f[1])
	}
	return sb.String()
}
