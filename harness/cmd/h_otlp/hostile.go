package main

// C03, converter part: STEF -> OTLP conversion of untrusted streams never panics or hangs.
//
//	h_otlp hostile
//
// (a) well-formed STEF streams written with the real otelstef.MetricsWriter whose decoded values
//     are semantically out of range for OTLP: unknown metric type / aggregation temporality
//     numbers, a point value type that does not match the metric type, exemplar trace and span
//     ids of the wrong length, flags combinations;
// (b) byte corruptions of valid streams (the reader may accept a corrupted stream; the converter
//     then sees arbitrary decoded values).
// Both converters (unsorted: the one the collector receiver uses; sorted) run in both read modes.

import (
	"bytes"
	"fmt"
	"os"
	"runtime/debug"
	"strings"
	"time"

	"github.com/splunk/stef/go/otel/otelstef"
	stefmetrics "github.com/splunk/stef/go/pdata/metrics"
	"github.com/splunk/stef/go/pkg"

	"verif/harness/internal/rng"
)

type sem struct {
	mtype    uint64
	temporal uint64
	vtype    int // otelstef.PointValueType
	traceLen int
	spanLen  int
	exVal    int
	nEx      int
	attrs    int
}

func (s sem) String() string {
	return fmt.Sprintf("metricType=%d temporality=%d pointValueType=%d exemplars=%d traceIDLen=%d spanIDLen=%d exemplarValueType=%d attrs=%d",
		s.mtype, s.temporal, s.vtype, s.nEx, s.traceLen, s.spanLen, s.exVal, s.attrs)
}

func (s sem) inRange() bool {
	idsOK := s.nEx == 0 || ((s.traceLen == 16) && (s.spanLen == 8))
	return s.mtype <= 4 && s.temporal <= 2 && idsOK
}

func writeSem(recs []sem, opts pkg.WriterOptions) (out []byte, err error) {
	defer func() {
		// a panic of the record API or the writer on these (valid) calls is reported with the
		// records as the failing input instead of ending the harness
		if e := recover(); e != nil {
			out, err = nil, fmt.Errorf("PANIC %v at %s", e, panicSite(debug.Stack()))
		}
	}()
	buf := &pkg.MemChunkWriter{}
	w, err := otelstef.NewMetricsWriter(buf, opts)
	if err != nil {
		return nil, err
	}
	for i, s := range recs {
		m := w.Record.Metric()
		m.SetName(fmt.Sprintf("m%d", s.mtype%7))
		m.SetType(otelstef.MetricType(s.mtype))
		m.SetAggregationTemporality(otelstef.AggregationTemporality(s.temporal))
		p := w.Record.Point()
		p.SetTimestamp(uint64(1000 + i))
		switch otelstef.PointValueType(s.vtype) {
		case otelstef.PointValueTypeInt64:
			p.Value().SetInt64(int64(i))
		case otelstef.PointValueTypeFloat64:
			p.Value().SetFloat64(float64(i) / 2)
		default:
			p.Value().SetType(otelstef.PointValueType(s.vtype))
			switch otelstef.PointValueType(s.vtype) {
			case otelstef.PointValueTypeHistogram:
				p.Value().Histogram().SetCount(int64(i))
				p.Value().Histogram().BucketCounts().EnsureLen(i % 4)
			case otelstef.PointValueTypeSummary:
				p.Value().Summary().SetCount(uint64(i))
			case otelstef.PointValueTypeExpHistogram:
				p.Value().ExpHistogram().SetCount(uint64(i))
			}
		}
		p.Exemplars().EnsureLen(s.nEx)
		for k := 0; k < s.nEx; k++ {
			e := p.Exemplars().At(k)
			e.SetTraceID(pkg.Bytes(strings.Repeat("t", s.traceLen)))
			e.SetSpanID(pkg.Bytes(strings.Repeat("s", s.spanLen)))
			switch s.exVal {
			case 1:
				e.Value().SetInt64(int64(k))
			case 2:
				e.Value().SetFloat64(1.5)
			default:
				e.Value().SetType(otelstef.ExemplarValueTypeNone)
			}
		}
		w.Record.Attributes().EnsureLen(s.attrs)
		for k := 0; k < s.attrs; k++ {
			w.Record.Attributes().SetKey(k, fmt.Sprintf("k%d", k))
			w.Record.Attributes().Value(k).SetInt64(int64(k))
		}
		if err := w.Write(); err != nil {
			return nil, err
		}
	}
	if err := w.Flush(); err != nil {
		return nil, err
	}
	return buf.Bytes(), nil
}

type convResult struct {
	class string // ok | err | panic | hang
	pan   string
	site  string
}

func panicSite(stack []byte) string {
	// first frame below the panic that is in the repository
	lines := strings.Split(string(stack), "\n")
	for i, l := range lines {
		if strings.Contains(l, "panic(") {
			for _, m := range lines[i+1:] {
				m = strings.TrimSpace(m)
				if strings.HasPrefix(m, "/repo/") {
					if k := strings.LastIndex(m, " +0x"); k > 0 {
						m = m[:k]
					}
					return strings.TrimPrefix(m, "/repo/")
				}
			}
		}
	}
	return "unknown"
}

func convertHostile(stream []byte, sorted, untilEOF bool) convResult {
	done := make(chan convResult, 1)
	go func() {
		var res convResult
		defer func() {
			if e := recover(); e != nil {
				res = convResult{class: "panic", pan: fmt.Sprint(e), site: panicSite(debug.Stack())}
			}
			done <- res
		}()
		rd, err := otelstef.NewMetricsReader(bytes.NewReader(stream))
		if err != nil {
			res.class = "err"
			return
		}
		if sorted {
			_, err = stefToOtlpSorted(rd)
		} else {
			c := stefmetrics.StefToOtlpUnsorted{}
			for n := 0; n < 10000; n++ {
				_, err = c.Convert(rd, untilEOF)
				if err != nil || untilEOF {
					break
				}
			}
		}
		res.class = "ok"
		if err != nil {
			res.class = "err"
		}
	}()
	select {
	case r := <-done:
		return r
	case <-time.After(5 * time.Second):
		return convResult{class: "hang"}
	}
}

func hostilePhase(thorough bool) {
	r := rng.FromEnv(1900)
	n := 600
	if thorough {
		n = 12000
	}
	mtypes := []uint64{0, 1, 2, 3, 4, 5, 6, 100, 1 << 32, ^uint64(0)}
	temps := []uint64{0, 1, 2, 3, 7, 1 << 40, ^uint64(0)}
	lens := []int{0, 1, 7, 8, 9, 15, 16, 17, 32}
	var validStreams [][]byte
	run := func(name, desc string, stream []byte) {
		for _, mode := range []struct {
			sorted, untilEOF bool
			name             string
		}{{false, true, "unsorted-untilEOF"}, {false, false, "unsorted-frame"}, {true, true, "sorted"}} {
			res := convertHostile(stream, mode.sorted, mode.untilEOF)
			stats["hostile-"+mode.name+"-"+res.class]++
			switch res.class {
			case "panic":
				sig := "converter-panic:" + panicSlug(res.pan)
				if !strings.HasPrefix(res.site, "go/pdata/") {
					sig = "reader-panic:" + panicSlug(res.pan)
				}
				propFail("C03", sig, fmt.Sprintf("case=%s mode=%s: STEF->OTLP conversion panicked (%s) at %s; %s; stream=%x", name, mode.name, res.pan, res.site, desc, clipBytes(stream)))
			case "hang":
				propFail("C03", "converter-hang", fmt.Sprintf("case=%s mode=%s: no result after 5 s; %s; stream=%x", name, mode.name, desc, clipBytes(stream)))
				// the goroutine that hangs cannot be stopped and may allocate without bound:
				// report what was found so far and end the harness instead of being killed
				note("stopped after a hang")
				out.Flush()
				os.Exit(0)
			}
		}
	}
	for i := 0; i < n; i++ {
		name := fmt.Sprintf("ho-sem-%d", i)
		note("case %s", name)
		k := 1 + r.Intn(4)
		recs := make([]sem, k)
		allIn := true
		for j := range recs {
			s := sem{mtype: uint64(r.Intn(5)), temporal: uint64(r.Intn(3)), vtype: r.Intn(6), traceLen: 16, spanLen: 8, exVal: r.Intn(3), attrs: r.Intn(3)}
			if r.Chance(1, 3) {
				s.nEx = 1 + r.Intn(2)
			}
			// out-of-range features, one or two per record most of the time
			for f := r.Intn(3); f > 0; f-- {
				switch r.Intn(4) {
				case 0:
					s.mtype = mtypes[r.Intn(len(mtypes))]
				case 1:
					s.temporal = temps[r.Intn(len(temps))]
				case 2:
					s.nEx = 1 + r.Intn(2)
					s.traceLen = lens[r.Intn(len(lens))]
				case 3:
					s.nEx = 1 + r.Intn(2)
					s.spanLen = lens[r.Intn(len(lens))]
				}
			}
			if !s.inRange() {
				allIn = false
			}
			recs[j] = s
		}
		opts, oname := optsFor(r)
		stream, err := writeSem(recs, opts)
		if err != nil {
			var rs []string
			for _, s := range recs {
				rs = append(rs, "{"+s.String()+"}")
			}
			propFail("C03", "hostile-writer-error", fmt.Sprintf("case=%s cannot write the base stream: %v; records written through the record API (options %s): %s", name, err, oname, strings.Join(rs, " ")))
			continue
		}
		var ds []string
		for _, s := range recs {
			ds = append(ds, "{"+s.String()+"}")
		}
		if allIn {
			stats["hostile-sem-all-in-range"]++
			if len(validStreams) < 40 {
				validStreams = append(validStreams, stream)
			}
		} else {
			stats["hostile-sem-out-of-range"]++
			note("nontrivial %x", hash64(strings.Join(ds, "")))
		}
		run(name, "records written with otelstef.MetricsWriter (options "+oname+"): "+strings.Join(ds, " "), stream)
	}
	// (b) corruptions of valid streams
	for i := 0; i < n && len(validStreams) > 0; i++ {
		name := fmt.Sprintf("ho-corrupt-%d", i)
		note("case %s", name)
		in := append([]byte(nil), validStreams[r.Intn(len(validStreams))]...)
		for j := 1 + r.Intn(3); j > 0; j-- {
			k := r.Intn(len(in))
			if r.Bool() {
				in[k] ^= byte(1 << uint(r.Intn(8)))
			} else {
				in[k] = byte(r.U64())
			}
		}
		if r.Chance(1, 6) {
			in = in[:r.Intn(len(in))]
		}
		run(name, "corrupted valid stream", in)
	}
}

// panicSlug turns a panic message into a stable signature (numbers removed).
func panicSlug(msg string) string {
	var sb strings.Builder
	lastN := false
	for _, c := range strings.ToLower(msg) {
		switch {
		case c >= '0' && c <= '9':
			if !lastN {
				sb.WriteByte('N')
			}
			lastN = true
			continue
		case c >= 'a' && c <= 'z':
			sb.WriteRune(c)
		default:
			sb.WriteByte('-')
		}
		lastN = false
	}
	out := strings.Trim(sb.String(), "-")
	for strings.Contains(out, "--") {
		out = strings.ReplaceAll(out, "--", "-")
	}
	if len(out) > 70 {
		out = out[:70]
	}
	return out
}

func clipBytes(b []byte) []byte {
	if len(b) > 600 {
		return b[:600]
	}
	return b
}
