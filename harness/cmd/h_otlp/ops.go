package main

// Op lines for the model correspondence: "otlp <op> <encoded input>\t<what the Go code produced>".
// The Lean model (lean/Stef/Driver/Otlp.lean) must print the same text for the same op line.
//
// Inputs outside the model's stated scope get no op lines (they are still evaluated by the oracle):
//   * the class whose failures come from below the converters (codec defect: RestartDictionaries),
//   * sorted conversions whose leaves could exceed 12 points (slices.SortFunc is only stable below that),
//   * very large lines.

import (
	"strings"

	"github.com/splunk/stef/go/pkg"
)

const maxOpLine = 90000

func errText(e string) string {
	if strings.HasPrefix(e, "panic") {
		return "panic"
	}
	return "err"
}

func metricsOpsAllowed(class int) (unsortedOK, sortedOK bool) {
	if class < 0 {
		return true, true
	}
	// (the restart-dicts class was excluded here until 58b1b15 repaired the codec defect below it)
	return true, true
}

func emitMetricsOps(t Metrics, class int) {
	uOK, sOK := metricsOpsAllowed(class)
	if !uOK && !sOK {
		stats["m-ops-skipped-class"]++
		return
	}
	encoded := EncodeMetrics(t)
	if len(encoded) > maxOpLine/2 {
		stats["m-ops-skipped-size"]++
		return
	}
	if CountPoints(t) > 12 {
		sOK = false
	}
	for _, c := range combos {
		if (c.wSorted || c.rSorted) && !sOK {
			stats["m-ops-skipped-sorted"]++
			continue
		}
		if !(c.wSorted || c.rSorted) && !uOK {
			continue
		}
		r := roundTrip(t, c.wSorted, c.rSorted, pkg.WriterOptions{}, !c.rSorted)
		// records written by this writer-side converter (once per writer: with the unsorted reader)
		if !c.rSorted {
			op := "otlp m2s-u " + encoded
			if c.wSorted {
				op = "otlp m2s-s " + encoded
			}
			res := ""
			if r.err != "" && (strings.HasPrefix(r.err, "w:") || strings.HasPrefix(r.err, "panic-w:")) {
				res = errText(r.err)
			} else {
				res = strings.Join(r.recordsTxt, " ; ")
			}
			if len(res) <= maxOpLine {
				emit(op, res)
				stats["m-ops-records"]++
			}
		}
		op := "otlp rt-" + c.name + " " + encoded
		res := ""
		if r.err != "" {
			res = errText(r.err)
		} else {
			res = strings.Join(Flatten(r.out, false), " ; ")
		}
		if len(res) <= maxOpLine {
			emit(op, res)
			stats["m-ops-roundtrip"]++
		}
	}
}

func emitTracesOps(t Traces, class int) {
	encoded := EncodeTraces(t)
	if len(encoded) > maxOpLine/2 {
		stats["t-ops-skipped-size"]++
		return
	}
	for _, m := range tmodes {
		r := convertTraces(t, m.sorted, pkg.WriterOptions{})
		op := "otlp t2s-" + m.name + " " + encoded
		res := ""
		if r.err != "" {
			res = errText(r.err)
		} else {
			res = renderSpanRecs(r.recs)
		}
		if len(res) <= maxOpLine {
			emit(op, res)
			stats["t-ops"]++
		}
	}
}
