package main

// C17: run the real converters OTLP -> STEF -> OTLP and compare multisets of data points.

import (
	"bytes"
	"errors"
	"fmt"
	"io"
	"math"
	"sort"
	"strings"

	"go.opentelemetry.io/collector/pdata/pmetric"

	"github.com/splunk/stef/go/otel/otelstef"
	stefmetrics "github.com/splunk/stef/go/pdata/metrics"
	"github.com/splunk/stef/go/pdata/metrics/sortedbyresource"
	"github.com/splunk/stef/go/pkg"
)

func f64bits(f float64) uint64 { return math.Float64bits(f) }

// stefToOtlpSorted is metrics/stef2otlp_sorted.go's Convert (the type is unexported and has no
// constructor, so the loop is repeated here on top of the exported sortedbyresource package).
func stefToOtlpSorted(reader *otelstef.MetricsReader) (pmetric.Metrics, error) {
	sm := sortedbyresource.NewSortedByResource()
	metrics := pmetric.NewMetrics()
	err := reader.Read(pkg.ReadOptions{})
	if err != nil {
		return metrics, err
	}
	for {
		record := &reader.Record
		resource := sm.ByResource(record.Resource())
		scope := resource.ByScope(record.Scope())
		metric := scope.ByMetric(record.Metric())
		timedValues := metric.ByAttrs(record.Attributes())
		point := otelstef.NewPoint()
		point.CopyFrom(record.Point())
		*timedValues = append(*timedValues, point)
		err = reader.Read(pkg.ReadOptions{})
		if err != nil {
			if errors.Is(err, io.EOF) {
				break
			}
			return metrics, err
		}
	}
	return sm.ToOtlp()
}

type rtResult struct {
	err        string // "" | "w:<msg>" | "r:<msg>" | "panic-w:<msg>" | "panic-r:<msg>"
	written    uint64
	readCount  uint64
	out        Metrics
	srcAfter   Metrics // the source as it is after the conversion (must be unchanged)
	stream     []byte
	recordsTxt []string // records as read by a plain MetricsReader (only when wantRecords)
}

func classifyErr(e any) string {
	s := fmt.Sprint(e)
	s = strings.ReplaceAll(s, " ", "_")
	if len(s) > 80 {
		s = s[:80]
	}
	return s
}

// roundTrip converts t to STEF with the chosen writer-side converter, and back with the chosen
// reader-side converter.
func roundTrip(t Metrics, wSorted, rSorted bool, opts pkg.WriterOptions, wantRecords bool) (res rtResult) {
	return roundTripSeq(nil, t, wSorted, rSorted, opts, wantRecords)
}

// roundTripSeq: as roundTrip, but the batches in `before` are converted first with the SAME
// converter and the SAME writer (as the collector exporter does: one converter, one writer, many
// batches), each followed by a Flush. res.out then holds the data points of all batches.
func roundTripSeq(before []Metrics, t Metrics, wSorted, rSorted bool, opts pkg.WriterOptions, wantRecords bool) (res rtResult) {
	src := BuildMetrics(t)
	buf := &pkg.MemChunkWriter{}
	func() {
		defer func() {
			if e := recover(); e != nil {
				res.err = "panic-w:" + classifyErr(e)
			}
		}()
		writer, err := otelstef.NewMetricsWriter(buf, opts)
		if err != nil {
			res.err = "w:" + classifyErr(err)
			return
		}
		var conv stefmetrics.OtlpToStef
		if wSorted {
			conv = &stefmetrics.OtlpToStefSorted{}
		} else {
			conv = &stefmetrics.OtlpToStefUnsorted{}
		}
		for _, b := range before {
			if err := conv.Convert(BuildMetrics(b), writer); err != nil {
				res.err = "w:" + classifyErr(err)
				return
			}
			if err := writer.Flush(); err != nil {
				res.err = "w:" + classifyErr(err)
				return
			}
		}
		if err := conv.Convert(src, writer); err != nil {
			res.err = "w:" + classifyErr(err)
			return
		}
		res.written = writer.RecordCount()
		if err := writer.Flush(); err != nil {
			res.err = "w:" + classifyErr(err)
		}
	}()
	res.srcAfter = ReadMetrics(src)
	if res.err != "" {
		return
	}
	res.stream = buf.Bytes()
	if wantRecords {
		func() {
			defer func() {
				if e := recover(); e != nil {
					res.recordsTxt = append(res.recordsTxt, "panic")
				}
			}()
			rd, err := otelstef.NewMetricsReader(bytes.NewBuffer(res.stream))
			if err != nil {
				res.recordsTxt = append(res.recordsTxt, "err")
				return
			}
			for {
				if err := rd.Read(pkg.ReadOptions{}); err != nil {
					if !errors.Is(err, io.EOF) {
						res.recordsTxt = append(res.recordsTxt, "err")
					}
					break
				}
				res.recordsTxt = append(res.recordsTxt, RenderMetricsRecord(&rd.Record))
			}
		}()
	}
	if res.written == 0 {
		// nothing written: the converters return an error on an empty stream (EOF on first read);
		// an empty batch converts to an empty batch.
		return
	}
	func() {
		defer func() {
			if e := recover(); e != nil {
				res.err = "panic-r:" + classifyErr(e)
			}
		}()
		reader, err := otelstef.NewMetricsReader(bytes.NewBuffer(res.stream))
		if err != nil {
			res.err = "r:" + classifyErr(err)
			return
		}
		var md pmetric.Metrics
		if rSorted {
			md, err = stefToOtlpSorted(reader)
		} else {
			c := stefmetrics.StefToOtlpUnsorted{}
			md, err = c.Convert(reader, true)
		}
		if err != nil {
			res.err = "r:" + classifyErr(err)
			return
		}
		res.readCount = reader.RecordCount()
		res.out = ReadMetrics(md)
	}()
	return
}

// dp is one flattened data point split into named fields (for naming the first difference).
var dpFieldNames = []string{"resource", "scope", "metric", "attributes", "start", "time", "flags", "value", "exemplars"}

func splitDP(line string) []string {
	// the canonical line has exactly 9 space-separated fields
	return strings.SplitN(line, " ", 9)
}

type verdict struct {
	ok    bool
	field string // short name of what differs first
	desc  string
}

// checkRoundTrip evaluates the property on one conversion result.
func checkRoundTrip(t Metrics, r rtResult) verdict {
	want := Flatten(t, true)
	if r.err != "" {
		kind := r.err
		if i := strings.Index(kind, ":"); i >= 0 {
			kind = kind[:i]
		}
		return verdict{false, "error-" + kind, "conversion failed: " + r.err}
	}
	if a, b := strings.Join(Flatten(r.srcAfter, false), "\n"), strings.Join(Flatten(t, false), "\n"); a != b {
		return verdict{false, "source-modified", "the converter modified its input"}
	}
	if int(r.written) != len(want) {
		return verdict{false, "record-count", fmt.Sprintf("records written %d, data points %d", r.written, len(want))}
	}
	if len(want) > 0 && r.readCount != r.written {
		return verdict{false, "read-count", fmt.Sprintf("records read %d, written %d", r.readCount, r.written)}
	}
	got := Flatten(r.out, true)
	if len(got) != len(want) {
		return verdict{false, "point-count", fmt.Sprintf("data points back %d, data points in %d", len(got), len(want))}
	}
	sw := append([]string(nil), want...)
	sg := append([]string(nil), got...)
	sort.Strings(sw)
	sort.Strings(sg)
	same := true
	for i := range sw {
		if sw[i] != sg[i] {
			same = false
			break
		}
	}
	if same {
		return verdict{ok: true}
	}
	// multiset difference
	cnt := map[string]int{}
	for _, l := range sg {
		cnt[l]++
	}
	var missing []string
	for _, l := range sw {
		if cnt[l] > 0 {
			cnt[l]--
		} else {
			missing = append(missing, l)
		}
	}
	var extra []string
	for _, l := range sg {
		if cnt[l] > 0 {
			cnt[l]--
			extra = append(extra, l)
		}
	}
	if len(missing) == 0 || len(extra) == 0 {
		return verdict{false, "multiset", "multisets differ"}
	}
	// closest extra line to the first missing one
	e := splitDP(missing[0])
	best, bestN := 0, -1
	for i, x := range extra {
		g := splitDP(x)
		n := 0
		for j := range e {
			if j < len(g) && g[j] == e[j] {
				n++
			}
		}
		if n > bestN {
			best, bestN = i, n
		}
	}
	g := splitDP(extra[best])
	field := "multiset"
	we, wg := "", ""
	for j := range e {
		if j >= len(g) || g[j] != e[j] {
			field = dpFieldNames[j]
			we = e[j]
			if j < len(g) {
				wg = g[j]
			}
			break
		}
	}
	return verdict{false, field, fmt.Sprintf("%s differs: in=%s out=%s (%d of %d points differ)", field, clip(we, 160), clip(wg, 160), len(missing), len(want))}
}

func clip(s string, n int) string {
	if len(s) > n {
		return s[:n] + "..."
	}
	return s
}

var combos = []struct {
	name             string
	wSorted, rSorted bool
}{
	{"uu", false, false}, {"us", false, true}, {"su", true, false}, {"ss", true, true},
}

// evalMetrics runs all four converter combinations; returns the verdict per combination.
func evalMetrics(t Metrics, opts pkg.WriterOptions) [4]verdict {
	var vs [4]verdict
	for i, c := range combos {
		vs[i] = checkRoundTrip(t, roundTrip(t, c.wSorted, c.rSorted, opts, false))
	}
	return vs
}

func allOK(vs [4]verdict) bool {
	for _, v := range vs {
		if !v.ok {
			return false
		}
	}
	return true
}

// failKey summarises which combinations fail and on which field.
func failKey(vs [4]verdict) string {
	var parts []string
	for i, v := range vs {
		if !v.ok {
			parts = append(parts, combos[i].name+":"+v.field)
		}
	}
	return strings.Join(parts, ",")
}

// evalMetricsSeq: the batch `prev` and then `t` through ONE converter and ONE writer, all four
// combinations; the data points that come back must be those of both batches.
func evalMetricsSeq(prev, t Metrics, opts pkg.WriterOptions) [4]verdict {
	all := Metrics{RMs: append(append([]RM(nil), prev.RMs...), t.RMs...)}
	var vs [4]verdict
	for i, c := range combos {
		r := roundTripSeq([]Metrics{prev}, t, c.wSorted, c.rSorted, opts, false)
		r.srcAfter = all // the source check is done by the single-batch evaluation
		vs[i] = checkRoundTrip(all, r)
	}
	return vs
}
