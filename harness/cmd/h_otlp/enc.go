package main

// Compact text encoding of the generated inputs: space separated tokens in prefix order, every
// list preceded by its length. All numbers are lower-case hex; strings and byte strings are hex of
// their bytes, "-" when empty. Parsed by lean/Stef/Driver/Otlp.lean.
//
//   VAL    := n | s STR | b NUM | i NUM | d NUM | y STR | a N VAL* | m N (STR VAL)*
//   ATTRS  := N (STR VAL)*
//   EX     := ts vt v traceid spanid ATTRS
//   PT     := ATTRS start ts flags vt v count hasSum sum hasMin min hasMax max N bucket* N bound*
//             scale zeroCount zeroThreshold posOff N pos* negOff N neg* N (q v)* N EX*
//   MET    := name desc unit ATTRS type temp mono N PT*
//   SM     := name ver url dropped ATTRS N MET*
//   RM     := url dropped ATTRS N SM*
//   METRICS:= N RM*
//   EVENT  := name ts ATTRS dropped
//   LINK   := traceid spanid tracestate flags ATTRS dropped
//   SPAN   := traceid spanid parent tracestate flags name kind start end ATTRS dropped droppedEvents
//             droppedLinks statusCode statusMsg N EVENT* N LINK*
//   SS     := name ver url dropped ATTRS N SPAN*
//   RS     := url dropped ATTRS N SS*
//   TRACES := N RS*

import (
	"strings"
)

type enc struct{ sb strings.Builder }

func (e *enc) tok(s string) {
	if e.sb.Len() > 0 {
		e.sb.WriteByte(' ')
	}
	e.sb.WriteString(s)
}
func (e *enc) num(v uint64) { e.tok(hx(v)) }
func (e *enc) str(s string) { e.tok(hs(s)) }
func (e *enc) boolean(b bool) {
	if b {
		e.tok("1")
	} else {
		e.tok("0")
	}
}

func (e *enc) value(v AV) {
	switch v.K {
	case KEmpty:
		e.tok("n")
	case KStr:
		e.tok("s")
		e.str(v.S)
	case KBool:
		e.tok("b")
		e.boolean(v.B)
	case KInt:
		e.tok("i")
		e.num(v.I)
	case KDouble:
		e.tok("d")
		e.num(v.I)
	case KBytes:
		e.tok("y")
		e.tok(hb(v.Y))
	case KSlice:
		e.tok("a")
		e.num(uint64(len(v.Arr)))
		for _, x := range v.Arr {
			e.value(x)
		}
	case KMap:
		e.tok("m")
		e.attrs(v.KV)
	}
}

func (e *enc) attrs(a Attrs) {
	e.num(uint64(len(a)))
	for _, kv := range a {
		e.str(kv.K)
		e.value(kv.V)
	}
}

func (e *enc) u64s(xs []uint64) {
	e.num(uint64(len(xs)))
	for _, x := range xs {
		e.num(x)
	}
}

func (e *enc) point(p Pt) {
	e.attrs(p.Attrs)
	e.num(p.Start)
	e.num(p.Ts)
	e.num(uint64(p.Flags))
	e.num(uint64(p.VT))
	e.num(p.V)
	e.num(p.Count)
	e.boolean(p.HasSum)
	e.num(p.Sum)
	e.boolean(p.HasMin)
	e.num(p.Min)
	e.boolean(p.HasMax)
	e.num(p.Max)
	e.u64s(p.Buckets)
	e.u64s(p.Bounds)
	e.num(uint64(uint32(p.Scale)))
	e.num(p.ZeroCount)
	e.num(p.ZeroThreshold)
	e.num(uint64(uint32(p.PosOff)))
	e.u64s(p.Pos)
	e.num(uint64(uint32(p.NegOff)))
	e.u64s(p.Neg)
	e.num(uint64(len(p.Quantiles)))
	for _, q := range p.Quantiles {
		e.num(q[0])
		e.num(q[1])
	}
	e.num(uint64(len(p.Ex)))
	for _, x := range p.Ex {
		e.num(x.Ts)
		e.num(uint64(x.VT))
		e.num(x.V)
		e.tok(hb(x.TraceID[:]))
		e.tok(hb(x.SpanID[:]))
		e.attrs(x.Attrs)
	}
}

func EncodeMetrics(t Metrics) string {
	e := &enc{}
	e.num(uint64(len(t.RMs)))
	for _, rm := range t.RMs {
		e.str(rm.URL)
		e.num(uint64(rm.Dropped))
		e.attrs(rm.Attrs)
		e.num(uint64(len(rm.Scopes)))
		for _, sm := range rm.Scopes {
			e.str(sm.Name)
			e.str(sm.Ver)
			e.str(sm.URL)
			e.num(uint64(sm.Dropped))
			e.attrs(sm.Attrs)
			e.num(uint64(len(sm.Mets)))
			for _, m := range sm.Mets {
				e.str(m.Name)
				e.str(m.Desc)
				e.str(m.Unit)
				e.attrs(m.Meta)
				e.num(uint64(m.Type))
				e.num(uint64(m.Temp))
				e.boolean(m.Mono)
				e.num(uint64(len(m.Pts)))
				for _, p := range m.Pts {
					e.point(p)
				}
			}
		}
	}
	return e.sb.String()
}

func EncodeTraces(t Traces) string {
	e := &enc{}
	e.num(uint64(len(t.RSs)))
	for _, rs := range t.RSs {
		e.str(rs.URL)
		e.num(uint64(rs.Dropped))
		e.attrs(rs.Attrs)
		e.num(uint64(len(rs.Scopes)))
		for _, ss := range rs.Scopes {
			e.str(ss.Name)
			e.str(ss.Ver)
			e.str(ss.URL)
			e.num(uint64(ss.Dropped))
			e.attrs(ss.Attrs)
			e.num(uint64(len(ss.Spans)))
			for _, s := range ss.Spans {
				e.tok(hb(s.TraceID[:]))
				e.tok(hb(s.SpanID[:]))
				e.tok(hb(s.Parent[:]))
				e.str(s.TraceState)
				e.num(uint64(s.Flags))
				e.str(s.Name)
				e.num(uint64(uint32(s.Kind)))
				e.num(s.Start)
				e.num(s.End)
				e.attrs(s.Attrs)
				e.num(uint64(s.Dropped))
				e.num(uint64(s.DroppedEvents))
				e.num(uint64(s.DroppedLinks))
				e.num(uint64(uint32(s.StatusCode)))
				e.str(s.StatusMsg)
				e.num(uint64(len(s.Events)))
				for _, ev := range s.Events {
					e.str(ev.Name)
					e.num(ev.Ts)
					e.attrs(ev.Attrs)
					e.num(uint64(ev.Dropped))
				}
				e.num(uint64(len(s.Links)))
				for _, l := range s.Links {
					e.tok(hb(l.TraceID[:]))
					e.tok(hb(l.SpanID[:]))
					e.str(l.TraceState)
					e.num(uint64(l.Flags))
					e.attrs(l.Attrs)
					e.num(uint64(l.Dropped))
				}
			}
		}
	}
	return e.sb.String()
}
