package main

// Deep copies, one-step reductions and the greedy shrinker.

func cloneAV(v AV) AV {
	r := v
	if v.Y != nil {
		r.Y = append([]byte(nil), v.Y...)
	}
	if v.Arr != nil {
		r.Arr = make([]AV, len(v.Arr))
		for i := range v.Arr {
			r.Arr[i] = cloneAV(v.Arr[i])
		}
	}
	if v.KV != nil {
		r.KV = cloneAttrs(v.KV)
	}
	return r
}

func cloneAttrs(a Attrs) Attrs {
	if a == nil {
		return nil
	}
	r := make(Attrs, len(a))
	for i := range a {
		r[i] = KVp{a[i].K, cloneAV(a[i].V)}
	}
	return r
}

func cloneU(x []uint64) []uint64 { return append([]uint64(nil), x...) }

func clonePt(p Pt) Pt {
	r := p
	r.Attrs = cloneAttrs(p.Attrs)
	r.Buckets, r.Bounds, r.Pos, r.Neg = cloneU(p.Buckets), cloneU(p.Bounds), cloneU(p.Pos), cloneU(p.Neg)
	r.Quantiles = append([][2]uint64(nil), p.Quantiles...)
	r.Ex = nil
	for _, e := range p.Ex {
		e.Attrs = cloneAttrs(e.Attrs)
		r.Ex = append(r.Ex, e)
	}
	return r
}

func cloneMetrics(t Metrics) Metrics {
	var r Metrics
	for _, rm := range t.RMs {
		x := RM{URL: rm.URL, Attrs: cloneAttrs(rm.Attrs), Dropped: rm.Dropped}
		for _, sm := range rm.Scopes {
			y := SM{Name: sm.Name, Ver: sm.Ver, URL: sm.URL, Attrs: cloneAttrs(sm.Attrs), Dropped: sm.Dropped}
			for _, m := range sm.Mets {
				z := m
				z.Meta = cloneAttrs(m.Meta)
				z.Pts = nil
				for _, p := range m.Pts {
					z.Pts = append(z.Pts, clonePt(p))
				}
				y.Mets = append(y.Mets, z)
			}
			x.Scopes = append(x.Scopes, y)
		}
		r.RMs = append(r.RMs, x)
	}
	return r
}

func cloneTraces(t Traces) Traces {
	var r Traces
	for _, rs := range t.RSs {
		x := RS{URL: rs.URL, Attrs: cloneAttrs(rs.Attrs), Dropped: rs.Dropped}
		for _, ss := range rs.Scopes {
			y := SS{Name: ss.Name, Ver: ss.Ver, URL: ss.URL, Attrs: cloneAttrs(ss.Attrs), Dropped: ss.Dropped}
			for _, s := range ss.Spans {
				z := s
				z.Attrs = cloneAttrs(s.Attrs)
				z.Events = nil
				for _, e := range s.Events {
					e.Attrs = cloneAttrs(e.Attrs)
					z.Events = append(z.Events, e)
				}
				z.Links = nil
				for _, l := range s.Links {
					l.Attrs = cloneAttrs(l.Attrs)
					z.Links = append(z.Links, l)
				}
				y.Spans = append(y.Spans, z)
			}
			x.Scopes = append(x.Scopes, y)
		}
		r.RSs = append(r.RSs, x)
	}
	return r
}

// attrSitesM returns pointers to every top-level attribute list of a metrics tree.
func attrSitesM(t *Metrics) []*Attrs {
	var s []*Attrs
	for i := range t.RMs {
		rm := &t.RMs[i]
		s = append(s, &rm.Attrs)
		for j := range rm.Scopes {
			sm := &rm.Scopes[j]
			s = append(s, &sm.Attrs)
			for k := range sm.Mets {
				m := &sm.Mets[k]
				s = append(s, &m.Meta)
				for l := range m.Pts {
					p := &m.Pts[l]
					s = append(s, &p.Attrs)
					for e := range p.Ex {
						s = append(s, &p.Ex[e].Attrs)
					}
				}
			}
		}
	}
	return s
}

func attrSitesT(t *Traces) []*Attrs {
	var s []*Attrs
	for i := range t.RSs {
		rs := &t.RSs[i]
		s = append(s, &rs.Attrs)
		for j := range rs.Scopes {
			ss := &rs.Scopes[j]
			s = append(s, &ss.Attrs)
			for k := range ss.Spans {
				sp := &ss.Spans[k]
				s = append(s, &sp.Attrs)
				for e := range sp.Events {
					s = append(s, &sp.Events[e].Attrs)
				}
				for l := range sp.Links {
					s = append(s, &sp.Links[l].Attrs)
				}
			}
		}
	}
	return s
}

// valueShrinks lists simpler replacements of a value.
func valueShrinks(v AV) []AV {
	var r []AV
	switch v.K {
	case KSlice:
		for i := range v.Arr {
			c := cloneAV(v)
			c.Arr = append(c.Arr[:i:i], c.Arr[i+1:]...)
			r = append(r, c)
			r = append(r, cloneAV(v.Arr[i]))
		}
		for i := range v.Arr {
			for _, s := range valueShrinks(v.Arr[i]) {
				c := cloneAV(v)
				c.Arr[i] = s
				r = append(r, c)
			}
		}
	case KMap:
		for i := range v.KV {
			c := cloneAV(v)
			c.KV = append(c.KV[:i:i], c.KV[i+1:]...)
			r = append(r, c)
			r = append(r, cloneAV(v.KV[i].V))
		}
		for i := range v.KV {
			for _, s := range valueShrinks(v.KV[i].V) {
				c := cloneAV(v)
				c.KV[i].V = s
				r = append(r, c)
			}
			if len(v.KV[i].K) > 1 {
				c := cloneAV(v)
				c.KV[i].K = v.KV[i].K[:1]
				dup := false
				for j := range c.KV {
					if j != i && c.KV[j].K == c.KV[i].K {
						dup = true
					}
				}
				if !dup {
					r = append(r, c)
				}
			}
		}
	case KStr:
		if v.S != "" {
			r = append(r, AV{K: KStr})
		}
	case KBytes:
		if len(v.Y) > 0 {
			r = append(r, AV{K: KBytes})
		}
	case KInt:
		if v.I != 0 && v.I != 1 {
			r = append(r, AV{K: KInt, I: 1})
		}
	}
	return r
}

// attrShrinks lists one-step reductions of an attribute list.
func attrShrinks(a Attrs) []Attrs {
	var r []Attrs
	for i := range a {
		c := cloneAttrs(a)
		c = append(c[:i:i], c[i+1:]...)
		r = append(r, c)
	}
	for i := range a {
		for _, s := range valueShrinks(a[i].V) {
			c := cloneAttrs(a)
			c[i].V = s
			r = append(r, c)
		}
	}
	return r
}

// candidatesM lists one-step reductions of a metrics tree, coarse ones first.
func candidatesM(t Metrics) []Metrics {
	var r []Metrics
	for i := range t.RMs {
		c := cloneMetrics(t)
		c.RMs = append(c.RMs[:i:i], c.RMs[i+1:]...)
		r = append(r, c)
	}
	for i := range t.RMs {
		for j := range t.RMs[i].Scopes {
			c := cloneMetrics(t)
			s := c.RMs[i].Scopes
			c.RMs[i].Scopes = append(s[:j:j], s[j+1:]...)
			r = append(r, c)
		}
	}
	for i := range t.RMs {
		for j := range t.RMs[i].Scopes {
			for k := range t.RMs[i].Scopes[j].Mets {
				c := cloneMetrics(t)
				s := c.RMs[i].Scopes[j].Mets
				c.RMs[i].Scopes[j].Mets = append(s[:k:k], s[k+1:]...)
				r = append(r, c)
			}
		}
	}
	for i := range t.RMs {
		for j := range t.RMs[i].Scopes {
			for k := range t.RMs[i].Scopes[j].Mets {
				for l := range t.RMs[i].Scopes[j].Mets[k].Pts {
					c := cloneMetrics(t)
					s := c.RMs[i].Scopes[j].Mets[k].Pts
					c.RMs[i].Scopes[j].Mets[k].Pts = append(s[:l:l], s[l+1:]...)
					r = append(r, c)
				}
			}
		}
	}
	// exemplars
	for i := range t.RMs {
		for j := range t.RMs[i].Scopes {
			for k := range t.RMs[i].Scopes[j].Mets {
				for l := range t.RMs[i].Scopes[j].Mets[k].Pts {
					for e := range t.RMs[i].Scopes[j].Mets[k].Pts[l].Ex {
						c := cloneMetrics(t)
						s := c.RMs[i].Scopes[j].Mets[k].Pts[l].Ex
						c.RMs[i].Scopes[j].Mets[k].Pts[l].Ex = append(s[:e:e], s[e+1:]...)
						r = append(r, c)
					}
				}
			}
		}
	}
	// attributes
	n := len(attrSitesM(&t))
	for s := 0; s < n; s++ {
		base := cloneMetrics(t)
		site := attrSitesM(&base)[s]
		for _, a := range attrShrinks(*site) {
			c := cloneMetrics(t)
			*attrSitesM(&c)[s] = a
			r = append(r, c)
		}
	}
	// scalars: make the case easier to read
	for i := range t.RMs {
		rm := t.RMs[i]
		if rm.URL != "" || rm.Dropped != 0 {
			c := cloneMetrics(t)
			c.RMs[i].URL, c.RMs[i].Dropped = "", 0
			r = append(r, c)
		}
		for j := range rm.Scopes {
			sm := rm.Scopes[j]
			if sm.Name != "" || sm.Ver != "" || sm.URL != "" || sm.Dropped != 0 {
				c := cloneMetrics(t)
				x := &c.RMs[i].Scopes[j]
				x.Name, x.Ver, x.URL, x.Dropped = "", "", "", 0
				r = append(r, c)
			}
			for k := range sm.Mets {
				m := sm.Mets[k]
				if m.Desc != "" || m.Unit != "" {
					c := cloneMetrics(t)
					x := &c.RMs[i].Scopes[j].Mets[k]
					x.Desc, x.Unit = "", ""
					r = append(r, c)
				}
				if len(m.Name) > 1 {
					c := cloneMetrics(t)
					c.RMs[i].Scopes[j].Mets[k].Name = "m"
					r = append(r, c)
				}
				if m.Temp != 0 || m.Mono {
					c := cloneMetrics(t)
					x := &c.RMs[i].Scopes[j].Mets[k]
					x.Temp, x.Mono = 0, false
					r = append(r, c)
				}
				for l := range m.Pts {
					p := m.Pts[l]
					if p.Start != 0 {
						c := cloneMetrics(t)
						c.RMs[i].Scopes[j].Mets[k].Pts[l].Start = 0
						r = append(r, c)
					}
					if p.Ts > 9 {
						c := cloneMetrics(t)
						c.RMs[i].Scopes[j].Mets[k].Pts[l].Ts = uint64(l + 1)
						r = append(r, c)
					}
					if p.HasSum || p.HasMin || p.HasMax || p.Count != 0 {
						c := cloneMetrics(t)
						x := &c.RMs[i].Scopes[j].Mets[k].Pts[l]
						x.HasSum, x.HasMin, x.HasMax, x.Sum, x.Min, x.Max, x.Count = false, false, false, 0, 0, 0, 0
						r = append(r, c)
					}
					if len(p.Pos)+len(p.Neg) > 0 || p.Scale != 0 || p.ZeroCount != 0 || p.ZeroThreshold != 0 || p.PosOff != 0 || p.NegOff != 0 {
						c := cloneMetrics(t)
						x := &c.RMs[i].Scopes[j].Mets[k].Pts[l]
						x.Pos, x.Neg, x.Scale, x.ZeroCount, x.ZeroThreshold, x.PosOff, x.NegOff = nil, nil, 0, 0, 0, 0, 0
						r = append(r, c)
					}
					if len(p.Quantiles) > 0 {
						c := cloneMetrics(t)
						x := &c.RMs[i].Scopes[j].Mets[k].Pts[l]
						x.Quantiles = x.Quantiles[:len(x.Quantiles)-1]
						r = append(r, c)
					}
					if len(p.Bounds) > 0 && len(p.Buckets) == len(p.Bounds)+1 {
						c := cloneMetrics(t)
						x := &c.RMs[i].Scopes[j].Mets[k].Pts[l]
						x.Bounds = x.Bounds[:len(x.Bounds)-1]
						x.Buckets = x.Buckets[:len(x.Buckets)-1]
						r = append(r, c)
					}
					for e := range p.Ex {
						ex := p.Ex[e]
						if ex.Ts != 0 || ex.TraceID != [16]byte{} || ex.SpanID != [8]byte{} {
							c := cloneMetrics(t)
							x := &c.RMs[i].Scopes[j].Mets[k].Pts[l].Ex[e]
							x.Ts, x.TraceID, x.SpanID = 0, [16]byte{}, [8]byte{}
							r = append(r, c)
						}
					}
				}
			}
		}
	}
	return r
}

func candidatesT(t Traces) []Traces {
	var r []Traces
	for i := range t.RSs {
		c := cloneTraces(t)
		c.RSs = append(c.RSs[:i:i], c.RSs[i+1:]...)
		r = append(r, c)
	}
	for i := range t.RSs {
		for j := range t.RSs[i].Scopes {
			c := cloneTraces(t)
			s := c.RSs[i].Scopes
			c.RSs[i].Scopes = append(s[:j:j], s[j+1:]...)
			r = append(r, c)
		}
	}
	for i := range t.RSs {
		for j := range t.RSs[i].Scopes {
			for k := range t.RSs[i].Scopes[j].Spans {
				c := cloneTraces(t)
				s := c.RSs[i].Scopes[j].Spans
				c.RSs[i].Scopes[j].Spans = append(s[:k:k], s[k+1:]...)
				r = append(r, c)
			}
		}
	}
	for i := range t.RSs {
		for j := range t.RSs[i].Scopes {
			for k := range t.RSs[i].Scopes[j].Spans {
				sp := t.RSs[i].Scopes[j].Spans[k]
				for e := range sp.Events {
					c := cloneTraces(t)
					s := c.RSs[i].Scopes[j].Spans[k].Events
					c.RSs[i].Scopes[j].Spans[k].Events = append(s[:e:e], s[e+1:]...)
					r = append(r, c)
				}
				for l := range sp.Links {
					c := cloneTraces(t)
					s := c.RSs[i].Scopes[j].Spans[k].Links
					c.RSs[i].Scopes[j].Spans[k].Links = append(s[:l:l], s[l+1:]...)
					r = append(r, c)
				}
			}
		}
	}
	n := len(attrSitesT(&t))
	for s := 0; s < n; s++ {
		base := cloneTraces(t)
		site := attrSitesT(&base)[s]
		for _, a := range attrShrinks(*site) {
			c := cloneTraces(t)
			*attrSitesT(&c)[s] = a
			r = append(r, c)
		}
	}
	for i := range t.RSs {
		rs := t.RSs[i]
		if rs.URL != "" || rs.Dropped != 0 {
			c := cloneTraces(t)
			c.RSs[i].URL, c.RSs[i].Dropped = "", 0
			r = append(r, c)
		}
		for j := range rs.Scopes {
			ss := rs.Scopes[j]
			if ss.Name != "" || ss.Ver != "" || ss.URL != "" || ss.Dropped != 0 {
				c := cloneTraces(t)
				x := &c.RSs[i].Scopes[j]
				x.Name, x.Ver, x.URL, x.Dropped = "", "", "", 0
				r = append(r, c)
			}
			for k := range ss.Spans {
				sp := ss.Spans[k]
				if sp.TraceState != "" || sp.StatusMsg != "" || sp.Name != "" || sp.Flags != 0 || sp.Kind != 0 || sp.StatusCode != 0 || sp.Dropped != 0 {
					c := cloneTraces(t)
					x := &c.RSs[i].Scopes[j].Spans[k]
					x.TraceState, x.StatusMsg, x.Name, x.Flags, x.Kind, x.StatusCode, x.Dropped = "", "", "", 0, 0, 0, 0
					r = append(r, c)
				}
				if sp.Start != 0 || sp.End != 0 || sp.Parent != [8]byte{} {
					c := cloneTraces(t)
					x := &c.RSs[i].Scopes[j].Spans[k]
					x.Start, x.End, x.Parent = 0, 0, [8]byte{}
					r = append(r, c)
				}
				if sp.TraceID != [16]byte{} || sp.SpanID != [8]byte{} {
					c := cloneTraces(t)
					x := &c.RSs[i].Scopes[j].Spans[k]
					x.TraceID, x.SpanID = [16]byte{}, [8]byte{}
					r = append(r, c)
				}
				if sp.DroppedEvents > 1 || sp.DroppedLinks > 1 {
					c := cloneTraces(t)
					x := &c.RSs[i].Scopes[j].Spans[k]
					if x.DroppedEvents > 1 {
						x.DroppedEvents = 1
					}
					if x.DroppedLinks > 1 {
						x.DroppedLinks = 1
					}
					r = append(r, c)
				}
				for e := range sp.Events {
					ev := sp.Events[e]
					if ev.Name != "" || ev.Ts != 0 || ev.Dropped != 0 {
						c := cloneTraces(t)
						x := &c.RSs[i].Scopes[j].Spans[k].Events[e]
						x.Name, x.Ts, x.Dropped = "", 0, 0
						r = append(r, c)
					}
				}
				for l := range sp.Links {
					ln := sp.Links[l]
					if ln.TraceState != "" || ln.Flags != 0 || ln.Dropped != 0 || ln.TraceID != [16]byte{} || ln.SpanID != [8]byte{} {
						c := cloneTraces(t)
						x := &c.RSs[i].Scopes[j].Spans[k].Links[l]
						x.TraceState, x.Flags, x.Dropped, x.TraceID, x.SpanID = "", 0, 0, [16]byte{}, [8]byte{}
						r = append(r, c)
					}
				}
			}
		}
	}
	return r
}

var shrinkEvals int

func shrinkM(t Metrics, fails func(Metrics) bool) Metrics {
	budget := 4000
	for changed := true; changed && budget > 0; {
		changed = false
		for _, c := range candidatesM(t) {
			budget--
			shrinkEvals++
			if budget <= 0 {
				break
			}
			if fails(c) {
				t = c
				changed = true
				break
			}
		}
	}
	return t
}

func shrinkT(t Traces, fails func(Traces) bool) Traces {
	budget := 4000
	for changed := true; changed && budget > 0; {
		changed = false
		for _, c := range candidatesT(t) {
			budget--
			shrinkEvals++
			if budget <= 0 {
				break
			}
			if fails(c) {
				t = c
				changed = true
				break
			}
		}
	}
	return t
}
