package main

// Own tree representation of OTLP metrics and traces (mirrors lean/Stef/Otlp.lean), the builders
// that turn a tree into pdata, and the readers that turn pdata back into a tree. Everything the
// harness compares goes through these types, never through the repository's normaliser.

import (
	"bytes"
	"fmt"
	"go.opentelemetry.io/collector/pdata/pcommon"
	"go.opentelemetry.io/collector/pdata/pmetric"
	"go.opentelemetry.io/collector/pdata/ptrace"
	"math"
	"regexp"
)

// AnyValue kinds (own numbering; the encoding uses letters).
const (
	KEmpty = iota
	KStr
	KBool
	KInt
	KDouble
	KBytes
	KSlice
	KMap
)

type AV struct {
	K   int
	S   string // KStr
	B   bool
	I   uint64 // KInt (two's complement bits), KDouble (IEEE bits)
	Y   []byte // KBytes
	Arr []AV
	KV  []KVp
}

type KVp struct {
	K string
	V AV
}

type Attrs []KVp

// ---- metrics

const (
	MGauge = iota
	MSum
	MHist
	MExp
	MSummary
)

type Ex struct {
	Ts      uint64
	VT      int // 0 empty, 1 int, 2 double
	V       uint64
	TraceID [16]byte
	SpanID  [8]byte
	Attrs   Attrs
}

type Pt struct {
	Attrs Attrs
	Start uint64
	Ts    uint64
	Flags uint32
	// number
	VT int // 0 empty, 1 int, 2 double
	V  uint64
	// histogram / exp histogram / summary
	Count                  uint64
	HasSum, HasMin, HasMax bool
	Sum, Min, Max          uint64
	Buckets                []uint64
	Bounds                 []uint64
	Scale                  int32
	ZeroCount              uint64
	ZeroThreshold          uint64
	PosOff, NegOff         int32
	Pos, Neg               []uint64
	Quantiles              [][2]uint64
	Ex                     []Ex
}

type Met struct {
	Name, Desc, Unit string
	Meta             Attrs
	Type             int
	Temp             int // 0 unspecified, 1 delta, 2 cumulative
	Mono             bool
	Pts              []Pt
}

type SM struct {
	Name, Ver, URL string
	Attrs          Attrs
	Dropped        uint32
	Mets           []Met
}

type RM struct {
	URL     string
	Attrs   Attrs
	Dropped uint32
	Scopes  []SM
}

type Metrics struct{ RMs []RM }

// ---- traces

type Event struct {
	Name    string
	Ts      uint64
	Attrs   Attrs
	Dropped uint32
}

type Link struct {
	TraceID    [16]byte
	SpanID     [8]byte
	TraceState string
	Flags      uint32
	Attrs      Attrs
	Dropped    uint32
}

type Span struct {
	TraceID       [16]byte
	SpanID        [8]byte
	Parent        [8]byte
	TraceState    string
	Flags         uint32
	Name          string
	Kind          int32
	Start, End    uint64
	Attrs         Attrs
	Dropped       uint32
	DroppedEvents uint32
	DroppedLinks  uint32
	StatusCode    int32
	StatusMsg     string
	Events        []Event
	Links         []Link
}

type SS struct {
	Name, Ver, URL string
	Attrs          Attrs
	Dropped        uint32
	Spans          []Span
}

type RS struct {
	URL     string
	Attrs   Attrs
	Dropped uint32
	Scopes  []SS
}

type Traces struct{ RSs []RS }

// ------------------------------------------------------------------ build pdata

func putValue(dst pcommon.Value, v AV) {
	switch v.K {
	case KEmpty:
	case KStr:
		dst.SetStr(v.S)
	case KBool:
		dst.SetBool(v.B)
	case KInt:
		dst.SetInt(int64(v.I))
	case KDouble:
		dst.SetDouble(math.Float64frombits(v.I))
	case KBytes:
		dst.SetEmptyBytes().FromRaw(v.Y)
	case KSlice:
		s := dst.SetEmptySlice()
		for _, e := range v.Arr {
			putValue(s.AppendEmpty(), e)
		}
	case KMap:
		m := dst.SetEmptyMap()
		putAttrs(m, v.KV)
	}
}

// A pcommon.Map may hold one key several times (the OTLP unmarshalers append what arrives), the Put*
// helpers cannot build such a map. A repeated key is first stored under a placeholder key;
// BuildTraces then takes the value through the OTLP/JSON marshaler, removes the placeholder
// prefixes from the text and unmarshals it again.
const dupKeyMark = "@@dupkey"

var dupKeysPut int

func putAttrs(m pcommon.Map, a Attrs) {
	seen := map[string]bool{}
	for _, kv := range a {
		k := kv.K
		if seen[k] {
			dupKeysPut++
			k = fmt.Sprintf("%s%06d@@%s", dupKeyMark, dupKeysPut, k)
		}
		seen[kv.K] = true
		putValue(m.PutEmpty(k), kv.V)
	}
}

var dupKeyRe = regexp.MustCompile(dupKeyMark + `[0-9]{6}@@`)

// jsonSafeTraces: the OTLP/JSON round trip used by undupTraces keeps this value exactly (it does
// not for NaN payloads, invalid UTF-8 and the like: such inputs are not used for duplicate keys)
func jsonSafeTraces(t Traces) bool {
	td0 := buildTraces(t)
	js, err := (&ptrace.JSONMarshaler{}).MarshalTraces(td0)
	if err != nil {
		return false
	}
	td1, err := (&ptrace.JSONUnmarshaler{}).UnmarshalTraces(js)
	if err != nil {
		return false
	}
	p0, e0 := (&ptrace.ProtoMarshaler{}).MarshalTraces(td0)
	p1, e1 := (&ptrace.ProtoMarshaler{}).MarshalTraces(td1)
	return e0 == nil && e1 == nil && bytes.Equal(p0, p1)
}

func undupTraces(td ptrace.Traces) ptrace.Traces {
	js, err := (&ptrace.JSONMarshaler{}).MarshalTraces(td)
	if err != nil {
		panic("harness: cannot marshal traces: " + err.Error())
	}
	out, err := (&ptrace.JSONUnmarshaler{}).UnmarshalTraces(dupKeyRe.ReplaceAll(js, nil))
	if err != nil {
		panic("harness: cannot unmarshal traces: " + err.Error())
	}
	return out
}

func f64(b uint64) float64 { return math.Float64frombits(b) }

func putExemplars(dst pmetric.ExemplarSlice, exs []Ex) {
	for _, e := range exs {
		d := dst.AppendEmpty()
		d.SetTimestamp(pcommon.Timestamp(e.Ts))
		switch e.VT {
		case 1:
			d.SetIntValue(int64(e.V))
		case 2:
			d.SetDoubleValue(f64(e.V))
		}
		d.SetTraceID(pcommon.TraceID(e.TraceID))
		d.SetSpanID(pcommon.SpanID(e.SpanID))
		putAttrs(d.FilteredAttributes(), e.Attrs)
	}
}

func tempOf(t int) pmetric.AggregationTemporality {
	switch t {
	case 1:
		return pmetric.AggregationTemporalityDelta
	case 2:
		return pmetric.AggregationTemporalityCumulative
	}
	return pmetric.AggregationTemporalityUnspecified
}

func putNumber(dst pmetric.NumberDataPointSlice, pts []Pt) {
	for _, p := range pts {
		d := dst.AppendEmpty()
		putAttrs(d.Attributes(), p.Attrs)
		d.SetStartTimestamp(pcommon.Timestamp(p.Start))
		d.SetTimestamp(pcommon.Timestamp(p.Ts))
		d.SetFlags(pmetric.DataPointFlags(p.Flags))
		switch p.VT {
		case 1:
			d.SetIntValue(int64(p.V))
		case 2:
			d.SetDoubleValue(f64(p.V))
		}
		putExemplars(d.Exemplars(), p.Ex)
	}
}

func f64s(b []uint64) []float64 {
	r := make([]float64, len(b))
	for i, x := range b {
		r[i] = f64(x)
	}
	return r
}

func BuildMetrics(t Metrics) pmetric.Metrics {
	md := pmetric.NewMetrics()
	for _, rm := range t.RMs {
		r := md.ResourceMetrics().AppendEmpty()
		r.SetSchemaUrl(rm.URL)
		putAttrs(r.Resource().Attributes(), rm.Attrs)
		r.Resource().SetDroppedAttributesCount(rm.Dropped)
		for _, sm := range rm.Scopes {
			s := r.ScopeMetrics().AppendEmpty()
			s.SetSchemaUrl(sm.URL)
			s.Scope().SetName(sm.Name)
			s.Scope().SetVersion(sm.Ver)
			putAttrs(s.Scope().Attributes(), sm.Attrs)
			s.Scope().SetDroppedAttributesCount(sm.Dropped)
			for _, m := range sm.Mets {
				d := s.Metrics().AppendEmpty()
				d.SetName(m.Name)
				d.SetDescription(m.Desc)
				d.SetUnit(m.Unit)
				putAttrs(d.Metadata(), m.Meta)
				switch m.Type {
				case MGauge:
					putNumber(d.SetEmptyGauge().DataPoints(), m.Pts)
				case MSum:
					sum := d.SetEmptySum()
					sum.SetAggregationTemporality(tempOf(m.Temp))
					sum.SetIsMonotonic(m.Mono)
					putNumber(sum.DataPoints(), m.Pts)
				case MHist:
					h := d.SetEmptyHistogram()
					h.SetAggregationTemporality(tempOf(m.Temp))
					for _, p := range m.Pts {
						dp := h.DataPoints().AppendEmpty()
						putAttrs(dp.Attributes(), p.Attrs)
						dp.SetStartTimestamp(pcommon.Timestamp(p.Start))
						dp.SetTimestamp(pcommon.Timestamp(p.Ts))
						dp.SetFlags(pmetric.DataPointFlags(p.Flags))
						dp.SetCount(p.Count)
						if p.HasSum {
							dp.SetSum(f64(p.Sum))
						}
						if p.HasMin {
							dp.SetMin(f64(p.Min))
						}
						if p.HasMax {
							dp.SetMax(f64(p.Max))
						}
						dp.BucketCounts().FromRaw(append([]uint64(nil), p.Buckets...))
						dp.ExplicitBounds().FromRaw(f64s(p.Bounds))
						putExemplars(dp.Exemplars(), p.Ex)
					}
				case MExp:
					h := d.SetEmptyExponentialHistogram()
					h.SetAggregationTemporality(tempOf(m.Temp))
					for _, p := range m.Pts {
						dp := h.DataPoints().AppendEmpty()
						putAttrs(dp.Attributes(), p.Attrs)
						dp.SetStartTimestamp(pcommon.Timestamp(p.Start))
						dp.SetTimestamp(pcommon.Timestamp(p.Ts))
						dp.SetFlags(pmetric.DataPointFlags(p.Flags))
						dp.SetCount(p.Count)
						if p.HasSum {
							dp.SetSum(f64(p.Sum))
						}
						if p.HasMin {
							dp.SetMin(f64(p.Min))
						}
						if p.HasMax {
							dp.SetMax(f64(p.Max))
						}
						dp.SetScale(p.Scale)
						dp.SetZeroCount(p.ZeroCount)
						dp.SetZeroThreshold(f64(p.ZeroThreshold))
						dp.Positive().SetOffset(p.PosOff)
						dp.Positive().BucketCounts().FromRaw(append([]uint64(nil), p.Pos...))
						dp.Negative().SetOffset(p.NegOff)
						dp.Negative().BucketCounts().FromRaw(append([]uint64(nil), p.Neg...))
						putExemplars(dp.Exemplars(), p.Ex)
					}
				case MSummary:
					sm := d.SetEmptySummary()
					for _, p := range m.Pts {
						dp := sm.DataPoints().AppendEmpty()
						putAttrs(dp.Attributes(), p.Attrs)
						dp.SetStartTimestamp(pcommon.Timestamp(p.Start))
						dp.SetTimestamp(pcommon.Timestamp(p.Ts))
						dp.SetFlags(pmetric.DataPointFlags(p.Flags))
						dp.SetCount(p.Count)
						dp.SetSum(f64(p.Sum))
						for _, q := range p.Quantiles {
							qq := dp.QuantileValues().AppendEmpty()
							qq.SetQuantile(f64(q[0]))
							qq.SetValue(f64(q[1]))
						}
					}
				}
			}
		}
	}
	return md
}

func BuildTraces(t Traces) ptrace.Traces {
	before := dupKeysPut
	td := buildTraces(t)
	if dupKeysPut != before {
		td = undupTraces(td)
	}
	return td
}

func buildTraces(t Traces) ptrace.Traces {
	td := ptrace.NewTraces()
	for _, rs := range t.RSs {
		r := td.ResourceSpans().AppendEmpty()
		r.SetSchemaUrl(rs.URL)
		putAttrs(r.Resource().Attributes(), rs.Attrs)
		r.Resource().SetDroppedAttributesCount(rs.Dropped)
		for _, ss := range rs.Scopes {
			s := r.ScopeSpans().AppendEmpty()
			s.SetSchemaUrl(ss.URL)
			s.Scope().SetName(ss.Name)
			s.Scope().SetVersion(ss.Ver)
			putAttrs(s.Scope().Attributes(), ss.Attrs)
			s.Scope().SetDroppedAttributesCount(ss.Dropped)
			for _, sp := range ss.Spans {
				d := s.Spans().AppendEmpty()
				d.SetTraceID(pcommon.TraceID(sp.TraceID))
				d.SetSpanID(pcommon.SpanID(sp.SpanID))
				d.SetParentSpanID(pcommon.SpanID(sp.Parent))
				d.TraceState().FromRaw(sp.TraceState)
				d.SetFlags(sp.Flags)
				d.SetName(sp.Name)
				d.SetKind(ptrace.SpanKind(sp.Kind))
				d.SetStartTimestamp(pcommon.Timestamp(sp.Start))
				d.SetEndTimestamp(pcommon.Timestamp(sp.End))
				putAttrs(d.Attributes(), sp.Attrs)
				d.SetDroppedAttributesCount(sp.Dropped)
				d.SetDroppedEventsCount(sp.DroppedEvents)
				d.SetDroppedLinksCount(sp.DroppedLinks)
				d.Status().SetCode(ptrace.StatusCode(sp.StatusCode))
				d.Status().SetMessage(sp.StatusMsg)
				for _, e := range sp.Events {
					de := d.Events().AppendEmpty()
					de.SetName(e.Name)
					de.SetTimestamp(pcommon.Timestamp(e.Ts))
					putAttrs(de.Attributes(), e.Attrs)
					de.SetDroppedAttributesCount(e.Dropped)
				}
				for _, l := range sp.Links {
					dl := d.Links().AppendEmpty()
					dl.SetTraceID(pcommon.TraceID(l.TraceID))
					dl.SetSpanID(pcommon.SpanID(l.SpanID))
					dl.TraceState().FromRaw(l.TraceState)
					dl.SetFlags(l.Flags)
					putAttrs(dl.Attributes(), l.Attrs)
					dl.SetDroppedAttributesCount(l.Dropped)
				}
			}
		}
	}
	return td
}

// ------------------------------------------------------------------ read pdata back

func getValue(v pcommon.Value) AV {
	switch v.Type() {
	case pcommon.ValueTypeEmpty:
		return AV{K: KEmpty}
	case pcommon.ValueTypeStr:
		return AV{K: KStr, S: v.Str()}
	case pcommon.ValueTypeBool:
		return AV{K: KBool, B: v.Bool()}
	case pcommon.ValueTypeInt:
		return AV{K: KInt, I: uint64(v.Int())}
	case pcommon.ValueTypeDouble:
		return AV{K: KDouble, I: math.Float64bits(v.Double())}
	case pcommon.ValueTypeBytes:
		return AV{K: KBytes, Y: append([]byte(nil), v.Bytes().AsRaw()...)}
	case pcommon.ValueTypeSlice:
		r := AV{K: KSlice}
		for i := 0; i < v.Slice().Len(); i++ {
			r.Arr = append(r.Arr, getValue(v.Slice().At(i)))
		}
		return r
	case pcommon.ValueTypeMap:
		return AV{K: KMap, KV: getAttrs(v.Map())}
	}
	return AV{K: -1}
}

func getAttrs(m pcommon.Map) Attrs {
	var a Attrs
	m.Range(func(k string, v pcommon.Value) bool {
		a = append(a, KVp{k, getValue(v)})
		return true
	})
	return a
}

func getExemplars(src pmetric.ExemplarSlice) []Ex {
	var r []Ex
	for i := 0; i < src.Len(); i++ {
		e := src.At(i)
		x := Ex{Ts: uint64(e.Timestamp()), TraceID: e.TraceID(), SpanID: e.SpanID(), Attrs: getAttrs(e.FilteredAttributes())}
		switch e.ValueType() {
		case pmetric.ExemplarValueTypeInt:
			x.VT, x.V = 1, uint64(e.IntValue())
		case pmetric.ExemplarValueTypeDouble:
			x.VT, x.V = 2, math.Float64bits(e.DoubleValue())
		}
		r = append(r, x)
	}
	return r
}

func bitsOf(fs []float64) []uint64 {
	var r []uint64
	for _, f := range fs {
		r = append(r, math.Float64bits(f))
	}
	return r
}

func tempFrom(t pmetric.AggregationTemporality) int {
	switch t {
	case pmetric.AggregationTemporalityDelta:
		return 1
	case pmetric.AggregationTemporalityCumulative:
		return 2
	case pmetric.AggregationTemporalityUnspecified:
		return 0
	}
	return int(t) + 100
}

func getNumber(src pmetric.NumberDataPointSlice) []Pt {
	var r []Pt
	for i := 0; i < src.Len(); i++ {
		p := src.At(i)
		x := Pt{Attrs: getAttrs(p.Attributes()), Start: uint64(p.StartTimestamp()), Ts: uint64(p.Timestamp()),
			Flags: uint32(p.Flags()), Ex: getExemplars(p.Exemplars())}
		switch p.ValueType() {
		case pmetric.NumberDataPointValueTypeInt:
			x.VT, x.V = 1, uint64(p.IntValue())
		case pmetric.NumberDataPointValueTypeDouble:
			x.VT, x.V = 2, math.Float64bits(p.DoubleValue())
		}
		r = append(r, x)
	}
	return r
}

func ReadMetrics(md pmetric.Metrics) Metrics {
	var t Metrics
	for i := 0; i < md.ResourceMetrics().Len(); i++ {
		r := md.ResourceMetrics().At(i)
		rm := RM{URL: r.SchemaUrl(), Attrs: getAttrs(r.Resource().Attributes()), Dropped: r.Resource().DroppedAttributesCount()}
		for j := 0; j < r.ScopeMetrics().Len(); j++ {
			s := r.ScopeMetrics().At(j)
			sm := SM{Name: s.Scope().Name(), Ver: s.Scope().Version(), URL: s.SchemaUrl(),
				Attrs: getAttrs(s.Scope().Attributes()), Dropped: s.Scope().DroppedAttributesCount()}
			for k := 0; k < s.Metrics().Len(); k++ {
				m := s.Metrics().At(k)
				x := Met{Name: m.Name(), Desc: m.Description(), Unit: m.Unit(), Meta: getAttrs(m.Metadata())}
				switch m.Type() {
				case pmetric.MetricTypeGauge:
					x.Type = MGauge
					x.Pts = getNumber(m.Gauge().DataPoints())
				case pmetric.MetricTypeSum:
					x.Type = MSum
					x.Temp = tempFrom(m.Sum().AggregationTemporality())
					x.Mono = m.Sum().IsMonotonic()
					x.Pts = getNumber(m.Sum().DataPoints())
				case pmetric.MetricTypeHistogram:
					x.Type = MHist
					x.Temp = tempFrom(m.Histogram().AggregationTemporality())
					dps := m.Histogram().DataPoints()
					for l := 0; l < dps.Len(); l++ {
						p := dps.At(l)
						y := Pt{Attrs: getAttrs(p.Attributes()), Start: uint64(p.StartTimestamp()), Ts: uint64(p.Timestamp()),
							Flags: uint32(p.Flags()), Count: p.Count(), HasSum: p.HasSum(), HasMin: p.HasMin(), HasMax: p.HasMax(),
							Buckets: append([]uint64(nil), p.BucketCounts().AsRaw()...), Bounds: bitsOf(p.ExplicitBounds().AsRaw()),
							Ex: getExemplars(p.Exemplars())}
						if y.HasSum {
							y.Sum = math.Float64bits(p.Sum())
						}
						if y.HasMin {
							y.Min = math.Float64bits(p.Min())
						}
						if y.HasMax {
							y.Max = math.Float64bits(p.Max())
						}
						x.Pts = append(x.Pts, y)
					}
				case pmetric.MetricTypeExponentialHistogram:
					x.Type = MExp
					x.Temp = tempFrom(m.ExponentialHistogram().AggregationTemporality())
					dps := m.ExponentialHistogram().DataPoints()
					for l := 0; l < dps.Len(); l++ {
						p := dps.At(l)
						y := Pt{Attrs: getAttrs(p.Attributes()), Start: uint64(p.StartTimestamp()), Ts: uint64(p.Timestamp()),
							Flags: uint32(p.Flags()), Count: p.Count(), HasSum: p.HasSum(), HasMin: p.HasMin(), HasMax: p.HasMax(),
							Scale: p.Scale(), ZeroCount: p.ZeroCount(), ZeroThreshold: math.Float64bits(p.ZeroThreshold()),
							PosOff: p.Positive().Offset(), Pos: append([]uint64(nil), p.Positive().BucketCounts().AsRaw()...),
							NegOff: p.Negative().Offset(), Neg: append([]uint64(nil), p.Negative().BucketCounts().AsRaw()...),
							Ex: getExemplars(p.Exemplars())}
						if y.HasSum {
							y.Sum = math.Float64bits(p.Sum())
						}
						if y.HasMin {
							y.Min = math.Float64bits(p.Min())
						}
						if y.HasMax {
							y.Max = math.Float64bits(p.Max())
						}
						x.Pts = append(x.Pts, y)
					}
				case pmetric.MetricTypeSummary:
					x.Type = MSummary
					dps := m.Summary().DataPoints()
					for l := 0; l < dps.Len(); l++ {
						p := dps.At(l)
						y := Pt{Attrs: getAttrs(p.Attributes()), Start: uint64(p.StartTimestamp()), Ts: uint64(p.Timestamp()),
							Flags: uint32(p.Flags()), Count: p.Count(), Sum: math.Float64bits(p.Sum())}
						for q := 0; q < p.QuantileValues().Len(); q++ {
							qq := p.QuantileValues().At(q)
							y.Quantiles = append(y.Quantiles, [2]uint64{math.Float64bits(qq.Quantile()), math.Float64bits(qq.Value())})
						}
						x.Pts = append(x.Pts, y)
					}
				default:
					x.Type = 99
				}
				sm.Mets = append(sm.Mets, x)
			}
			rm.Scopes = append(rm.Scopes, sm)
		}
		t.RMs = append(t.RMs, rm)
	}
	return t
}
