package main

// C18: run the real traces converter, read the records back with otelstef.SpansReader and compare
// every record with the span it came from.

import (
	"bytes"
	"encoding/hex"
	"errors"
	"fmt"
	"io"
	"sort"
	"strings"

	"github.com/splunk/stef/go/otel/otelstef"
	steftraces "github.com/splunk/stef/go/pdata/traces"
	"github.com/splunk/stef/go/pkg"
)

// idText is the representation the converter uses for ids: the lower-case hex text of the id,
// and the empty string for the all-zero id (pcommon.TraceID.String / SpanID.String).
func idText(id []byte) []byte {
	for _, b := range id {
		if b != 0 {
			return []byte(hex.EncodeToString(id))
		}
	}
	return nil
}

// idFromText inverts idText: the reader-side recovery of an id of n bytes.
func idFromText(txt []byte, n int) ([]byte, bool) {
	if len(txt) == 0 {
		return make([]byte, n), true
	}
	b, err := hex.DecodeString(string(txt))
	if err != nil || len(b) != n {
		return nil, false
	}
	return b, true
}

// expectSpanRec is the record the property asks for: every listed field of the span, unchanged
// (ids in the converter's text representation). Dropped event/link counts have no place in the
// record; they are compared against 0 by the caller.
func expectSpanRec(rs RS, ss SS, s Span) SpanRec {
	r := SpanRec{
		ResURL: rs.URL, ResAttrs: rs.Attrs, ResDropped: uint64(rs.Dropped),
		ScName: ss.Name, ScVer: ss.Ver, ScURL: ss.URL, ScAttrs: ss.Attrs, ScDropped: uint64(ss.Dropped),
		TraceID: idText(s.TraceID[:]), SpanID: idText(s.SpanID[:]), Parent: idText(s.Parent[:]),
		TraceState: s.TraceState, Flags: uint64(s.Flags), Name: s.Name, Kind: uint64(uint32(s.Kind)), Start: s.Start, End: s.End,
		Attrs: s.Attrs, Dropped: uint64(s.Dropped), StatusMsg: s.StatusMsg, StatusCode: uint64(int64(s.StatusCode)),
	}
	for _, e := range s.Events {
		r.Events = append(r.Events, EventRec{e.Name, e.Ts, e.Attrs, uint64(e.Dropped)})
	}
	for _, l := range s.Links {
		r.Links = append(r.Links, LinkRec{idText(l.TraceID[:]), idText(l.SpanID[:]), l.TraceState, uint64(l.Flags), l.Attrs, uint64(l.Dropped)})
	}
	return r
}

type spanCase struct {
	rec           SpanRec
	droppedEvents uint32
	droppedLinks  uint32
}

func expectAll(t Traces) []spanCase {
	var out []spanCase
	for _, rs := range t.RSs {
		for _, ss := range rs.Scopes {
			for _, s := range ss.Spans {
				out = append(out, spanCase{expectSpanRec(rs, ss, s), s.DroppedEvents, s.DroppedLinks})
			}
		}
	}
	return out
}

type trResult struct {
	err     string
	written uint64
	recs    []SpanRec
}

func convertTraces(t Traces, sorted bool, opts pkg.WriterOptions) (res trResult) {
	return convertTracesSeq(nil, t, sorted, opts)
}

// convertTracesSeq: the batches in `before` first, through the SAME converter and writer.
func convertTracesSeq(before []Traces, t Traces, sorted bool, opts pkg.WriterOptions) (res trResult) {
	return convertTracesSeqW(before, t, sorted, opts, false)
}

// convertTracesSeqW: with freshWriter the batches in `before` go through the converter into a writer
// of their own (a first stream), and `t` through the SAME converter into a NEW writer (a second
// stream, as after a reconnect): only the second stream is read back.
func convertTracesSeqW(before []Traces, t Traces, sorted bool, opts pkg.WriterOptions, freshWriter bool) (res trResult) {
	src := BuildTraces(t)
	buf := &pkg.MemChunkWriter{}
	func() {
		defer func() {
			if e := recover(); e != nil {
				res.err = "panic-w:" + classifyErr(e)
			}
		}()
		writer, err := otelstef.NewSpansWriter(buf, opts)
		if err != nil {
			res.err = "w:" + classifyErr(err)
			return
		}
		conv := &steftraces.OtlpToStefUnsorted{Sorted: sorted}
		for _, b := range before {
			if err := conv.Convert(BuildTraces(b), writer); err != nil {
				res.err = "w:" + classifyErr(err)
				return
			}
			if err := writer.Flush(); err != nil {
				res.err = "w:" + classifyErr(err)
				return
			}
		}
		if freshWriter {
			buf = &pkg.MemChunkWriter{}
			if writer, err = otelstef.NewSpansWriter(buf, opts); err != nil {
				res.err = "w:" + classifyErr(err)
				return
			}
		}
		if err := conv.Convert(src, writer); err != nil {
			res.err = "w:" + classifyErr(err)
			return
		}
		res.written = writer.RecordCount()
		if err := writer.Flush(); err != nil {
			res.err = "w:" + classifyErr(err)
		}
	}()
	if res.err != "" {
		return
	}
	func() {
		defer func() {
			if e := recover(); e != nil {
				res.err = "panic-r:" + classifyErr(e)
			}
		}()
		rd, err := otelstef.NewSpansReader(bytes.NewBuffer(buf.Bytes()))
		if err != nil {
			res.err = "r:" + classifyErr(err)
			return
		}
		for {
			if err := rd.Read(pkg.ReadOptions{}); err != nil {
				if !errors.Is(err, io.EOF) {
					res.err = "r:" + classifyErr(err)
				}
				return
			}
			res.recs = append(res.recs, ReadSpanRecord(&rd.Record))
		}
	}()
	return
}

// spanFields renders a record plus the two counts the record cannot hold.
func spanFields(r SpanRec, de, dl uint32, sorted bool) [][2]string {
	f := r.Fields(sorted)
	f = append(f, [2]string{"dropped_events_count", hx(uint64(de))}, [2]string{"dropped_links_count", hx(uint64(dl))})
	return f
}

func joinFields(f [][2]string) string {
	var sb strings.Builder
	for i, x := range f {
		if i > 0 {
			sb.WriteString(" ")
		}
		sb.WriteString(x[1])
	}
	return sb.String()
}

func firstDiff(want, got [][2]string) (string, string, string) {
	for i := range want {
		if i >= len(got) {
			return want[i][0], want[i][1], "(missing)"
		}
		if want[i][0] != got[i][0] {
			return want[i][0], want[i][1], got[i][0] + ":" + got[i][1]
		}
		if want[i][1] != got[i][1] {
			return want[i][0], want[i][1], got[i][1]
		}
	}
	if len(got) > len(want) {
		return got[len(want)][0], "(none)", got[len(want)][1]
	}
	return "", "", ""
}

// normField turns event3.name into event.name so that signatures stay short.
func normField(f string) string {
	for _, p := range []string{"event", "link"} {
		if strings.HasPrefix(f, p) && len(f) > len(p) && f[len(p)] >= '0' && f[len(p)] <= '9' {
			i := len(p)
			for i < len(f) && f[i] >= '0' && f[i] <= '9' {
				i++
			}
			return p + f[i:]
		}
	}
	return f
}

func checkTraces(t Traces, sorted bool, r trResult) verdict {
	want := expectAll(t)
	if r.err != "" {
		kind := r.err
		if i := strings.Index(kind, ":"); i >= 0 {
			kind = kind[:i]
		}
		return verdict{false, "error-" + kind, "conversion failed: " + r.err}
	}
	if int(r.written) != len(want) || len(r.recs) != len(want) {
		return verdict{false, "record-count", fmt.Sprintf("records written %d, read %d, spans %d", r.written, len(r.recs), len(want))}
	}
	// ids must be exactly recoverable from what the record holds
	for i, rec := range r.recs {
		if _, ok := idFromText(rec.TraceID, 16); !ok {
			return verdict{false, "trace_id", fmt.Sprintf("record %d: trace id %q is not recoverable", i, rec.TraceID)}
		}
		if _, ok := idFromText(rec.SpanID, 8); !ok {
			return verdict{false, "span_id", fmt.Sprintf("record %d: span id %q is not recoverable", i, rec.SpanID)}
		}
	}
	if !sorted {
		for i := range want {
			wf := spanFields(want[i].rec, want[i].droppedEvents, want[i].droppedLinks, false)
			gf := spanFields(r.recs[i], 0, 0, false)
			if f, a, b := firstDiff(wf, gf); f != "" {
				return verdict{false, normField(f), fmt.Sprintf("record %d of %d: %s differs: span=%s record=%s", i, len(want), f, clip(a, 160), clip(b, 160))}
			}
		}
		return verdict{ok: true}
	}
	// sorted mode: same multiset (attribute order is not significant)
	wl := make([]string, len(want))
	gl := make([]string, len(want))
	for i := range want {
		wl[i] = joinFields(spanFields(want[i].rec, want[i].droppedEvents, want[i].droppedLinks, true))
		gl[i] = joinFields(spanFields(r.recs[i], 0, 0, true))
	}
	cnt := map[string]int{}
	for _, l := range gl {
		cnt[l]++
	}
	missing := -1
	for i, l := range wl {
		if cnt[l] > 0 {
			cnt[l]--
		} else if missing < 0 {
			missing = i
		}
	}
	if missing < 0 {
		return verdict{ok: true}
	}
	// closest unmatched record
	var extra []int
	cnt2 := map[string]int{}
	for _, l := range wl {
		cnt2[l]++
	}
	for i, l := range gl {
		if cnt2[l] > 0 {
			cnt2[l]--
		} else {
			extra = append(extra, i)
		}
	}
	wf := spanFields(want[missing].rec, want[missing].droppedEvents, want[missing].droppedLinks, true)
	best, bestN := -1, -1
	for _, i := range extra {
		gf := spanFields(r.recs[i], 0, 0, true)
		n := 0
		for j := range wf {
			if j < len(gf) && gf[j] == wf[j] {
				n++
			}
		}
		if n > bestN {
			best, bestN = i, n
		}
	}
	if best < 0 {
		return verdict{false, "multiset", "multisets differ"}
	}
	f, a, b := firstDiff(wf, spanFields(r.recs[best], 0, 0, true))
	return verdict{false, normField(f), fmt.Sprintf("span %d has no matching record; closest record %d: %s differs: span=%s record=%s", missing, best, f, clip(a, 160), clip(b, 160))}
}

var tmodes = []struct {
	name   string
	sorted bool
}{{"u", false}, {"s", true}}

func evalTraces(t Traces, opts pkg.WriterOptions) [2]verdict {
	var vs [2]verdict
	for i, m := range tmodes {
		vs[i] = checkTraces(t, m.sorted, convertTraces(t, m.sorted, opts))
	}
	return vs
}

func renderSpanRecs(recs []SpanRec) string {
	parts := make([]string, len(recs))
	for i, r := range recs {
		parts[i] = r.Render(false)
	}
	return strings.Join(parts, " ; ")
}

var _ = sort.Strings

// evalTracesReuse: `prev` through a converter into one stream, then `t` through the SAME converter into
// a second stream with a writer of its own; the second stream must carry exactly `t`.
func evalTracesReuse(prev, t Traces, opts pkg.WriterOptions) [2]verdict {
	var vs [2]verdict
	for i, m := range tmodes {
		vs[i] = checkTraces(t, m.sorted, convertTracesSeqW([]Traces{prev}, t, m.sorted, opts, true))
	}
	return vs
}

// evalTracesSeq: `prev` then `t` through one converter and one writer, both modes.
func evalTracesSeq(prev, t Traces, opts pkg.WriterOptions) [2]verdict {
	all := Traces{RSs: append(append([]RS(nil), prev.RSs...), t.RSs...)}
	var vs [2]verdict
	for i, m := range tmodes {
		vs[i] = checkTraces(all, m.sorted, convertTracesSeq([]Traces{prev}, t, m.sorted, opts))
	}
	return vs
}
