package main

// C07, the tie to lean/Stef/ReaderIO.lean (driver token `rio`): every source a stream is read through
// is wrapped in a recorder that logs the Read calls the REAL reader makes on it: (len(p), n, err).
// The model gets the stream and, per call, the behaviour the source showed (how many bytes it handed
// out, whether an error came with them) and has to predict the same sequence of requests len(p) -
// which ties bufio.Reader (fill, the large-read bypass, the stored error), io.ReadFull,
// binary.ReadUvarint, limitedReader / FrameDecoder and the reader's control flow call for call - and
// the same outcome (constructor result, number of records, class of the final error).

import (
	"bytes"
	"encoding/binary"
	"errors"
	"fmt"
	"io"
	"reflect"
	"strconv"
	"strings"
	"testing/iotest"

	"github.com/splunk/stef/go/pkg"

	"verif/harness/internal/rng"
)

type recCall struct {
	lenp, n int
	err     error
}

type recSrc struct {
	src   io.Reader
	calls []recCall
}

func (r *recSrc) Read(p []byte) (int, error) {
	n, err := r.src.Read(p)
	r.calls = append(r.calls, recCall{len(p), n, err})
	return n, err
}

var errSrcFail = errors.New("verif: the source failed")

// zeroReader hands out 1..max bytes per call and now and then returns 0, nil (at most maxRun times
// in a row: the io.Reader contract discourages it, bufio tolerates 99 in a row); the end of the data
// is reported with the last bytes (eager) or by the next call.
type zeroReader struct {
	b      []byte
	r      *rng.R
	max    int
	maxRun int
	eager  bool
	run    int
}

func (z *zeroReader) Read(p []byte) (int, error) {
	if z.run < z.maxRun && z.r.Chance(1, 3) {
		z.run++
		return 0, nil
	}
	z.run = 0
	if len(z.b) == 0 {
		return 0, io.EOF
	}
	n := 1 + z.r.Intn(z.max)
	if n > len(p) {
		n = len(p)
	}
	n = copy(p[:n], z.b)
	z.b = z.b[n:]
	if len(z.b) == 0 && z.eager {
		return n, io.EOF
	}
	return n, nil
}

// failReader ends with an error that is not io.EOF (a connection that breaks), with the last
// bytes (eager) or on the next call; the error is sticky.
type failReader struct {
	b     []byte
	max   int
	eager bool
}

func (f *failReader) Read(p []byte) (int, error) {
	if len(f.b) == 0 {
		return 0, errSrcFail
	}
	n := len(p)
	if f.max > 0 && n > f.max {
		n = f.max
	}
	n = copy(p[:n], f.b)
	f.b = f.b[n:]
	if len(f.b) == 0 && f.eager {
		return n, errSrcFail
	}
	return n, nil
}

// stallReader hands out max bytes per call; the call number `at` and the following ones return
// 0, nil, `stall` times in a row.
type stallReader struct {
	b     []byte
	max   int
	at    int
	stall int
	call  int
}

func (s *stallReader) Read(p []byte) (int, error) {
	s.call++
	if s.call > s.at && s.stall > 0 {
		s.stall--
		return 0, nil
	}
	if len(s.b) == 0 {
		return 0, io.EOF
	}
	n := len(p)
	if n > s.max {
		n = s.max
	}
	n = copy(p[:n], s.b)
	s.b = s.b[n:]
	return n, nil
}

func errClassIO(err error) string {
	switch {
	case err == nil:
		return "nil"
	case errors.Is(err, errSrcFail):
		return "src-fail"
	case errors.Is(err, io.ErrNoProgress):
		return "no-progress"
	case errors.Is(err, pkg.EndOfFrame):
		return "frame-end" // frame.go's EndOfFrame, not readopts.go's ErrEndOfFrame
	}
	return errClass(err)
}

// readerInternals reads, by reflection, the shape of the reader's column tree (ReadBufs.Columns,
// built by the generated decoder's Init) and the size of the bufio.Reader the generated reader
// wraps its source in. Both are parameters of the model.
func readerInternals(root *rootSpec, stream []byte) (shape string, bufSize int, ok bool) {
	defer func() {
		if recover() != nil {
			ok = false
		}
	}()
	rd, err := root.newReader(bytes.NewReader(stream))
	if err != nil {
		return "", 0, false
	}
	v := reflect.ValueOf(rd).Field(0).Elem() // the generated *Reader behind the wrapper
	base := v.FieldByName("base")
	var sb strings.Builder
	var walk func(c reflect.Value)
	walk = func(c reflect.Value) {
		sb.WriteByte('(')
		subs := c.FieldByName("subColumns")
		for i := 0; i < subs.Len(); i++ {
			walk(subs.Index(i).Elem())
		}
		sb.WriteByte(')')
	}
	walk(base.FieldByName("ReadBufs").FieldByName("Columns"))
	bufSize = base.FieldByName("Source").Elem().FieldByName("buf").Len()
	return sb.String(), bufSize, true
}

// schedOf turns the call log into the model's behaviour schedule and request list.
func schedOf(calls []recCall) (sched string, reqs []int, fail bool) {
	var sb strings.Builder
	prev, count := "", 0
	flush := func() {
		if count == 0 {
			return
		}
		if sb.Len() > 0 {
			sb.WriteByte(',')
		}
		sb.WriteString(prev)
		if count > 1 {
			sb.WriteByte('*')
			sb.WriteString(strconv.Itoa(count))
		}
	}
	for _, c := range calls {
		reqs = append(reqs, c.lenp)
		var tok string
		switch {
		case c.n == 0 && c.err == nil:
			tok = "0"
		case c.n == 0:
			tok = "1" // any positive size: the model reports the terminal error when the data is used up
		case c.err != nil:
			tok = strconv.Itoa(c.n) + "!"
		default:
			tok = strconv.Itoa(c.n)
		}
		if c.err != nil && c.err != io.EOF {
			fail = true
		}
		if tok == prev {
			count++
			continue
		}
		flush()
		prev, count = tok, 1
	}
	flush()
	if sb.Len() == 0 {
		return "-", reqs, fail
	}
	return sb.String(), reqs, fail
}

func fnvInts(l []int) uint64 {
	h := uint64(14695981039346656037)
	for _, v := range l {
		h = (h ^ uint64(v)) * 1099511628211
	}
	return h
}

func rleHead(l []int, maxRuns int) string {
	var parts []string
	for i := 0; i < len(l); {
		j := i
		for j < len(l) && l[j] == l[i] {
			j++
		}
		parts = append(parts, fmt.Sprintf("%dx%d", l[i], j-i))
		if len(parts) >= maxRuns {
			break
		}
		i = j
	}
	return strings.Join(parts, ",")
}

// rioTie holds what is constant for one stream.
type rioTie struct {
	on       bool
	shape    string
	bufSize  int
	maxReads int
	sent     bool
	stream   []byte
}

var rioBigStreams = 0

// newRioTie decides whether the runs over this stream are replayed on the model: uncompressed
// streams only (zstd is not modelled), every small stream, a few of the large ones.
func newRioTie(root *rootSpec, stream []byte, whole []byte, zstd bool, maxReads int) *rioTie {
	t := &rioTie{stream: stream, maxReads: maxReads}
	if zstd {
		stats["rio-skipped-zstd"]++
		return t
	}
	if len(stream) > 16<<10 {
		limit := 2
		if thorough {
			limit = 8
		}
		if rioBigStreams >= limit {
			stats["rio-skipped-large"]++
			return t
		}
		rioBigStreams++
		stats["rio-large-streams"]++
	}
	shape, size, ok := readerInternals(root, whole)
	if !ok {
		stats["rio-skipped-no-internals"]++
		return t
	}
	t.on, t.shape, t.bufSize = true, shape, size
	return t
}

// emit writes the op line for one recorded run and the outcome the real reader gave.
func (t *rioTie) emit(variant string, rec *recSrc, ro readOutcome) {
	if !t.on {
		return
	}
	if !t.sent {
		t.sent = true
		emit("rio data "+hxOrDash(t.stream), fmt.Sprintf("ok %d", len(t.stream)))
		stats["rio-streams"]++
		stats["rio-stream-bytes"] += len(t.stream)
	}
	sched, reqs, fail := schedOf(rec.calls)
	f := 0
	if fail {
		f = 1
	}
	res := "panic"
	if ro.pan == "" {
		open := "ok"
		if ro.ctorErr {
			open = errClassIO(ro.err)
		}
		res = fmt.Sprintf("calls=%d reqs=%016x head=%s open=%s recs=%d err=%s", len(reqs), fnvInts(reqs), rleHead(reqs, 6), open, len(ro.dumps), errClassIO(ro.err))
	}
	emit(fmt.Sprintf("rio run %d %s %d %d %s", t.bufSize, t.shape, f, t.maxReads, sched), res)
	stats["rio-runs"]++
	stats["rio-run-"+variant]++
	stats["rio-calls"] += len(reqs)
	for _, c := range rec.calls {
		switch {
		case c.n > 0 && c.err != nil:
			stats["rio-calls-data+err"]++
		case c.n == 0 && c.err == nil:
			stats["rio-calls-zero-nil"]++
		}
		if c.lenp > t.bufSize { // a request larger than the buffer can only be the large-read bypass
			stats["rio-calls-bypass"]++
		}
	}
}

func hxOrDash(b []byte) string {
	if len(b) == 0 {
		return "-"
	}
	return hx(b)
}

// checkFailing: sources that end with an error other than io.EOF, delivered with the last bytes
// or after them: every record must still come out, then that error, whichever way it was delivered.
func checkFailing(name string, root *rootSpec, opts string, stream []byte, truths []string, tie *rioTie) {
	maxReads := len(truths) + 2
	for _, v := range []struct {
		name string
		src  io.Reader
	}{
		{"fail-lazy", &failReader{b: stream}},
		{"fail-eager", &failReader{b: stream, eager: true}},
		{"fail-eager-5000", &failReader{b: stream, max: 5000, eager: true}},
	} {
		rec := &recSrc{src: v.src}
		ro := readAll(root, rec, maxReads)
		tie.emit(v.name, rec, ro)
		got := summarize(ro)
		stats["variant-"+v.name]++
		if got.pan == "" && got.n == len(truths) && got.sig == fnv(truths...) && errClassIO(ro.err) == "src-fail" && !got.ctor {
			stats["variant-same-"+v.name]++
			continue
		}
		sigCount["failing-source"]++
		if sigCount["failing-source"] > maxReportsPerSig {
			propFail("C07 failing-source case=%s variant=%s (details suppressed)", name, v.name)
			continue
		}
		propFail("C07 failing-source case=%s root=%s opts=%s variant=%s: the source delivers the whole stream and then fails: want %d records then the source's error; got %d records then %s (constructor failed: %v, panic: %q)",
			name, root.name, opts, v.name, len(truths), got.n, errClassIO(ro.err), got.ctor, got.pan)
	}
}

// checkStall: a source that returns 0, nil 99 times in a row (still tolerated by bufio) must give
// the whole-buffer outcome; with 100 in a row bufio reports io.ErrNoProgress when the stall meets a
// fill - outside the contract, no property, but the model has to predict what the real code does.
func checkStall(r *rng.R, name string, root *rootSpec, opts string, stream []byte, truths []string, tie *rioTie) {
	maxReads := len(truths) + 2
	for _, stall := range []int{99, 100} {
		vname := fmt.Sprintf("stall%d", stall)
		rec := &recSrc{src: &stallReader{b: stream, max: 1 + r.Intn(40), at: r.Intn(12), stall: stall}}
		ro := readAll(root, rec, maxReads)
		tie.emit(vname, rec, ro)
		got := summarize(ro)
		stats["variant-"+vname]++
		if stall >= 100 {
			stats["stall100-"+errClassIO(ro.err)]++
			continue
		}
		if got.pan == "" && got.n == len(truths) && got.sig == fnv(truths...) && got.class == "eof" {
			stats["variant-same-"+vname]++
			continue
		}
		propFail("C07 stalling-source case=%s root=%s opts=%s variant=%s: want %d records then eof; got %d records then %s (constructor failed: %v, panic: %q)",
			name, root.name, opts, vname, len(truths), got.n, errClassIO(ro.err), got.ctor, got.pan)
	}
}

// checkCutSplits: a stream that ENDS EARLY (cut at a random offset) read through splitting sources:
// same records and same class of final error as the cut bytes read from one buffer. This is where
// io.ReadFull turns a short count into io.ErrUnexpectedEOF, with the error attached to data or not.
func checkCutSplits(r *rng.R, name string, root *rootSpec, opts string, stream []byte, zstd bool, maxReads int) {
	if len(stream) > 20000 || len(stream) < 8 {
		return
	}
	for k := 0; k < 3; k++ {
		cut := stream[:r.Intn(len(stream))]
		if k == 2 {
			// inside the last 40 bytes: the cut usually falls into the last frame's column data
			cut = stream[:len(stream)-1-r.Intn(min(40, len(stream)-1))]
		}
		cname := fmt.Sprintf("%s-cut%d", name, len(cut))
		base := readAll(root, bytes.NewReader(cut), maxReads)
		whole := summarize(base)
		tie := newRioTie(root, cut, stream, zstd, maxReads)
		stats["cut-streams"]++
		vs := []struct {
			name string
			src  io.Reader
		}{
			{"cut-whole", bytes.NewReader(cut)},
			{"cut-onebyte", iotest.OneByteReader(bytes.NewReader(cut))},
			{"cut-dataerr", iotest.DataErrReader(bytes.NewReader(cut))},
			{"cut-full+eof", &eagerEOFReader{b: cut}},
			{"cut-short7", &shortReader{b: cut, r: rng.New(r.U64()), max: 7}},
			{"cut-zero", &zeroReader{b: cut, r: rng.New(r.U64()), max: 9, maxRun: 3, eager: r.Bool()}},
		}
		for _, v := range vs {
			rec := &recSrc{src: v.src}
			ro := readAll(root, rec, maxReads)
			tie.emit(v.name, rec, ro)
			got := summarize(ro)
			stats["variant-"+v.name]++
			if got.pan == whole.pan && got.n == whole.n && got.sig == whole.sig && got.class == whole.class && got.ctor == whole.ctor {
				stats["variant-same-"+v.name]++
				continue
			}
			sigCount["cut-read-differs"]++
			if sigCount["cut-read-differs"] > maxReportsPerSig {
				propFail("C07 cut-read-differs case=%s variant=%s (details suppressed)", cname, v.name)
				continue
			}
			propFail("C07 cut-read-differs case=%s root=%s opts=%s variant=%s: the first %d of %d bytes read from one buffer: %d records then %s (constructor failed: %v); this source: %d records then %s (constructor failed: %v, panic: %q); stream=%s",
				cname, root.name, opts, v.name, len(cut), len(stream), whole.n, whole.class, whole.ctor, got.n, got.class, got.ctor, got.pan, hx(trunc(cut, 400)))
		}
	}
}

// overrunCases: a MALFORMED last frame (outside C07's quantifier, which ranges over valid streams;
// no PROP-FAIL is raised here): BaseReader.NextFrame hands ReadBufs.ReadFrom the frame's remaining
// size as the limit BEFORE ReadFrom reads the size of the size table, so a table size that exceeds
// what the frame holds by 1..3 bytes passes the limit check and io.ReadFull(&frameDecoder, ..) asks
// for more than the frame has left. When the frame's bytes are also the last bytes of the source,
// the class of the final error depends on the source: a lazy source lets the frame decoder run
// into its end ("end of frame"); a source that attaches io.EOF to the last bytes (delivered
// through bufio's large-read bypass) makes io.ReadFull report io.ErrUnexpectedEOF. The Lean model
// (Props/C07IO: overrun_witness, unconditional_statement_false) predicts exactly this; the runs are
// replayed on it like every other run.
func overrunCases(r *rng.R) {
	for _, root := range roots {
		name := "ch-overrun-" + root.name
		note("case %s", name)
		cl := &chunkLog{}
		w, err, pan := newWriterDet(root, cl, wopts{}, nil)
		if err != nil || pan != "" {
			propFail("C07 writer-error case=%s %v %s", name, err, pan)
			continue
		}
		if err, pan := safe(w.Flush); err != nil || pan != "" {
			propFail("C07 writer-error case=%s %v %s", name, err, pan)
			continue
		}
		ps := parseStream(cl.buf.Bytes())
		if ps.err != nil || len(ps.frames) == 0 {
			propFail("C07 framing-parse case=%s err=%v", name, ps.err)
			continue
		}
		hdr := append([]byte(nil), cl.buf.Bytes()[:ps.frames[0].end]...)
		junk := 140000 + r.Intn(5000)
		var content []byte
		content = binary.AppendUvarint(content, 1)              // record count
		content = binary.AppendUvarint(content, uint64(junk+1)) // size table "size": one more than the frame holds
		content = append(content, bytes.Repeat([]byte{0x62}, junk)...)
		stream := append([]byte(nil), hdr...)
		stream = append(stream, 0)
		stream = binary.AppendUvarint(stream, uint64(len(content)))
		stream = append(stream, content...)
		whole := append([]byte(nil), hdr...) // a valid stream of the same root, to read the reader's internals from
		shape, size, ok := readerInternals(root, whole)
		if !ok {
			stats["rio-skipped-no-internals"]++
			continue
		}
		tie := &rioTie{on: true, shape: shape, bufSize: size, maxReads: 3, stream: stream}
		stats["overrun-streams"]++
		for _, v := range []struct {
			name string
			src  io.Reader
		}{
			{"overrun-whole", bytes.NewReader(stream)},
			{"overrun-full+eof", &eagerEOFReader{b: stream}},
			{"overrun-64k+eof", &eagerEOFReader{b: stream, max: 64 << 10}},
			{"overrun-5000+eof", &eagerEOFReader{b: stream, max: 5000}},
			{"overrun-dataerr", iotest.DataErrReader(bytes.NewReader(stream))},
			{"overrun-fail-eager", &failReader{b: stream, eager: true}},
		} {
			rec := &recSrc{src: v.src}
			ro := readAll(root, rec, 3)
			tie.emit(v.name, rec, ro)
			stats[fmt.Sprintf("overrun-class-%s-%s", v.name, errClassIO(ro.err))]++
			if ro.pan != "" || len(ro.dumps) != 0 || ro.err == nil {
				propFail("C07 overrun-frame case=%s variant=%s: a frame whose size table is announced larger than the frame must end in an error without a record; got %d records, err=%v, panic=%q",
					name, v.name, len(ro.dumps), ro.err, ro.pan)
			}
		}
		note("nontrivial %x", fnv(name))
	}
}
