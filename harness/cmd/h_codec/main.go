// h_codec is the central correspondence harness for the generated STEF record codecs
// (go/otel/otelstef) and the framing layer (go/pkg). Modes (argv[1]):
//
//	roundtrip  C01 C02 C10 (C16 lockstep count): random histories -> "sd decode" op lines + properties
//	cuts       C05: every prefix of small streams must yield exactly the records of complete frames
//	flush      C06: Write/Flush/Read/TillEndOfFrame interleavings over a growing source
//	chunking   C07: short reads / one-byte reads / data+EOF readers vs whole-buffer reads
//	limits     C08: small frame / dictionary limits
//	hostile    C03: corrupted and arbitrary inputs: never panic / hang / over-allocate
//
// Records are mutated and dumped by the schema-directed package internal/recgen, which only
// uses the public API of the generated package.
package main

import (
	"fmt"
	"os"
)

func main() {
	mode := ""
	if len(os.Args) > 1 {
		mode = os.Args[1]
	}
	loadSchema()
	switch mode {
	case "roundtrip":
		runRoundtripMode()
	case "cuts":
		runCutsMode()
	case "flush":
		runFlushMode()
	case "chunking":
		runChunkingMode()
	case "limits":
		runLimitsMode()
	case "hostile":
		runHostileMode()
	case "golden":
		runGoldenMode()
	default:
		fmt.Fprintln(os.Stderr, "usage: h_codec roundtrip|cuts|flush|chunking|limits|hostile")
		os.Exit(2)
	}
	printStats()
	out.Flush()
}
