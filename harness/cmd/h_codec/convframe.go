package main

// C06 at the converter (go/pdata/metrics/stef2otlp_unsorted.go, the call the receiver loops on):
// StefToOtlpUnsorted.Convert(reader, untilEOF=false) returns the records of ONE frame - the frame of
// the first record it reads - and then stops at the end-of-frame indication without reading from
// the underlying source. Frames of 1, 1, 3, 2, 1 ... records are flushed one by one into a growing
// source; after each Flush one Convert call must return exactly that frame's data points, and while
// it runs the source must never be read while it is empty (on a live stream that read would block
// with a decoded record in hand). Then several frames are appended at once and converted one call
// at a time; at the end the converter must report io.EOF.

import (
	"errors"
	"fmt"
	"io"

	"github.com/splunk/stef/go/otel/otelstef"
	stefmetrics "github.com/splunk/stef/go/pdata/metrics"
	"github.com/splunk/stef/go/pkg"

	"verif/harness/internal/rng"
)

type growChunks struct{ src *growSrc }

func (g *growChunks) WriteChunk(h, c []byte) error {
	g.src.buf = append(g.src.buf, h...)
	g.src.buf = append(g.src.buf, c...)
	return nil
}

func convertFrameCases(r *rng.R) {
	n := 6
	if thorough {
		n = 60
	}
	for c := 0; c < n; c++ {
		comp := []pkg.Compression{pkg.CompressionNone, pkg.CompressionZstd}[c%2]
		name := fmt.Sprintf("convframe-%d", c)
		note("case %s", name)
		src := &growSrc{}
		w, err := otelstef.NewMetricsWriter(&growChunks{src}, pkg.WriterOptions{Compression: comp})
		if err != nil {
			propFail("C06 convframe-writer case=%s %v", name, err)
			continue
		}
		id := 0
		writeFrame := func(k int) {
			for i := 0; i < k; i++ {
				w.Record.Metric().SetName(fmt.Sprintf("m%d", id%3))
				w.Record.Metric().SetType(otelstef.MetricTypeGauge)
				w.Record.Point().SetTimestamp(uint64(1000 + id))
				w.Record.Point().Value().SetInt64(int64(id))
				id++
				w.Write()
			}
			w.Flush()
		}
		sizes := []int{1, 1, 1 + r.Intn(4), 1, 2 + r.Intn(3), 1, 1}
		writeFrame(sizes[0])
		rd, err := otelstef.NewMetricsReader(src)
		if err != nil {
			propFail("C06 convframe-reader case=%s %v", name, err)
			continue
		}
		conv := &stefmetrics.StefToOtlpUnsorted{}
		next := 0 // id of the next data point expected
		convertOne := func(want int, phase string) bool {
			eofs := src.eofs
			md, err := conv.Convert(rd, false)
			got := md.DataPointCount()
			if err != nil {
				propFail("C06 convert-frame-error case=%s %s: Convert(reader, untilEOF=false) returned %v after %d data points, the frame holds %d", name, phase, err, got, want)
				return false
			}
			if got != want {
				propFail("C06 convert-not-frame-bounded case=%s compression=%d %s: frames of %v records were flushed one by one; Convert(reader, untilEOF=false) returned %d data points where the current frame holds %d (records %d..%d)", name, comp, phase, sizes, got, want, next, next+want-1)
				return false
			}
			if src.eofs != eofs {
				propFail("C06 convert-reads-empty-source case=%s compression=%d %s: while converting a frame of %d records that was completely available, the source was read %d time(s) when it had nothing more (a live stream would block there)", name, comp, phase, want, src.eofs-eofs)
				return false
			}
			next += want
			return true
		}
		ok := convertOne(sizes[0], "first frame")
		// frame by frame
		for i := 1; ok && i < 4; i++ {
			writeFrame(sizes[i])
			ok = convertOne(sizes[i], fmt.Sprintf("frame %d, flushed alone", i))
		}
		// several frames at once
		if ok {
			for i := 4; i < len(sizes); i++ {
				writeFrame(sizes[i])
			}
			for i := 4; ok && i < len(sizes); i++ {
				if i+1 < len(sizes) {
					// later frames are present: only the frame boundary stops the call
					eofs := src.eofs
					md, err := conv.Convert(rd, false)
					if err != nil || md.DataPointCount() != sizes[i] {
						propFail("C06 convert-not-frame-bounded case=%s compression=%d frame %d of %v with later frames already in the source: Convert(reader, untilEOF=false) returned %d data points (err %v), the frame holds %d", name, comp, i, sizes, md.DataPointCount(), err, sizes[i])
						ok = false
					}
					_ = eofs
					next += sizes[i]
				} else {
					ok = convertOne(sizes[i], "last frame")
				}
			}
		}
		if ok {
			if _, err := conv.Convert(rd, false); !errors.Is(err, io.EOF) {
				propFail("C06 convert-frame-error case=%s at the end of the stream Convert returned %v, want io.EOF", name, err)
			}
		}
		stats["convert-frame-cases"]++
		note("nontrivial %x", uint64(c)<<8|uint64(len(sizes)))
	}
}
