package main

import (
	"bytes"
	"fmt"
	"io"
	"reflect"
	"strconv"
	"strings"

	"github.com/splunk/stef/go/pkg"

	"verif/harness/internal/recgen"
	"verif/harness/internal/rng"
)

type failure struct {
	prop, sig, desc string
}

type rtOutcome struct {
	fails []failure
	masks []uint64 // reader's modified mask after each record
	full  bool     // reader delivered all records with equal dumps
}

const maxClones = 48

// checkRoundtrip evaluates C01 (i)-(iii) and the C16 lockstep count on the implementation:
// the Go reader over the ORIGINAL bytes must return exactly the truth dumps, then io.EOF.
func checkRoundtrip(root *rootSpec, res *runResult) (o rtOutcome) {
	fail := func(prop, sig, f string, a ...any) {
		o.fails = append(o.fails, failure{prop, sig, fmt.Sprintf(f, a...)})
	}
	if res.werr != "" {
		sig := "writer-error"
		if i := strings.Index(res.werr, " @ "); i >= 0 {
			sig = "writer-panic-" + res.werr[i+3:]
		}
		fail("C01", sig, "writer failed: %s", res.werr)
		return
	}
	for _, p := range res.callPanics {
		fail("C01", "api-panic", "public record API panicked: %s", p)
		return
	}
	defer func() {
		if e := recover(); e != nil {
			fail("C01", "reader-panic", "reader panicked: %v", e)
			o.full = false
		}
	}()
	rd, err := root.newReader(bytes.NewReader(res.stream))
	if err != nil {
		fail("C01", "roundtrip-mismatch", "reader constructor failed: %v", err)
		return
	}
	type held struct {
		strs []string
		sig  uint64
	}
	var helds []held
	var clones []reflect.Value
	prevFields := recgen.SplitFields(root.initDump, root.ty)
	n := len(res.truths)
	for i := 0; i < n; i++ {
		if err := rd.Read(pkg.ReadOptions{}); err != nil {
			fail("C01", "roundtrip-mismatch", "record %d of %d: reader returned error %q (class %s)", i, n, err.Error(), errClass(err))
			return
		}
		got := recgen.Dump(rd.Rec(), root.ty)
		mask := recgen.ModifiedMask(rd.Rec(), root.ty)
		o.masks = append(o.masks, mask)
		if got != res.truths[i] {
			diff := recgen.DiffDumps(res.truths[i], got, root.ty)
			sig := "roundtrip-mismatch"
			if strings.Contains(diff, "f8000000000000000 vs f0") {
				// -0 written, +0 read: the decoder clones dict-struct values with Clone()
				sig = "negzero-clone"
			}
			fail("C01", sig, "record %d of %d differs at %s (written vs read)", i, n, diff)
			return
		}
		// (ii) every changed top-level field has its modified bit set
		fields := recgen.SplitFields(res.truths[i], root.ty)
		for j := range fields {
			if j < len(prevFields) && fields[j] != prevFields[j] && mask&(1<<uint(j)) == 0 {
				fail("C01", "modified-flag-missing", "record %d: field %s changed but Is%sModified()==false (mask %x)", i, root.ty.Def.Fields[j].Name, root.ty.Def.Fields[j].Name, mask)
			}
		}
		prevFields = fields
		// (iii) keep what was handed out: strings (not copied) and clones
		if i < maxClones {
			var hs []string
			recgen.CollectStrings(rd.Rec(), root.ty, &hs)
			helds = append(helds, held{hs, fnv(hs...)})
			c := rd.CloneRec()
			if d := recgen.Dump(c, root.ty); d != got {
				// the clone is wrong from the start: Clone/copyToNew compare floats with !=
				// against the zero value of the new object and drop -0 (negzero family)
				sig := "clone-differs"
				diff := recgen.DiffDumps(got, d, root.ty)
				if strings.Contains(diff, "f8000000000000000 vs f0") {
					sig = "negzero-clone"
				}
				fail("C01", sig, "record %d: reader.Record.Clone() differs from the record at %s (record vs clone)", i, diff)
				c = reflect.Value{}
			}
			clones = append(clones, c)
		}
	}
	o.full = true
	err = rd.Read(pkg.ReadOptions{})
	if err != io.EOF {
		fail("C01", "roundtrip-mismatch", "after the last record (%d) reader returned %v instead of io.EOF", n, err)
	}
	for i, hdl := range helds {
		if fnv(hdl.strs...) != hdl.sig {
			fail("C01", "earlier-value-changed", "strings handed out with record %d changed after later reads", i)
			break
		}
	}
	for i, c := range clones {
		if !c.IsValid() {
			continue
		}
		if d := recgen.Dump(c, root.ty); d != res.truths[i] {
			fail("C01", "earlier-value-changed", "clone of record %d changed after later reads at %s", i, recgen.DiffDumps(res.truths[i], d, root.ty))
			break
		}
	}
	if res.wcount != uint64(n) || rd.RecordCount() != uint64(n) {
		fail("C16", "lockstep", "writer.RecordCount()=%d reader.RecordCount()=%d records=%d", res.wcount, rd.RecordCount(), n)
	}
	return
}

// dictRefs counts (approximately, from the truth) dictionary references: a dict-encoded leaf
// whose value changed with respect to the previous record (so it was certainly encoded) and
// whose new value (len>=2) was seen earlier in the same dictionary.
func dictRefs(root *rootSpec, truths []string) int {
	seen := map[string]bool{}
	prev := map[string]string{}
	refs := 0
	for _, t := range truths {
		node, err := recgen.ParseDump(t, root.ty)
		if err != nil {
			return refs
		}
		var leaves []recgen.DictLeaf
		recgen.DictLeaves(node, "", &leaves)
		cur := map[string]string{}
		for _, l := range leaves {
			cur[l.Path] = l.Val
			if p, ok := prev[l.Path]; ok && p == l.Val {
				continue
			}
			if len(l.Val) < 1+4 { // "s"+hex of >=2 bytes
				continue
			}
			k := l.Dict + "\x00" + l.Val
			if seen[k] {
				refs++
			}
			seen[k] = true
		}
		prev = cur
	}
	return refs
}

func unmodifiedSomewhere(root *rootSpec, masks []uint64) bool {
	all := uint64(1)<<uint(len(root.ty.Def.Fields)) - 1
	for _, m := range masks {
		if m&all != all {
			return true
		}
	}
	return false
}

// reportFailure shrinks the failing history and prints the PROP-FAIL line.
func reportFailure(name string, h *history, f failure, sigOverride string) {
	sig := f.sig
	if sigOverride != "" {
		sig = sigOverride
	}
	sigCount[sig]++
	stats["propfail-"+sig]++
	if sigCount[sig] > maxReportsPerSig {
		propFail("%s %s case=%s %s (details and shrinking suppressed after %d reports)", f.prop, sig, name, f.desc, maxReportsPerSig)
		return
	}
	pred := func(c *history) bool {
		r := replay(c)
		o := checkRoundtrip(c.root, r)
		for _, g := range o.fails {
			if g.sig == f.sig && g.prop == f.prop {
				return true
			}
		}
		return false
	}
	min := h
	desc := f.desc
	if pred(h) {
		min = shrink(h, pred, 400)
		r := replay(min)
		for _, g := range checkRoundtrip(min.root, r).fails {
			if g.sig == f.sig {
				desc = g.desc
				break
			}
		}
		stats["shrunk-histories"]++
	} else {
		desc += " (NOT reproducible by replay; history unshrunk)"
		stats["shrink-replay-not-reproducible"]++
	}
	propFail("%s %s case=%s %s; minimal history (%d of %d steps): %s", f.prop, sig, name, desc, len(min.steps), len(h.steps), min.describe(60))
}

func runRoundtripMode() {
	r := rng.FromEnv(101)
	n := scale(260)
	outBytes := 0
	for i := 0; i < n; i++ {
		root := roots[i%2]
		o := genOpts(r)
		cfg := &recgen.Cfg{DictResets: o.dictSize != 0 || o.flags&pkg.RestartDictionaries != 0, NoFrozen: r.Chance(1, 3)}
		p := genParams{writes: 2 + r.Intn(10), maxMut: 3, flushProb: r.Intn(6)}
		switch r.Intn(10) {
		case 0:
			p.writes = 1
		case 1:
			p.writes = 30 + r.Intn(40)
			cfg.NoBigLens = true
		case 2:
			cfg.DictHeavy = true
		case 3:
			cfg.NoBigLens = true
			cfg.MaxCalls = 6
		}
		if (outBytes > 24<<20 && !thorough) || outBytes > 80<<20 {
			cfg.NoBigLens = true // keep the op-line volume bounded
		}
		name := fmt.Sprintf("rt-%d", i)
		note("case %s", name)
		o.stat()
		stats["root-"+root.name]++
		h, res := generate(r, root, o, cfg, p)
		stats["records"] += len(res.truths)
		stats["steps"] += len(h.steps)
		if len(h.gen.SetterDrops) > 0 {
			// a float value handed to a setter / CopyFromSlice is not what the getter returns
			// (repaired defects negzero-setter and CopyFromSlice: any occurrence is a regression)
			sigCount["negzero-setter"]++
			stats["propfail-negzero-setter"]++
			if sigCount["negzero-setter"] <= maxReportsPerSig {
				propFail("C01 negzero-setter case=%s %d float values were not stored by the setter (the getter returns other bits than were set), first: %s", name, len(h.gen.SetterDrops), h.gen.SetterDrops[0])
			}
		}
		oc := checkRoundtrip(root, res)
		if len(oc.fails) > 0 {
			stats["failing-cases"]++
			reported := map[string]bool{}
			for _, f := range oc.fails {
				if reported[f.sig] {
					continue
				}
				reported[f.sig] = true
				reportFailure(name, h, f, "")
			}
		}
		if !oc.full {
			// the Go reader did not return every record (reported above for C01). The bytes are
			// still judged on their own: the independent decoder must decode them to the records
			// written (C02 is about the bytes, whatever the Go reader makes of them).
			if ps := parseStream(res.stream); res.werr == "" && ps.err == nil && len(res.truths) > 0 {
				printSchemaLine()
				emit(fmt.Sprintf("sd values %s %s %s", schemaID, root.name, hx(ps.equivalent())), "OK dv=0|"+strings.Join(res.truths, "|")+"|END")
				stats["sd-values-ops"]++
			}
			continue
		}
		ps := parseStream(res.stream)
		if ps.err != nil || ps.totalRecords() != len(res.truths) {
			propFail("C01 framing-parse case=%s independent framing parser: err=%v records=%d want %d", name, ps.err, ps.totalRecords(), len(res.truths))
			continue
		}
		stats["frames"] += len(ps.frames) - 1
		for _, f := range ps.frames[1:] {
			stats[fmt.Sprintf("frame-flags-%03b", f.flags)]++
		}
		eq := ps.equivalent()
		printSchemaLine()
		var sb strings.Builder
		sb.WriteString("OK dv=0")
		for k, t := range res.truths {
			fmt.Fprintf(&sb, "|%x:%s", oc.masks[k], t)
		}
		sb.WriteString("|END")
		emit(fmt.Sprintf("sd decode %s %s %s", schemaID, root.name, hx(eq)), sb.String())
		emitReencode(root.name, hx(eq))
		emitAPI(h, res, ps)
		outBytes += 2*len(eq) + sb.Len() // (the se reencode line repeats the stream; the budget is left as it was so that the generated cases do not shift)
		refs := dictRefs(root, res.truths)
		stats["dict-refs"] += refs
		if len(res.truths) >= 2 && unmodifiedSomewhere(root, oc.masks) && refs > 0 {
			note("nontrivial %x", fnv(res.truths...))
		}
		if i%37 == 0 {
			sample("case=%s root=%s opts=%s records=%d frames=%d streamBytes=%d steps=%d", name, root.name, o, len(res.truths), len(ps.frames)-1, len(res.stream), len(h.steps))
		}
		if len(res.truths) > 0 {
			root.lastStream, root.lastN = res.stream, len(res.truths)
		}
	}
	olderSchemaCases(rng.FromEnv(117))
	runKnownFindings(r)
	longStreamCases("C01", rng.FromEnv(111))
	dictStringLengthCases("C01")
	bigPlainStringCases("C01")
	arrayRegrowFrameCase("C01")
}

// olderSchemaCases: histories written with WriterOptions.Schema = the wire schema of an OLDER
// producer (trailing fields of structs and trailing alternatives of oneofs cut off, descriptor
// included). The application uses its whole record, cut-off fields included; the stream must
// carry exactly what the older schema can hold: the reader (own schema + the descriptor) must
// return, record by record, the kept fields the writer's record held (recgen.KeepFields restricts
// both dumps), then io.EOF. Oracle: the harness's own comparison.
func olderSchemaCases(r *rng.R) {
	n := scale(60)
	for i := 0; i < n; i++ {
		root := roots[i%2]
		o := genOpts(r)
		o.desc = true
		var desc string
		var force map[string]int
		if root.name == "Metrics" && i%4 < 2 {
			// cut inside the optional fields (Sum, Min, Max) of the histogram values
			force = map[string]int{"HistogramValue": 3, "ExpHistogramValue": 3}
		}
		o.schema, desc = olderWireSchemaForce(r, root.name, i%3 == 0, force)
		if o.schema == nil {
			continue
		}
		o.schemaDesc = desc
		keep := map[string]int{}
		for _, c := range strings.Split(desc, ",") {
			k := strings.LastIndex(c, ":")
			v, _ := strconv.Atoi(c[k+1:])
			keep[c[:k]] = v
		}
		name := fmt.Sprintf("rt-older-%d", i)
		note("case %s", name)
		cfg := &recgen.Cfg{DictResets: o.dictSize != 0 || o.flags&pkg.RestartDictionaries != 0, NoFrozen: r.Chance(1, 3), NoBigLens: true}
		if i%4 == 1 {
			cfg.DictHeavy = true
		}
		p := genParams{writes: 2 + r.Intn(12), maxMut: 4, flushProb: r.Intn(6)}
		if force != nil {
			p.writes = 30 + r.Intn(40)
		}
		recgen.KeepFields = keep
		func() {
			defer func() { recgen.KeepFields = nil }()
			h, res := generate(r, root, o, cfg, p)
			stats["older-schema-cases"]++
			stats["older-schema-records"] += len(res.truths)
			if res.werr != "" || len(res.callPanics) > 0 {
				propFail("C01 older-schema-writer-error case=%s writing in an older schema (kept fields %s): %s %v; history: %s", name, desc, res.werr, res.callPanics, h.describe(40))
				return
			}
			fail := func(f string, a ...any) {
				propFail("C02 older-schema-stream-differs case=%s opts=%s: %s; history (%d steps): %s", name, o, fmt.Sprintf(f, a...), len(h.steps), h.describe(40))
			}
			defer func() {
				if e := recover(); e != nil {
					fail("the reader panicked: %v", e)
				}
			}()
			rd, err := root.newReader(bytes.NewReader(res.stream))
			if err != nil {
				fail("the reader refuses the stream: %v", err)
				return
			}
			for k, want := range res.truths {
				if err := rd.Read(pkg.ReadOptions{}); err != nil {
					fail("record %d of %d: the reader returned %v", k, len(res.truths), err)
					return
				}
				if got := recgen.Dump(rd.Rec(), root.ty); got != want {
					fail("record %d of %d read back (kept fields only) as %s, the writer's record held %s", k, len(res.truths), clip(got, 300), clip(want, 300))
					return
				}
			}
			if err := rd.Read(pkg.ReadOptions{}); err != io.EOF {
				fail("after the %d records written the reader returned %v, want io.EOF", len(res.truths), err)
				return
			}
			if len(res.truths) >= 2 {
				note("nontrivial %x", fnv(res.truths...))
			}
		}()
	}
}

func clip(s string, n int) string {
	if len(s) > n {
		return s[:n] + "..."
	}
	return s
}
