package main

import (
	"bufio"
	"bytes"
	"encoding/binary"
	"encoding/hex"
	"errors"
	"fmt"
	"io"
	"os"
	"reflect"
	"runtime/debug"
	"sort"
	"strings"

	"github.com/klauspost/compress/zstd"

	"github.com/splunk/stef/go/otel/otelstef"
	"github.com/splunk/stef/go/pkg"
	"github.com/splunk/stef/go/pkg/schema"

	"verif/harness/internal/recgen"
	"verif/harness/internal/rng"
)

var out = bufio.NewWriterSize(os.Stdout, 1<<20)

func emit(op, res string)         { fmt.Fprintf(out, "%s\t%s\n", op, res) }
func note(f string, a ...any)     { fmt.Fprintf(out, "# "+f+"\n", a...) }
func propFail(f string, a ...any) { fmt.Fprintf(out, "PROP-FAIL "+f+"\n", a...) }

// sigCount limits detailed reports (with shrinking) per signature.
var sigCount = map[string]int{}

const maxReportsPerSig = 3

var stats = map[string]int{}
var thorough = os.Getenv("VERIF_TIER") == "thorough"
var samples = 0

func sample(f string, a ...any) {
	if samples < 10 {
		samples++
		note("sample "+f, a...)
	}
}

func scale(n int) int {
	if thorough {
		return n * 20
	}
	return n
}

func fnv(parts ...string) uint64 {
	h := uint64(1469598103934665603)
	for _, p := range parts {
		for i := 0; i < len(p); i++ {
			h = (h ^ uint64(p[i])) * 1099511628211
		}
		h = (h ^ 0xff) * 1099511628211
	}
	return h
}

// ---------------------------------------------------------------------------------------
// Roots: the two root records of the otel schema behind a small uniform interface.

type recWriter interface {
	Write() error
	Flush() error
	RecordCount() uint64
	Rec() reflect.Value // pointer to the record
}

type recReader interface {
	Read(pkg.ReadOptions) error
	RecordCount() uint64
	Rec() reflect.Value
	CloneRec() reflect.Value
}

type mW struct{ *otelstef.MetricsWriter }

func (w mW) Rec() reflect.Value { return reflect.ValueOf(&w.Record) }

type sW struct{ *otelstef.SpansWriter }

func (w sW) Rec() reflect.Value { return reflect.ValueOf(&w.Record) }

type mR struct{ *otelstef.MetricsReader }

func (r mR) Rec() reflect.Value { return reflect.ValueOf(&r.Record) }
func (r mR) CloneRec() reflect.Value {
	c := r.Record.Clone(&otelstef.Allocators{})
	return reflect.ValueOf(&c)
}

type sR struct{ *otelstef.SpansReader }

func (r sR) Rec() reflect.Value { return reflect.ValueOf(&r.Record) }
func (r sR) CloneRec() reflect.Value {
	c := r.Record.Clone(&otelstef.Allocators{})
	return reflect.ValueOf(&c)
}

type rootSpec struct {
	name       string
	ty         *recgen.Type
	newWriter  func(pkg.ChunkWriter, pkg.WriterOptions) (recWriter, error)
	newReader  func(io.Reader) (recReader, error)
	initDump   string // dump of a freshly initialised record
	lastStream []byte // last good stream of this root (CopyFrom source for later histories)
	lastN      int
}

const schemaID = "otel"

var model *recgen.Model
var roots []*rootSpec
var schemaLinePrinted = false

func loadSchema() {
	path := "/repo/go/otel/otel.stef"
	if p := os.Getenv("VERIF_REPO"); p != "" {
		path = p + "/go/otel/otel.stef"
	}
	if p := os.Getenv("VERIF_STEF_SCHEMA"); p != "" {
		path = p
	}
	text, err := os.ReadFile(path)
	if err != nil {
		fmt.Fprintln(os.Stderr, "cannot read schema:", err)
		os.Exit(2)
	}
	s, err := recgen.ParseSchema(text, path)
	if err != nil {
		fmt.Fprintln(os.Stderr, "cannot parse schema:", err)
		os.Exit(2)
	}
	model, err = recgen.Compile(s)
	if err != nil {
		fmt.Fprintln(os.Stderr, "cannot compile schema:", err)
		os.Exit(2)
	}
	roots = []*rootSpec{
		{name: "Metrics", ty: model.Root("Metrics"),
			newWriter: func(cw pkg.ChunkWriter, o pkg.WriterOptions) (recWriter, error) {
				w, err := otelstef.NewMetricsWriter(cw, o)
				if err != nil {
					return nil, err
				}
				return mW{w}, nil
			},
			newReader: func(src io.Reader) (recReader, error) {
				r, err := otelstef.NewMetricsReader(src)
				if err != nil {
					return nil, err
				}
				return mR{r}, nil
			}},
		{name: "Spans", ty: model.Root("Spans"),
			newWriter: func(cw pkg.ChunkWriter, o pkg.WriterOptions) (recWriter, error) {
				w, err := otelstef.NewSpansWriter(cw, o)
				if err != nil {
					return nil, err
				}
				return sW{w}, nil
			},
			newReader: func(src io.Reader) (recReader, error) {
				r, err := otelstef.NewSpansReader(src)
				if err != nil {
					return nil, err
				}
				return sR{r}, nil
			}},
	}
	m := otelstef.NewMetrics()
	roots[0].initDump = recgen.Dump(reflect.ValueOf(m), roots[0].ty)
	sp := otelstef.NewSpans()
	roots[1].initDump = recgen.Dump(reflect.ValueOf(sp), roots[1].ty)
}

func printSchemaLine() {
	if !schemaLinePrinted {
		schemaLinePrinted = true
		emit("sd schema "+schemaID+" "+recgen.SchemaEncoding(model.Schema), "ok")
		// the Lean ENCODER sub-driver keeps its own schema table
		emit("se schema "+schemaID+" "+recgen.SchemaEncoding(model.Schema), "ok")
		// the record API model: the same schema plus the types the generator stores by pointer
		emit("ap schema "+schemaID+" "+recgen.SchemaEncoding(model.Schema)+" "+recgen.RecursiveNames(model), "ok")
	}
}

// emitReencode asks the Lean model to decode the (uncompressed-equivalent) stream with the marked
// specification decoder, to re-encode every frame's records with the schema-generic Lean encoder
// (Stef/SpecEnc.lean: encodeNode, marks recovered from the stream, same frame boundaries and
// restart flags) and to compare every frame's content (record count, size table, all column
// data) byte for byte with what the real writer produced. Expected output: "same".
func emitReencode(rootName, hexStream string) {
	emit(fmt.Sprintf("se reencode %s %s %s", schemaID, rootName, hexStream), "same")
	stats["reencode-ops"]++
}

// openReader is the recgen callback that yields a reader's record after nread reads.
func (rs *rootSpec) openReader(stream []byte, nread int) (v reflect.Value) {
	defer func() {
		if e := recover(); e != nil {
			v = reflect.Value{}
		}
	}()
	rd, err := rs.newReader(bytes.NewReader(stream))
	if err != nil {
		return reflect.Value{}
	}
	for i := 0; i < nread; i++ {
		if err := rd.Read(pkg.ReadOptions{}); err != nil {
			break
		}
	}
	return rd.Rec()
}

// ---------------------------------------------------------------------------------------
// Writer options.

type wopts struct {
	// schema: the wire schema of an OLDER producer to write in (WriterOptions.Schema), nil = own
	schema     *schema.WireSchema
	schemaDesc string
	zstd       bool
	frameSize  uint
	dictSize   uint
	flags      pkg.FrameFlags
	desc       bool
	userData   int
}

var frameSizes = []uint{0, 1, 7, 50, 200, 1000, 65536}
var dictSizes = []uint{0, 1, 40, 200, 5000}

func genOpts(r *rng.R) wopts {
	o := wopts{
		zstd:      r.Bool(),
		frameSize: frameSizes[r.Intn(len(frameSizes))],
		dictSize:  dictSizes[r.Intn(len(dictSizes))],
		flags:     pkg.FrameFlags(r.Intn(8)),
		desc:      r.Bool(),
		userData:  r.Intn(3),
	}
	// default frame size and no restarts are the common production setting: keep them frequent
	if r.Chance(1, 3) {
		o.frameSize = 0
	}
	if r.Chance(1, 3) {
		o.flags = 0
	}
	// (RestartCompression without compression used to panic in the writer: repaired in 66bed27,
	// the combination is generated like any other)
	return o
}

func (o wopts) String() string {
	c := "none"
	if o.zstd {
		c = "zstd"
	}
	sd := ""
	if o.schema != nil {
		sd = " older-schema(kept fields)=" + o.schemaDesc
	}
	return fmt.Sprintf("{compr=%s F=%d L=%d flags=%03b desc=%v userdata=%d%s}", c, o.frameSize, o.dictSize, o.flags, o.desc, o.userData, sd)
}

func (o wopts) pkg() pkg.WriterOptions {
	w := pkg.WriterOptions{
		IncludeDescriptor:            o.desc,
		MaxUncompressedFrameByteSize: o.frameSize,
		MaxTotalDictSize:             o.dictSize,
		FrameRestartFlags:            o.flags,
	}
	if o.zstd {
		w.Compression = pkg.CompressionZstd
	}
	w.Schema = o.schema
	switch o.userData {
	case 1:
		w.UserData = map[string]string{"k1": "v1"}
	case 2:
		w.UserData = map[string]string{"k1": "v1", "key-two": ""}
	}
	return w
}

func (o wopts) stat() {
	if o.zstd {
		stats["opt-compr-zstd"]++
	} else {
		stats["opt-compr-none"]++
	}
	stats[fmt.Sprintf("opt-framesize-%d", o.frameSize)]++
	stats[fmt.Sprintf("opt-dictsize-%d", o.dictSize)]++
	stats[fmt.Sprintf("opt-flags-%03b", o.flags)]++
	stats[fmt.Sprintf("opt-desc-%v", o.desc)]++
	stats[fmt.Sprintf("opt-userdata-%d", o.userData)]++
}

// ---------------------------------------------------------------------------------------
// Chunk collector.

type chunkLog struct {
	buf     bytes.Buffer
	ends    []int       // end offset of each chunk
	onChunk func(n int) // called after a chunk was appended (n = chunk index)
}

func (c *chunkLog) WriteChunk(h, content []byte) error {
	c.buf.Write(h)
	c.buf.Write(content)
	c.ends = append(c.ends, c.buf.Len())
	if c.onChunk != nil {
		c.onChunk(len(c.ends) - 1)
	}
	return nil
}

// ---------------------------------------------------------------------------------------
// Histories.

type step struct {
	kind byte // 'c' API call on the record, 'W' Write, 'F' Flush
	call *recgen.Call
}

type history struct {
	root  *rootSpec
	opts  wopts
	cfg   *recgen.Cfg
	steps []step
	gen   *recgen.State
}

type runResult struct {
	stream     []byte
	chunkEnds  []int
	truths     []string
	wmasks     []uint64 // the writer record's top-level modified mask just before each Write
	werr       string   // first writer error / panic ("" if none)
	wcount     uint64
	callPanics []string
}

func safe(f func() error) (err error, pan string) {
	defer func() {
		if e := recover(); e != nil {
			pan = fmt.Sprintf("%v @ %s", e, panicSite(debug.Stack()))
		}
	}()
	return f(), ""
}

// panicSite extracts the innermost function of the code under test from a stack trace.
func panicSite(stack []byte) string {
	lines := strings.Split(string(stack), "\n")
	seenPanic := false
	for _, l := range lines {
		if strings.HasPrefix(l, "panic(") {
			seenPanic = true
			continue
		}
		if !seenPanic || strings.HasPrefix(l, "\t") || strings.HasPrefix(l, "runtime.") || strings.HasPrefix(l, "reflect.") {
			continue
		}
		if i := strings.LastIndex(l, "("); i > 0 {
			l = l[:i]
		}
		if j := strings.LastIndex(l, "/"); j >= 0 {
			l = l[j+1:]
		}
		l = strings.NewReplacer("(", "", ")", "", "*", "", " ", "").Replace(l)
		if l != "" {
			return l
		}
	}
	return "unknown"
}

// newWriterDet creates the writer; with two user-data pairs the var header depends on Go's
// random map iteration order (VarHeader.Serialize ranges over the map), so the writer is
// re-created until the pairs come out in sorted order: the harness output stays a function of
// VERIF_SEED while the bytes are still the real writer's bytes.
func newWriterDet(root *rootSpec, cl *chunkLog, o wopts, reset func()) (w recWriter, err error, pan string) {
	for try := 0; try < 24; try++ {
		err, pan = safe(func() error {
			var e error
			w, e = root.newWriter(cl, o.pkg())
			return e
		})
		if err != nil || pan != "" || o.userData < 2 {
			return
		}
		ps := parseStream(cl.buf.Bytes())
		if len(ps.frames) > 0 {
			c := ps.frames[0].content
			if a, b := bytes.Index(c, []byte("k1")), bytes.Index(c, []byte("key-two")); a >= 0 && a < b {
				return
			}
		}
		cl.buf.Reset()
		cl.ends = nil
		if reset != nil {
			reset()
		}
	}
	return
}

type genParams struct {
	writes    int // number of Write calls
	maxMut    int // mutation steps per record: 0..maxMut
	flushProb int // Flush after a Write with probability flushProb/16
}

// generate creates a history by live execution: mutation steps are generated against the live
// writer record, recorded as replayable API calls.
func generate(r *rng.R, root *rootSpec, o wopts, cfg *recgen.Cfg, p genParams) (*history, *runResult) {
	h := &history{root: root, opts: o, cfg: cfg}
	res := &runResult{}
	cl := &chunkLog{}
	w, err, pan := newWriterDet(root, cl, o, nil)
	if err != nil || pan != "" {
		res.werr = fmt.Sprintf("NewWriter: %v%s", err, pan)
		return h, res
	}
	if root.lastStream != nil && cfg.ReaderStream == nil {
		cfg.ReaderStream = root.lastStream
		cfg.ReaderNRead = r.Intn(root.lastN + 1)
	}
	st := recgen.NewState(cfg, w.Rec(), root.openReader)
	h.gen = st
	for i := 0; i < p.writes; i++ {
		k := r.Intn(p.maxMut + 1)
		if i == 0 && k == 0 {
			k = 1
		}
		for j := 0; j < k; j++ {
			recgen.Mutate(r, w.Rec(), root.ty, st)
		}
		if st.LastPanic != "" {
			res.callPanics = append(res.callPanics, st.LastPanic)
			st.LastPanic = ""
		}
		for _, c := range st.TakeLog() {
			h.steps = append(h.steps, step{'c', c})
		}
		h.steps = append(h.steps, step{kind: 'W'})
		res.truths = append(res.truths, recgen.Dump(w.Rec(), root.ty))
		res.wmasks = append(res.wmasks, recgen.ModifiedMask(w.Rec(), root.ty))
		if err, pan := safe(w.Write); err != nil || pan != "" {
			res.werr = fmt.Sprintf("Write #%d: %v%s", i, err, pan)
			break
		}
		st.NextWrite()
		if r.Intn(16) < p.flushProb {
			h.steps = append(h.steps, step{kind: 'F'})
			if err, pan := safe(w.Flush); err != nil || pan != "" {
				res.werr = fmt.Sprintf("Flush: %v%s", err, pan)
				break
			}
		}
	}
	if res.werr == "" {
		if err, pan := safe(w.Flush); err != nil || pan != "" {
			res.werr = fmt.Sprintf("final Flush: %v%s", err, pan)
		}
	}
	res.wcount = w.RecordCount()
	res.stream = append([]byte(nil), cl.buf.Bytes()...)
	res.chunkEnds = cl.ends
	for k, v := range st.Stats {
		stats["mut-"+k] += v
	}
	return h, res
}

// replay re-executes a (possibly shrunk) history on a fresh writer.
func replay(h *history) *runResult {
	res := &runResult{}
	cl := &chunkLog{}
	w, err, pan := newWriterDet(h.root, cl, h.opts, nil)
	if err != nil || pan != "" {
		res.werr = fmt.Sprintf("NewWriter: %v%s", err, pan)
		return res
	}
	st := recgen.ReplayState(h.cfg, h.gen)
	nw := 0
	for _, s := range h.steps {
		switch s.kind {
		case 'c':
			if st.Exec(w.Rec(), s.call) == recgen.ExecPanic {
				res.callPanics = append(res.callPanics, st.LastPanic)
			}
		case 'W':
			res.truths = append(res.truths, recgen.Dump(w.Rec(), h.root.ty))
			if err, pan := safe(w.Write); err != nil || pan != "" {
				res.werr = fmt.Sprintf("Write #%d: %v%s", nw, err, pan)
			}
			nw++
			st.NextWrite()
		case 'F':
			if err, pan := safe(w.Flush); err != nil || pan != "" {
				res.werr = fmt.Sprintf("Flush: %v%s", err, pan)
			}
		}
		if res.werr != "" {
			break
		}
	}
	if res.werr == "" {
		if err, pan := safe(w.Flush); err != nil || pan != "" {
			res.werr = fmt.Sprintf("final Flush: %v%s", err, pan)
		}
	}
	res.wcount = w.RecordCount()
	res.stream = append([]byte(nil), cl.buf.Bytes()...)
	res.chunkEnds = cl.ends
	return res
}

func (h *history) describe(max int) string {
	var sb strings.Builder
	fmt.Fprintf(&sb, "root=%s opts=%s steps=[", h.root.name, h.opts)
	seen := map[*recgen.ObjSpec]bool{}
	for i, s := range h.steps {
		if i > 0 {
			sb.WriteString("; ")
		}
		if i >= max {
			fmt.Fprintf(&sb, "...%d more steps", len(h.steps)-max)
			break
		}
		switch s.kind {
		case 'c':
			sb.WriteString(recgen.FmtCall(s.call, seen))
		case 'W':
			sb.WriteString("Write()")
		case 'F':
			sb.WriteString("Flush()")
		}
	}
	sb.WriteString("]")
	return sb.String()
}

// shrink is delta debugging over the step list: drop chunks of steps while pred still holds.
func shrink(h *history, pred func(*history) bool, budget int) *history {
	cur := h
	n := 2
	for len(cur.steps) >= 2 && budget > 0 {
		chunk := (len(cur.steps) + n - 1) / n
		reduced := false
		for start := 0; start < len(cur.steps) && budget > 0; start += chunk {
			end := start + chunk
			if end > len(cur.steps) {
				end = len(cur.steps)
			}
			cand := *cur
			cand.steps = append(append([]step(nil), cur.steps[:start]...), cur.steps[end:]...)
			budget--
			if pred(&cand) {
				cur = &cand
				if n > 2 {
					n--
				}
				reduced = true
				break
			}
		}
		if !reduced {
			if chunk == 1 {
				break
			}
			n *= 2
			if n > len(cur.steps) {
				n = len(cur.steps)
			}
		}
	}
	return cur
}

// ---------------------------------------------------------------------------------------
// Outer framing parser (independent of go/pkg) and the uncompressed-equivalent stream.

type frameInfo struct {
	start, end int
	flags      byte
	usize      uint64
	csize      uint64
	content    []byte // uncompressed content
	nrec       int    // record count (data frames only; frame 0 is the var header)
}

type parsedStream struct {
	hdrEnd int
	hdr    []byte // fixed header content bytes
	zstd   bool
	frames []frameInfo
	err    error // parse stopped here (truncated / corrupt input)
}

type sliceSrc struct{ b []byte }

func (s *sliceSrc) Read(p []byte) (int, error) {
	if len(s.b) == 0 {
		return 0, io.EOF
	}
	n := copy(p, s.b)
	s.b = s.b[n:]
	return n, nil
}

func parseStream(b []byte) *parsedStream {
	p := &parsedStream{}
	if len(b) < 4 || string(b[:4]) != "STEF" {
		p.err = errors.New("bad signature")
		return p
	}
	pos := 4
	sz, n := binary.Uvarint(b[pos:])
	if n <= 0 || sz < 2 || pos+n+int(sz) > len(b) {
		p.err = errors.New("bad fixed header")
		return p
	}
	pos += n
	p.hdr = b[pos : pos+int(sz)]
	pos += int(sz)
	p.hdrEnd = pos
	p.zstd = p.hdr[1]&3 == 1
	var dec *zstd.Decoder
	src := &sliceSrc{}
	first := true
	if p.zstd {
		var err error
		dec, err = zstd.NewReader(nil, zstd.WithDecoderConcurrency(1))
		if err != nil {
			p.err = err
			return p
		}
		defer dec.Close()
	}
	for pos < len(b) {
		f := frameInfo{start: pos, flags: b[pos]}
		q := pos + 1
		us, n := binary.Uvarint(b[q:])
		if n <= 0 {
			p.err = errors.New("truncated frame header")
			return p
		}
		q += n
		f.usize, f.csize = us, us
		if p.zstd {
			cs, n := binary.Uvarint(b[q:])
			if n <= 0 {
				p.err = errors.New("truncated frame header")
				return p
			}
			q += n
			f.csize = cs
		}
		if f.csize > uint64(len(b)-q) {
			p.err = errors.New("truncated frame content")
			return p
		}
		body := b[q : q+int(f.csize)]
		if p.zstd {
			// exactly as go/pkg/frame.go: one decoder across frames, Reset at the first frame
			// and on RestartCompression, the frame's compressed bytes as the source.
			src.b = body
			if first || f.flags&byte(pkg.RestartCompression) != 0 {
				first = false
				if err := dec.Reset(src); err != nil {
					p.err = err
					return p
				}
			}
			if f.usize > 1<<26 {
				p.err = errors.New("frame too large")
				return p
			}
			f.content = make([]byte, f.usize)
			if _, err := io.ReadFull(dec, f.content); err != nil {
				p.err = fmt.Errorf("decompress: %w", err)
				return p
			}
		} else {
			f.content = body
		}
		f.end = q + int(f.csize)
		if len(p.frames) > 0 {
			nr, n := binary.Uvarint(f.content)
			if n > 0 {
				f.nrec = int(nr)
			}
		}
		p.frames = append(p.frames, f)
		pos = f.end
	}
	return p
}

// equivalent re-emits the stream uncompressed: fixed header with the compression bits
// cleared, then each frame as flags byte + uvarint(uncompressedSize) + uncompressed content.
func (p *parsedStream) equivalent() []byte {
	var o []byte
	o = append(o, "STEF"...)
	o = binary.AppendUvarint(o, uint64(len(p.hdr)))
	h := append([]byte(nil), p.hdr...)
	h[1] &^= 3
	o = append(o, h...)
	for _, f := range p.frames {
		o = append(o, f.flags)
		o = binary.AppendUvarint(o, f.usize)
		o = append(o, f.content...)
	}
	return o
}

// padded re-emits an UNCOMPRESSED stream with n extra bytes after the content of every data frame;
// the frame's declared size is enlarged to cover them.
func (p *parsedStream) padded(n int) []byte {
	var o []byte
	o = append(o, "STEF"...)
	o = binary.AppendUvarint(o, uint64(len(p.hdr)))
	o = append(o, p.hdr...)
	for i, f := range p.frames {
		extra := n
		if i == 0 {
			extra = 0 // the variable header
		}
		o = append(o, f.flags)
		o = binary.AppendUvarint(o, f.usize+uint64(extra))
		o = append(o, f.content...)
		for k := 0; k < extra; k++ {
			o = append(o, byte(0xa5+k))
		}
	}
	return o
}

// extendedHeader re-emits the stream with n reserved bytes appended to the fixed header's content (the
// reader accepts any content size from 2 to 1 MiB and skips what it does not know).
func (p *parsedStream) extendedHeader(orig []byte, n int) []byte {
	var o []byte
	o = append(o, "STEF"...)
	o = binary.AppendUvarint(o, uint64(len(p.hdr)+n))
	o = append(o, p.hdr...)
	for k := 0; k < n; k++ {
		o = append(o, byte(0x5a+k))
	}
	o = append(o, orig[p.hdrEnd:]...)
	return o
}

func (p *parsedStream) totalRecords() int {
	n := 0
	for _, f := range p.frames {
		n += f.nrec
	}
	return n
}

// ---------------------------------------------------------------------------------------
// Error classes.

func errClass(err error) string {
	if err == nil {
		return "nil"
	}
	if err == io.EOF {
		return "eof"
	}
	if errors.Is(err, io.EOF) {
		return "wrapped-eof"
	}
	if errors.Is(err, io.ErrUnexpectedEOF) {
		return "unexpected-eof"
	}
	if errors.Is(err, pkg.ErrEndOfFrame) {
		return "end-of-frame"
	}
	var de *pkg.DecodeError
	if errors.As(err, &de) {
		return "decode:" + strings.ReplaceAll(de.Error(), " ", "-")
	}
	return "other"
}

func hx(b []byte) string { return hex.EncodeToString(b) }

func printStats() {
	keys := make([]string, 0, len(stats))
	for k := range stats {
		keys = append(keys, k)
	}
	sort.Strings(keys)
	for _, k := range keys {
		note("stat %s %d", k, stats[k])
	}
}

// olderWireSchema draws the wire schema of an older producer of the root: trailing fields of
// randomly chosen structs and oneofs are dropped (append-only evolution read backwards), what
// becomes unreachable is pruned; with cutOneofs every oneof loses alternatives. Returns nil when the
// schema package refuses the result.
func olderWireSchema(r *rng.R, rootName string, cutOneofs bool) (ws *schema.WireSchema, desc string) {
	return olderWireSchemaForce(r, rootName, cutOneofs, nil)
}

// olderWireSchemaForce: as olderWireSchema; the structs named in force are always cut, to at most
// force[name] fields (used to cut inside the run of optional fields of a struct).
func olderWireSchemaForce(r *rng.R, rootName string, cutOneofs bool, force map[string]int) (ws *schema.WireSchema, desc string) {
	defer func() {
		if recover() != nil {
			ws = nil
		}
	}()
	cp, err := model.Schema.PrunedForRoot(rootName)
	if err != nil {
		return nil, ""
	}
	names := make([]string, 0, len(cp.Structs))
	for n := range cp.Structs {
		names = append(names, n)
	}
	sort.Strings(names)
	var cut []string
	for _, n := range names {
		st := cp.Structs[n]
		fmax, forced := force[n]
		if len(st.Fields) < 2 || !(forced || r.Chance(1, 3) || (cutOneofs && st.OneOf)) {
			continue
		}
		keep := 1 + r.Intn(len(st.Fields)-1)
		if forced && fmax < len(st.Fields) {
			keep = 1 + r.Intn(fmax)
		}
		st.Fields = st.Fields[:keep]
		cut = append(cut, fmt.Sprintf("%s:%d", n, keep))
	}
	if len(cut) == 0 {
		return nil, ""
	}
	pr, err := cp.PrunedForRoot(rootName)
	if err != nil {
		return nil, ""
	}
	w := schema.NewWireSchema(pr, rootName)
	return &w, strings.Join(cut, ",")
}

// emitAPI replays the history on the Lean model of the generated record API (lean/Stef/Api.lean):
// every public API call of the history (with the objects and CopyFrom sources it uses) is one `ap`
// op line; at every Write the model must show the record the real writer held and its top-level
// modified mask; at the end the model's values and marks, encoded by the proved encoder with the
// frame boundaries and restart flags of the real stream, must give the real frame contents byte for
// byte. A history with a call the model does not describe is skipped (counted), never approximated.
func emitAPI(h *history, res *runResult, ps *parsedStream) {
	if h.opts.schema != nil {
		stats["api-histories-unsupported"]++
		stats["api-unsupported-older-schema"]++
		return
	}
	var steps []recgen.APIStep
	for _, st := range h.steps {
		if st.kind == 'c' || st.kind == 'W' {
			steps = append(steps, recgen.APIStep{Kind: st.kind, Call: st.call})
		}
	}
	var frames []recgen.APIFrame
	for _, f := range ps.frames[1:] {
		frames = append(frames, recgen.APIFrame{Flags: f.flags, NRec: f.nrec, Content: f.content})
	}
	lines, unsupported, ok := recgen.APIOps(schemaID, h.root.name, h.root.ty, h.gen, steps, res.wmasks, res.truths, frames,
		func(stream []byte) string {
			p := parseStream(stream)
			if p.err != nil {
				return ""
			}
			return hx(p.equivalent())
		})
	if !ok {
		stats["api-histories-unsupported"]++
		for k, v := range unsupported {
			stats["api-unsupported-"+k] += v
		}
		return
	}
	stats["api-histories-supported"]++
	stats["api-ops"] += len(lines)
	for _, l := range lines {
		emit(l[0], l[1])
	}
}
