package main

import (
	"bytes"
	"fmt"
	"io"

	"github.com/splunk/stef/go/otel/otelstef"
	"github.com/splunk/stef/go/pkg"

	"verif/harness/internal/recgen"
	"verif/harness/internal/rng"
)

type readOutcome struct {
	dumps   []string
	err     error
	ctorErr bool
	pan     string
	capped  bool
}

// readAll reads records from src with the Go reader until the first error.
func readAll(root *rootSpec, src io.Reader, maxReads int) (o readOutcome) {
	_, pan := safe(func() error {
		rd, err := root.newReader(src)
		if err != nil {
			o.err, o.ctorErr = err, true
			return nil
		}
		for len(o.dumps) < maxReads {
			if err := rd.Read(pkg.ReadOptions{}); err != nil {
				o.err = err
				return nil
			}
			o.dumps = append(o.dumps, recgen.Dump(rd.Rec(), root.ty))
		}
		o.capped = true
		return nil
	})
	o.pan = pan
	return
}

// C05: a reader given any prefix of a valid stream returns exactly the records of the frames
// that are completely contained in the prefix, then a non-nil error (io.EOF exactly at a
// frame boundary), and never panics.
func runCutsMode() {
	defer manyNamesFrameCase("C05")
	defer arrayRegrowFrameCase("C05")
	defer eagerEndCases("C05")
	r := rng.FromEnv(105)
	n := scale(64)
	for i := 0; i < n; i++ {
		root := roots[i%2]
		o := wopts{zstd: (i/2)%2 == 1, flags: pkg.FrameFlags((i / 4) % 8), desc: r.Chance(1, 4), userData: r.Intn(2)}
		o.frameSize = []uint{0, 0, 40, 200}[r.Intn(4)]
		o.dictSize = []uint{0, 0, 40}[r.Intn(3)]
		cfg := &recgen.Cfg{NoBigLens: true, MaxCalls: 5, NoFrozen: r.Bool(), DictResets: o.dictSize != 0 || o.flags&pkg.RestartDictionaries != 0}
		p := genParams{writes: 1 + r.Intn(7), maxMut: 2, flushProb: 6}
		big := i%8 == 7
		if big {
			cfg.MaxCalls = 40
			p.writes = 10 + r.Intn(20)
		}
		name := fmt.Sprintf("cut-%d", i)
		note("case %s", name)
		o.stat()
		_, res := generate(r, root, o, cfg, p)
		if res.werr != "" {
			stats["writer-errors"]++
			propFail("C05 writer-error case=%s %s", name, res.werr)
			continue
		}
		ps := parseStream(res.stream)
		if ps.err != nil || ps.totalRecords() != len(res.truths) {
			propFail("C05 framing-parse case=%s err=%v records=%d want %d", name, ps.err, ps.totalRecords(), len(res.truths))
			continue
		}
		stats["streams"]++
		stats["stream-bytes"] += len(res.stream)
		stats["frames"] += len(ps.frames) - 1
		stats["records"] += len(res.truths)
		boundaries := map[int]bool{ps.hdrEnd: true}
		for _, f := range ps.frames {
			boundaries[f.end] = true
		}
		var offsets []int
		if len(res.stream) <= 600 {
			for k := 0; k <= len(res.stream); k++ {
				offsets = append(offsets, k)
			}
			stats["streams-all-offsets"]++
		} else {
			// sampled: all boundaries +-1, plus random offsets
			seen := map[int]bool{}
			add := func(k int) {
				if k >= 0 && k <= len(res.stream) && !seen[k] {
					seen[k] = true
					offsets = append(offsets, k)
				}
			}
			for b := range boundaries {
				add(b - 1)
				add(b)
				add(b + 1)
			}
			for j := 0; j < 150; j++ {
				add(r.Intn(len(res.stream) + 1))
			}
			stats["streams-sampled-offsets"]++
		}
		// the reference for C05 is what the reader returns for the COMPLETE stream: a record that the
		// writer encoded wrongly (a round-trip defect, property C01) is not a truncation failure
		ref := res.truths
		if full := readAll(root, bytes.NewReader(res.stream), len(res.truths)+2); full.pan == "" && len(full.dumps) == len(res.truths) {
			for j := range full.dumps {
				if full.dumps[j] != res.truths[j] {
					stats["streams-with-roundtrip-mismatch(C01, not judged here)"]++
					note("note case %s: the complete stream reads back differently from what was written at record %d (%s): C01's business; cuts are judged against the complete reading", name, j, recgen.DiffDumps(res.truths[j], full.dumps[j], root.ty))
					ref = full.dumps
					break
				}
			}
		}
		inside := false
		fails := map[string]bool{}
		for _, k := range offsets {
			complete := 0
			for _, f := range ps.frames[1:] {
				if f.end <= k {
					complete += f.nrec
				}
			}
			atBoundary := boundaries[k]
			if !atBoundary && k > ps.hdrEnd {
				inside = true
				stats["cuts-inside-frame"]++
			} else if atBoundary {
				stats["cuts-at-boundary"]++
			} else {
				stats["cuts-inside-fixed-header"]++
			}
			oc := readAll(root, bytes.NewReader(res.stream[:k]), len(res.truths)+2)
			stats["cuts"]++
			report := func(sig, f string, a ...any) {
				if !fails[sig] {
					fails[sig] = true
					propFail("C05 %s case=%s root=%s opts=%s cut=%d of %d (complete frames hold %d records): %s; stream=%s", sig, name, root.name, o, k, len(res.stream), complete, fmt.Sprintf(f, a...), hx(res.stream))
				}
			}
			if oc.pan != "" {
				report("panic", "reader panicked: %s", oc.pan)
				continue
			}
			bad := false
			for j, d := range oc.dumps {
				if j >= complete {
					report("partial-record", "reader returned record %d which is not in a complete frame", j)
					bad = true
					break
				}
				if d != ref[j] {
					report("partial-record", "record %d differs from the one of the complete stream at %s", j, recgen.DiffDumps(ref[j], d, root.ty))
					bad = true
					break
				}
			}
			if bad {
				continue
			}
			if len(oc.dumps) < complete {
				report("missing-record", "reader returned %d records then %v", len(oc.dumps), oc.err)
				continue
			}
			if oc.err == nil {
				report("no-error", "reader returned no error after %d records", len(oc.dumps))
				continue
			}
			stats["cut-err-"+errClass(oc.err)]++
			if atBoundary && oc.err != io.EOF {
				report("boundary-error-not-eof", "cut at a frame boundary: error is %q, not io.EOF", oc.err.Error())
			}
		}
		if inside {
			note("nontrivial %x", fnv(name, hx(res.stream)))
		}
		if i%16 == 3 {
			sample("case=%s root=%s opts=%s bytes=%d frames=%d records=%d offsets=%d", name, root.name, o, len(res.stream), len(ps.frames)-1, len(res.truths), len(offsets))
		}
	}
}

// eagerSrc hands out its data as asked and reports its terminal error TOGETHER with the last bytes
// (io.Reader allows n > 0 with a non-nil error; a socket that is closed right after the last
// frame does that).
type eagerSrc struct {
	data []byte
	err  error
}

func (s *eagerSrc) Read(p []byte) (int, error) {
	n := copy(p, s.data)
	s.data = s.data[n:]
	if len(s.data) == 0 {
		return n, s.err
	}
	return n, nil
}

// eagerEndCases (C05): frames whose LAST column is larger than the reader's 64 KiB buffer (a bytes
// attribute of about 280 KB: such a read goes to the source unbuffered) and prefixes that end
// exactly at a frame end, read from a source that reports its end together with the last bytes:
// the records of every complete frame must still come out - as from a bytes.Reader.
func eagerEndCases(prop string) {
	for ci, comp := range []pkg.Compression{pkg.CompressionNone, pkg.CompressionZstd} {
		name := fmt.Sprintf("cut-eager-end-c%d", ci)
		note("case %s", name)
		cw := &chunkLog{}
		w, err := otelstef.NewSpansWriter(cw, pkg.WriterOptions{Compression: comp})
		if err != nil {
			propFail("%s eager-end-writer case=%s %v", prop, name, err)
			continue
		}
		var recsAfter []int // records written when each chunk ended
		total := 0
		for len(recsAfter) < len(cw.ends) {
			recsAfter = append(recsAfter, 0) // the header chunks
		}
		for f := 0; f < 4; f++ {
			for k := 0; k <= f%2; k++ {
				big := make([]byte, 250_000+37_000*f+k)
				for x := range big {
					big[x] = byte(x*7 + f + k)
				}
				at := w.Record.Span().Attributes()
				at.EnsureLen(1)
				at.SetKey(0, "blob")
				at.Value(0).SetBytes(pkg.Bytes(big))
				w.Record.Span().SetStartTimeUnixNano(uint64(total))
				for len(recsAfter) < len(cw.ends) {
					recsAfter = append(recsAfter, total) // (header chunks written lazily, frames closed by a limit)
				}
				if err := w.Write(); err != nil {
					propFail("%s eager-end-write case=%s %v", prop, name, err)
					return
				}
				total++
			}
			w.Flush()
			for len(recsAfter) < len(cw.ends) {
				recsAfter = append(recsAfter, total)
			}
		}
		stream := cw.buf.Bytes()
		count := func(src io.Reader) (n int, rerr error, pan string) {
			defer func() {
				if e := recover(); e != nil {
					pan = fmt.Sprint(e)
				}
			}()
			rd, err := otelstef.NewSpansReader(src)
			if err != nil {
				return 0, err, ""
			}
			for {
				if err := rd.Read(pkg.ReadOptions{}); err != nil {
					return n, err, ""
				}
				n++
			}
		}
		for e, end := range cw.ends {
			if recsAfter[e] == 0 {
				continue
			}
			for _, terr := range []error{io.EOF, io.ErrClosedPipe} {
				stats["eager-end-reads"]++
				note("case %s-%d-%d", name, end, len(terr.Error()))
				note("nontrivial %x", uint64(ci)<<40|uint64(end)<<8|uint64(len(terr.Error())))
				want, _, _ := count(bytes.NewReader(stream[:end]))
				got, gerr, pan := count(&eagerSrc{data: append([]byte(nil), stream[:end]...), err: terr})
				if pan != "" || got != want || want != recsAfter[e] {
					propFail("%s eager-end-records-lost case=%s compression=%d: the first %d bytes of the stream are %d complete chunks holding %d records (last column of each frame: a bytes value of 250-360 KB); a bytes.Reader source gives %d records; a source that returns %v together with the last bytes gives %d records then %v (panic %q)", prop, name, comp, end, e+1, recsAfter[e], want, terr, got, gerr, pan)
					return
				}
			}
		}
	}
}
