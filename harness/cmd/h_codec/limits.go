package main

import (
	"bytes"
	"encoding/binary"
	"fmt"
	"strings"

	"github.com/splunk/stef/go/otel/otelstef"
	"github.com/splunk/stef/go/pkg"

	"verif/harness/internal/recgen"
	"verif/harness/internal/rng"
)

// withFlushes returns a copy of h with a Flush inserted after the Write of every record index
// (0-based) in the set.
func withFlushes(h *history, after map[int]bool, o wopts) *history {
	c := *h
	c.opts = o
	c.steps = nil
	rec := 0
	for _, s := range h.steps {
		c.steps = append(c.steps, s)
		if s.kind == 'W' {
			if after[rec] {
				c.steps = append(c.steps, step{kind: 'F'})
			}
			rec++
		}
	}
	return &c
}

// flushPositions: record counts at which the history flushes explicitly (plus 0 and the end).
func flushPositions(h *history) map[int]bool {
	pos := map[int]bool{0: true}
	rec := 0
	for _, s := range h.steps {
		switch s.kind {
		case 'W':
			rec++
		case 'F':
			pos[rec] = true
		}
	}
	pos[rec] = true
	return pos
}

// frameSlack is the part of a frame's size that the writer's size limiter does not account:
// the record count, the size table (length prefix + table) and the padding of every bit
// column to a whole byte. A non-empty column needs at least 4 bits in the size table
// ("01"+2 bits), so a table of T bytes describes at most 2*T non-empty columns.
func frameSlack(content []byte) (int, bool) {
	_, n1 := binary.Uvarint(content)
	if n1 <= 0 {
		return 0, false
	}
	tbl, n2 := binary.Uvarint(content[n1:])
	if n2 <= 0 {
		return 0, false
	}
	return n1 + n2 + int(tbl) + 2*int(tbl), true
}

// C08 oracle (explained):
//
// Frame limit F. The writer closes a frame right after the record whose encoding makes the
// limiter's accounted size reach F (8F bits), so BEFORE its last record a frame held less than
// F accounted bytes. We measure that size exactly: the same history is replayed without a
// frame limit, with an explicit Flush before the last record of every original frame (and
// after it). With identical options the encoders' state at the frame start is identical, so
// the twin's frame A holds exactly the bytes the original frame held before its last record.
// Sound check: size(A) <= F + frameSlack(A). Equivalently size(original frame) <= F + slack +
// (growth caused by the last record). Frames with a single record are unconstrained.
//
// Dictionary limit L. (1) the roundtrip oracle: the reader stays in sync across every reset;
// (2) announced: with F unlimited, every frame that does not start at an explicit Flush
// position exists only because of the dictionary limit and must carry RestartDictionaries;
// (3) without L no frame carries the flag (unless the options ask for it);
// (4) enforced: a lower bound of the dictionary bytes added since the last reset (new dict
// strings of length >= 2 in leaves that certainly were encoded, len+16 each) reaching L must
// be followed by a restart right after that record.
func runLimitsMode() {
	r := rng.FromEnv(108)
	n := scale(90)
	Ls := []uint{1, 2, 17, 18, 19, 40, 100, 200, 1000}
	Fs := []uint{1, 2, 8, 30, 50, 100, 200, 1000, 0}
	for i := 0; i < n; i++ {
		root := roots[i%2]
		o := wopts{zstd: r.Chance(1, 3), dictSize: Ls[r.Intn(len(Ls))], frameSize: Fs[r.Intn(len(Fs))], desc: r.Chance(1, 4)}
		switch i % 3 {
		case 0: // frame-limit focus: no dictionary limit, so that frames collect several records
			o.dictSize = 0
			o.frameSize = Fs[r.Intn(len(Fs)-1)]
		case 1: // dictionary-limit focus
			o.frameSize = 0
		}
		if r.Chance(1, 3) {
			o.flags = pkg.FrameFlags(r.Intn(8))
		}
		cfg := &recgen.Cfg{NoBigLens: r.Chance(2, 3), MaxCalls: 20, DictHeavy: true, NoFrozen: r.Chance(1, 2), DictResets: true}
		p := genParams{writes: 4 + r.Intn(25), maxMut: 2, flushProb: r.Intn(4)}
		if i%6 == 4 {
			// small batches, a Flush after every Write, a limit that several batches reach only
			// together (what an exporter does): the limit counts across Flush
			p = genParams{writes: 20 + r.Intn(30), maxMut: 1, flushProb: 16}
			cfg.MaxCalls, cfg.NoBigLens = 6, true
			o.frameSize, o.flags = 0, 0
			o.dictSize = []uint{200, 600, 2000}[r.Intn(3)]
			stats["limits-flush-every-write"]++
		}
		if i%6 == 2 {
			// the restart FLAG alone decides: RestartDictionaries configured for every frame, no
			// (or a far) limit, Flush calls in the middle of the stream and values that repeat
			// across them. Writer and reader must reset their dictionaries at the same record
			// boundaries, whichever of Write and Flush ends a frame.
			o.flags = []pkg.FrameFlags{pkg.RestartDictionaries, pkg.RestartDictionaries | pkg.RestartCodecs,
				pkg.RestartDictionaries | pkg.RestartCompression, 7}[r.Intn(4)]
			o.frameSize = 0
			o.dictSize = []uint{0, 0, 1 << 20}[r.Intn(3)]
			p = genParams{writes: 8 + r.Intn(16), maxMut: 2, flushProb: 2 + r.Intn(3)}
			stats["limits-flag-only-with-flush"]++
		}
		name := fmt.Sprintf("lim-%d", i)
		note("case %s", name)
		o.stat()
		limitsCase(name, root, o, cfg, p, r)
	}
	frozenFloodCases()
	floatFrameBoundCases()
	bigDictResetCases()
}

func limitsCase(name string, root *rootSpec, o wopts, cfg *recgen.Cfg, p genParams, r *rng.R) {
	histDesc := func() string { return "" }
	fails := map[string]bool{}
	fail := func(sig, f string, a ...any) {
		if fails[sig] {
			return
		}
		fails[sig] = true
		sigCount[sig]++
		if sigCount[sig] > maxReportsPerSig {
			propFail("C08 %s case=%s (details suppressed)", sig, name)
			return
		}
		propFail("C08 %s case=%s root=%s opts=%s: %s; history: %s", sig, name, root.name, o, fmt.Sprintf(f, a...), histDesc())
	}
	h, res := generate(r, root, o, cfg, p)
	histDesc = func() string { return h.describe(60) }
	stats["records"] += len(res.truths)
	oc := checkRoundtrip(root, res)
	for _, f := range oc.fails {
		if f.sig == "negzero-clone" && oc.full {
			continue // only reader.Record.Clone() is affected, the stream was read correctly
		}
		if f.sig == "negzero-clone" {
			stats["negzero-clone-skipped"]++
			return
		}
		fail("reader-desync", "roundtrip oracle: %s %s; history: %s", f.sig, f.desc, h.describe(40))
		return
	}
	ps := parseStream(res.stream)
	if ps.err != nil || ps.totalRecords() != len(res.truths) {
		fail("framing-parse", "err=%v records=%d want %d", ps.err, ps.totalRecords(), len(res.truths))
		return
	}
	frames := ps.frames[1:]
	stats["frames"] += len(frames)
	flushAt := flushPositions(h)
	nontrivial := false
	optDict := o.flags&pkg.RestartDictionaries != 0

	// ---- frame limit: twin run
	if o.frameSize != 0 {
		after := map[int]bool{}
		cum := 0
		for _, f := range frames {
			if f.nrec >= 2 {
				after[cum+f.nrec-2] = true // before the last record of the frame
			}
			cum += f.nrec
			after[cum-1] = true
			if !flushAt[cum] {
				nontrivial = true
				stats["frame-limit-restarts"]++
			}
		}
		o2 := o
		o2.frameSize = 0
		twin := replay(withFlushes(h, after, o2))
		tp := parseStream(twin.stream)
		ok := twin.werr == "" && tp.err == nil && len(tp.frames) > 0
		var tf []frameInfo
		if ok {
			tf = tp.frames[1:]
		}
		// expected twin shape
		j := 0
		for _, f := range frames {
			if !ok {
				break
			}
			if f.nrec >= 2 {
				if j+1 >= len(tf) || tf[j].nrec != f.nrec-1 || tf[j+1].nrec != 1 {
					ok = false
					break
				}
				slack, sok := frameSlack(tf[j].content)
				if !sok {
					ok = false
					break
				}
				stats["frame-limit-checks"]++
				if int(tf[j].usize) > int(o.frameSize)+slack {
					fail("frame-limit-exceeded", "a frame of %d records held %d bytes before its last record: more than F=%d + slack %d (full frame: %d bytes)", f.nrec, tf[j].usize, o.frameSize, slack, f.usize)
				}
				if int(tf[j].usize) > int(o.frameSize) {
					stats["frame-over-F-within-slack"]++
				}
				j += 2
			} else {
				if j >= len(tf) || tf[j].nrec != 1 {
					ok = false
					break
				}
				j++
			}
		}
		if !ok {
			stats["twin-shape-mismatch"]++
			note("note %s twin run does not reproduce the frame shape (werr=%q perr=%v)", name, twin.werr, tp.err)
		}
	}

	// ---- dictionary limit: announced / spurious / enforced, with F unlimited
	oB := o
	oB.frameSize = 0
	hB := *h
	hB.opts = oB
	resB := replay(&hB)
	pB := parseStream(resB.stream)
	if resB.werr != "" || pB.err != nil || pB.totalRecords() != len(res.truths) {
		fail("framing-parse", "run with unlimited F: werr=%q err=%v", resB.werr, pB.err)
		return
	}
	fB := pB.frames[1:]
	cum := 0
	limitRestarts := 0
	for _, f := range fB {
		hasFlag := f.flags&byte(pkg.RestartDictionaries) != 0
		if !optDict {
			if !flushAt[cum] && !hasFlag {
				fail("unannounced-restart", "with F unlimited a frame starts at record %d (not a Flush position) without RestartDictionaries (flags %03b)", cum, f.flags)
			}
			if hasFlag {
				limitRestarts++
			}
		}
		cum += f.nrec
	}
	if o.dictSize == 0 && limitRestarts > 0 {
		fail("spurious-dict-restart", "no dictionary limit configured (default 4 MiB) but %d frames carry RestartDictionaries", limitRestarts)
	}
	if limitRestarts > 0 {
		nontrivial = true
		stats["dict-limit-restarts"] += limitRestarts
	}
	// enforced: lower bound of dictionary growth, on the run with F unlimited AND on the run as
	// configured (a record may reach the frame limit and the dictionary limit in the same Write)
	enforced := func(which string, fs []frameInfo) {
		epoch := map[string]bool{}
		prev := map[string]string{}
		// a field that still holds its initial value in the first record is not encoded at all (the
		// reader starts from the same initial record): the initial values count as "previous"
		if node, err := recgen.ParseDump(root.initDump, root.ty); err == nil {
			var leaves []recgen.DictLeaf
			recgen.DictLeaves(node, "", &leaves)
			for _, l := range leaves {
				prev[l.Path] = l.Val
			}
			var dstructs []recgen.DictStruct
			recgen.DictStructs(node, "", &dstructs)
			for _, ds := range dstructs {
				prev["\x01"+ds.Path] = ds.Repr
			}
		}
		bytesLB := 0
		rec := 0
		for fi, f := range fs {
			if f.flags&byte(pkg.RestartDictionaries) != 0 {
				epoch = map[string]bool{}
				bytesLB = 0
			}
			for k := 0; k < f.nrec; k++ {
				node, err := recgen.ParseDump(res.truths[rec], root.ty)
				if err != nil {
					break
				}
				var leaves []recgen.DictLeaf
				recgen.DictLeaves(node, "", &leaves)
				cur := map[string]string{}
				for _, l := range leaves {
					cur[l.Path] = l.Val
					if pv, ok := prev[l.Path]; ok && pv == l.Val {
						continue
					}
					if len(l.Val) < 5 {
						continue
					}
					key := l.Dict + "\x00" + l.Val
					if !epoch[key] {
						epoch[key] = true
						bytesLB += (len(l.Val)-1)/2 + 16
					}
				}
				// dictionary-encoded STRUCT values: a value not yet in its dictionary in this epoch is
				// encoded in full and added; the writer accounts at least unsafe.Sizeof(struct) for
				// it, which is at least 8 bytes per field, and the reader retains the entry.
				var dstructs []recgen.DictStruct
				recgen.DictStructs(node, "", &dstructs)
				for _, ds := range dstructs {
					cur["\x01"+ds.Path] = ds.Repr
					if pv, ok := prev["\x01"+ds.Path]; ok && pv == ds.Repr {
						continue
					}
					key := "\x01" + ds.Dict + "\x00" + ds.Repr
					if !epoch[key] {
						epoch[key] = true
						bytesLB += 8 * ds.Fields
						stats["dict-struct-entries"]++
					}
				}
				prev = cur
				rec++
				if bytesLB >= int(o.dictSize) {
					stats["dict-lowerbound-reached"]++
					lastOfFrame := k == f.nrec-1
					lastOverall := rec == len(res.truths)
					if !lastOverall {
						if !lastOfFrame || fs[fi+1].flags&byte(pkg.RestartDictionaries) == 0 {
							fail("dict-limit-not-enforced", "%s: after record %d at least %d dictionary bytes were added since the last reset (L=%d) but no RestartDictionaries frame follows", which, rec-1, bytesLB, o.dictSize)
						}
					}
					bytesLB = 0 // avoid cascades; the epoch restarts with the next frame anyway
				}
			}
		}

	}
	if !optDict && o.dictSize != 0 {
		enforced("with F unlimited", fB)
		if o.frameSize != 0 {
			enforced("with F as configured", frames)
		}
	}

	// ---- without L: no dictionary restarts
	oC := oB
	oC.dictSize = 0
	hC := *h
	hC.opts = oC
	resC := replay(&hC)
	pC := parseStream(resC.stream)
	if resC.werr == "" && pC.err == nil && len(pC.frames) > 0 && !optDict {
		cum := 0
		for _, f := range pC.frames[1:] {
			if f.flags&byte(pkg.RestartDictionaries) != 0 {
				fail("spurious-dict-restart", "without a dictionary limit a frame carries RestartDictionaries")
			}
			if !flushAt[cum] {
				fail("spurious-frame", "without limits a frame starts at record %d which is not a Flush position", cum)
			}
			cum += f.nrec
		}
		if len(resC.truths) == len(res.truths) {
			for k := range res.truths {
				if resC.truths[k] != res.truths[k] {
					stats["replay-truth-differs"]++
					break
				}
			}
		}
		stats["bytes-with-L"] += len(resB.stream)
		stats["bytes-without-L"] += len(resC.stream)
	}
	if nontrivial {
		note("nontrivial %x", fnv(name, hx(res.stream)))
	}
	if stats["frames"]%7 == 0 {
		sample("case=%s root=%s opts=%s records=%d frames=%d framesUnlimitedF=%d dictRestarts=%d", name, root.name, o, len(res.truths), len(frames), len(fB), limitRestarts)
	}
}

// frozenFloodCases (C08): many DISTINCT dictionary-struct values that reach the encoder already
// frozen (shared by pointer), built from a tiny string vocabulary so that the string
// dictionaries never reach the limit on their own. Every new dictionary entry must be
// accounted against MaxTotalDictSize (the reader has to retain it), so with a limit L the
// writer must announce a dictionary restart at the latest after ceil(L / (8*fields)) + 1 new
// entries (a struct occupies at least 8 bytes per field).
func frozenFloodCases() {
	for ci, L := range []uint{40, 200, 1000} {
		for _, relay := range []bool{false, true} {
			name := fmt.Sprintf("lim-frozen-%d-%v", ci, relay)
			note("case %s", name)
			note("nontrivial %x", fnv(name))
			cl := &chunkLog{}
			w, err := otelstef.NewMetricsWriter(cl, pkg.WriterOptions{MaxTotalDictSize: L})
			if err != nil {
				propFail("C08 frozen-flood-writer-error case=%s %v", name, err)
				continue
			}
			n := int(L)/8 + 30
			var src *otelstef.MetricsReader
			if relay {
				// records relayed from a reader: decoders freeze every dictionary value
				cl0 := &chunkLog{}
				w0, _ := otelstef.NewMetricsWriter(cl0, pkg.WriterOptions{})
				for i := 0; i < n; i++ {
					w0.Record.Resource().SetDroppedAttributesCount(uint64(1000 + i))
					_ = w0.Write()
				}
				_ = w0.Flush()
				src, err = otelstef.NewMetricsReader(bytes.NewReader(cl0.buf.Bytes()))
				if err != nil {
					propFail("C08 frozen-flood-reader-error case=%s %v", name, err)
					continue
				}
			}
			for i := 0; i < n; i++ {
				var res *otelstef.Resource
				if relay {
					if err := src.Read(pkg.ReadOptions{}); err != nil {
						break
					}
					res = src.Record.Resource()
				} else {
					res = otelstef.NewResource()
					res.SetDroppedAttributesCount(uint64(1000 + i))
					res.Freeze()
				}
				w.Record.SetResource(res)
				if err := w.Write(); err != nil {
					propFail("C08 frozen-flood-write-error case=%s %v", name, err)
					break
				}
			}
			_ = w.Flush()
			ps := parseStream(cl.buf.Bytes())
			restarts := 0
			maxRun, run := 0, 0
			for i, f := range ps.frames {
				if i == 0 {
					continue // var header frame
				}
				if f.flags&byte(pkg.RestartDictionaries) != 0 {
					restarts++
					run = 0
				}
				run += f.nrec
				if run > maxRun {
					maxRun = run
				}
			}
			stats["frozen-flood-restarts"] += restarts
			// Resource has 3 fields: every new entry occupies at least 24 bytes in a reader.
			bound := int(L)/24 + 2
			if maxRun > bound {
				propFail("C08 dict-limit-not-enforced case=%s L=%d: %d distinct frozen Resource values (>= 24 bytes each in the reader's dictionary) were written between two dictionary restarts (at most %d can fit the limit plus one record); %d restarts announced in %d records", name, L, maxRun, bound, restarts, n)
			}
		}
	}
}

// floatFrameBoundCases: the frame size limit on records whose encoding is mostly ONE float column, with
// value patterns that exercise every branch of the float codec's size accounting: a first step that
// opens a wide window, then flips inside it (window reuse), identical values, and new windows. With
// thousands of small records per limit, a codec that reports fewer bits than it writes lets frames
// grow well beyond F + last record + size table.
func floatFrameBoundCases() {
	patterns := map[string][]float64{
		"flip-inside-window": {1.0, 2.0, 4.0, 2.0, 4.0},
		"small-ints":         {0, 1, 2, 3, 5, 8, 13, 21, 34, 55},
		"identical-and-new":  {7.5, 7.5, 7.5, 1e300, 7.5, -7.5},
	}
	names := []string{"flip-inside-window", "small-ints", "identical-and-new"}
	for _, pn := range names {
		for _, F := range []uint{1000, 4000} {
			name := fmt.Sprintf("lim-float-%s-F%d", pn, F)
			note("case %s", name)
			note("nontrivial %x", fnv(name))
			cl := &chunkLog{}
			w, err := otelstef.NewMetricsWriter(cl, pkg.WriterOptions{MaxUncompressedFrameByteSize: F})
			if err != nil {
				propFail("C08 float-frame-writer-error case=%s %v", name, err)
				continue
			}
			pat := patterns[pn]
			n := 12000
			w.Record.Metric().SetName("gauge")
			for i := 0; i < n; i++ {
				v := pat[0]
				if i > 0 {
					v = pat[1+(i-1)%(len(pat)-1)]
				}
				w.Record.Point().SetTimestamp(uint64(1000 + i))
				w.Record.Point().Value().SetFloat64(v)
				if err := w.Write(); err != nil {
					propFail("C08 float-frame-writer-error case=%s %v", name, err)
					break
				}
			}
			w.Flush()
			ps := parseStream(cl.buf.Bytes())
			if ps.err != nil {
				propFail("C08 framing-parse case=%s %v", name, ps.err)
				continue
			}
			stats["float-frame-bound-frames"] += len(ps.frames) - 1
			// tolerance: one record of this shape encodes in well under 32 bytes; the size table of a
			// Metrics frame (one compact varint per column) in under 400
			bound := int(F) + 32 + 400
			worst := 0
			for _, f := range ps.frames[1:] {
				if len(f.content) > worst {
					worst = len(f.content)
				}
			}
			if worst > bound {
				propFail("C08 frame-limit-exceeded-float-column case=%s: %d gauge records with the value pattern %v (after the first value), frame size limit F=%d, no Flush: the largest frame has %d bytes of content, more than F + one record + the size table (%d); frames: %d", name, n, pat, F, worst, bound, len(ps.frames)-1)
			}
		}
	}
}

// bigDictResetCases (C08): a dictionary limit large enough for ONE string dictionary to collect
// thousands of entries before it is reached (1 MiB, 256 KiB), more distinct names than that, and
// the same names again after the reset(s): the writer and the reader must reset at the same record
// boundary whatever the dictionary held, every record must read back, and a dictionary restart
// must have happened (the limit is in force).
func bigDictResetCases() {
	for ci, c := range []struct {
		limit uint
		names int
		width int
	}{{1 << 20, 8000, 130}, {256 << 10, 6000, 60}, {2000, 300, 10}} {
		name := fmt.Sprintf("lim-bigdict-%d", ci)
		note("case %s", name)
		cw := &chunkLog{}
		w, err := otelstef.NewMetricsWriter(cw, pkg.WriterOptions{MaxTotalDictSize: c.limit})
		if err != nil {
			propFail("C08 bigdict-writer case=%s %v", name, err)
			continue
		}
		mk := func(i int) string { return fmt.Sprintf("metric.name.%06d.%s", i, strings.Repeat("x", c.width)) }
		total := 2 * c.names
		ok := true
		for i := 0; i < total && ok; i++ {
			w.Record.Metric().SetName(mk(i % c.names))
			w.Record.Point().SetTimestamp(uint64(i))
			if err := w.Write(); err != nil {
				propFail("C08 bigdict-write case=%s record %d: %v", name, i, err)
				ok = false
			}
		}
		if !ok {
			continue
		}
		w.Flush()
		note("nontrivial %x", uint64(c.limit)^uint64(c.names))
		ps := parseStream(cw.buf.Bytes())
		restarts := 0
		if ps.err == nil {
			for _, f := range ps.frames[1:] {
				if f.flags&byte(pkg.RestartDictionaries) != 0 {
					restarts++
				}
			}
		}
		stats["bigdict-restarts"] += restarts
		if restarts == 0 {
			propFail("C08 bigdict-limit-not-enforced case=%s %d distinct names of %d bytes (twice), MaxTotalDictSize=%d: no frame announces a dictionary restart", name, c.names, len(mk(0)), c.limit)
		}
		rd, err := otelstef.NewMetricsReader(bytes.NewReader(cw.buf.Bytes()))
		if err != nil {
			propFail("C08 bigdict-not-readable case=%s %v", name, err)
			continue
		}
		for i := 0; i < total; i++ {
			if err := rd.Read(pkg.ReadOptions{}); err != nil {
				propFail("C08 bigdict-reader-desync case=%s %d distinct metric names of %d bytes written twice, MaxTotalDictSize=%d (%d dictionary restarts announced): Read of record %d returned %v", name, c.names, len(mk(0)), c.limit, restarts, i, err)
				break
			}
			if got := rd.Record.Metric().Name(); got != mk(i%c.names) {
				propFail("C08 bigdict-reader-desync case=%s %d distinct metric names written twice, MaxTotalDictSize=%d (%d dictionary restarts announced): record %d read back with the name %q, written %q", name, c.names, c.limit, restarts, i, clip(got, 40), clip(mk(i%c.names), 40))
				break
			}
		}
	}
}
