package main

import (
	"bytes"
	"encoding/binary"
	"fmt"
	"runtime"
	"runtime/debug"
	"strings"
	"time"

	"github.com/splunk/stef/go/otel/otelstef"
	"github.com/splunk/stef/go/pkg"

	"verif/harness/internal/recgen"
	"verif/harness/internal/rng"
)

type hostileResult struct {
	class   string
	pan     string
	site    string
	records int
}

// readHostile runs the reader over arbitrary bytes (no dumps: only "records or error").
func readHostile(root *rootSpec, b []byte, done chan<- hostileResult) {
	var res hostileResult
	defer func() {
		if e := recover(); e != nil {
			res.class = "panic"
			res.pan = fmt.Sprint(e)
			res.site = panicSite(debug.Stack())
		}
		done <- res
	}()
	rd, err := root.newReader(bytes.NewReader(b))
	if err != nil {
		res.class = "ctor-" + hostileErr(err)
		return
	}
	for res.records < 200000 {
		if err := rd.Read(pkg.ReadOptions{}); err != nil {
			res.class = hostileErr(err)
			if res.records > 0 {
				res.class = "records-then-" + res.class
			}
			return
		}
		res.records++
		// touch the record through the public getters as a consumer would
		if res.records <= 3 {
			_ = recgen.Dump(rd.Rec(), root.ty)
		}
	}
	res.class = "many-records"
}

func hostileErr(err error) string {
	c := errClass(err)
	if strings.HasPrefix(c, "decode:") {
		return "decode-error"
	}
	return c
}

// C03 (reader part): on arbitrary input the reader returns records or an error; it never
// panics, never hangs (2 s per input) and never allocates more than 3*64 MiB + 1 MiB per KB
// of input.
func runHostileMode() {
	r := rng.FromEnv(103)
	// valid base streams of both roots, none / zstd
	type base struct {
		root   *rootSpec
		stream []byte
		ps     *parsedStream
		o      wopts
	}
	var bases []base
	for i := 0; len(bases) < 12 && i < 60; i++ {
		root := roots[i%2]
		o := genOpts(r)
		o.zstd = (i/2)%2 == 1
		if i%4 >= 2 && i%8 < 6 {
			// a stream of an OLDER producer (WriterOptions.Schema): the reader builds fewer
			// decoders than its own schema has, hostile values must not reach a missing one
			o.schema, o.schemaDesc = olderWireSchema(r, root.name, i%8 < 4)
			o.zstd = i%8 >= 4 && i%16 < 8
			if o.schema != nil {
				stats["base-streams-older-schema"]++
			}
		}
		cfg := &recgen.Cfg{NoBigLens: i%3 != 0, MaxCalls: 20, NoFrozen: r.Bool(), DictResets: o.dictSize != 0 || o.flags&pkg.RestartDictionaries != 0}
		gp := genParams{writes: 2 + r.Intn(10), maxMut: 3, flushProb: 3}
		_, res := generate(r, root, o, cfg, gp)
		if res.werr != "" || len(res.stream) > 20000 {
			continue
		}
		ps := parseStream(res.stream)
		if ps.err != nil {
			continue
		}
		bases = append(bases, base{root, res.stream, ps, o})
		stats["base-streams"]++
		stats["base-bytes"] += len(res.stream)
	}
	n := scale(2500)
	var ms runtime.MemStats
	reported := map[string]int{}
	var maxAlloc uint64
	defer func() {
		note("note hostile: largest allocation for one input: about %d MiB (rounded to 16 MiB)", (maxAlloc>>24)<<4)
	}()
	evalInput := func(i int, b base, in []byte, kind string) {
		stats["input-"+kind]++
		note("case ho-%d", i)
		runtime.ReadMemStats(&ms)
		before := ms.TotalAlloc
		done := make(chan hostileResult, 1)
		go readHostile(b.root, in, done)
		var res hostileResult
		select {
		case res = <-done:
		case <-time.After(2 * time.Second):
			res.class = "hang"
		}
		runtime.ReadMemStats(&ms)
		alloc := ms.TotalAlloc - before
		bound := uint64(3*64<<20) + uint64(len(in)/1024+1)<<20
		note("stat hostile-%s 1", res.class)
		stats["hostile-records-returned"] += res.records
		rep := func(sig, f string, a ...any) {
			reported[sig]++
			if reported[sig] > maxReportsPerSig {
				propFail("C03 %s root=%s kind=%s (details suppressed)", sig, b.root.name, kind)
				return
			}
			propFail("C03 %s root=%s base-opts=%s kind=%s: %s; input=%s", sig, b.root.name, b.o, kind, fmt.Sprintf(f, a...), hx(in))
		}
		switch res.class {
		case "panic":
			rep("reader-panic-"+res.site, "panic: %s", res.pan)
		case "hang":
			rep("reader-hang", "no result after 2 s")
		case "many-records":
			rep("reader-unbounded-records", "more than 200000 records from %d input bytes", len(in))
		}
		if alloc > maxAlloc {
			maxAlloc = alloc
		}
		if alloc > bound {
			rep("over-allocation", "allocated %d bytes for %d input bytes (bound %d)", alloc, len(in), bound)
		}
		if alloc > 64<<20 {
			stats["inputs-allocating-over-64MiB"]++
		}
		if i%400 == 0 {
			sample("hostile input kind=%s root=%s len=%d class=%s records=%d allocMiB=%d", kind, b.root.name, len(in), res.class, res.records, alloc>>20)
		}

	}
	for i := 0; i < n; i++ {
		b := bases[r.Intn(len(bases))]
		in := append([]byte(nil), b.stream...)
		kind := ""
		switch x := r.Intn(14); {
		case x < 3:
			kind = "flip-1"
			k := r.Intn(len(in))
			in[k] ^= byte(1 << uint(r.Intn(8)))
		case x < 5:
			kind = "bytes-multi"
			for j := 1 + r.Intn(6); j > 0; j-- {
				in[r.Intn(len(in))] = byte(r.U64())
			}
		case x == 5:
			kind = "inflate-size"
			// replace a frame's size field(s) with a large value
			f := b.ps.frames[r.Intn(len(b.ps.frames))]
			big := []uint64{1 << 26, 1<<26 + 1, 1 << 40, 1<<63 - 1, ^uint64(0), 70000, 1 << 20}[r.Intn(7)]
			var nb []byte
			nb = append(nb, in[:f.start+1]...)
			nb = binary.AppendUvarint(nb, big)
			_, n1 := binary.Uvarint(in[f.start+1:])
			nb = append(nb, in[f.start+1+n1:]...)
			in = nb
		case x == 6:
			kind = "inflate-inner"
			// inflate a varint inside the (uncompressed) frame content: record count / table size
			f := b.ps.frames[r.Intn(len(b.ps.frames))]
			if !b.ps.zstd && f.end-f.start > 4 {
				k := f.end - len(f.content) + r.Intn(3)
				if k < len(in) {
					in[k] = 0xFF
					if k+1 < len(in) {
						in[k+1] |= 0x80
					}
				}
			} else {
				in[r.Intn(len(in))] = 0xFF
			}
		case x == 7:
			kind = "remove-range"
			a := r.Intn(len(in))
			l := 1 + r.Intn(20)
			if a+l > len(in) {
				l = len(in) - a
			}
			in = append(in[:a], in[a+l:]...)
		case x == 8:
			kind = "truncate"
			in = in[:r.Intn(len(in))]
		case x == 9:
			kind = "duplicate-range"
			a := r.Intn(len(in))
			l := 1 + r.Intn(40)
			if a+l > len(in) {
				l = len(in) - a
			}
			in = append(append(append([]byte(nil), in[:a+l]...), in[a:a+l]...), in[a+l:]...)
		case x == 12:
			kind = "sibling-sizes"
			// a well-formed header followed by an uncompressed frame whose column size table makes
			// many columns each claim a size that fits the declared frame size on its own, but not
			// jointly; (almost) no column data follows. Buffers are allocated while the table is
			// parsed, so the shared remaining-frame budget is what bounds the allocation.
			for tries := 0; b.ps.zstd && tries < 50; tries++ {
				b = bases[r.Intn(len(bases))]
			}
			if b.ps.zstd {
				kind = "sibling-sizes-skipped"
				break
			}
			each := []uint64{1 << 20, 4 << 20, 16 << 20, 1<<26 - 4096, 1 << 26, 3 << 20}[r.Intn(6)]
			declared := []uint64{1 << 26, 1 << 26, 1 << 25, 1<<26 + 1, 1 << 24}[r.Intn(5)]
			ncols := 2 + r.Intn(700)
			bw := pkg.NewBitsWriter(0)
			for j := 0; j < ncols; j++ {
				sz := each
				if r.Chance(1, 8) {
					sz = uint64(r.Intn(64))
				}
				bw.WriteUvarintCompact(sz)
			}
			bw.Close()
			var content []byte
			content = binary.AppendUvarint(content, uint64(1+r.Intn(3)))
			content = binary.AppendUvarint(content, uint64(len(bw.Bytes())))
			content = append(content, bw.Bytes()...)
			for j := r.Intn(64); j > 0; j-- {
				content = append(content, byte(r.U64()))
			}
			in = append([]byte(nil), b.stream[:b.ps.frames[0].end]...)
			in = append(in, byte(r.Intn(8)))
			in = binary.AppendUvarint(in, declared)
			in = append(in, content...)
		case x == 13:
			kind = "zstd-window"
			// a zstd frame header announcing a huge window (Window_Descriptor byte): the decoder
			// allocates its history from that untrusted number
			for tries := 0; !b.ps.zstd && tries < 50; tries++ {
				b = bases[r.Intn(len(bases))]
			}
			in = append([]byte(nil), b.stream...)
			done := false
			for k := b.ps.hdrEnd; k+6 < len(in); k++ {
				if in[k] == 0x28 && in[k+1] == 0xb5 && in[k+2] == 0x2f && in[k+3] == 0xfd && in[k+4]&0x20 == 0 {
					in[k+5] = byte(0x88 + r.Intn(17)) // windowLog 27..29 with any mantissa: 128 MiB .. 960 MiB
					done = true
					if r.Bool() {
						break
					}
				}
			}
			if !done {
				kind = "zstd-window-skipped"
			}
		case x == 10:
			kind = "arbitrary"
			in = make([]byte, r.Intn(200))
			for j := range in {
				in[j] = byte(r.U64())
			}
			if r.Bool() && len(in) >= 4 {
				copy(in, "STEF")
			}
		case x == 11:
			kind = "huge-varint-in-varheader"
			// one byte of the (uncompressed) variable header - schema descriptor lengths, the user
			// data count, a key or value length - replaced by a 10-byte varint with bit 63 set (or
			// all ones): a value no writer produces and that turns negative in a careless int
			// conversion. The frame's size field is adjusted, so everything else stays well formed.
			for tries := 0; b.ps.zstd && tries < 50; tries++ {
				b = bases[r.Intn(len(bases))]
			}
			f := b.ps.frames[0]
			if b.ps.zstd || len(f.content) == 0 {
				kind = "huge-varint-in-varheader-skipped"
				break
			}
			k := r.Intn(len(f.content))
			huge := []uint64{1 << 63, 1<<63 + 3, ^uint64(0), 1<<63 + uint64(f.content[k]), 1 << 62}[r.Intn(5)]
			var nc []byte
			nc = append(nc, f.content[:k]...)
			nc = binary.AppendUvarint(nc, huge)
			nc = append(nc, f.content[k+1:]...)
			in = append([]byte(nil), b.stream[:f.start]...)
			in = append(in, f.flags)
			in = binary.AppendUvarint(in, uint64(len(nc)))
			in = append(in, nc...)
			in = append(in, b.stream[f.end:]...)
		default:
			kind = "header-garbage"
			// valid fixed header followed by garbage frames
			in = append([]byte(nil), b.stream[:b.ps.hdrEnd]...)
			for j := r.Intn(120); j > 0; j-- {
				in = append(in, byte(r.U64()))
			}
		}
		evalInput(i, b, in, kind)
	}
	// every single-bit flip of the frames of small uncompressed streams written in an OLDER schema
	// (a oneof type number or a field mask one step beyond what the older schema has must be an
	// error, the reader has no decoder for it)
	k := n
	var olderBases []base
	for i := 0; len(olderBases) < 8 && i < 200; i++ {
		root := roots[i%2]
		o := wopts{flags: pkg.FrameFlags(r.Intn(8)), desc: true}
		o.schema, o.schemaDesc = olderWireSchema(r, root.name, true)
		if o.schema == nil {
			continue
		}
		cfg := &recgen.Cfg{NoBigLens: true, MaxCalls: 25, NoFrozen: r.Bool(), DictResets: o.flags&pkg.RestartDictionaries != 0}
		_, res := generate(r, root, o, cfg, genParams{writes: 3 + r.Intn(4), maxMut: 3, flushProb: 2})
		if res.werr != "" || len(res.stream) > 1200 || len(res.stream) < 150 {
			continue
		}
		ps := parseStream(res.stream)
		if ps.err != nil {
			continue
		}
		olderBases = append(olderBases, base{root, res.stream, ps, o})
	}
	for _, b := range olderBases {
		stats["older-schema-exhaustive-bases"]++
		for bit := b.ps.hdrEnd * 8; bit < len(b.stream)*8; bit++ {
			in := append([]byte(nil), b.stream...)
			in[bit/8] ^= 1 << (bit % 8)
			evalInput(k, b, in, "older-schema-flip-1")
			k++
		}
	}
	// every byte of the variable header (schema descriptor: struct count and per-struct field counts;
	// user data) of uncompressed streams WITH a descriptor set to 0, to 1 and decremented, the frame
	// size kept right: a descriptor that claims a struct has no fields (or fewer than the reader
	// builds decoders for) must end in an error or in records, never in a panic. Streams of a few
	// dozen records, so that every column holds enough bytes for the bit readers' wide refill.
	var descBases []base
	for i := 0; len(descBases) < 6 && i < 100; i++ {
		root := roots[i%2]
		o := wopts{flags: pkg.FrameFlags(r.Intn(8)), desc: true}
		cfg := &recgen.Cfg{NoBigLens: true, MaxCalls: 20, NoFrozen: r.Bool(), DictResets: o.flags&pkg.RestartDictionaries != 0, DictHeavy: i%3 == 0}
		_, res := generate(r, root, o, cfg, genParams{writes: 30 + r.Intn(30), maxMut: 3, flushProb: 0})
		if res.werr != "" || len(res.stream) > 40000 {
			continue
		}
		ps := parseStream(res.stream)
		if ps.err != nil || ps.zstd || len(ps.frames) < 2 {
			continue
		}
		descBases = append(descBases, base{root, res.stream, ps, o})
	}
	// two hand-built streams in which the resource, the scope and the metric / span identity change
	// in EVERY record, so that the columns of the dictionary structs are long
	for _, rootName := range []string{"Metrics", "Spans"} {
		buf := &pkg.MemChunkWriter{}
		var werr error
		if rootName == "Metrics" {
			w, err := otelstef.NewMetricsWriter(buf, pkg.WriterOptions{IncludeDescriptor: true})
			werr = err
			for i := 0; werr == nil && i < 40; i++ {
				res := w.Record.Resource()
				res.SetSchemaURL(fmt.Sprintf("https://example.com/schema/%d", i))
				res.SetDroppedAttributesCount(uint64(i*7 + 1))
				res.Attributes().EnsureLen(1)
				res.Attributes().SetKey(0, fmt.Sprintf("key%d", i))
				res.Attributes().Value(0).SetInt64(int64(i))
				w.Record.Scope().SetName(fmt.Sprintf("scope%d", i))
				w.Record.Scope().SetDroppedAttributesCount(uint64(i + 1))
				w.Record.Metric().SetName(fmt.Sprintf("metric%d", i))
				w.Record.Metric().SetUnit(fmt.Sprintf("u%d", i))
				w.Record.Point().SetTimestamp(uint64(1000 + i))
				w.Record.Point().Value().SetInt64(int64(i))
				werr = w.Write()
			}
			if werr == nil {
				werr = w.Flush()
			}
		} else {
			w, err := otelstef.NewSpansWriter(buf, pkg.WriterOptions{IncludeDescriptor: true})
			werr = err
			for i := 0; werr == nil && i < 40; i++ {
				res := w.Record.Resource()
				res.SetSchemaURL(fmt.Sprintf("https://example.com/schema/%d", i))
				res.SetDroppedAttributesCount(uint64(i*7 + 1))
				res.Attributes().EnsureLen(1)
				res.Attributes().SetKey(0, fmt.Sprintf("key%d", i))
				res.Attributes().Value(0).SetInt64(int64(i))
				w.Record.Scope().SetName(fmt.Sprintf("scope%d", i))
				w.Record.Scope().SetDroppedAttributesCount(uint64(i + 1))
				w.Record.Span().SetName(fmt.Sprintf("span%d", i))
				w.Record.Span().SetStartTimeUnixNano(uint64(1000 + i))
				werr = w.Write()
			}
			if werr == nil {
				werr = w.Flush()
			}
		}
		if werr != nil {
			propFail("C03 hostile-base-writer-error root=%s %v", rootName, werr)
			continue
		}
		ps := parseStream(buf.Bytes())
		for _, rt := range roots {
			if rt.name == rootName && ps.err == nil {
				descBases = append(descBases, base{rt, append([]byte(nil), buf.Bytes()...), ps, wopts{desc: true}})
			}
		}
	}
	for _, b := range descBases {
		stats["descriptor-byte-bases"]++
		f := b.ps.frames[0]
		for pos := range f.content {
			for _, nv := range []int{0, 1, int(f.content[pos]) - 1} {
				if nv < 0 || byte(nv) == f.content[pos] {
					continue
				}
				nc := append([]byte(nil), f.content...)
				nc[pos] = byte(nv)
				in := append([]byte(nil), b.stream[:f.start]...)
				in = append(in, f.flags)
				in = binary.AppendUvarint(in, uint64(len(nc)))
				in = append(in, nc...)
				in = append(in, b.stream[f.end:]...)
				evalInput(k, b, in, "varheader-byte-lowered")
				k++
			}
		}
	}
	bigArrayCases()
}

// bigArrayCases: C03, allocation accounting of struct arrays. One record whose struct array has so
// many (default) elements that the elements alone exceed RecordAllocLimit although the stream is
// small and the pointer slice alone would fit: the reader must refuse it (record allocation limit)
// or stay within the limit - it must not allocate N x sizeof(element) unaccounted.
func bigArrayCases() {
	const n = 1 << 20
	type bcase struct {
		name  string
		root  string
		build func() ([]byte, error)
	}
	metrics := func(f func(r *otelstef.Metrics)) func() ([]byte, error) {
		return func() ([]byte, error) {
			buf := &pkg.MemChunkWriter{}
			w, err := otelstef.NewMetricsWriter(buf, pkg.WriterOptions{})
			if err != nil {
				return nil, err
			}
			f(&w.Record)
			if err := w.Write(); err != nil {
				return nil, err
			}
			if err := w.Flush(); err != nil {
				return nil, err
			}
			return buf.Bytes(), nil
		}
	}
	spans := func(f func(r *otelstef.Spans)) func() ([]byte, error) {
		return func() ([]byte, error) {
			buf := &pkg.MemChunkWriter{}
			w, err := otelstef.NewSpansWriter(buf, pkg.WriterOptions{})
			if err != nil {
				return nil, err
			}
			f(&w.Record)
			if err := w.Write(); err != nil {
				return nil, err
			}
			if err := w.Flush(); err != nil {
				return nil, err
			}
			return buf.Bytes(), nil
		}
	}
	cases := []bcase{
		{"exemplars", "Metrics", metrics(func(r *otelstef.Metrics) { r.Point().Exemplars().EnsureLen(n) })},
		{"quantiles", "Metrics", metrics(func(r *otelstef.Metrics) {
			r.Point().Value().SetType(otelstef.PointValueTypeSummary)
			r.Point().Value().Summary().QuantileValues().EnsureLen(n)
		})},
		{"anyvalue-array", "Metrics", metrics(func(r *otelstef.Metrics) {
			r.Attributes().EnsureLen(1)
			r.Attributes().SetKey(0, "k")
			r.Attributes().Value(0).SetType(otelstef.AnyValueTypeArray)
			r.Attributes().Value(0).Array().EnsureLen(n)
		})},
		{"events", "Spans", spans(func(r *otelstef.Spans) { r.Span().Events().EnsureLen(n) })},
		{"links", "Spans", spans(func(r *otelstef.Spans) { r.Span().Links().EnsureLen(n) })},
	}
	var ms runtime.MemStats
	for _, c := range cases {
		note("case ho-bigarray-%s", c.name)
		stream, err := c.build()
		if err != nil {
			note("note bigarray %s: writer refused: %v", c.name, err)
			continue
		}
		runtime.GC()
		var root *rootSpec
		for _, r := range roots {
			if r.name == c.root {
				root = r
			}
		}
		runtime.ReadMemStats(&ms)
		before := ms.TotalAlloc
		done := make(chan hostileResult, 1)
		go readHostile(root, stream, done)
		var res hostileResult
		select {
		case res = <-done:
		case <-time.After(20 * time.Second):
			res.class = "hang"
		}
		runtime.ReadMemStats(&ms)
		alloc := ms.TotalAlloc - before
		stats["bigarray-"+res.class]++
		note("nontrivial %x", fnv("bigarray", c.name))
		sample("big array %s: %d elements in a %d byte stream: reader class=%s records=%d allocated %d MiB", c.name, n, len(stream), res.class, res.records, alloc>>20)
		bound := uint64(pkg.RecordAllocLimit) + uint64(pkg.RecordAllocLimit)/4 + 8<<20
		switch {
		case res.class == "panic":
			propFail("C03 reader-panic-%s bigarray %s: %s", res.site, c.name, res.pan)
		case res.class == "hang":
			propFail("C03 reader-hang bigarray %s: no result after 20 s", c.name)
		case alloc > bound:
			propFail("C03 over-allocation-struct-array %s: one record with %d default elements (%d byte stream): the reader (class %s, %d records) allocated %d bytes, more than RecordAllocLimit (%d) + 25%% + 8 MiB: the elements of a struct array are not accounted before they are allocated", c.name, n, len(stream), res.class, res.records, alloc, pkg.RecordAllocLimit)
		}
	}
}
