package main

// Long streams: the per-record allocation budget of the reader (pkg.RecordAllocLimit, 32 MiB) is a
// budget PER RECORD. A valid stream in which every single record is small must be readable however
// many records it has and wherever its frames end: the budget must not accumulate over the records
// of a frame or over the life of a reader. The records alternate between a long and an empty array
// (the decoder accounts every growth from the current length, also when capacity is reused), so the
// sum of the accounted sizes passes the limit several times while no record comes near it.
// Direct oracle of the harness (the stream is megabytes of identical values; it is not replayed on
// the model).

import (
	"bytes"
	"fmt"

	"github.com/splunk/stef/go/otel/otelstef"
	"github.com/splunk/stef/go/pkg"

	"verif/harness/internal/rng"
)

type longSpec struct {
	name       string
	records    int
	arrayLen   int
	exemplars  bool // grow Point.Exemplars (struct elements) instead of the bucket counts
	flushEvery int  // 0: one Flush at the end
	compress   pkg.Compression
	tillEOF    bool // read with TillEndOfFrame
}

func longCount(i int) int64 { return int64(i*7 + 3) }

func runLongStream(prop string, sp longSpec) {
	note("case %s", sp.name)
	cw := &chunkLog{}
	buf := &cw.buf
	w, err := otelstef.NewMetricsWriter(cw, pkg.WriterOptions{Compression: sp.compress})
	if err != nil {
		propFail("%s long-stream-writer case=%s %v", prop, sp.name, err)
		return
	}
	lens := make([]int, sp.records)
	for i := 0; i < sp.records; i++ {
		n := 0
		if i%2 == 0 {
			n = sp.arrayLen - i%5
		}
		lens[i] = n
		w.Record.Metric().SetName("long.metric")
		w.Record.Point().SetTimestamp(uint64(1700000000000000000 + i))
		if sp.exemplars {
			w.Record.Point().Value().SetInt64(longCount(i))
			ex := w.Record.Point().Exemplars()
			ex.EnsureLen(n)
			if n > 0 {
				ex.At(n - 1).SetTimestamp(uint64(i))
			}
		} else {
			h := w.Record.Point().Value().Histogram()
			w.Record.Point().Value().SetType(otelstef.PointValueTypeHistogram)
			h.SetCount(longCount(i))
			h.BucketCounts().EnsureLen(n)
		}
		if err := w.Write(); err != nil {
			propFail("%s long-stream-write case=%s record %d: %v", prop, sp.name, i, err)
			return
		}
		if sp.flushEvery > 0 && (i+1)%sp.flushEvery == 0 {
			if err := w.Flush(); err != nil {
				propFail("%s long-stream-flush case=%s %v", prop, sp.name, err)
				return
			}
		}
	}
	if err := w.Flush(); err != nil {
		propFail("%s long-stream-flush case=%s %v", prop, sp.name, err)
		return
	}
	stats["long-stream-records"] += sp.records
	stats["long-stream-bytes"] += buf.Len()
	accounted := 0
	for _, n := range lens {
		accounted += n * 8
	}
	note("nontrivial %x", uint64(sp.records)<<20|uint64(sp.arrayLen))
	desc := fmt.Sprintf("case=%s records=%d (array length alternates %d / 0, the largest record accounts for well under 1 MiB, all records together for more than %d MiB) flushEvery=%d compression=%d tillEndOfFrame=%v streamBytes=%d",
		sp.name, sp.records, sp.arrayLen, accounted>>20, sp.flushEvery, sp.compress, sp.tillEOF, buf.Len())
	rd, err := otelstef.NewMetricsReader(bytes.NewReader(buf.Bytes()))
	if err != nil {
		propFail("%s long-stream-not-readable %s: NewMetricsReader: %v", prop, desc, err)
		return
	}
	opts := pkg.ReadOptions{TillEndOfFrame: sp.tillEOF}
	for i := 0; i < sp.records; i++ {
		err := rd.Read(opts)
		for tries := 0; err == pkg.ErrEndOfFrame && tries < 2; tries++ {
			err = rd.Read(pkg.ReadOptions{})
		}
		if err != nil {
			propFail("%s long-stream-not-readable %s: Read of record %d of a valid stream returned: %v", prop, desc, i, err)
			return
		}
		var got int
		var cnt int64
		if sp.exemplars {
			got, cnt = rd.Record.Point().Exemplars().Len(), rd.Record.Point().Value().Int64()
		} else {
			got, cnt = rd.Record.Point().Value().Histogram().BucketCounts().Len(), rd.Record.Point().Value().Histogram().Count()
		}
		if got != lens[i] || cnt != longCount(i) || rd.Record.Point().Timestamp() != uint64(1700000000000000000+i) {
			propFail("%s long-stream-record-changed %s: record %d read with array length %d count %d, written %d / %d", prop, desc, i, got, cnt, lens[i], longCount(i))
			return
		}
	}
}

func longStreamCases(prop string, r *rng.R) {
	specs := []longSpec{
		{"long-oneframe", 560 + r.Intn(40), 20000, false, 0, pkg.CompressionNone, false},
		{"long-frames", 560 + r.Intn(40), 20000, false, 50 + r.Intn(30), pkg.CompressionZstd, true},
	}
	if thorough {
		specs = append(specs,
			longSpec{"long-exemplars-oneframe", 4000, 200, true, 0, pkg.CompressionNone, true},
			longSpec{"long-exemplars-frames", 4000, 200, true, 100, pkg.CompressionZstd, false},
			longSpec{"long-oneframe-zstd", 1500, 20000, false, 0, pkg.CompressionZstd, true},
		)
	}
	for _, sp := range specs {
		runLongStream(prop, sp)
	}
	manyNamesFrameCase(prop)
}

// Dictionary strings of boundary lengths: whether a string enters the dictionary is a wire
// convention that encoder and decoder implement separately (longer than 1 byte: yes). A value of any
// length the format allows, followed by new and repeated values, must leave both sides with the same
// dictionary. Lengths around the varint and buffer-size boundaries, up to just over 1 MiB.
func dictStringLengthCases(prop string) {
	lens := []int{0, 1, 2, 3, 127, 128, 129, 16383, 16384, 16385, 65535, 65536, 65537, 1<<20 + 1}
	if thorough {
		lens = append(lens, 255, 256, 32767, 32768, 131071, 131072, 131073, 4<<20+3)
	}
	for ci, comp := range []pkg.Compression{pkg.CompressionNone, pkg.CompressionZstd} {
		for _, L := range lens {
			name := fmt.Sprintf("dictstr-len-%d-c%d", L, ci)
			note("case %s", name)
			long := make([]byte, L)
			for i := range long {
				long[i] = byte('a' + (i*7+L)%26)
			}
			S := string(long)
			names := []string{"first", S, "alpha", "beta", "alpha", "beta", "first", "gamma", S, "alpha", "delta", S + "x", "delta", "gamma"}
			cw := &chunkLog{}
			w, err := otelstef.NewSpansWriter(cw, pkg.WriterOptions{Compression: comp})
			if err != nil {
				propFail("%s dictstr-writer case=%s %v", prop, name, err)
				continue
			}
			bad := false
			for i, n := range names {
				w.Record.Span().SetName(n)
				w.Record.Span().SetStartTimeUnixNano(uint64(i))
				if err := w.Write(); err != nil {
					propFail("%s dictstr-write case=%s record %d: %v", prop, name, i, err)
					bad = true
					break
				}
				if i == 5 {
					w.Flush()
				}
			}
			if bad {
				continue
			}
			w.Flush()
			stats["dictstr-length-cases"]++
			note("nontrivial %x", uint64(L)<<1|uint64(ci))
			if prop == "C02" && comp == pkg.CompressionNone && L >= 16 {
				// the specification's rule, judged on the bytes (no reader, no model): a value that is in its
				// dictionary is written as a reference. S is written three times and S+x once: in an
				// uncompressed stream the bytes of S occur exactly twice (S itself, and as the front of S+x).
				if cnt := bytes.Count(cw.buf.Bytes(), long); cnt != 2 {
					propFail("C02 dict-value-written-again case=%s span names %s with S of %d bytes, no compression: the bytes of S occur %d times in the stream (2 expected: once as S, once as the front of S+x; a value that is in its dictionary is written as a reference)", name, descNames(names, L), L, cnt)
				}
				stats["dictstr-byte-count-checks"]++
			}
			rd, err := otelstef.NewSpansReader(bytes.NewReader(cw.buf.Bytes()))
			if err != nil {
				propFail("%s dictstr-not-readable case=%s %v", prop, name, err)
				continue
			}
			for i, n := range names {
				if err := rd.Read(pkg.ReadOptions{}); err != nil {
					propFail("%s dictstr-not-readable case=%s span names %s with S of %d bytes, compression=%d: Read of record %d returned %v", prop, name, descNames(names, L), L, comp, i, err)
					break
				}
				if got := rd.Record.Span().Name(); got != n || rd.Record.Span().StartTimeUnixNano() != uint64(i) {
					propFail("%s dictstr-value-changed case=%s span names %s with S of %d bytes, compression=%d: record %d read back as %s, written %s", prop, name, descNames(names, L), L, comp, i, descName(got, L), descName(n, L))
					break
				}
			}
		}
	}
}

func descName(s string, L int) string {
	if len(s) > 40 {
		return fmt.Sprintf("<%d bytes>", len(s))
	}
	return fmt.Sprintf("%q", s)
}

func descNames(ns []string, L int) string {
	out := ""
	for i, n := range ns {
		if i > 0 {
			out += ","
		}
		switch {
		case len(n) == L && L > 8:
			out += "S"
		case len(n) == L+1 && L > 8:
			out += "S+x"
		default:
			out += fmt.Sprintf("%q", n)
		}
	}
	return "[" + out + "]"
}

// Plain (non-dictionary) strings in bulk: the writer cuts frames by what its size limiter has been
// told; the reader refuses any frame above pkg.FrameSizeLimit (64 MiB). More than 64 MiB of plain
// string bodies between two Flush calls, every record far inside the documented limits, default
// options: the stream must read back (the writer must have cut frames on its own).
func bigPlainStringCases(prop string) {
	recs0 := 23
	if thorough {
		recs0 = 40
	}
	// the second configuration: small records (one 64 KiB string each) and a raised frame limit
	// (48 MiB, below the decoder's FrameSizeLimit), so that ONE column of ONE frame passes
	// RecordAllocLimit (32 MiB) while no record comes near it
	type cfg struct {
		recs, each int
		opts       pkg.WriterOptions
	}
	for ci, c := range []cfg{
		{recs0, 3 << 20, pkg.WriterOptions{Compression: pkg.CompressionNone}},
		{640, 64 << 10, pkg.WriterOptions{Compression: pkg.CompressionNone, MaxUncompressedFrameByteSize: 48 << 20}},
	} {
		recs, each := c.recs, c.each
		name := fmt.Sprintf("plain-strings-%dx%dKiB-c%d", recs, each>>10, ci)
		note("case %s", name)
		cw := &chunkLog{}
		w, err := otelstef.NewSpansWriter(cw, c.opts)
		if err != nil {
			propFail("%s plainstr-writer case=%s %v", prop, name, err)
			continue
		}
		body := make([]byte, each)
		ok := true
		for i := 0; i < recs && ok; i++ {
			for x := 0; x < len(body); x += 509 {
				body[x] = byte('a' + (i+x)%26)
			}
			body[0] = byte('A' + i%26)
			w.Record.Span().SetTraceState(string(body))
			w.Record.Span().SetStartTimeUnixNano(uint64(i))
			if err := w.Write(); err != nil {
				propFail("%s plainstr-write case=%s record %d: %v", prop, name, i, err)
				ok = false
			}
		}
		if !ok {
			continue
		}
		w.Flush()
		stats["plain-string-bytes"] += recs * each
		note("nontrivial %x", uint64(recs)<<8|uint64(ci))
		maxFrame := 0
		prev := 0
		for _, e := range cw.ends {
			if e-prev > maxFrame {
				maxFrame = e - prev
			}
			prev = e
		}
		rd, err := otelstef.NewSpansReader(bytes.NewReader(cw.buf.Bytes()))
		if err != nil {
			propFail("%s plainstr-not-readable case=%s %v", prop, name, err)
			continue
		}
		for i := 0; i < recs; i++ {
			if err := rd.Read(pkg.ReadOptions{}); err != nil {
				propFail("%s plainstr-not-readable case=%s %d records with a distinct %d KiB plain string each (TraceState), writer options %+v, one Flush at the end: the largest chunk the writer emitted has %d bytes; Read of record %d returned: %v", prop, name, recs, each>>10, c.opts, maxFrame, i, err)
				break
			}
			ts := rd.Record.Span().TraceState()
			if len(ts) != each || ts[0] != byte('A'+i%26) || rd.Record.Span().StartTimeUnixNano() != uint64(i) {
				propFail("%s plainstr-value-changed case=%s record %d read back with a %d byte string starting %q", prop, name, i, len(ts), ts[:1])
				break
			}
		}
	}
}

// One LARGE frame (legal raised writer limits) with many records that each add a little to the
// decoder's accounted allocations (a new metric name per record): the per-record budget must not turn
// into a per-frame budget. The stream is also cut right after the large frame and in the middle of the
// small frame that follows it: the reader must return exactly the records of the complete frames.
func manyNamesFrameCase(prop string) {
	n := 150000
	name := "many-names-one-frame"
	note("case %s", name)
	cw := &chunkLog{}
	w, err := otelstef.NewMetricsWriter(cw, pkg.WriterOptions{MaxUncompressedFrameByteSize: 48 << 20, MaxTotalDictSize: 1 << 30})
	if err != nil {
		propFail("%s many-names-writer %v", prop, err)
		return
	}
	write := func(from, to int) bool {
		for i := from; i < to; i++ {
			w.Record.Metric().SetName(fmt.Sprintf("metric.name.%07d", i))
			w.Record.Point().SetTimestamp(uint64(i))
			if err := w.Write(); err != nil {
				propFail("%s many-names-write record %d: %v", prop, i, err)
				return false
			}
		}
		return w.Flush() == nil
	}
	if !write(0, 5) || !write(5, 5+n) {
		return
	}
	endBig := cw.buf.Len()
	if !write(5+n, 10+n) {
		return
	}
	stats["many-names-records"] += n + 10
	note("nontrivial %x", uint64(n))
	all := cw.buf.Bytes()
	for _, cut := range []int{len(all), endBig, endBig + 7} {
		want := 10 + n
		if cut < len(all) {
			want = 5 + n
		}
		rd, err := otelstef.NewMetricsReader(bytes.NewReader(all[:cut]))
		if err != nil {
			propFail("%s many-names-not-readable NewMetricsReader: %v", prop, err)
			return
		}
		got := 0
		var rerr error
		for {
			if rerr = rd.Read(pkg.ReadOptions{}); rerr != nil {
				break
			}
			if rd.Record.Point().Timestamp() != uint64(got) {
				propFail("%s many-names-record-changed record %d read with timestamp %d", prop, got, rd.Record.Point().Timestamp())
				return
			}
			got++
		}
		if got != want {
			propFail("%s complete-frames-not-returned case=%s frames of 5 / %d / 5 records (one new metric name per record; writer limits raised to a 48 MiB frame and a 1 GiB dictionary), stream cut at %d of %d bytes: the reader returned %d records and then %v; the complete frames hold %d", prop, name, n, cut, len(all), got, rerr, want)
			return
		}
	}
}

// unchangedRunCase (C06): a very long run of records that do not differ from their predecessor (a
// few bits each), default options, ONE Flush at the end. The writer must have cut frames on its own
// (the reader refuses a frame above pkg.FrameSizeLimit, 64 MiB): after the Flush every record
// written must be readable. 92 million records are about 69 MB of frame content.
func unchangedRunCase(prop string) {
	n := 92_000_000
	name := "unchanged-run-92M"
	note("case %s", name)
	cw := &chunkLog{}
	w, err := otelstef.NewMetricsWriter(cw, pkg.WriterOptions{})
	if err != nil {
		propFail("%s unchanged-run-writer case=%s %v", prop, name, err)
		return
	}
	w.Record.Metric().SetName("m")
	w.Record.Point().SetTimestamp(1)
	for i := 0; i < n; i++ {
		if err := w.Write(); err != nil {
			propFail("%s unchanged-run-write case=%s record %d: %v", prop, name, i, err)
			return
		}
	}
	if err := w.Flush(); err != nil {
		propFail("%s unchanged-run-flush case=%s %v", prop, name, err)
		return
	}
	note("nontrivial %x", uint64(n))
	stats["unchanged-run-records"] += n
	maxFrame, prev := 0, 0
	for _, e := range cw.ends {
		if e-prev > maxFrame {
			maxFrame = e - prev
		}
		prev = e
	}
	stats["unchanged-run-largest-chunk"] = maxFrame
	rd, err := otelstef.NewMetricsReader(bytes.NewReader(cw.buf.Bytes()))
	if err != nil {
		propFail("%s unchanged-run-not-readable case=%s %v", prop, name, err)
		return
	}
	check := n
	if !thorough {
		check = 3_000_000 // the rest of the frames is read in the thorough tier
	}
	for i := 0; i < check; i++ {
		if err := rd.Read(pkg.ReadOptions{}); err != nil {
			propFail("%s unchanged-run-not-readable case=%s %d Metrics records equal to their predecessor, default writer options, one Flush at the end (the stream has %d bytes, the largest chunk the writer emitted %d): Read of record %d returned: %v", prop, name, n, cw.buf.Len(), maxFrame, i, err)
			return
		}
		if rd.Record.Metric().Name() != "m" || rd.Record.Point().Timestamp() != 1 {
			propFail("%s unchanged-run-value-changed case=%s record %d", prop, name, i)
			return
		}
	}
}

// arrayRegrowFrameCase: ONE small frame (about 2 MB) whose records make a struct array grow again
// and again (the point alternates between no exemplars and 2000): what the reader accounts for these
// growths adds up to far more than RecordAllocLimit over the frame, while no single record comes
// near it. Every record must be readable (the allocation budget is per record).
func arrayRegrowFrameCase(prop string) {
	name := "array-regrow-400x2000-exemplars"
	note("case %s", name)
	cw := &chunkLog{}
	w, err := otelstef.NewMetricsWriter(cw, pkg.WriterOptions{})
	if err != nil {
		propFail("%s array-regrow-writer case=%s %v", prop, name, err)
		return
	}
	const recs, big = 400, 2000
	w.Record.Metric().SetName("m")
	for i := 0; i < recs; i++ {
		ex := w.Record.Point().Exemplars()
		if i%2 == 1 {
			ex.EnsureLen(big)
			for k := 0; k < big; k += 97 {
				ex.At(k).SetTimestamp(uint64(i*big + k))
			}
		} else {
			ex.EnsureLen(0)
		}
		w.Record.Point().SetTimestamp(uint64(i))
		if err := w.Write(); err != nil {
			propFail("%s array-regrow-write case=%s record %d: %v", prop, name, i, err)
			return
		}
	}
	if err := w.Flush(); err != nil {
		propFail("%s array-regrow-flush case=%s %v", prop, name, err)
		return
	}
	note("nontrivial %x", uint64(recs*big))
	stats["array-regrow-stream-bytes"] = cw.buf.Len()
	rd, err := otelstef.NewMetricsReader(bytes.NewReader(cw.buf.Bytes()))
	if err != nil {
		propFail("%s array-regrow-not-readable case=%s %v", prop, name, err)
		return
	}
	for i := 0; i < recs; i++ {
		if err := rd.Read(pkg.ReadOptions{}); err != nil {
			propFail("%s array-regrow-not-readable case=%s %d Metrics records whose point alternates between 0 and %d exemplars, default options, one Flush (stream of %d bytes, %d chunks): Read of record %d returned: %v", prop, name, recs, big, cw.buf.Len(), len(cw.ends), i, err)
			return
		}
		want := 0
		if i%2 == 1 {
			want = big
		}
		if rd.Record.Point().Exemplars().Len() != want || rd.Record.Point().Timestamp() != uint64(i) {
			propFail("%s array-regrow-value-changed case=%s record %d has %d exemplars, want %d", prop, name, i, rd.Record.Point().Exemplars().Len(), want)
			return
		}
	}
}
