package main

import (
	"bytes"
	"fmt"
	"math"
	"reflect"

	"github.com/splunk/stef/go/otel/otelstef"
	"github.com/splunk/stef/go/pkg"

	"verif/harness/internal/recgen"
	"verif/harness/internal/rng"
)

// Known genuine defects of the generated record API, triggered deliberately. The "sd decode"
// op line of these cases is NOT printed; only the PROP-FAIL when the defect reproduces.

type kfScript struct {
	sig   string
	text  string
	opts  pkg.WriterOptions
	steps func(w *otelstef.MetricsWriter, write func())
}

// intended records what the user of the API asked for when the record itself cannot be
// trusted as the truth (a setter that silently drops the value).
var kfIntended string

var kfScripts = []kfScript{
	{"negzero-setter",
		"Point().Value().SetFloat64(+0); Write(); Point().Value().SetFloat64(-0); Write()", pkg.WriterOptions{},
		func(w *otelstef.MetricsWriter, write func()) {
			w.Record.Point().Value().SetFloat64(0)
			write()
			w.Record.Point().Value().SetFloat64(math.Copysign(0, -1))
			if b := math.Float64bits(w.Record.Point().Value().Float64()); b != 1<<63 {
				kfIntended = fmt.Sprintf("after SetFloat64(-0) the getter returns bits %x (the setter compares with != and drops the value); the reader then sees +0", b)
			}
			write()
		}},
	{"reveal-array-twice",
		"Exemplars().EnsureLen(2); At(1).SetTimestamp(7); Write(); Exemplars().EnsureLen(1); Exemplars().EnsureLen(2); Write()", pkg.WriterOptions{},
		func(w *otelstef.MetricsWriter, write func()) {
			ex := w.Record.Point().Exemplars()
			ex.EnsureLen(2)
			ex.At(1).SetTimestamp(7)
			write()
			ex.EnsureLen(1)
			ex.EnsureLen(2)
			write()
		}},
	{"reveal-oneof-twice",
		"Value().SetType(Histogram); Histogram().SetCount(5); Write(); Value().SetInt64(1); Value().SetType(Histogram); Write()", pkg.WriterOptions{},
		func(w *otelstef.MetricsWriter, write func()) {
			pv := w.Record.Point().Value()
			pv.SetType(otelstef.PointValueTypeHistogram)
			pv.Histogram().SetCount(5)
			write()
			pv.SetInt64(1)
			pv.SetType(otelstef.PointValueTypeHistogram)
			write()
		}},
	{"reveal-shared-twice",
		"A={url aa,dropped 7}.Freeze, B={bb,0}.Freeze, C={cc,0}.Freeze; SetResource(A); Write(); SetResource(B); SetResource(C); Write()", pkg.WriterOptions{},
		func(w *otelstef.MetricsWriter, write func()) {
			mk := func(url string, dropped uint64) *otelstef.Resource {
				r := otelstef.NewResource()
				r.SetSchemaURL(url)
				r.SetDroppedAttributesCount(dropped)
				r.Freeze()
				return r
			}
			a, b, c := mk("aa", 7), mk("bb", 0), mk("cc", 0)
			w.Record.SetResource(a)
			write()
			w.Record.SetResource(b)
			w.Record.SetResource(c)
			write()
		}},
	// Further genuine defects found by this harness (same family: "modified" marks are not
	// relative to the last encoded value).
	{"setter-clone-unlinked",
		"A=NewResource{Attributes().EnsureLen(1);SetKey(0,k)}.Freeze; SetResource(A); Write(); B=NewResource{SetSchemaURL(bb)} (not frozen); SetResource(B); Write()  -- SetResource clones the shared A without init(): the clone's Attributes have no parent link, CopyFrom(B) shrinks them without marking the Attributes field", pkg.WriterOptions{},
		func(w *otelstef.MetricsWriter, write func()) {
			a := otelstef.NewResource()
			a.Attributes().EnsureLen(1)
			a.Attributes().SetKey(0, "k")
			a.Freeze()
			w.Record.SetResource(a)
			write()
			b := otelstef.NewResource()
			b.SetSchemaURL("bb")
			w.Record.SetResource(b)
			write()
		}},
	{"copyfrom-over-shared",
		"A=NewResource{SetSchemaURL(ab);SetDroppedAttributesCount(1)}.Freeze; SetResource(A); Write(); Record.CopyFrom(NewMetrics()); Write()  -- copyMetrics replaces the shared A by a fresh zero Resource and copies with setters that compare against zero: nothing is marked", pkg.WriterOptions{},
		func(w *otelstef.MetricsWriter, write func()) {
			a := otelstef.NewResource()
			a.SetSchemaURL("ab")
			a.SetDroppedAttributesCount(1)
			a.Freeze()
			w.Record.SetResource(a)
			write()
			w.Record.CopyFrom(otelstef.NewMetrics())
			write()
		}},
	{"frozen-reencode-marks",
		"opts FrameRestartFlags=RestartDictionaries; A=NewResource{Attributes [k -> KVList[inner]]}.Freeze; B=NewResource{Attributes [k -> none]}.Freeze; SetResource(A); Write(); SetResource(B); Write(); SetResource(A); Write()  -- A is encoded in full a second time, its marks now come from computeDiff/setModifiedRecursively, which for a multimap does not mark keys/length: the KVList is written as 'values only, nothing changed'",
		pkg.WriterOptions{FrameRestartFlags: pkg.RestartDictionaries},
		func(w *otelstef.MetricsWriter, write func()) {
			a := otelstef.NewResource()
			a.Attributes().EnsureLen(1)
			a.Attributes().SetKey(0, "k")
			a.Attributes().Value(0).SetType(otelstef.AnyValueTypeKVList)
			a.Attributes().Value(0).KVList().EnsureLen(1)
			a.Attributes().Value(0).KVList().SetKey(0, "inner")
			a.Freeze()
			b := otelstef.NewResource()
			b.Attributes().EnsureLen(1)
			b.Attributes().SetKey(0, "k")
			b.Freeze()
			w.Record.SetResource(a)
			write()
			w.Record.SetResource(b)
			write()
			w.Record.SetResource(a)
			write()
		}},
	{"array-copyfrom-grown-unmarked",
		"Exemplars().EnsureLen(2); At(1).SetTimestamp(9); Write(); Exemplars().EnsureLen(0); Point().CopyFrom(P with 2 zero exemplars); Write()  -- copy<Array> fills the grown part with fresh elements copied by setters that compare against the initial value: nothing in element 1 is marked, the reader keeps timestamp 9", pkg.WriterOptions{},
		func(w *otelstef.MetricsWriter, write func()) {
			ex := w.Record.Point().Exemplars()
			ex.EnsureLen(2)
			ex.At(1).SetTimestamp(9)
			write()
			ex.EnsureLen(0)
			src := otelstef.NewPoint()
			src.Exemplars().EnsureLen(2)
			w.Record.Point().CopyFrom(src)
			write()
		}},
	{"regrow-hidden-elements-unlinked",
		"Attributes [k0, k1 -> KVList{n0,n1}, k2]; Write; EnsureLen(1); Write; EnsureLen(8) (past the capacity), pair 1 again a KVList{n0:x2,n1:y2}; Write; only KVList value n0 changes; Write  -- elements hidden by the shrink move with the reallocated backing array; if they are not re-linked, the nested list's values mark a dead tracker (regression script for a seeded change; the code is correct)", pkg.WriterOptions{},
		func(w *otelstef.MetricsWriter, write func()) {
			attrs := w.Record.Attributes()
			fill := func(x string) {
				attrs.SetKey(1, "k1")
				attrs.Value(1).SetType(otelstef.AnyValueTypeKVList)
				kv := attrs.Value(1).KVList()
				kv.EnsureLen(2)
				kv.SetKey(0, "n0")
				kv.Value(0).SetString("x" + x)
				kv.SetKey(1, "n1")
				kv.Value(1).SetString("y" + x)
			}
			attrs.EnsureLen(3)
			attrs.SetKey(0, "k0")
			attrs.Value(0).SetString("v0")
			fill("")
			attrs.SetKey(2, "k2")
			attrs.Value(2).SetString("v2")
			write()
			attrs.EnsureLen(1)
			write()
			attrs.EnsureLen(8)
			for i := 2; i < 8; i++ {
				attrs.SetKey(i, fmt.Sprintf("k%d", i))
				attrs.Value(i).SetString(fmt.Sprintf("v%d", i))
			}
			fill("2")
			write()
			attrs.Value(1).KVList().Value(0).SetString("x3")
			write()
		}},
	{"append-orphan-element",
		"e=NewExemplar{SetTimestamp(5)}; Point().Exemplars().Append(e); Write(); Point().Exemplars().At(0).SetTimestamp(6); Write()  -- Append stores the pointer without linking the element to the array's parent: later changes of the element never mark Point/Exemplars", pkg.WriterOptions{},
		func(w *otelstef.MetricsWriter, write func()) {
			e := otelstef.NewExemplar()
			e.SetTimestamp(5)
			w.Record.Point().Exemplars().Append(e)
			write()
			w.Record.Point().Exemplars().At(0).SetTimestamp(6)
			write()
		}},
}

func runKfDirect(k kfScript) bool {
	root := roots[0]
	name := "kf-" + k.sig
	note("case %s", name)
	cl := &chunkLog{}
	kfIntended = ""
	w, err := otelstef.NewMetricsWriter(cl, k.opts)
	if err != nil {
		note("note %s writer error %v", name, err)
		return false
	}
	var truths []string
	_, pan := safe(func() error {
		k.steps(w, func() {
			truths = append(truths, recgen.Dump(reflect.ValueOf(&w.Record), root.ty))
			if err := w.Write(); err != nil {
				panic(err)
			}
		})
		return w.Flush()
	})
	if pan != "" {
		propFail("C01 %s case=%s script panicked: %s", k.sig, name, pan)
		return true
	}
	if kfIntended != "" {
		propFail("C01 %s case=%s %s; reproduction on a fresh MetricsWriter: %s", k.sig, name, kfIntended, k.text)
		return true
	}
	rd, err := otelstef.NewMetricsReader(bytes.NewReader(cl.buf.Bytes()))
	if err != nil {
		propFail("C01 %s case=%s reader constructor: %v", k.sig, name, err)
		return true
	}
	for i, t := range truths {
		if err := rd.Read(pkg.ReadOptions{}); err != nil {
			propFail("C01 %s case=%s record %d: reader error %v; reproduction: %s", k.sig, name, i, err, k.text)
			return true
		}
		got := recgen.Dump(reflect.ValueOf(&rd.Record), root.ty)
		if got != t {
			propFail("C01 %s case=%s record %d differs at %s (written vs read); reproduction on a fresh MetricsWriter: %s", k.sig, name, i, recgen.DiffDumps(t, got, root.ty), k.text)
			return true
		}
	}
	return false
}

func runKnownFindings(r *rng.R) {
	for _, k := range kfScripts {
		reproduced := runKfDirect(k)
		stats["kf-direct-"+k.sig]++
		// random histories with only this defect enabled in the mutator
		n := scale(25)
		hits := 0
		for i := 0; i < n && hits < 2; i++ {
			cfg := &recgen.Cfg{NoBigLens: true}
			switch k.sig {
			case "negzero-setter":
				cfg.AllowNegZero = true
				cfg.NegZeroHeavy = true
			case "reveal-array-twice":
				cfg.AllowRevealArray = true
				cfg.ForceRevealArray = true
			case "reveal-oneof-twice":
				cfg.AllowRevealOneof = true
				cfg.ForceRevealOneof = true
			case "reveal-shared-twice":
				cfg.AllowRevealShared = true
				cfg.ForceRevealShared = true
			case "setter-clone-unlinked":
				cfg.AllowCloneUnlinked = true
				cfg.ForceCloneUnlinked = true
			case "copyfrom-over-shared":
				cfg.AllowCopyOverShared = true
			case "frozen-reencode-marks":
				cfg.AllowFrozenReencode = true
				cfg.DictResets = true
			case "append-orphan-element":
				cfg.AllowAppendStruct = true
			}
			o := wopts{}
			if cfg.DictResets {
				o.flags = pkg.RestartDictionaries
			}
			root := roots[i%2]
			name := fmt.Sprintf("kf-%s-r%d", k.sig, i)
			note("case %s", name)
			h, res := generate(r, root, o, cfg, genParams{writes: 4 + r.Intn(8), maxMut: 3})
			stats["kf-random-"+k.sig]++
			if len(h.gen.SetterDrops) > 0 && k.sig == "negzero-setter" {
				hits++
				reproduced = true
				sigCount[k.sig]++
				stats["propfail-"+k.sig]++
				propFail("C01 %s case=%s %d float Set calls were silently dropped (getter returns other bits than were set), first: %s", k.sig, name, len(h.gen.SetterDrops), h.gen.SetterDrops[0])
				continue
			}
			oc := checkRoundtrip(root, res)
			for _, f := range oc.fails {
				if f.sig == "roundtrip-mismatch" || f.sig == "modified-flag-missing" {
					hits++
					reproduced = true
					reportFailure(name, h, f, k.sig)
					break
				}
			}
		}
		stats["kf-random-hits-"+k.sig] += hits
		if !reproduced {
			note("note kf-%s did not reproduce", k.sig)
		}
	}
}
