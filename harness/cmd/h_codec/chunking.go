package main

import (
	"bytes"
	"fmt"
	"io"
	"reflect"
	"strings"
	"testing/iotest"

	"github.com/splunk/stef/go/pkg"

	"verif/harness/internal/recgen"
	"verif/harness/internal/rng"
)

// shortReader returns between 1 and max bytes per Read call, chosen by the PRNG. The first
// `protect` bytes are handed out in ONE call when the caller's buffer allows it (used to get
// past the header parsing, which is known to rely on single Read calls).
type shortReader struct {
	b       []byte
	pos     int
	r       *rng.R
	max     int
	protect int
	minRead int // smallest read handed out inside the header region
}

func (s *shortReader) Read(p []byte) (int, error) {
	if len(p) == 0 {
		return 0, nil
	}
	if s.pos >= len(s.b) {
		return 0, io.EOF
	}
	n := 1 + s.r.Intn(s.max)
	if s.pos < s.protect {
		n = s.protect - s.pos
	}
	if n > len(p) {
		n = len(p)
	}
	if n > len(s.b)-s.pos {
		n = len(s.b) - s.pos
	}
	copy(p, s.b[s.pos:s.pos+n])
	s.pos += n
	return n, nil
}

type outcome struct {
	n      int    // records
	sig    uint64 // hash of the dumps
	class  string // error class
	ctor   bool
	pan    string
	capped bool
}

func summarize(o readOutcome) outcome {
	return outcome{n: len(o.dumps), sig: fnv(o.dumps...), class: errClass(o.err), ctor: o.ctorErr, pan: o.pan, capped: o.capped}
}

// C07: the outcome of reading a stream must not depend on how the source splits it into
// Read calls.
func runChunkingMode() {
	r := rng.FromEnv(107)
	n := scale(70)
	for i := 0; i < n; i++ {
		root := roots[i%2]
		o := genOpts(r)
		cfg := &recgen.Cfg{NoBigLens: r.Chance(2, 3), MaxCalls: 15, NoFrozen: r.Bool(), DictResets: o.dictSize != 0 || o.flags&pkg.RestartDictionaries != 0}
		p := genParams{writes: 1 + r.Intn(12), maxMut: 2, flushProb: r.Intn(8)}
		name := fmt.Sprintf("ch-%d", i)
		note("case %s", name)
		o.stat()
		_, res := generate(r, root, o, cfg, p)
		if res.werr != "" {
			propFail("C07 writer-error case=%s %s", name, res.werr)
			continue
		}
		ps := parseStream(res.stream)
		if ps.err != nil || len(ps.frames) == 0 {
			propFail("C07 framing-parse case=%s err=%v", name, ps.err)
			continue
		}
		checkSplits(r, name, root, o.String(), res.stream, res.truths, ps.frames[0].end, ps.zstd)
		if !ps.zstd && len(ps.frames) > 1 && i%2 == 0 {
			// the same frames with TRAILING BYTES after the column data of every data frame (the
			// declared frame size covers them): the reader accepts such frames by design and skips
			// the tail when it moves to the next frame - under short reads too
			pad := []int{2, 37, 1, 700, 5000}[r.Intn(5)]
			padded := ps.padded(pad)
			pps := parseStream(padded)
			if pps.err == nil && pps.totalRecords() == len(res.truths) {
				stats["padded-frame-streams"]++
				checkSplits(r, name+"-pad"+fmt.Sprint(pad), root, o.String()+" tail="+fmt.Sprint(pad), padded, res.truths, pps.frames[0].end, false)
			} else {
				note("note case %s: padded stream not parsed by the harness parser: %v", name, pps.err)
			}
		}
		if i%3 == 1 {
			// the same stream with RESERVED BYTES after the two known bytes of the fixed header
			// content (a later format revision may add some; the reader skips them) - under every split
			extra := []int{1, 3, 6, 14, 40, 300}[r.Intn(6)]
			ext := ps.extendedHeader(res.stream, extra)
			eps := parseStream(ext)
			if eps.err == nil && eps.totalRecords() == len(res.truths) && len(eps.frames) > 0 {
				stats["extended-fixed-header-streams"]++
				checkSplits(r, name+"-hdr"+fmt.Sprint(extra), root, o.String()+" hdr-extra="+fmt.Sprint(extra), ext, res.truths, eps.frames[0].end, eps.zstd)
			} else {
				note("note case %s: extended-header stream not parsed by the harness parser: %v", name, eps.err)
			}
		}
		// every variant except dataerr splits the header region into several reads
		note("nontrivial %x", fnv(name, hx(res.stream)))
		if i%20 == 0 {
			sample("case=%s root=%s opts=%s bytes=%d records=%d headerRegion=%d", name, root.name, o, len(res.stream), len(res.truths), ps.frames[0].end)
		}
	}
	bigTailCases(r)
	overrunCases(r)
}

// stringLeafPaths lists the getter paths from the record to string fields that are reached through
// plain (non-dictionary, non-optional) struct fields only.
func stringLeafPaths(t *recgen.Type, prefix []string, depth int, out *[][]string) {
	if t == nil || t.Kind != recgen.KStruct || t.Def == nil || depth > 4 {
		return
	}
	for _, f := range t.Def.Fields {
		if f.Optional {
			continue
		}
		switch {
		case f.Type.Kind == recgen.KString && f.Type.Enum == "":
			*out = append(*out, append(append([]string(nil), prefix...), f.Name))
		case f.Type.Kind == recgen.KStruct && f.Type.Def != nil && f.Type.Def.Dict == "":
			stringLeafPaths(f.Type, append(append([]string(nil), prefix...), f.Name), depth+1, out)
		}
	}
}

// bigTailCases: streams in which ONE string field changes in every record and carries long
// values, everything else stays at its initial value: the field's column is large and - when the
// columns after it stay empty - it is the last data of the stream, read by one large ReadFull
// that ends exactly at the end of the source. The read-splitting variants (among them sources
// that return the last bytes together with io.EOF) must give the whole-buffer outcome.
func bigTailCases(r *rng.R) {
	for ri, root := range roots {
		var paths [][]string
		stringLeafPaths(root.ty, nil, 0, &paths)
		if len(paths) == 0 {
			note("note big-tail: no plain string leaf under %s", root.name)
			continue
		}
		picks := 3
		if thorough {
			picks = len(paths)
		}
		for k := 0; k < picks && k < len(paths); k++ {
			path := paths[(k*7+ri+int(r.Intn(len(paths))))%len(paths)]
			if thorough {
				path = paths[k]
			}
			for _, zstd := range []bool{false, true} {
				o := wopts{zstd: zstd}
				name := fmt.Sprintf("ch-bigtail-%s-%s-%v", root.name, strings.Join(path, "."), zstd)
				note("case %s", name)
				cl := &chunkLog{}
				w, err, pan := newWriterDet(root, cl, o, nil)
				if err != nil || pan != "" {
					propFail("C07 writer-error case=%s %v %s", name, err, pan)
					continue
				}
				var truths []string
				werr := ""
				nrec := 24 + r.Intn(12)
				for i := 0; i < nrec && werr == ""; i++ {
					_, pan := safe(func() error {
						v := w.Rec()
						for _, g := range path[:len(path)-1] {
							v = v.MethodByName(g).Call(nil)[0]
						}
						val := fmt.Sprintf("rec-%06d-", i) + strings.Repeat(string(rune('a'+i%26)), 5000+r.Intn(3000))
						v.MethodByName("Set" + path[len(path)-1]).Call([]reflect.Value{reflect.ValueOf(val)})
						return nil
					})
					if pan != "" {
						werr = pan
						break
					}
					truths = append(truths, recgen.Dump(w.Rec(), root.ty))
					if err, pan := safe(w.Write); err != nil || pan != "" {
						werr = fmt.Sprintf("%v%s", err, pan)
					}
				}
				if werr == "" {
					if err, pan := safe(w.Flush); err != nil || pan != "" {
						werr = fmt.Sprintf("%v%s", err, pan)
					}
				}
				if werr != "" {
					propFail("C07 writer-error case=%s %s", name, werr)
					continue
				}
				stream := append([]byte(nil), cl.buf.Bytes()...)
				ps := parseStream(stream)
				if ps.err != nil || len(ps.frames) == 0 {
					propFail("C07 framing-parse case=%s err=%v", name, ps.err)
					continue
				}
				stats["big-tail-streams"]++
				checkSplits(r, name, root, o.String()+" big-tail "+strings.Join(path, "."), stream, truths, ps.frames[0].end, ps.zstd)
				note("nontrivial %x", fnv(name))
			}
		}
	}
}

func trunc(b []byte, n int) []byte {
	if len(b) > n {
		return b[:n]
	}
	return b
}

// eagerEOFReader hands out up to max bytes per call (as many as the caller asks for when max is 0)
// and returns io.EOF TOGETHER with the last bytes, as an HTTP body with a known length or a
// decompressor may do.
type eagerEOFReader struct {
	b   []byte
	max int
}

func (e *eagerEOFReader) Read(p []byte) (int, error) {
	if len(e.b) == 0 {
		return 0, io.EOF
	}
	n := len(p)
	if e.max > 0 && n > e.max {
		n = e.max
	}
	n = copy(p[:n], e.b)
	e.b = e.b[n:]
	if len(e.b) == 0 {
		return n, io.EOF
	}
	return n, nil
}

// tillTrace reads the stream with frame-restricted reads (ReadOptions.TillEndOfFrame) wherever a
// frame is loaded and an unrestricted read after every ErrEndOfFrame; the trace records, per call,
// whether a record, ErrEndOfFrame or another error came back. It must not depend on the source.
func tillTrace(root *rootSpec, src io.Reader, maxCalls int) (trace string, pan string) {
	var sb strings.Builder
	_, pan = safe(func() error {
		rd, err := root.newReader(src)
		if err != nil {
			sb.WriteString("ctor:" + errClass(err))
			return nil
		}
		till := false
		for i := 0; i < maxCalls; i++ {
			err := rd.Read(pkg.ReadOptions{TillEndOfFrame: till})
			switch {
			case err == nil:
				sb.WriteByte('r')
				till = true
			case err == pkg.ErrEndOfFrame:
				sb.WriteByte('E')
				till = false
			default:
				sb.WriteString("|" + errClass(err))
				return nil
			}
		}
		sb.WriteString("|capped")
		return nil
	})
	return sb.String(), pan
}

// checkSplits reads the stream through sources that split it differently and compares every
// outcome with the whole-buffer read.
//
// Every run over an uncompressed stream is also replayed on the Lean model of the read path
// (chunkio.go: the Read calls the real reader makes on the source are logged and predicted).
func checkSplits(r *rng.R, name string, root *rootSpec, opts string, stream []byte, truths []string, hdrRegion int, zstd bool) {
	maxReads := len(truths) + 2
	tie := newRioTie(root, stream, stream, zstd, maxReads)
	wrec := &recSrc{src: bytes.NewReader(stream)}
	wro := readAll(root, wrec, maxReads)
	tie.emit("whole", wrec, wro)
	whole := summarize(wro)
	if whole.n != len(truths) || whole.class != "eof" || whole.sig != fnv(truths...) {
		propFail("C07 baseline-mismatch case=%s whole-buffer read gave %d records then %s (want %d, eof), dumps equal to the written records: %v", name, whole.n, whole.class, len(truths), whole.sig == fnv(truths...))
		return
	}
	stats["streams"]++
	stats["stream-bytes"] += len(stream)
	type variant struct {
		name      string
		src       io.Reader
		protected bool
	}
	mk := func(protect int, max int) io.Reader {
		return &shortReader{b: stream, r: rng.New(r.U64()), max: max, protect: protect}
	}
	vs := []variant{
		{"onebyte", iotest.OneByteReader(bytes.NewReader(stream)), false},
		{"half", iotest.HalfReader(bytes.NewReader(stream)), false},
		{"dataerr", iotest.DataErrReader(bytes.NewReader(stream)), false},
		{"short3", mk(0, 3), false},
		{"short40", mk(0, 40), false},
		{"hdr+onebyte", mk(hdrRegion, 1), true},
		{"hdr+short7", mk(hdrRegion, 7), true},
		{"hdr+short300", mk(hdrRegion, 300), true},
		{"hdr+dataerr", iotest.DataErrReader(mk(hdrRegion, 50)), true},
		{"full+eof", &eagerEOFReader{b: stream}, false},
		{"64k+eof", &eagerEOFReader{b: stream, max: 64 << 10}, false},
		{"5000+eof", &eagerEOFReader{b: stream, max: 5000}, false},
		{"zero-lazy", &zeroReader{b: stream, r: rng.New(r.U64()), max: 50, maxRun: 3}, false},
		{"zero-eager", &zeroReader{b: stream, r: rng.New(r.U64()), max: 70000, maxRun: 2, eager: true}, false},
	}
	// frame-restricted reads: the same call sequence must see the same frame boundaries
	wantTill, _ := tillTrace(root, bytes.NewReader(stream), 3*maxReads+8)
	for _, tv := range []struct {
		name string
		src  io.Reader
	}{
		{"onebyte", iotest.OneByteReader(bytes.NewReader(stream))},
		{"half", iotest.HalfReader(bytes.NewReader(stream))},
		{"short40", mk(0, 40)},
		{"full+eof", &eagerEOFReader{b: stream}},
	} {
		got, pan := tillTrace(root, tv.src, 3*maxReads+8)
		stats["till-variant-"+tv.name]++
		if got != wantTill || pan != "" {
			sigCount["till-end-of-frame-depends-on-split"]++
			if sigCount["till-end-of-frame-depends-on-split"] <= maxReportsPerSig {
				propFail("C07 till-end-of-frame-depends-on-split case=%s root=%s opts=%s variant=%s: frame-restricted reads on the whole buffer: %s; on this source: %s (panic %q); r = record, E = ErrEndOfFrame; stream=%s",
					name, root.name, opts, tv.name, wantTill, got, pan, hx(trunc(stream, 400)))
			}
		}
	}
	reported := map[string]bool{}
	for _, v := range vs {
		rec := &recSrc{src: v.src}
		ro := readAll(root, rec, maxReads)
		tie.emit(v.name, rec, ro)
		got := summarize(ro)
		stats["variant-"+v.name]++
		if got.pan == "" && got.n == whole.n && got.sig == whole.sig && got.class == whole.class && !got.capped {
			stats["variant-same-"+v.name]++
			continue
		}
		sig := "short-read-frames"
		switch {
		case got.pan != "":
			sig = "short-read-panic"
		case got.ctor && !v.protected:
			sig = "short-read-headers"
		case got.n < whole.n && got.class == "eof":
			sig = "short-read-early-eof"
		}
		stats["diff-"+sig+"-"+v.name]++
		if reported[sig] {
			continue
		}
		reported[sig] = true
		sigCount[sig]++
		if sigCount[sig] > maxReportsPerSig {
			propFail("C07 %s case=%s variant=%s (details suppressed)", sig, name, v.name)
			continue
		}
		propFail("C07 %s case=%s root=%s opts=%s variant=%s: whole-buffer read: %d records then %s; this source: %d records then %s (constructor failed: %v, panic: %q); stream=%s",
			sig, name, root.name, opts, v.name, whole.n, whole.class, got.n, got.class, got.ctor, got.pan, hx(trunc(stream, 400)))
	}
	checkFailing(name, root, opts, stream, truths, tie)
	if len(stream) <= 16<<10 {
		checkStall(r, name, root, opts, stream, truths, tie)
	}
	checkCutSplits(r, name, root, opts, stream, zstd, maxReads)
}
