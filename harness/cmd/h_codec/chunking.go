package main

import (
	"bytes"
	"fmt"
	"io"
	"testing/iotest"

	"github.com/splunk/stef/go/pkg"

	"verif/harness/internal/recgen"
	"verif/harness/internal/rng"
)

// shortReader returns between 1 and max bytes per Read call, chosen by the PRNG. The first
// `protect` bytes are handed out in ONE call when the caller's buffer allows it (used to get
// past the header parsing, which is known to rely on single Read calls).
type shortReader struct {
	b       []byte
	pos     int
	r       *rng.R
	max     int
	protect int
	minRead int // smallest read handed out inside the header region
}

func (s *shortReader) Read(p []byte) (int, error) {
	if len(p) == 0 {
		return 0, nil
	}
	if s.pos >= len(s.b) {
		return 0, io.EOF
	}
	n := 1 + s.r.Intn(s.max)
	if s.pos < s.protect {
		n = s.protect - s.pos
	}
	if n > len(p) {
		n = len(p)
	}
	if n > len(s.b)-s.pos {
		n = len(s.b) - s.pos
	}
	copy(p, s.b[s.pos:s.pos+n])
	s.pos += n
	return n, nil
}

type outcome struct {
	n      int    // records
	sig    uint64 // hash of the dumps
	class  string // error class
	ctor   bool
	pan    string
	capped bool
}

func summarize(o readOutcome) outcome {
	return outcome{n: len(o.dumps), sig: fnv(o.dumps...), class: errClass(o.err), ctor: o.ctorErr, pan: o.pan, capped: o.capped}
}

// C07: the outcome of reading a stream must not depend on how the source splits it into
// Read calls.
func runChunkingMode() {
	r := rng.FromEnv(107)
	n := scale(70)
	for i := 0; i < n; i++ {
		root := roots[i%2]
		o := genOpts(r)
		cfg := &recgen.Cfg{NoBigLens: r.Chance(2, 3), MaxCalls: 15, NoFrozen: r.Bool(), DictResets: o.dictSize != 0 || o.flags&pkg.RestartDictionaries != 0}
		p := genParams{writes: 1 + r.Intn(12), maxMut: 2, flushProb: r.Intn(8)}
		name := fmt.Sprintf("ch-%d", i)
		note("case %s", name)
		o.stat()
		_, res := generate(r, root, o, cfg, p)
		if res.werr != "" {
			propFail("C07 writer-error case=%s %s", name, res.werr)
			continue
		}
		ps := parseStream(res.stream)
		if ps.err != nil || len(ps.frames) == 0 {
			propFail("C07 framing-parse case=%s err=%v", name, ps.err)
			continue
		}
		hdrRegion := ps.frames[0].end // fixed header + var header frame
		maxReads := len(res.truths) + 2
		whole := summarize(readAll(root, bytes.NewReader(res.stream), maxReads))
		if whole.n != len(res.truths) || whole.class != "eof" || whole.sig != fnv(res.truths...) {
			propFail("C07 baseline-mismatch case=%s whole-buffer read gave %d records then %s (want %d, eof), dumps equal to the written records: %v", name, whole.n, whole.class, len(res.truths), whole.sig == fnv(res.truths...))
			continue
		}
		stats["streams"]++
		stats["stream-bytes"] += len(res.stream)
		type variant struct {
			name      string
			src       io.Reader
			protected bool
		}
		mk := func(protect int, max int) io.Reader {
			return &shortReader{b: res.stream, r: rng.New(r.U64()), max: max, protect: protect}
		}
		vs := []variant{
			{"onebyte", iotest.OneByteReader(bytes.NewReader(res.stream)), false},
			{"half", iotest.HalfReader(bytes.NewReader(res.stream)), false},
			{"dataerr", iotest.DataErrReader(bytes.NewReader(res.stream)), false},
			{"short3", mk(0, 3), false},
			{"short40", mk(0, 40), false},
			{"hdr+onebyte", mk(hdrRegion, 1), true},
			{"hdr+short7", mk(hdrRegion, 7), true},
			{"hdr+short300", mk(hdrRegion, 300), true},
			{"hdr+dataerr", iotest.DataErrReader(mk(hdrRegion, 50)), true},
		}
		reported := map[string]bool{}
		for _, v := range vs {
			got := summarize(readAll(root, v.src, maxReads))
			stats["variant-"+v.name]++
			if got.pan == "" && got.n == whole.n && got.sig == whole.sig && got.class == whole.class && !got.capped {
				stats["variant-same-"+v.name]++
				continue
			}
			sig := "short-read-frames"
			switch {
			case got.pan != "":
				sig = "short-read-panic"
			case got.ctor && !v.protected:
				sig = "short-read-headers"
			case got.n < whole.n && got.class == "eof":
				sig = "short-read-early-eof"
			}
			stats["diff-"+sig+"-"+v.name]++
			if reported[sig] {
				continue
			}
			reported[sig] = true
			sigCount[sig]++
			if sigCount[sig] > maxReportsPerSig {
				propFail("C07 %s case=%s variant=%s (details suppressed)", sig, name, v.name)
				continue
			}
			propFail("C07 %s case=%s root=%s opts=%s variant=%s: whole-buffer read: %d records then %s; this source: %d records then %s (constructor failed: %v, panic: %q); stream=%s",
				sig, name, root.name, o, v.name, whole.n, whole.class, got.n, got.class, got.ctor, got.pan, hx(trunc(res.stream, 400)))
		}
		// every variant except dataerr splits the header region into several reads
		note("nontrivial %x", fnv(name, hx(res.stream)))
		if i%20 == 0 {
			sample("case=%s root=%s opts=%s bytes=%d records=%d headerRegion=%d", name, root.name, o, len(res.stream), len(res.truths), hdrRegion)
		}
	}
}

func trunc(b []byte, n int) []byte {
	if len(b) > n {
		return b[:n]
	}
	return b
}
