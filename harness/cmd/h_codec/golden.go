package main

import (
	"bufio"
	"bytes"
	"encoding/hex"
	"fmt"
	"os"
	"path/filepath"
	"sort"
	"strings"

	"github.com/splunk/stef/go/pkg"

	"verif/harness/internal/recgen"
)

// golden mode (C02): streams recorded from the PINNED commit of the library are kept in
// /verif/corpus/C02/*.golden as lines "<Root>\t<hex stream>\t<expected decode line>". The current
// reader must decode each to the recorded records (PROP-FAIL C02 golden-mismatch otherwise), and
// the same stream is handed to the Lean specification decoder as an op line.
func runGoldenMode() {
	// a valid stream keeps decoding with the current reader whatever its records allocate in total
	defer arrayRegrowFrameCase("C02")
	// a dictionary value of any length is admitted by the writer exactly when the specification says so
	defer dictStringLengthCases("C02")
	dir := os.Getenv("VERIF_GOLDEN_DIR")
	if dir == "" {
		dir = "/verif/corpus/C02"
	}
	files, _ := filepath.Glob(filepath.Join(dir, "*.golden"))
	sort.Strings(files)
	printSchemaLine()
	n := 0
	for _, fn := range files {
		f, err := os.Open(fn)
		if err != nil {
			continue
		}
		sc := bufio.NewScanner(f)
		sc.Buffer(make([]byte, 1<<20), 64<<20)
		ln := 0
		for sc.Scan() {
			ln++
			parts := strings.Split(sc.Text(), "\t")
			if len(parts) != 3 {
				continue
			}
			rootName, hexStream, expected := parts[0], parts[1], parts[2]
			var root *rootSpec
			for _, r := range roots {
				if r.name == rootName {
					root = r
				}
			}
			stream, err := hex.DecodeString(hexStream)
			if root == nil || err != nil {
				continue
			}
			name := fmt.Sprintf("golden-%s-%d", filepath.Base(fn), ln)
			note("case %s", name)
			n++
			emit(fmt.Sprintf("sd decode %s %s %s", schemaID, rootName, hexStream), expected)
			emitReencode(rootName, hexStream)
			// expected = "OK dv=0|<m>:<dump>|...|END"
			fields := strings.Split(expected, "|")
			var want []string
			for _, fl := range fields[1:] {
				if fl == "END" {
					break
				}
				if i := strings.Index(fl, ":"); i >= 0 {
					want = append(want, fl[i+1:])
				}
			}
			func() {
				defer func() {
					if e := recover(); e != nil {
						propFail("C02 golden-reader-panic case=%s %v", name, e)
					}
				}()
				rd, err := root.newReader(bytes.NewReader(stream))
				if err != nil {
					propFail("C02 golden-mismatch case=%s reader constructor failed: %v", name, err)
					return
				}
				for i, w := range want {
					if err := rd.Read(pkg.ReadOptions{}); err != nil {
						propFail("C02 golden-mismatch case=%s record %d of %d: error %v", name, i, len(want), err)
						return
					}
					got := recgen.Dump(rd.Rec(), root.ty)
					if got != w {
						propFail("C02 golden-mismatch case=%s record %d differs at %s (recorded vs read now)", name, i, recgen.DiffDumps(w, got, root.ty))
						return
					}
				}
				if err := rd.Read(pkg.ReadOptions{}); err == nil {
					propFail("C02 golden-mismatch case=%s reader returned more records than were recorded", name)
				}
			}()
			if len(want) >= 2 {
				note("nontrivial %x", fnv(hexStream))
			}
		}
		f.Close()
	}
	stats["golden-streams"] = n
}
