package main

import (
	"fmt"
	"io"
	"strings"

	"github.com/splunk/stef/go/pkg"

	"verif/harness/internal/recgen"
	"verif/harness/internal/rng"
)

// growSrc is an io.Reader over a growing buffer: it counts Read calls and returns io.EOF
// (and no data) when drained; more data may be appended later.
type growSrc struct {
	buf   []byte
	pos   int
	reads int
	eofs  int
}

func (s *growSrc) Read(p []byte) (int, error) {
	s.reads++
	if s.pos >= len(s.buf) {
		s.eofs++
		return 0, io.EOF
	}
	n := copy(p, s.buf[s.pos:])
	s.pos += n
	return n, nil
}

// C06: after Flush every record written so far is readable; a TillEndOfFrame read never
// touches the source and returns only records of the loaded frame, then ErrEndOfFrame;
// after io.EOF at a frame boundary, appended frames can be read by the same reader.
func runFlushMode() {
	r := rng.FromEnv(106)
	n := scale(120)
	for i := 0; i < n; i++ {
		root := roots[i%2]
		o := genOpts(r)
		if r.Chance(1, 2) {
			o.frameSize = []uint{0, 50, 200}[r.Intn(3)]
		}
		cfg := &recgen.Cfg{NoBigLens: r.Chance(3, 4), MaxCalls: 12, NoFrozen: r.Bool(), DictResets: o.dictSize != 0 || o.flags&pkg.RestartDictionaries != 0}
		name := fmt.Sprintf("fl-%d", i)
		note("case %s", name)
		o.stat()
		flushCase(r, name, root, o, cfg)
	}
	// C06: whether flushed records can be read must not depend on where the Flush calls fall
	longStreamCases("C06", rng.FromEnv(112))
	convertFrameCases(rng.FromEnv(113))
	unchangedRunCase("C06")
}

func flushCase(r *rng.R, name string, root *rootSpec, o wopts, cfg *recgen.Cfg) {
	src := &growSrc{}
	var frameEndRec []int // for each data frame delivered to the source: total records after it
	started := 0          // Write calls started
	chunks := 0
	cw := &chunkLog{}
	cw.onChunk = func(n int) {
		// the chunk is a complete frame (or the fixed header): deliver it atomically
		end := cw.ends[n]
		st := 0
		if n > 0 {
			st = cw.ends[n-1]
		}
		src.buf = append(src.buf, cw.buf.Bytes()[st:end]...)
		chunks++
		if chunks > 2 { // chunk 0: fixed header, chunk 1: var header frame
			frameEndRec = append(frameEndRec, started)
		}
	}
	var trace []string
	tr := func(f string, a ...any) {
		if len(trace) < 400 {
			trace = append(trace, fmt.Sprintf(f, a...))
		}
	}
	failed := false
	fail := func(sig, f string, a ...any) {
		if !failed {
			failed = true
			t := trace
			if len(t) > 60 {
				t = t[len(t)-60:]
			}
			propFail("C06 %s case=%s root=%s opts=%s: %s; ops(last %d)=[%s]", sig, name, root.name, o, fmt.Sprintf(f, a...), len(t), strings.Join(t, " "))
		}
	}
	w, err, pan := newWriterDet(root, cw, o, func() {
		src.buf, chunks, frameEndRec = nil, 0, nil
	})
	if err != nil || pan != "" {
		fail("writer-error", "NewWriter: %v %s", err, pan)
		return
	}
	var rd recReader
	err, pan = safe(func() error {
		var e error
		rd, e = root.newReader(src)
		return e
	})
	if err != nil || pan != "" {
		fail("reader-error", "NewReader over header-only source: %v %s", err, pan)
		return
	}
	st := recgen.NewState(cfg, w.Rec(), root.openReader)
	var truths []string
	read := 0       // records read so far
	sawEOF := false // the reader has returned io.EOF at least once (resume is being tested)
	gotEOFrame := false
	resumed := false
	avail := func() int {
		if len(frameEndRec) == 0 {
			return 0
		}
		return frameEndRec[len(frameEndRec)-1]
	}
	// records remaining in the frame the reader has loaded (the frame holding record read-1)
	loadedRemaining := func() int {
		if read == 0 {
			return 0
		}
		for _, e := range frameEndRec {
			if e >= read {
				return e - read
			}
		}
		return 0
	}
	doRead := func(till bool) (stop bool) {
		before := src.reads
		var rerr error
		_, pan := safe(func() error {
			rerr = rd.Read(pkg.ReadOptions{TillEndOfFrame: till})
			return nil
		})
		if pan != "" {
			fail("reader-panic", "Read(till=%v) panicked: %s", till, pan)
			return true
		}
		touched := src.reads - before
		if till {
			stats["op-read-till"]++
			if touched != 0 {
				fail("source-access-in-frame-read", "Read(TillEndOfFrame) called source.Read %d times (records read so far %d)", touched, read)
				return true
			}
			rem := loadedRemaining()
			switch {
			case rerr == nil:
				if rem == 0 {
					fail("frame-read-crossed-frame", "Read(TillEndOfFrame) returned a record although the loaded frame was exhausted (read=%d)", read)
					return true
				}
			case rerr == pkg.ErrEndOfFrame:
				tr("T:eof-frame")
				gotEOFrame = true
				stats["till-end-of-frame"]++
				if rem != 0 {
					fail("frame-read-missing-record", "Read(TillEndOfFrame) returned ErrEndOfFrame but the loaded frame still holds %d records (read=%d)", rem, read)
				}
				return true
			default:
				fail("frame-read-error", "Read(TillEndOfFrame) returned %v", rerr)
				return true
			}
		} else {
			stats["op-read"]++
			switch {
			case rerr == nil:
				if read >= avail() {
					fail("read-beyond-flushed", "Read returned record %d but only %d records are in delivered frames", read, avail())
					return true
				}
				if sawEOF {
					resumed = true
				}
			case rerr == io.EOF:
				tr("R:eof")
				stats["read-eof"]++
				if read < avail() {
					sig := "flushed-record-unreadable"
					if sawEOF {
						sig = "resume-failed"
					}
					fail(sig, "Read returned io.EOF after %d records although %d records are in delivered frames", read, avail())
				}
				sawEOF = true
				return true
			default:
				sig := "read-error"
				if sawEOF {
					sig = "resume-failed"
				}
				fail(sig, "Read returned %q after %d records (%d delivered)", rerr.Error(), read, avail())
				return true
			}
		}
		// a record was returned
		got := recgen.Dump(rd.Rec(), root.ty)
		if got != truths[read] {
			fail("record-mismatch", "record %d differs at %s", read, recgen.DiffDumps(truths[read], got, root.ty))
			return true
		}
		if till {
			tr("T:rec%d", read)
			stats["till-records"]++
		} else {
			tr("R:rec%d", read)
		}
		read++
		return false
	}
	steps := 20 + r.Intn(60)
	for s := 0; s < steps && !failed; s++ {
		switch x := r.Intn(10); {
		case x < 4: // Write
			for j := r.Intn(3); j > 0; j-- {
				recgen.Mutate(r, w.Rec(), root.ty, st)
			}
			truths = append(truths, recgen.Dump(w.Rec(), root.ty))
			started++
			if err, pan := safe(w.Write); err != nil || pan != "" {
				fail("writer-error", "Write: %v %s", err, pan)
			}
			st.NextWrite()
			tr("W%d", len(truths)-1)
			stats["op-write"]++
		case x < 6: // Flush: afterwards everything written so far must be readable
			if err, pan := safe(w.Flush); err != nil || pan != "" {
				fail("writer-error", "Flush: %v %s", err, pan)
				break
			}
			tr("F")
			stats["op-flush"]++
			if avail() != len(truths) && len(truths) > 0 {
				fail("flush-incomplete", "after Flush %d of %d records are in delivered frames", avail(), len(truths))
			}
			if r.Chance(1, 2) {
				for !doRead(false) {
				}
				if !failed && read != len(truths) {
					fail("flushed-record-unreadable", "after Flush only %d of %d records could be read", read, len(truths))
				}
			}
		case x < 8: // unrestricted reads
			k := 1 + r.Intn(4)
			for j := 0; j < k; j++ {
				if doRead(false) {
					break
				}
			}
		default: // TillEndOfFrame reads
			for !doRead(true) {
			}
		}
	}
	if !failed {
		// final: flush and drain
		if err, pan := safe(w.Flush); err != nil || pan != "" {
			fail("writer-error", "Flush: %v %s", err, pan)
		}
		for !failed && !doRead(false) {
		}
		if !failed && read != len(truths) {
			fail("flushed-record-unreadable", "at the end only %d of %d records could be read", read, len(truths))
		}
	}
	stats["records"] += len(truths)
	stats["source-read-calls"] += src.reads
	if resumed {
		stats["cases-with-resume-after-eof"]++
		if o.zstd {
			stats["cases-with-resume-after-eof-zstd"]++
		}
	}
	if gotEOFrame && !failed {
		note("nontrivial %x", fnv(name, strings.Join(trace, " ")))
	}
	if !failed && stats["cases-ok"]%40 == 0 {
		t := trace
		if len(t) > 40 {
			t = t[:40]
		}
		sample("case=%s root=%s opts=%s ops=[%s ...]", name, root.name, o, strings.Join(t, " "))
	}
	if !failed {
		stats["cases-ok"]++
	}
	for k, v := range st.Stats {
		stats["mut-"+k] += v
	}
}
