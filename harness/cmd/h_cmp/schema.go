package main

// The types of go/otel/otelstef as the harness sees them: a transcription of go/otel/otel.stef
// (field order matters: it is the comparison order) plus, per type, the Go type and the exported
// Cmp<Type> function (package-level functions are not reachable by reflection). Everything else
// (setters, getters, IsEqual, CopyFrom, Clone, Freeze) is called by name through reflection, so a
// schema/code mismatch crashes the harness instead of being papered over.

import (
	"fmt"
	"reflect"
	"strings"

	"github.com/splunk/stef/go/otel/otelstef"
)

type kind int

const (
	kU64 kind = iota
	kI64
	kBool
	kF64
	kStr
	kBytes
	kStruct
	kOneof
	kArr
	kMap
)

type ty struct {
	kind     kind
	name     string // Go type name of a composite
	dict     bool   // dictionary struct: stored by pointer, has Freeze, may be shared
	fields   []fld  // struct fields / oneof alternatives
	elem     *ty    // array element
	key      *ty    // multimap
	val      *ty
	rt       reflect.Type  // the Go struct type (not the pointer)
	cmp      reflect.Value // Cmp<Type>
	hasF64   bool          // a float64 leaf is reachable
	hasOpt   bool          // struct with optional fields
	reachOpt bool          // an optional field is reachable through mutable getters (not through a dictionary struct)
}

type fld struct {
	name string
	t    *ty
	opt  bool
}

func (t *ty) prim() bool { return t.kind <= kBytes }

var prims = map[string]*ty{
	"u64": {kind: kU64}, "i64": {kind: kI64}, "bool": {kind: kBool}, "f64": {kind: kF64, hasF64: true},
	"str": {kind: kStr}, "bytes": {kind: kBytes},
}

var types = map[string]*ty{}
var typeOrder []string

// the schema, one definition per line:
//
//	struct Name [dict] : Field type[?] , ...     (? = optional)
//	oneof Name : Alt type , ...
//	multimap Name : keytype valuetype
//
// type = u64|i64|bool|f64|str|bytes|Name|[]type ; enums are u64.
const schemaText = `
multimap Attributes : str AnyValue
oneof AnyValue : String str, Bool bool, Int64 i64, Float64 f64, Array []AnyValue, KVList KeyValueList, Bytes bytes
multimap KeyValueList : str AnyValue
struct Resource dict : SchemaURL str, Attributes Attributes, DroppedAttributesCount u64
struct Scope dict : Name str, Version str, SchemaURL str, Attributes Attributes, DroppedAttributesCount u64
struct Envelope : Attributes EnvelopeAttributes
multimap EnvelopeAttributes : str bytes
struct Metrics : Envelope Envelope, Metric Metric, Resource Resource, Scope Scope, Attributes Attributes, Point Point
struct Metric dict : Name str, Description str, Unit str, Type u64, Metadata Attributes, HistogramBounds []f64, AggregationTemporality u64, Monotonic bool
struct Point : StartTimestamp u64, Timestamp u64, Value PointValue, Exemplars []Exemplar
oneof PointValue : Int64 i64, Float64 f64, Histogram HistogramValue, ExpHistogram ExpHistogramValue, Summary SummaryValue
struct HistogramValue : Count i64, Sum f64?, Min f64?, Max f64?, BucketCounts []u64
struct ExpHistogramValue : Count u64, Sum f64?, Min f64?, Max f64?, Scale i64, ZeroCount u64, PositiveBuckets ExpHistogramBuckets, NegativeBuckets ExpHistogramBuckets, ZeroThreshold f64
struct ExpHistogramBuckets : Offset i64, BucketCounts []u64
struct SummaryValue : Count u64, Sum f64, QuantileValues []QuantileValue
struct QuantileValue : Quantile f64, Value f64
struct Exemplar : Timestamp u64, Value ExemplarValue, SpanID bytes, TraceID bytes, FilteredAttributes Attributes
oneof ExemplarValue : Int64 i64, Float64 f64
struct Spans : Envelope Envelope, Resource Resource, Scope Scope, Span Span
struct Span : TraceID bytes, SpanID bytes, TraceState str, ParentSpanID bytes, Flags u64, Name str, Kind u64, StartTimeUnixNano u64, EndTimeUnixNano u64, Attributes Attributes, DroppedAttributesCount u64, Events []Event, Links []Link, Status SpanStatus
struct Link : TraceID bytes, SpanID bytes, TraceState str, Flags u64, Attributes Attributes, DroppedAttributesCount u64
struct Event : Name str, TimeUnixNano u64, Attributes Attributes, DroppedAttributesCount u64
struct SpanStatus : Message str, Code u64
`

// Go types and Cmp functions. Arrays are registered under their generated names.
func registry() map[string][2]any {
	return map[string][2]any{
		"Attributes":          {(*otelstef.Attributes)(nil), otelstef.CmpAttributes},
		"AnyValue":            {(*otelstef.AnyValue)(nil), otelstef.CmpAnyValue},
		"AnyValueArray":       {(*otelstef.AnyValueArray)(nil), otelstef.CmpAnyValueArray},
		"KeyValueList":        {(*otelstef.KeyValueList)(nil), otelstef.CmpKeyValueList},
		"Resource":            {(*otelstef.Resource)(nil), otelstef.CmpResource},
		"Scope":               {(*otelstef.Scope)(nil), otelstef.CmpScope},
		"Envelope":            {(*otelstef.Envelope)(nil), otelstef.CmpEnvelope},
		"EnvelopeAttributes":  {(*otelstef.EnvelopeAttributes)(nil), otelstef.CmpEnvelopeAttributes},
		"Metrics":             {(*otelstef.Metrics)(nil), otelstef.CmpMetrics},
		"Metric":              {(*otelstef.Metric)(nil), otelstef.CmpMetric},
		"Float64Array":        {(*otelstef.Float64Array)(nil), otelstef.CmpFloat64Array},
		"Point":               {(*otelstef.Point)(nil), otelstef.CmpPoint},
		"PointValue":          {(*otelstef.PointValue)(nil), otelstef.CmpPointValue},
		"ExemplarArray":       {(*otelstef.ExemplarArray)(nil), otelstef.CmpExemplarArray},
		"HistogramValue":      {(*otelstef.HistogramValue)(nil), otelstef.CmpHistogramValue},
		"Uint64Array":         {(*otelstef.Uint64Array)(nil), otelstef.CmpUint64Array},
		"ExpHistogramValue":   {(*otelstef.ExpHistogramValue)(nil), otelstef.CmpExpHistogramValue},
		"ExpHistogramBuckets": {(*otelstef.ExpHistogramBuckets)(nil), otelstef.CmpExpHistogramBuckets},
		"SummaryValue":        {(*otelstef.SummaryValue)(nil), otelstef.CmpSummaryValue},
		"QuantileValueArray":  {(*otelstef.QuantileValueArray)(nil), otelstef.CmpQuantileValueArray},
		"QuantileValue":       {(*otelstef.QuantileValue)(nil), otelstef.CmpQuantileValue},
		"Exemplar":            {(*otelstef.Exemplar)(nil), otelstef.CmpExemplar},
		"ExemplarValue":       {(*otelstef.ExemplarValue)(nil), otelstef.CmpExemplarValue},
		"Spans":               {(*otelstef.Spans)(nil), otelstef.CmpSpans},
		"Span":                {(*otelstef.Span)(nil), otelstef.CmpSpan},
		"EventArray":          {(*otelstef.EventArray)(nil), otelstef.CmpEventArray},
		"LinkArray":           {(*otelstef.LinkArray)(nil), otelstef.CmpLinkArray},
		"Link":                {(*otelstef.Link)(nil), otelstef.CmpLink},
		"Event":               {(*otelstef.Event)(nil), otelstef.CmpEvent},
		"SpanStatus":          {(*otelstef.SpanStatus)(nil), otelstef.CmpSpanStatus},
	}
}

var arrayElemName = map[string]string{"u64": "Uint64", "f64": "Float64", "i64": "Int64", "str": "String", "bool": "Bool", "bytes": "Bytes"}

func lookupType(s string) *ty {
	if strings.HasPrefix(s, "[]") {
		en := s[2:]
		an := en + "Array"
		if p, ok := arrayElemName[en]; ok {
			an = p + "Array"
		}
		if t, ok := types[an]; ok {
			return t
		}
		t := &ty{kind: kArr, name: an}
		types[an] = t
		typeOrder = append(typeOrder, an)
		t.elem = lookupType(en)
		return t
	}
	if p, ok := prims[s]; ok {
		return p
	}
	if t, ok := types[s]; ok {
		return t
	}
	t := &ty{name: s, kind: -1}
	types[s] = t
	return t
}

func initSchema() {
	for _, line := range strings.Split(schemaText, "\n") {
		line = strings.TrimSpace(line)
		if line == "" {
			continue
		}
		hd, body, _ := strings.Cut(line, ":")
		h := strings.Fields(hd)
		t := lookupType(h[1])
		typeOrder = append(typeOrder, h[1])
		switch h[0] {
		case "struct", "oneof":
			t.kind = kStruct
			if h[0] == "oneof" {
				t.kind = kOneof
			}
			t.dict = len(h) > 2 && h[2] == "dict"
			for _, f := range strings.Split(body, ",") {
				p := strings.Fields(f)
				opt := strings.HasSuffix(p[1], "?")
				ft := lookupType(strings.TrimSuffix(p[1], "?"))
				t.fields = append(t.fields, fld{name: p[0], t: ft, opt: opt})
				if opt {
					t.hasOpt = true
				}
			}
		case "multimap":
			t.kind = kMap
			p := strings.Fields(body)
			t.key, t.val = lookupType(p[0]), lookupType(p[1])
		}
	}
	reg := registry()
	for n, t := range types {
		if t.kind < 0 {
			panic("schema: undefined type " + n)
		}
		r, ok := reg[n]
		if !ok {
			panic("schema: type " + n + " is not registered")
		}
		t.rt = reflect.TypeOf(r[0]).Elem()
		t.cmp = reflect.ValueOf(r[1])
	}
	for n := range reg {
		if _, ok := types[n]; !ok {
			panic("registry: type " + n + " is not in the schema")
		}
	}
	// reachability of float leaves (fixpoint over the recursive schema)
	for changed := true; changed; {
		changed = false
		for _, t := range types {
			if t.hasF64 {
				continue
			}
			h := false
			for _, f := range t.fields {
				h = h || f.t.hasF64
			}
			if t.elem != nil {
				h = h || t.elem.hasF64
			}
			if t.key != nil {
				h = h || t.key.hasF64 || t.val.hasF64
			}
			if h {
				t.hasF64 = true
				changed = true
			}
		}
	}
	// reachability of optional fields (same fixpoint)
	for changed := true; changed; {
		changed = false
		for _, t := range types {
			if t.reachOpt {
				continue
			}
			h := t.hasOpt
			for _, f := range t.fields {
				h = h || (f.t.reachOpt && !f.t.dict)
			}
			if t.elem != nil {
				h = h || t.elem.reachOpt
			}
			if t.key != nil {
				h = h || t.val.reachOpt
			}
			if h {
				t.reachOpt = true
				changed = true
			}
		}
	}
	// deterministic order, no duplicates
	seen := map[string]bool{}
	var ord []string
	for _, n := range typeOrder {
		if !seen[n] {
			seen[n] = true
			ord = append(ord, n)
		}
	}
	typeOrder = ord
	if len(typeOrder) != len(types) {
		panic(fmt.Sprintf("schema: %d ordered types, %d types", len(typeOrder), len(types)))
	}
}
