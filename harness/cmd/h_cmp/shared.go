package main

// Shared (frozen) dictionary structs taken over by pointer: Set<Field>(frozen) and CopyFrom of a record
// whose field is frozen decide by a difference check whether the destination changes. Afterwards the
// destination's field must equal the source, whatever it held before - in particular when the old value
// has the new one as a PREFIX (attributes [a b c] before, [a] after), is a prefix of it, differs in one
// value only, or differs only in the bits of a float.

import (
	"fmt"
	"math"

	"github.com/splunk/stef/go/otel/otelstef"
)

type attrSpec struct {
	k string
	v any // string | int64 | float64 (bit pattern as uint64) | nil (empty) | []attrSpec (nested list)
}

func fillAttrs(a *otelstef.Attributes, specs []attrSpec) {
	a.EnsureLen(len(specs))
	for i, sp := range specs {
		a.SetKey(i, sp.k)
		v := a.Value(i)
		switch x := sp.v.(type) {
		case string:
			v.SetString(x)
		case int64:
			v.SetInt64(x)
		case uint64:
			v.SetFloat64(math.Float64frombits(x))
		case []attrSpec:
			v.SetType(otelstef.AnyValueTypeKVList)
			kl := v.KVList()
			kl.EnsureLen(len(x))
			for j, y := range x {
				kl.SetKey(j, y.k)
				kl.Value(j).SetString(fmt.Sprint(y.v))
			}
		default:
			v.SetType(otelstef.AnyValueTypeNone)
		}
	}
}

func mkResource(url string, specs []attrSpec, dropped uint64) *otelstef.Resource {
	r := otelstef.NewResource()
	r.SetSchemaURL(url)
	fillAttrs(r.Attributes(), specs)
	r.SetDroppedAttributesCount(dropped)
	return r
}

func sharedSection() {
	nested := []attrSpec{{"x", "1"}, {"y", "2"}}
	full := []attrSpec{{"a", "1"}, {"b", int64(2)}, {"c", uint64(0)}, {"d", nested}}
	variants := map[string][]attrSpec{
		"full":              full,
		"prefix-1":          full[:1],
		"prefix-2":          full[:2],
		"prefix-3":          full[:3],
		"empty":             nil,
		"last-value":        {{"a", "1"}, {"b", int64(2)}, {"c", uint64(0)}, {"d", "other"}},
		"float-negzero":     {{"a", "1"}, {"b", int64(2)}, {"c", uint64(1) << 63}, {"d", nested}},
		"nested-prefix":     {{"a", "1"}, {"b", int64(2)}, {"c", uint64(0)}, {"d", nested[:1]}},
		"longer":            append(append([]attrSpec(nil), full...), attrSpec{"e", "5"}),
		"first-key-differs": {{"z", "1"}, {"b", int64(2)}},
	}
	names := []string{"full", "prefix-1", "prefix-2", "prefix-3", "empty", "last-value", "float-negzero", "nested-prefix", "longer", "first-key-differs"}
	for _, before := range names {
		for _, after := range names {
			if before == after {
				continue
			}
			for _, via := range []string{"SetResource", "CopyFrom"} {
				name := fmt.Sprintf("shared/%s/%s->%s", via, before, after)
				note("case %s", name)
				note("nontrivial %x", hash(name))
				stats["shared-dict-struct-cases"]++
				old := mkResource("u", variants[before], 1)
				old.Freeze()
				src := mkResource("u", variants[after], 1)
				want := stateOfResource(src)
				src.Freeze()
				var rec otelstef.Metrics
				rec.Init()
				res := guard(func() {
					rec.SetResource(old)
					switch via {
					case "SetResource":
						rec.SetResource(src)
					default:
						var from otelstef.Metrics
						from.Init()
						from.SetResource(src)
						rec.CopyFrom(&from)
					}
				})
				if res.panicked {
					propFail("shared-dict-struct-panic", "%s: panic %s", name, res.msg)
					continue
				}
				got := stateOfResource(rec.Resource())
				if got != want || !rec.Resource().IsEqual(src) || otelstef.CmpResource(rec.Resource(), src) != 0 {
					propFail("shared-dict-struct-not-taken", "%s: the record held a frozen Resource with attributes %q; after %s with a frozen Resource with attributes %q the record's Resource is %s, the source is %s (IsEqual %v, Cmp %d)",
						name, before, via, after, got, want, rec.Resource().IsEqual(src), otelstef.CmpResource(rec.Resource(), src))
				}
			}
		}
	}
}

func stateOfResource(r *otelstef.Resource) string {
	s := fmt.Sprintf("url=%q dropped=%d [", r.SchemaURL(), r.DroppedAttributesCount())
	a := r.Attributes()
	for i := 0; i < a.Len(); i++ {
		v := a.Value(i)
		s += fmt.Sprintf("%s=", a.Key(i))
		switch v.Type() {
		case otelstef.AnyValueTypeString:
			s += "s:" + v.String()
		case otelstef.AnyValueTypeInt64:
			s += fmt.Sprintf("i:%d", v.Int64())
		case otelstef.AnyValueTypeFloat64:
			s += fmt.Sprintf("f:%016x", math.Float64bits(v.Float64()))
		case otelstef.AnyValueTypeKVList:
			kl := v.KVList()
			s += "{"
			for j := 0; j < kl.Len(); j++ {
				s += kl.Key(j) + "=" + kl.Value(j).String() + ","
			}
			s += "}"
		default:
			s += fmt.Sprintf("t%d", v.Type())
		}
		s += " "
	}
	return s + "]"
}
