package main

import (
	"fmt"
	"reflect"

	"github.com/splunk/stef/go/otel/otelstef"
	"github.com/splunk/stef/go/pkg"

	"verif/harness/internal/rng"
)

// encodedSection: comparison and equality of dictionary structs that HAVE BEEN ENCODED. A writer
// caches bookkeeping in the values it encodes (modified marks, the dictionary reference number in
// modifiedFields.refNum); the property quantifies over values with any history, so Cmp / IsEqual
// must depend on the data only. Frozen Resource / Scope / Metric values are each written by a
// writer of their own (so that different values get the SAME reference number in different
// dictionaries), some of them again after a dictionary reset, then every pair is compared:
// the result must be what it was before any writer saw the values (and what the model says).
func encodedSection() {
	r := rng.FromEnv(907)
	rounds := 3
	if thorough {
		rounds = 30
	}
	for _, name := range []string{"Resource", "Scope", "Metric"} {
		t := types[name]
		for round := 0; round < rounds; round++ {
			note("case encoded/%s/%d", name, round)
			cfg := &genCfg{fm: fPlain, maxDepth: 2, maxLen: 2}
			n := 5
			objs := make([]reflect.Value, n)
			st := make([]string, n)
			for i := range objs {
				objs[i] = newObj(t)
				if i > 0 { // value 0 stays the initial value
					fill(objs[i], t, rng.New(r.U64()), cfg, 0)
				}
				if i == n-1 && r.Bool() {
					// an equal twin of value 1 with its own history
					objs[i] = newObj(t)
					copyFromObj(objs[i], objs[1])
				}
				freezeObj(objs[i])
				st[i] = stateOf(objs[i], t)
			}
			before := make([][]int, n)
			for i := range objs {
				before[i] = make([]int, n)
				for j := range objs {
					before[i][j], _ = cmpObj(t, objs[i], objs[j])
				}
			}
			// every value through a writer of its own; odd rounds: restart the dictionaries on
			// every frame and write value i again after i other values
			for i := range objs {
				o := pkg.WriterOptions{}
				if round%2 == 1 {
					o.FrameRestartFlags = pkg.RestartDictionaries
				}
				res := guard(func() {
					w, err := otelstef.NewMetricsWriter(&pkg.MemChunkWriter{}, o)
					if err != nil {
						panic(err)
					}
					set := func(v reflect.Value) {
						call(reflect.ValueOf(&w.Record), "Set"+name, v)
						if err := w.Write(); err != nil {
							panic(err)
						}
					}
					for k := 0; k < i%3; k++ {
						set(objs[(i+k+1)%n])
					}
					set(objs[i])
					if err := w.Flush(); err != nil {
						panic(err)
					}
				})
				if res.panicked {
					propFail("encoded-"+name+"-writer-panic", "writing a frozen %s panicked: %s value=%s", name, res.msg, st[i])
				}
			}
			stats["encoded-values"] += n
			note("nontrivial %x", hash("encoded"+st[1]+st[2]))
			for i := range objs {
				if s := stateOf(objs[i], t); s != st[i] {
					propFail("encoded-"+name+"-value-changed", "a frozen %s changed while it was written: before=%s after=%s", name, st[i], s)
				}
				for j := range objs {
					c, res := cmpObj(t, objs[i], objs[j])
					if res.panicked {
						propFail("panic-cmp-"+t.name, "Cmp%s panicked on encoded values: %s a=%s b=%s", name, res.msg, st[i], st[j])
						continue
					}
					e, _ := isEqualObj(objs[i], objs[j])
					stats["encoded-cmp-pairs"]++
					emit("cmp "+st[i]+" "+st[j], fmt.Sprint(c))
					emit("eq "+st[i]+" "+st[j], fmt.Sprint(e))
					if sign(c) != sign(before[i][j]) {
						propFail("cmp-"+name+"-depends-on-encoding-history", "Cmp%s(a,b)=%d before and %d after both values were written by (different) writers: a=%s b=%s", name, before[i][j], c, st[i], st[j])
					}
					if (c == 0) != e {
						propFail("cmp-"+name+"-zero-iff-equal-encoded", "Cmp%s(a,b)=%d but IsEqual=%v on encoded values a=%s b=%s", name, c, e, st[i], st[j])
					}
				}
			}
		}
	}
}

func sign(x int) int {
	switch {
	case x < 0:
		return -1
	case x > 0:
		return 1
	}
	return 0
}
