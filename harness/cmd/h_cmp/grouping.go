package main

// Grouping trees (go/pdata/metrics/sortedbymetric): "a grouping tree can never substitute one value for
// a different one". A batch of data points goes through the public OtlpToSortedTree; every point
// carries a unique id attribute, so that after the conversion each point can be looked up under the
// Metric key it was filed under. The key must hold the point's OWN metric identity - name, unit, type and,
// for histograms, the point's own explicit bounds (bounds belong to the point in OTLP, to the metric
// key in STEF) -, two keys of the tree must never compare equal, and points with different identities
// must not share a key. The batches put points of ONE source metric with DIFFERENT bounds next to each
// other, repeat identities across metrics, and differ in floats that are equal under ==.

import (
	"fmt"
	"math"

	"go.opentelemetry.io/collector/pdata/pcommon"
	"go.opentelemetry.io/collector/pdata/pmetric"

	"github.com/splunk/stef/go/otel/otelstef"
	"github.com/splunk/stef/go/pdata/metrics/sortedbymetric"

	"verif/harness/internal/rng"
)

type gpoint struct {
	name   string
	bounds []uint64 // bit patterns
}

func boundsStr(b []uint64) string {
	s := ""
	for _, x := range b {
		s += fmt.Sprintf("%x,", x)
	}
	return "[" + s + "]"
}

func groupingSection() {
	r := rng.FromEnv(909)
	n := 60
	if thorough {
		n = 1500
	}
	boundPool := [][]float64{{1, 2}, {1, 2, 3, 4}, {}, {5}, {0, 10}, {math.Copysign(0, -1), 10}, {1, 2, 3}, {1, math.NaN()}, {1, math.Float64frombits(0x7ff8000000000001)}}
	for c := 0; c < n; c++ {
		note("case grouping-%d", c)
		md := pmetric.NewMetrics()
		want := map[string]gpoint{}
		id := 0
		sm := md.ResourceMetrics().AppendEmpty().ScopeMetrics().AppendEmpty()
		nm := 1 + r.Intn(4)
		for k := 0; k < nm; k++ {
			m := sm.Metrics().AppendEmpty()
			name := fmt.Sprintf("m%d", r.Intn(3))
			m.SetName(name)
			if r.Intn(4) == 0 {
				dps := m.SetEmptyGauge().DataPoints()
				for l := 0; l < 1+r.Intn(3); l++ {
					dp := dps.AppendEmpty()
					vid := fmt.Sprintf("p%d", id)
					id++
					dp.Attributes().PutStr("vid", vid)
					dp.SetIntValue(int64(l))
					dp.SetTimestamp(pcommon.Timestamp(100 + id))
					want[vid] = gpoint{name: name + "/gauge"}
				}
				continue
			}
			h := m.SetEmptyHistogram()
			h.SetAggregationTemporality(pmetric.AggregationTemporalityDelta)
			np := 2 + r.Intn(4)
			// consecutive points of ONE metric: mostly a change of bounds from point to point
			cur := boundPool[r.Intn(len(boundPool))]
			for l := 0; l < np; l++ {
				if r.Intn(3) != 0 {
					cur = boundPool[r.Intn(len(boundPool))]
				}
				dp := h.DataPoints().AppendEmpty()
				vid := fmt.Sprintf("p%d", id)
				id++
				dp.Attributes().PutStr("vid", vid)
				if r.Bool() {
					dp.Attributes().PutStr("host", fmt.Sprintf("h%d", r.Intn(2)))
				}
				dp.ExplicitBounds().FromRaw(cur)
				counts := make([]uint64, len(cur)+1)
				for i := range counts {
					counts[i] = uint64(r.Intn(5))
				}
				dp.BucketCounts().FromRaw(counts)
				dp.SetTimestamp(pcommon.Timestamp(100 + id))
				gp := gpoint{name: name + "/hist"}
				for _, b := range cur {
					gp.bounds = append(gp.bounds, math.Float64bits(b))
				}
				want[vid] = gp
			}
		}
		stats["grouping-points"] += id
		var tree *sortedbymetric.SortedTree
		var err error
		func() {
			defer func() {
				if p := recover(); p != nil {
					err = fmt.Errorf("panic: %v", p)
				}
			}()
			tree, err = sortedbymetric.OtlpToSortedTree(md)
		}()
		if err != nil {
			propFail("grouping-tree-error", "case grouping-%d: OtlpToSortedTree: %v", c, err)
			continue
		}
		type keyInfo struct {
			m   *otelstef.Metric
			str string
		}
		var keys []keyInfo
		seen := map[string]string{} // vid -> key string
		tree.Iter(func(metric *otelstef.Metric, byMetric *sortedbymetric.ByMetric) error {
			var kb []uint64
			hb := metric.HistogramBounds()
			for i := 0; i < hb.Len(); i++ {
				kb = append(kb, math.Float64bits(hb.At(i)))
			}
			kind := "/gauge"
			if metric.Type() == otelstef.MetricTypeHistogram {
				kind = "/hist"
			}
			ks := metric.Name() + kind + boundsStr(kb)
			keys = append(keys, keyInfo{metric.Clone(&otelstef.Allocators{}), ks})
			byMetric.Iter(func(_ *otelstef.Resource, byRes *sortedbymetric.ByResource) error {
				byRes.Iter(func(_ *otelstef.Scope, bySc *sortedbymetric.ByScope) error {
					bySc.Iter(func(attrs *otelstef.Attributes, points *sortedbymetric.Points) error {
						vid := ""
						for i := 0; i < attrs.Len(); i++ {
							if attrs.Key(i) == "vid" {
								vid = attrs.Value(i).String()
							}
						}
						seen[vid] = ks
						w, ok := want[vid]
						if !ok {
							return nil
						}
						ws := w.name + boundsStr(w.bounds)
						if ws != ks {
							propFail("grouping-tree-substitutes-key", "case grouping-%d: data point %s of metric identity %s was filed under the Metric key %s of the grouping tree: a lookup returned the node of a DIFFERENT key (bounds are part of the key)", c, vid, ws, ks)
						}
						return nil
					})
					return nil
				})
				return nil
			})
			return nil
		})
		for i := 0; i < len(keys); i++ {
			for j := i + 1; j < len(keys); j++ {
				if otelstef.CmpMetric(keys[i].m, keys[j].m) == 0 {
					propFail("grouping-tree-equal-keys", "case grouping-%d: two keys of the tree compare equal: %s and %s", c, keys[i].str, keys[j].str)
				}
				if keys[i].str == keys[j].str {
					propFail("grouping-tree-duplicate-key", "case grouping-%d: the key %s occurs twice in the tree", c, keys[i].str)
				}
			}
		}
		for vid := range want {
			if _, ok := seen[vid]; !ok {
				propFail("grouping-tree-point-lost", "case grouping-%d: data point %s is not in the tree", c, vid)
			}
		}
		if len(keys) >= 2 {
			note("nontrivial %x", uint64(c)<<16|uint64(len(keys)))
		}
	}
}
