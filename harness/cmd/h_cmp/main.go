// h_cmp drives the real comparison / equality / copy code of splunk/stef for property C09:
// pkg.*Compare and pkg.*Equal over all primitive classes, and the generated otelstef types
// (Cmp<Type>, IsEqual, CopyFrom, Clone, Freeze, setters) through their public API.
//
// Output: "<op line>\t<implementation output>" lines replayed on the Lean model (stefmodel), plus
// the property evaluated directly on the implementation (PROP-FAIL C09 <signature> <description>):
// antisymmetry on pairs, transitivity on triples, Cmp==0 => identical data (the harness' own dump,
// floats as bit patterns), copy/clone equality, copy independence, frozen values reject mutation.
//
// Generators are split so that float-specific defects cannot mask anything else: every type is
// exercised with "plain" floats (no NaN, no -0), where any failure gets a fresh signature, and a
// selection of types additionally with all float classes, where failures explained by NaN / -0
// get the signatures float64compare-nan, cmp-<Type>-nan-field, ... Those signatures name the
// defects of pkg.Float64Compare/Float64Equal that /repo commit 05846e0 repaired, and
// copy-negzero-not-copied the `!=` guards of the generated setters that 59db810 replaced by
// pkg.<T>Equal; clone-loses-optional-presence and cmp-stale-optional name the two defects of
// struct.go.tmpl that 82431a4 repaired (Clone dropped optionalFieldsPresent; Cmp<Struct> compared
// the values stored in optional fields absent on both sides); frozen-silent-mutation and
// frozen-mutation-before-panic the two defects of markModified / the setters that 1d57428 repaired
// (see the frozen section for the three residual findings). They all stay as oracles (a
// regression is reported under the same name, which is no longer a known finding).
//
// Optional fields: fill leaves an optional field present, absent with a stale stored value (Set
// then Unset) or absent untouched; the second copy of every pool base is "restaled" (every absent
// optional primitive gets Set(other value)+Unset: same data, different hidden state), so each pool
// of a type that reaches an optional field holds IsEqual pairs with different stored values; the
// optional section builds such pairs for every presence pattern directly.
package main

import (
	"bufio"
	"fmt"
	"math"
	"os"
	"reflect"
	"sort"
	"strings"

	"github.com/splunk/stef/go/pkg"

	"verif/harness/internal/rng"
)

var out = bufio.NewWriterSize(os.Stdout, 1<<20)
var stats = map[string]int{}
var thorough = os.Getenv("VERIF_TIER") == "thorough"
var failCount = map[string]int{}
var samples = 0

func emit(op, res string)     { fmt.Fprintf(out, "%s\t%s\n", op, res); stats["ops"]++ }
func note(f string, a ...any) { fmt.Fprintf(out, "# "+f+"\n", a...) }

// propFail prints at most a few failures per signature (the first ones carry the witness).
func propFail(sig, f string, a ...any) {
	failCount[sig]++
	if failCount[sig] <= 3 {
		fmt.Fprintf(out, "PROP-FAIL C09 %s %s\n", sig, fmt.Sprintf(f, a...))
	}
}

func hexs(s string) string {
	if s == "" {
		return "-"
	}
	return fmt.Sprintf("%x", s)
}

func hash(s string) uint64 {
	h := uint64(1469598103934665603)
	for i := 0; i < len(s); i++ {
		h = (h ^ uint64(s[i])) * 1099511628211
	}
	return h
}

// ---------------------------------------------------------------- primitives

type primDom struct {
	name    string // u64, i64, f64, bool, str, bytes
	vals    []leaf
	cmp     func(a, b leaf) int
	eq      func(a, b leaf) bool
	fmtv    func(l leaf) string
	cmpName string
}

func primDomains(r *rng.R) []primDom {
	nrand := 12
	if thorough {
		nrand = 60
	}
	var u64s, i64s, f64s, strs []leaf
	for _, u := range []uint64{0, 1, 2, 255, 256, 1<<32 - 1, 1 << 32, 1<<63 - 1, 1 << 63, 1<<63 + 1, math.MaxUint64 - 1, math.MaxUint64} {
		u64s = append(u64s, leaf{k: kU64, u: u})
		i64s = append(i64s, leaf{k: kI64, u: u})
	}
	for i := 0; i < nrand; i++ {
		u64s = append(u64s, leaf{k: kU64, u: r.U64() >> uint(r.Intn(64))})
		i64s = append(i64s, leaf{k: kI64, u: uint64(int64(r.U64()) >> uint(r.Intn(64)))})
	}
	for _, u := range plainFloats {
		f64s = append(f64s, leaf{k: kF64, u: u})
	}
	for _, u := range specialFloats {
		f64s = append(f64s, leaf{k: kF64, u: u})
	}
	for i := 0; i < nrand; i++ {
		f64s = append(f64s, leaf{k: kF64, u: r.U64()})
		// random NaN payloads and subnormals
		f64s = append(f64s, leaf{k: kF64, u: 0x7ff0000000000000 | (r.U64() & 0x800fffffffffffff) | 1})
		f64s = append(f64s, leaf{k: kF64, u: r.U64() & 0x800fffffffffffff})
	}
	for _, s := range []string{"", "a", "b", "ab", "aa", "a\x00", "\x00", "\xff", "\xfe\xff", "abc", "abd", "ab\xff", "\x7f", "\x80"} {
		strs = append(strs, leaf{k: kStr, s: s})
	}
	for i := 0; i < nrand; i++ {
		b := make([]byte, r.Intn(6))
		for j := range b {
			b[j] = byte(r.U64())
			if r.Chance(1, 2) {
				b[j] = "ab\x00\xff"[r.Intn(4)]
			}
		}
		strs = append(strs, leaf{k: kStr, s: string(b)})
	}
	hx := func(l leaf) string { return fmt.Sprintf("%x", l.u) }
	return []primDom{
		{"u64", u64s, func(a, b leaf) int { return pkg.Uint64Compare(a.u, b.u) }, func(a, b leaf) bool { return pkg.Uint64Equal(a.u, b.u) }, hx, "uint64compare"},
		{"i64", i64s, func(a, b leaf) int { return pkg.Int64Compare(int64(a.u), int64(b.u)) }, func(a, b leaf) bool { return pkg.Int64Equal(int64(a.u), int64(b.u)) }, hx, "int64compare"},
		{"bool", []leaf{{k: kBool, u: 0}, {k: kBool, u: 1}}, func(a, b leaf) int { return pkg.BoolCompare(a.u != 0, b.u != 0) }, func(a, b leaf) bool { return pkg.BoolEqual(a.u != 0, b.u != 0) }, hx, "boolcompare"},
		{"f64", f64s, func(a, b leaf) int { return pkg.Float64Compare(math.Float64frombits(a.u), math.Float64frombits(b.u)) },
			func(a, b leaf) bool { return pkg.Float64Equal(math.Float64frombits(a.u), math.Float64frombits(b.u)) }, hx, "float64compare"},
		{"str", strs, func(a, b leaf) int { return pkg.StringCompare(a.s, b.s) }, func(a, b leaf) bool { return pkg.StringEqual(a.s, b.s) }, func(l leaf) string { return hexs(l.s) }, "stringcompare"},
		{"bytes", strs, func(a, b leaf) int { return pkg.BytesCompare(pkg.Bytes(a.s), pkg.Bytes(b.s)) }, func(a, b leaf) bool { return pkg.BytesEqual(pkg.Bytes(a.s), pkg.Bytes(b.s)) }, func(l leaf) string { return hexs(l.s) }, "bytescompare"},
	}
}

func b01(b bool) int {
	if b {
		return 1
	}
	return 0
}

func primSection() {
	r := rng.FromEnv(901)
	for _, d := range primDomains(r) {
		note("case prim/%s", d.name)
		note("nontrivial %x", hash("prim/"+d.name))
		n := len(d.vals)
		stats["prim-"+d.name+"-values"] += n
		c := make([][]int, n)
		same := func(a, b leaf) bool { return a.u == b.u && a.s == b.s }
		// classification of a failure among floats
		fsig := func(law string, ls ...leaf) string {
			if d.name != "f64" {
				return d.cmpName + "-" + law
			}
			nan, z := false, false
			for _, l := range ls {
				nan = nan || isNaNBits(l.u)
				z = z || l.u&0x7fffffffffffffff == 0
			}
			if nan {
				return "float64compare-nan"
			}
			if z {
				return "float64compare-negzero"
			}
			return d.cmpName + "-" + law
		}
		for i, a := range d.vals {
			c[i] = make([]int, n)
			for j, b := range d.vals {
				c[i][j] = d.cmp(a, b)
				emit(fmt.Sprintf("prim %scmp %s %s", d.name, d.fmtv(a), d.fmtv(b)), fmt.Sprint(c[i][j]))
				e := d.eq(a, b)
				emit(fmt.Sprintf("prim %seq %s %s", d.name, d.fmtv(a), d.fmtv(b)), fmt.Sprint(e))
				if d.name == "f64" {
					x, y := math.Float64frombits(a.u), math.Float64frombits(b.u)
					emit(fmt.Sprintf("prim fltops %x %x", a.u, b.u), fmt.Sprintf("lt=%d gt=%d eq=%d", b01(x < y), b01(x > y), b01(x == y)))
				}
				if e != same(a, b) {
					sig := d.name + "equal-mismatch"
					if d.name == "f64" {
						sig = "float64equal-negzero"
						if isNaNBits(a.u) || isNaNBits(b.u) {
							sig = "float64equal-nan"
						}
						if !isNaNBits(a.u) && !isNaNBits(b.u) && !(a.u&0x7fffffffffffffff == 0 && b.u&0x7fffffffffffffff == 0) {
							sig = "float64equal-mismatch"
						}
					}
					propFail(sig, "%sEqual(%s,%s)=%v but identical=%v", d.name, d.fmtv(a), d.fmtv(b), e, same(a, b))
				}
			}
		}
		for i, a := range d.vals {
			if c[i][i] != 0 {
				propFail(fsig("reflexive", a), "%s(%s,%s)=%d", d.cmpName, d.fmtv(a), d.fmtv(a), c[i][i])
			}
			for j, b := range d.vals {
				stats["prim-pairs"]++
				if c[i][j] != -c[j][i] {
					propFail(fsig("antisymmetry", a, b), "%s(%s,%s)=%d but reversed=%d", d.cmpName, d.fmtv(a), d.fmtv(b), c[i][j], c[j][i])
				}
				if c[i][j] == 0 && !same(a, b) {
					propFail(fsig("zero-different-data", a, b), "%s(%s,%s)=0 for different values", d.cmpName, d.fmtv(a), d.fmtv(b))
				}
				if c[i][j] > 0 {
					continue
				}
				for k, cc := range d.vals {
					stats["prim-triples"]++
					if c[j][k] <= 0 && c[i][k] > 0 {
						propFail(fsig("transitivity", a, b, cc), "%s: a=%s b=%s c=%s: cmp(a,b)=%d cmp(b,c)=%d cmp(a,c)=%d",
							d.cmpName, d.fmtv(a), d.fmtv(b), d.fmtv(cc), c[i][j], c[j][k], c[i][k])
					}
				}
			}
		}
	}
}

// ---------------------------------------------------------------- generated types: pools

// types exercised with all float classes (NaN, -0) in addition to the plain run
var specialTypes = map[string]bool{"Float64Array": true, "AnyValue": true, "Attributes": true, "PointValue": true,
	"HistogramValue": true, "Point": true, "Exemplar": true, "Resource": true, "Metric": true, "Metrics": true}

type poolCtx struct {
	t     *ty
	fm    int
	seed  uint64
	cfg   *genCfg
	n     int
	bases int
}

// mk builds pool element i, deterministically: element i uses base seed i%bases; variants 0 and 1
// are two separately built objects with the same content, higher variants get extra mutations.
func (pc *poolCtx) mk(i int) (p reflect.Value, pristine bool) {
	b := i % pc.bases
	variant := i / pc.bases
	r := rng.New(pc.seed*7919 + uint64(b))
	p = newObj(pc.t)
	fill(p, pc.t, r, pc.cfg, 0)
	pristine = true
	if variant == 1 && pc.t.reachOpt {
		// same data as variant 0, other values stored in the absent optional fields
		stats["restaled-fields"] += restale(p, pc.t, rng.New(pc.seed*15485863+uint64(i)), pc.cfg)
	}
	if variant >= 2 {
		mr := rng.New(pc.seed*104729 + uint64(i))
		for k := 0; k < variant-1; k++ {
			guard(func() { mutate(p, pc.t, mr, pc.cfg, 0) })
		}
		pristine = false
	}
	return
}

func fmName(fm int) string {
	if fm == fSpecial {
		return "special"
	}
	return "plain"
}

// sigFloat picks the signature of a failure: in the plain run always the fresh one; in the special
// run the NaN / -0 signature when such a value is involved.
func sigFloat(fm int, t *ty, fresh string, dumps ...string) string {
	if fm == fPlain {
		return fresh
	}
	nan, z := false, false
	for _, d := range dumps {
		a, _, c := floatsIn(d)
		nan = nan || a
		z = z || c
	}
	if nan {
		return "cmp-" + t.name + "-nan-field"
	}
	if z {
		return "cmp-" + t.name + "-negzero-field"
	}
	return fresh
}

func topLevelOptionalPresent(p reflect.Value, t *ty) bool {
	if t.kind != kStruct {
		return false
	}
	for _, f := range t.fields {
		if f.opt && call(p, "Has"+f.name)[0].Bool() {
			return true
		}
	}
	return false
}

func runPool(t *ty, fm int, seed uint64) {
	pc := &poolCtx{t: t, fm: fm, seed: seed, n: 12, bases: 3}
	pc.cfg = &genCfg{fm: fm, freeze: true, maxDepth: 2, maxLen: 3}
	if thorough {
		pc.n, pc.bases = 20, 4
		if seed%3 == 0 {
			pc.cfg.maxDepth, pc.cfg.maxLen = 3, 4
		}
	}
	n := pc.n
	objs := make([]reflect.Value, n)
	prist := make([]bool, n)
	st := make([]string, n)
	da := make([]string, n)
	for i := 0; i < n; i++ {
		objs[i], prist[i] = pc.mk(i)
		st[i] = stateOf(objs[i], t)
		da[i] = dataOf(objs[i], t)
	}
	tag := fmt.Sprintf("%s/%s/%d", t.name, fmName(fm), seed)
	// matrix
	c := make([][]int, n)
	e := make([][]bool, n)
	budget := 48 << 10
	for i := 0; i < n; i++ {
		note("case pool/%s/%d", tag, i)
		stats["values-"+fmName(fm)]++
		if t.reachOpt {
			pr, stl, zr := optCounts(st[i])
			stats["optional-present"] += pr
			stats["optional-absent-stale"] += stl
			stats["optional-absent-zero"] += zr
		}
		stats[fmt.Sprintf("value-depth-%d", depthOf(st[i]))]++
		if depthOf(st[i]) >= 2 || (len(st[i]) > 24 && depthOf(st[i]) >= 1) {
			note("nontrivial %x", hash(t.name+st[i]))
		}
		if samples < 8 && len(st[i]) > 30 && len(st[i]) < 400 && i == 2 {
			samples++
			note("sample %s %s", t.name, st[i])
		}
		c[i] = make([]int, n)
		e[i] = make([]bool, n)
		for j := 0; j < n; j++ {
			var res result
			c[i][j], res = cmpObj(t, objs[i], objs[j])
			if res.panicked {
				propFail("panic-cmp-"+t.name, "Cmp%s panicked: %s a=%s b=%s", t.name, res.msg, st[i], st[j])
				continue
			}
			e[i][j], res = isEqualObj(objs[i], objs[j])
			if res.panicked {
				propFail("panic-isequal-"+t.name, "%s.IsEqual panicked: %s a=%s b=%s", t.name, res.msg, st[i], st[j])
				continue
			}
			stats["cmp-pairs"]++
			if budget > 0 {
				emit("cmp "+st[i]+" "+st[j], fmt.Sprint(c[i][j]))
				emit("eq "+st[i]+" "+st[j], fmt.Sprint(e[i][j]))
				budget -= 2 * (len(st[i]) + len(st[j]) + 16)
			}
		}
	}
	for i := 0; i < n; i++ {
		if c[i][i] != 0 {
			propFail("cmp-"+t.name+"-reflexive", "Cmp%s(a,a)=%d a=%s", t.name, c[i][i], st[i])
		}
		for j := 0; j < n; j++ {
			if c[i][j] != -c[j][i] {
				propFail("cmp-"+t.name+"-antisymmetry", "Cmp%s(a,b)=%d Cmp(b,a)=%d a=%s b=%s", t.name, c[i][j], c[j][i], st[i], st[j])
			}
			if c[i][j] == 0 {
				stats["cmp-zero-pairs"]++
				if st[i] != st[j] {
					stats["cmp-zero-pairs-different-hidden-state"]++
				}
				if da[i] != da[j] {
					propFail(sigFloat(fm, t, "cmp-"+t.name+"-zero-different-data", st[i], st[j]),
						"Cmp%s(a,b)=0 but the data differs: a=%s b=%s", t.name, da[i], da[j])
				}
			}
			// IsEqual <=> same data
			if e[i][j] != (da[i] == da[j]) {
				sig := "isequal-" + t.name + "-mismatch"
				if fm == fSpecial {
					nan, _, z := floatsIn(da[i] + "," + da[j])
					if nan && !e[i][j] {
						sig = "isequal-nan-field"
					} else if z && e[i][j] && normZero(da[i]) == normZero(da[j]) {
						sig = "isequal-negzero-field"
					}
				}
				propFail(sig, "%s.IsEqual=%v but same data=%v: a=%s b=%s", t.name, e[i][j], da[i] == da[j], da[i], da[j])
			}
			// IsEqual => Cmp == 0 (failed through stored values of absent optional fields until 82431a4)
			if e[i][j] && c[i][j] != 0 {
				sig := "cmp-" + t.name + "-nonzero-for-equal"
				if da[i] == da[j] && st[i] != st[j] {
					sig = "cmp-stale-optional"
				} else if fm == fSpecial {
					sig = sigFloat(fm, t, sig, st[i], st[j])
				}
				propFail(sig, "%s: IsEqual but Cmp=%d: a=%s b=%s", t.name, c[i][j], st[i], st[j])
			}
			if c[i][j] > 0 {
				continue
			}
			for k := 0; k < n; k++ {
				stats["cmp-triples"]++
				if c[j][k] <= 0 && c[i][k] > 0 {
					propFail(sigFloat(fm, t, "cmp-"+t.name+"-transitivity", st[i], st[j], st[k]),
						"Cmp%s not transitive: cmp(a,b)=%d cmp(b,c)=%d cmp(a,c)=%d a=%s b=%s c=%s", t.name, c[i][j], c[j][k], c[i][k], st[i], st[j], st[k])
				}
			}
		}
	}
	// clone / copy
	mr := rng.New(seed*31337 + 5)
	for i := 0; i < n; i++ {
		// the independence checks mutate both sides, so every check gets freshly built objects
		if hasMethod(t, "Clone") {
			src, _ := pc.mk(i)
			checkCopy(pc, "clone", i, src, stateOf(src, t), dataOf(src, t), reflect.Value{}, mr)
		}
		if hasMethod(t, "CopyFrom") {
			src, _ := pc.mk(i)
			var dst reflect.Value
			dp := true
			switch mr.Intn(3) {
			case 0:
				dst = newObj(t)
			default:
				j := mr.Intn(n)
				dst, dp = pc.mk(j)
			}
			if !dp {
				stats["copy-into-mutated-dst"]++
			}
			checkCopyInto(pc, i, src, stateOf(src, t), dataOf(src, t), dst, dp, mr)
		}
	}
}

// checkCopy: c := src.Clone(); c must hold the same data, be IsEqual, Cmp 0, and be independent.
func checkCopy(pc *poolCtx, op string, i int, src reflect.Value, sst, sda string, _ reflect.Value, mr *rng.R) {
	t := pc.t
	cl, res := cloneObj(t, src)
	if res.panicked {
		propFail("panic-clone-"+t.name, "%s.Clone panicked: %s src=%s", t.name, res.msg, sst)
		return
	}
	stats["clones"]++
	cst, cda := stateOf(cl, t), dataOf(cl, t)
	if !hasFrozenField(src, t) {
		// a frozen dictionary struct is shared by pointer (kept verbatim); the value model has no
		// sharing, so those clones are checked by the property evaluation below only
		emit("clone "+sst, cst)
	} else {
		stats["clones-sharing-frozen"]++
	}
	if stateOf(src, t) != sst {
		propFail("clone-"+t.name+"-changes-source", "Clone changed its source: before=%s after=%s", sst, stateOf(src, t))
	}
	verifyEqualCopy(pc, "clone", src, sst, sda, cl, cst, cda)
	independence(pc, "clone", src, cl, mr)
}

func checkCopyInto(pc *poolCtx, i int, src reflect.Value, sst, sda string, dst reflect.Value, dstPristine bool, mr *rng.R) {
	t := pc.t
	dst0 := stateOf(dst, t)
	res := copyFromObj(dst, src)
	if res.panicked {
		propFail("panic-copyfrom-"+t.name, "%s.CopyFrom panicked: %s dst=%s src=%s", t.name, res.msg, dst0, sst)
		return
	}
	stats["copies"]++
	cst, cda := stateOf(dst, t), dataOf(dst, t)
	if dstPristine && !hasFrozenField(src, t) {
		emit("copy "+dst0+" "+sst, cst)
	}
	if stateOf(src, t) != sst {
		propFail("copy-"+t.name+"-changes-source", "CopyFrom changed its source: before=%s after=%s", sst, stateOf(src, t))
	}
	verifyEqualCopy(pc, "copy", src, sst, sda, dst, cst, cda)
	independence(pc, "copy", src, dst, mr)
}

func verifyEqualCopy(pc *poolCtx, op string, src reflect.Value, sst, sda string, cp reflect.Value, cst, cda string) {
	t := pc.t
	if cda != sda {
		// the copy does not hold the source's data; IsEqual=false / Cmp!=0 are then consequences
		sig := op + "-" + t.name + "-not-equal"
		switch {
		case op == "clone" && t.hasOpt && topLevelOptionalPresent(src, t) && !topLevelOptionalPresent(cp, t):
			sig = "clone-loses-optional-presence"
		case pc.fm == fSpecial && normZero(cda) == normZero(sda):
			sig = "copy-negzero-not-copied"
		}
		propFail(sig, "%s of %s does not hold the source's data: source=%s copy=%s", op, t.name, sda, cda)
		return
	}
	// same data: IsEqual must hold and Cmp must be 0
	eq, res := isEqualObj(cp, src)
	if res.panicked {
		propFail("panic-isequal-"+t.name, "IsEqual(copy,src) panicked: %s", res.msg)
	} else if !eq {
		sig := op + "-" + t.name + "-not-isequal"
		if nan, _, _ := floatsIn(sda); nan && pc.fm == fSpecial {
			sig = "copy-nan-not-isequal"
		}
		propFail(sig, "%s of %s holds the same data but IsEqual(copy, source)=false: source=%s copy=%s", op, t.name, sda, cda)
	}
	c, res := cmpObj(t, cp, src)
	if res.panicked {
		propFail("panic-cmp-"+t.name, "Cmp(copy,src) panicked: %s", res.msg)
	} else if c != 0 {
		sig := op + "-" + t.name + "-cmp-nonzero"
		if cst != sst {
			sig = "cmp-stale-optional"
		}
		propFail(sig, "%s of %s holds the same data but Cmp(copy, source)=%d: source=%s copy=%s", op, t.name, c, sst, cst)
	}
}

// independence: mutating the copy is not visible through the source and vice versa.
func independence(pc *poolCtx, op string, src, cp reflect.Value, mr *rng.R) {
	t := pc.t
	rounds := 4
	for k := 0; k < rounds; k++ {
		s0 := stateOf(src, t)
		desc := ""
		guard(func() { desc = mutate(cp, t, mr, pc.cfg, 0) })
		stats["independence-mutations"]++
		if s1 := stateOf(src, t); s1 != s0 {
			propFail(op+"-"+t.name+"-not-independent", "mutating the %s (%s) changed the source: before=%s after=%s", op, desc, s0, s1)
			return
		}
		c0 := stateOf(cp, t)
		guard(func() { desc = mutate(src, t, mr, pc.cfg, 0) })
		stats["independence-mutations"]++
		if c1 := stateOf(cp, t); c1 != c0 {
			propFail(op+"-"+t.name+"-not-independent", "mutating the source (%s) changed the %s: before=%s after=%s", desc, op, c0, c1)
			return
		}
	}
}

// ---------------------------------------------------------------- optional fields

// Pairs (a, b) of one type with the same data and different hidden state, for every presence
// pattern of the optional fields: all present / all absent (b: Set(v)+Unset, a: Unset) / mixed, at
// the top level (HistogramValue, ExpHistogramValue) and nested in a oneof (PointValue, Point).
// IsEqual(a,b) must hold and Cmp(a,b) = Cmp(b,a) = 0 (cmp-stale-optional), a clone must keep the
// presence of every field (clone-loses-optional-presence), be IsEqual and compare 0.
func optionalSection() {
	r := rng.FromEnv(906)
	rounds := 6
	if thorough {
		rounds = 80
	}
	for _, name := range []string{"HistogramValue", "ExpHistogramValue", "PointValue", "Point"} {
		t := types[name]
		pc := &poolCtx{t: t, fm: fPlain, cfg: &genCfg{fm: fPlain, maxDepth: 2, maxLen: 3}}
		for round := 0; round < rounds; round++ {
			note("case optional/%s/%d", name, round)
			seed := r.U64()
			mk := func() reflect.Value {
				p := newObj(t)
				fill(p, t, rng.New(seed), pc.cfg, 0)
				return p
			}
			a, b := mk(), mk()
			// the pair of structs with optional fields: a, b themselves or the histogram alternative
			// of the PointValue oneof (selected here: fill picks it only now and then)
			ha, hb, ht := a, b, t
			if name == "PointValue" || name == "Point" {
				oa, ob, ot := a, b, t
				if name == "Point" {
					oa, ob, ot = call(a, "Value")[0], call(b, "Value")[0], types["PointValue"]
				}
				k := uint64(3 + round%2)
				for _, p := range []reflect.Value{oa, ob} {
					st := meth(p, "SetType")
					st.Call([]reflect.Value{reflect.ValueOf(k).Convert(st.Type().In(0))})
				}
				f := ot.fields[k-1]
				ha, hb, ht = call(oa, f.name)[0], call(ob, f.name)[0], f.t
				fs := r.U64()
				fill(ha, ht, rng.New(fs), pc.cfg, 2)
				fill(hb, ht, rng.New(fs), pc.cfg, 2)
			}
			forcePresence(ha, hb, ht, r, round%3)
			stats["restaled-fields"] += restale(b, t, r, pc.cfg)
			sa, sb, da, db := stateOf(a, t), stateOf(b, t), dataOf(a, t), dataOf(b, t)
			note("nontrivial %x", hash("optional"+sa+sb))
			if samples < 12 && round == 1 && name == "HistogramValue" {
				samples++
				note("sample optional pair a=%s b=%s", sa, sb)
			}
			if da != db {
				propFail("harness-optional-pair-differs", "optional pair built with different data: a=%s b=%s", da, db)
				continue
			}
			if sa != sb {
				stats["optional-pairs-different-hidden-state"]++
			}
			stats["optional-pairs"]++
			for _, pr := range [][2]int{{0, 1}, {1, 0}} {
				x, y := []reflect.Value{a, b}[pr[0]], []reflect.Value{a, b}[pr[1]]
				sx, sy := []string{sa, sb}[pr[0]], []string{sa, sb}[pr[1]]
				e, res := isEqualObj(x, y)
				if res.panicked {
					propFail("panic-isequal-"+name, "%s.IsEqual panicked: %s a=%s b=%s", name, res.msg, sx, sy)
					continue
				}
				emit("eq "+sx+" "+sy, fmt.Sprint(e))
				if !e {
					propFail("isequal-"+name+"-mismatch", "%s.IsEqual=false for the same data: a=%s b=%s", name, sx, sy)
				}
				c, res := cmpObj(t, x, y)
				if res.panicked {
					propFail("panic-cmp-"+name, "Cmp%s panicked: %s a=%s b=%s", name, res.msg, sx, sy)
					continue
				}
				emit("cmp "+sx+" "+sy, fmt.Sprint(c))
				if c != 0 {
					sig := "cmp-" + name + "-nonzero-for-equal"
					if sx != sy {
						sig = "cmp-stale-optional"
					}
					propFail(sig, "%s: same data but Cmp=%d: a=%s b=%s", name, c, sx, sy)
				}
			}
			if hasMethod(t, "Clone") {
				for i, src := range []reflect.Value{a, b} {
					sst, sda := []string{sa, sb}[i], []string{da, db}[i]
					cl, res := cloneObj(t, src)
					if res.panicked {
						propFail("panic-clone-"+name, "%s.Clone panicked: %s src=%s", name, res.msg, sst)
						continue
					}
					stats["clones"]++
					cst, cda := stateOf(cl, t), dataOf(cl, t)
					emit("clone "+sst, cst)
					verifyEqualCopy(pc, "clone", src, sst, sda, cl, cst, cda)
				}
			}
		}
	}
}

// forcePresence drives the top-level optional fields of two equal structs a, b into one pattern:
// 0 = all present (same value), 1 = all absent (b with a stale stored value), 2 = random per field.
func forcePresence(a, b reflect.Value, t *ty, r *rng.R, mode int) {
	if t.kind != kStruct {
		return
	}
	for _, f := range t.fields {
		if !f.opt || !f.t.prim() {
			continue
		}
		m := mode
		if m == 2 {
			m = r.Intn(2)
		}
		if m == 0 {
			l := genLeaf(r, f.t.kind, fPlain)
			for _, p := range []reflect.Value{a, b} {
				s := meth(p, "Set"+f.name)
				s.Call([]reflect.Value{l.arg(s.Type().In(0))})
			}
			continue
		}
		call(a, "Unset"+f.name)
		call(b, "Unset"+f.name) // restale stores another value
	}
}

// restale changes the hidden state only: every absent optional primitive field reachable through
// mutable getters gets Set(v) with v different from the stored value, then Unset. Returns the
// number of fields treated. Dictionary structs (read-only getters, no optional fields) are skipped.
func restale(p reflect.Value, t *ty, r *rng.R, c *genCfg) int {
	n := 0
	switch t.kind {
	case kStruct:
		for _, f := range t.fields {
			switch {
			case f.t.prim():
				if !f.opt || call(p, "Has"+f.name)[0].Bool() {
					continue
				}
				cur := leafOf(f.t.kind, call(p, f.name)[0]).canon()
				var l leaf
				for {
					l = genLeaf(r, f.t.kind, c.fm)
					if l.canon() != cur {
						break
					}
				}
				s := meth(p, "Set"+f.name)
				s.Call([]reflect.Value{l.arg(s.Type().In(0))})
				call(p, "Unset"+f.name)
				n++
			case f.t.dict:
			default:
				if f.t.reachOpt {
					n += restale(call(p, f.name)[0], f.t, r, c)
				}
			}
		}
	case kOneof:
		k := int(call(p, "Type")[0].Uint())
		if k != 0 && !t.fields[k-1].t.prim() && t.fields[k-1].t.reachOpt {
			n += restale(call(p, t.fields[k-1].name)[0], t.fields[k-1].t, r, c)
		}
	case kArr:
		if !t.elem.prim() && t.elem.reachOpt {
			for i := 0; i < int(call(p, "Len")[0].Int()); i++ {
				n += restale(call(p, "At", reflect.ValueOf(i))[0], t.elem, r, c)
			}
		}
	case kMap:
		if !t.val.prim() && t.val.reachOpt {
			for i := 0; i < int(call(p, "Len")[0].Int()); i++ {
				n += restale(call(p, "Value", reflect.ValueOf(i))[0], t.val, r, c)
			}
		}
	}
	return n
}

// optCounts counts in a state dump the optional fields that are present, absent with a non-zero
// stored primitive (stale) and absent with the zero value.
func optCounts(st string) (present, stale, zero int) {
	for i := 0; i+1 < len(st); i++ {
		if i == 0 || (st[i-1] != '(' && st[i-1] != ',') {
			continue
		}
		switch st[i] {
		case '+':
			present++
		case '-':
			j := i + 1
			for j < len(st) && st[j] != ',' && st[j] != ')' {
				j++
			}
			switch st[i+1 : j] {
			case "f0", "u0", "i0", "b0", "s", "y":
				zero++
			default:
				stale++
			}
		}
	}
	return
}

// ---------------------------------------------------------------- frozen values

// A frozen dictionary struct must reject every mutation: the call panics and the value is unchanged
// (since /repo 1d57428 markModified checks frozen before its fast path and every generated setter
// marks before it mutates). The section enumerates EVERY single mutating call of the public API on
// a frozen Resource / Scope / Metric and everything reachable through its getters:
//
//	struct     Set<Field>(other value) per primitive field, CopyFrom(other)
//	multimap   SetKey(i, other) / SetValue(i, other) per element, EnsureLen(n+1), EnsureLen(n-1), CopyFrom(other)
//	oneof      SetType(k) per other alternative and None, Set<Alt>(other value) per primitive alternative, CopyFrom(other)
//	array      Append, EnsureLen(n+1), EnsureLen(n-1), CopyFromSlice(other) (primitive elements)
//
// recursively through Value(i) / At(i) / the current alternative. Each call is made on a freshly
// built frozen subject and on an unfrozen twin with the same state: when the call changes the twin
// (a real mutation attempt; setting the value already held or EnsureLen(Len()) is not one) the
// frozen subject MUST panic, and in every case it must be unchanged.
//
// Subjects: "built" (Init + setters: the modified bit of every field set is already set - the
// fast path of markModified), "empty" (Init only: no modified bit set), "copy" (Init + CopyFrom),
// "clone" (Clone() of a built value: modified bits clear).
//
// Signatures: frozen-mutation-before-panic (panicked, but the value changed) and
// frozen-silent-mutation (no panic, value changed) are the two defects repaired by 1d57428, kept as
// oracles; frozen-mutation-no-panic = a real mutation attempt was swallowed without panic. Three
// residual defects of the same kind are genuine findings of their own:
//   - frozen-copyfrom-mutation-before-panic: copy<Multimap> (primitive keys/values) and copy<Array>
//     (primitive elements) still assign before they mark: CopyFrom on such a member of a frozen
//     struct, or the struct's CopyFrom with a source differing only there, panics after the change;
//   - frozen-nested-multimap-silent-mutation: the call's modifiedFields is two or more levels below
//     the frozen struct (a multimap inside a multimap value, e.g. a KVList in an attribute value, and
//     everything below it): neither it nor its parent carries the frozen flag (multimap.freeze()
//     does not freeze modifiedElems.keys/vals), so with the modified bits already set the walk up
//     stops before it reaches the frozen struct;
//   - frozen-clone-silent-mutation: Clone() sets no parent links (C01 finding setter-clone-unlinked),
//     so arrays, multimaps and oneofs of a frozen clone have a nil / unlinked modifiedFields.
type fsite struct {
	desc   string
	level  int  // modifiedFields levels between the call's mark target and the frozen struct's own
	member bool // not a primitive setter of the frozen struct itself
	do     func(root reflect.Value)
}

type fnav func(root reflect.Value) reflect.Value

func otherLeaf(r *rng.R, k kind, cur string) leaf {
	for {
		if l := genLeaf(r, k, fPlain); l.canon() != cur {
			return l
		}
	}
}

// otherObj builds a value of type t whose state differs from cur (nil when none is found).
func otherObj(t *ty, r *rng.R, c *genCfg, depth int, cur string) *reflect.Value {
	for try := 0; try < 8; try++ {
		o := newObj(t)
		fill(o, t, r, c, depth)
		if stateOf(o, t) != cur {
			return &o
		}
	}
	return nil
}

// enumSites lists every single mutating call on the object p (reached from the root by nav).
func enumSites(p reflect.Value, t *ty, nav fnav, level, depth int, path string, r *rng.R, c *genCfg, out *[]fsite) {
	add := func(desc string, lvl int, member bool, do func(x reflect.Value)) {
		*out = append(*out, fsite{desc: path + desc, level: lvl, member: member, do: func(root reflect.Value) { do(nav(root)) }})
	}
	sub := func(getter string, args ...reflect.Value) fnav {
		return func(root reflect.Value) reflect.Value { return call(nav(root), getter, args...)[0] }
	}
	copyFromSite := func(lvl int) {
		if !hasMethod(t, "CopyFrom") {
			return
		}
		if o := otherObj(t, r, c, depth, stateOf(p, t)); o != nil {
			add("CopyFrom("+stateOf(*o, t)+")", lvl, true, func(x reflect.Value) { call(x, "CopyFrom", *o) })
		}
	}
	switch t.kind {
	case kStruct:
		for _, f := range t.fields {
			f := f
			switch {
			case f.t.prim():
				l := otherLeaf(r, f.t.kind, leafOf(f.t.kind, call(p, f.name)[0]).canon())
				add("Set"+f.name+"("+l.canon()+")", level, depth > 0, func(x reflect.Value) {
					m := meth(x, "Set"+f.name)
					m.Call([]reflect.Value{l.arg(m.Type().In(0))})
				})
				if f.opt {
					add("Unset"+f.name, level, depth > 0, func(x reflect.Value) { call(x, "Unset"+f.name) })
				}
			case f.t.dict:
			default:
				enumSites(call(p, f.name)[0], f.t, sub(f.name), level, depth+1, path+f.name+"/", r, c, out)
			}
		}
		copyFromSite(level)
	case kOneof:
		cur := int(call(p, "Type")[0].Uint())
		for k := 0; k <= len(t.fields); k++ {
			k := k
			if k != cur {
				add(fmt.Sprintf("SetType(%d)", k), level, true, func(x reflect.Value) {
					st := meth(x, "SetType")
					st.Call([]reflect.Value{reflect.ValueOf(uint64(k)).Convert(st.Type().In(0))})
				})
			}
			if k == 0 || !t.fields[k-1].t.prim() {
				continue
			}
			f := t.fields[k-1]
			curv := ""
			if k == cur {
				curv = leafOf(f.t.kind, call(p, f.name)[0]).canon()
			}
			l := otherLeaf(r, f.t.kind, curv)
			add("Set"+f.name+"("+l.canon()+")", level, true, func(x reflect.Value) {
				m := meth(x, "Set"+f.name)
				m.Call([]reflect.Value{l.arg(m.Type().In(0))})
			})
		}
		copyFromSite(level)
		if cur != 0 && !t.fields[cur-1].t.prim() {
			f := t.fields[cur-1]
			enumSites(call(p, f.name)[0], f.t, sub(f.name), level, depth+1, path+f.name+"/", r, c, out)
		}
	case kArr:
		n := int(call(p, "Len")[0].Int())
		for _, nn := range []int{n + 1, n - 1} {
			nn := nn
			if nn >= 0 {
				add(fmt.Sprintf("EnsureLen(%d)", nn), level, true, func(x reflect.Value) { call(x, "EnsureLen", reflect.ValueOf(nn)) })
			}
		}
		if t.elem.prim() {
			l := genLeaf(r, t.elem.kind, fPlain)
			add("Append("+l.canon()+")", level, true, func(x reflect.Value) {
				m := meth(x, "Append")
				m.Call([]reflect.Value{l.arg(m.Type().In(0))})
			})
			var ls []leaf
			for i := 0; i < n; i++ {
				ls = append(ls, leafOf(t.elem.kind, call(p, "At", reflect.ValueOf(i))[0]))
			}
			if n > 0 {
				ls[n-1] = otherLeaf(r, t.elem.kind, ls[n-1].canon())
			} else {
				ls = append(ls, genLeaf(r, t.elem.kind, fPlain))
			}
			add(fmt.Sprintf("CopyFromSlice(len %d, last %s)", len(ls), ls[len(ls)-1].canon()), level, true, func(x reflect.Value) {
				m := meth(x, "CopyFromSlice")
				sl := reflect.MakeSlice(m.Type().In(0), len(ls), len(ls))
				for i := range ls {
					sl.Index(i).Set(ls[i].arg(m.Type().In(0).Elem()))
				}
				m.Call([]reflect.Value{sl})
			})
			return
		}
		if hasMethod(t, "Append") {
			o := newObj(t.elem)
			fill(o, t.elem, r, c, c.maxDepth)
			add("Append("+stateOf(o, t.elem)+")", level, true, func(x reflect.Value) { call(x, "Append", o) })
		}
		for i := 0; i < n; i++ {
			iv := reflect.ValueOf(i)
			enumSites(call(p, "At", iv)[0], t.elem, sub("At", iv), level, depth+1, fmt.Sprintf("%s[%d]/", path, i), r, c, out)
		}
	case kMap:
		n := int(call(p, "Len")[0].Int())
		for _, nn := range []int{n + 1, n - 1} {
			nn := nn
			if nn >= 0 {
				add(fmt.Sprintf("EnsureLen(%d)", nn), level+1, true, func(x reflect.Value) { call(x, "EnsureLen", reflect.ValueOf(nn)) })
			}
		}
		copyFromSite(level + 1)
		for i := 0; i < n; i++ {
			iv := reflect.ValueOf(i)
			for _, kv := range []struct {
				t            *ty
				get, set, nm string
			}{{t.key, "Key", "SetKey", "Key"}, {t.val, "Value", "SetValue", "Value"}} {
				kv := kv
				if kv.t.prim() {
					l := otherLeaf(r, kv.t.kind, leafOf(kv.t.kind, call(p, kv.get, iv)[0]).canon())
					add(fmt.Sprintf("%s(%d,%s)", kv.set, i, l.canon()), level+1, true, func(x reflect.Value) {
						m := meth(x, kv.set)
						m.Call([]reflect.Value{iv, l.arg(m.Type().In(1))})
					})
					continue
				}
				enumSites(call(p, kv.get, iv)[0], kv.t, sub(kv.get, iv), level+1, depth+1, fmt.Sprintf("%s%s(%d)/", path, kv.nm, i), r, c, out)
			}
		}
	}
}

// mapDepthOfChange: the number of multimaps enclosing the changed region of a dump (the minimum
// over its first and its last differing position; 0 = a direct field of the struct).
func mapDepthOfChange(a, b string) int {
	i := 0
	for i < len(a) && i < len(b) && a[i] == b[i] {
		i++
	}
	j := 0
	for j < len(a)-i && j < len(b)-i && a[len(a)-1-j] == b[len(b)-1-j] {
		j++
	}
	depthAt := func(s string, pos int) int {
		var st []byte
		for k := 0; k < pos && k < len(s); k++ {
			switch s[k] {
			case '[':
				st = append(st, s[k-1])
			case ']':
				st = st[:len(st)-1]
			}
		}
		d := 0
		for _, c := range st {
			if c == 'M' {
				d++
			}
		}
		return d
	}
	return min(depthAt(a, i), depthAt(a, len(a)-j))
}

func frozenSection() {
	r := rng.FromEnv(903)
	rounds := 4
	if thorough {
		rounds = 40
	}
	modes := []string{"built", "empty", "copy", "clone"}
	for _, name := range []string{"Resource", "Scope", "Metric"} {
		t := types[name]
		for round := 0; round < rounds; round++ {
			// odd rounds: nested containers (a KVList / array in an attribute value and below)
			cfg := &genCfg{fm: fPlain, maxDepth: 2, maxLen: 2 + (round/2)%2}
			if round%2 == 1 {
				cfg.maxDepth, cfg.maxLen, cfg.deep = 4+(round/2)%2, 2, true
			}
			seed := r.U64()
			for _, mode := range modes {
				if mode == "empty" && round > 0 {
					continue
				}
				note("case frozen/%s/%s/%d", name, mode, round)
				// the subject (frozen) and its unfrozen twin, rebuilt for every call
				build := func(freeze bool) reflect.Value {
					p := newObj(t)
					if mode != "empty" {
						fill(p, t, rng.New(seed), cfg, 0)
					}
					if freeze {
						switch mode {
						case "clone":
							p, _ = cloneObj(t, p)
						case "copy":
							d := newObj(t)
							copyFromObj(d, p)
							p = d
						}
						freezeObj(p)
					}
					return p
				}
				probe := build(false)
				s0 := stateOf(probe, t)
				if f0 := stateOf(build(true), t); f0 != s0 {
					propFail("frozen-"+name+"-subject-differs", "frozen subject (%s) differs from its twin: %s vs %s", mode, f0, s0)
					continue
				}
				note("nontrivial %x", hash("frozen"+mode+s0))
				var sites []fsite
				enumSites(probe, t, func(root reflect.Value) reflect.Value { return root }, 0, 0, name+".", rng.New(seed^0x9e3779b97f4a7c15), cfg, &sites)
				// the struct's CopyFrom with a source that differs in ONE member only (the random
				// source above differs in a primitive field first): copy<Multimap> / copy<Array> /
				// copy<Oneof> below a frozen struct
				for _, ms := range append([]fsite(nil), sites...) {
					if !ms.member || strings.Contains(ms.desc, "CopyFrom(") {
						continue
					}
					o := build(false)
					if guard(func() { ms.do(o) }).panicked || stateOf(o, t) == s0 {
						continue
					}
					sites = append(sites, fsite{desc: name + ".CopyFrom(twin after " + ms.desc + ")", level: ms.level, member: true,
						do: func(root reflect.Value) { call(root, "CopyFrom", o) }})
				}
				stats["frozen-sites-"+mode] += len(sites)
				if samples < 14 && round == 1 && mode == "built" {
					samples++
					var ds []string
					for i, s := range sites {
						if i < 12 {
							ds = append(ds, s.desc)
						}
					}
					note("sample frozen %s (%d calls): %s ...", s0, len(sites), strings.Join(ds, " ; "))
				}
				for _, site := range sites {
					twin := build(false)
					tres := guard(func() { site.do(twin) })
					if tres.panicked {
						propFail("frozen-"+name+"-twin-panic", "%s panicked on an UNFROZEN %s: %s value=%s", site.desc, name, tres.msg, s0)
						continue
					}
					attempt := stateOf(twin, t) != s0
					p := build(true)
					res := guard(func() { site.do(p) })
					s1 := stateOf(p, t)
					stats["frozen-calls"]++
					stats[fmt.Sprintf("frozen-calls-level-%d", site.level)]++
					if attempt {
						stats["frozen-mutation-attempts"]++
					}
					if res.panicked {
						stats["frozen-mutation-panics"]++
					}
					switch {
					case s1 != s0 && res.panicked && strings.Contains(site.desc, "CopyFrom("):
						propFail("frozen-copyfrom-mutation-before-panic", "frozen %s (%s): %s panicked but the value changed: before=%s after=%s", name, mode, site.desc, s0, s1)
					case s1 != s0 && res.panicked:
						propFail("frozen-mutation-before-panic", "frozen %s (%s): %s panicked but the value changed: before=%s after=%s", name, mode, site.desc, s0, s1)
					case s1 != s0 && mode == "clone" && site.member:
						propFail("frozen-clone-silent-mutation", "frozen Clone() of %s: %s did not panic and changed the value: before=%s after=%s", name, site.desc, s0, s1)
					case s1 != s0 && mapDepthOfChange(s0, s1) >= 2:
						// everything that changed lies inside a multimap nested in a multimap value
						propFail("frozen-nested-multimap-silent-mutation", "frozen %s (%s): %s (modifiedFields level %d) did not panic and changed the value: before=%s after=%s", name, mode, site.desc, site.level, s0, s1)
					case s1 != s0:
						propFail("frozen-silent-mutation", "frozen %s (%s): %s did not panic and changed the value: before=%s after=%s", name, mode, site.desc, s0, s1)
					case attempt && !res.panicked:
						propFail("frozen-mutation-no-panic", "frozen %s (%s): %s changes an unfrozen twin but was accepted without panic (value unchanged): %s", name, mode, site.desc, s0)
					}
				}
			}
		}
	}
}

// ---------------------------------------------------------------- histories

// Random sequences of mutate / CopyFrom / Clone / Freeze+Set / compare over three variables of one
// type. Invariant after every step: an operation on one variable never changes the state of another.
func historySection() {
	r := rng.FromEnv(904)
	names := []string{"Point", "Metrics", "AnyValue", "Attributes", "HistogramValue", "Resource", "Spans", "Metric", "PointValue", "Exemplar"}
	rounds, steps := 3, 14
	if thorough {
		rounds, steps = 60, 30
	}
	for _, name := range names {
		t := types[name]
		for round := 0; round < rounds; round++ {
			note("case history/%s/%d", name, round)
			cfg := &genCfg{fm: fPlain, freeze: true, maxDepth: 2, maxLen: 3}
			x := []reflect.Value{newObj(t), newObj(t), newObj(t)}
			var hist []string
			hsh := uint64(0)
			for s := 0; s < steps; s++ {
				i, j := r.Intn(3), r.Intn(3)
				before := []string{stateOf(x[0], t), stateOf(x[1], t), stateOf(x[2], t)}
				touched := i
				var desc string
				switch op := r.Intn(8); {
				case op <= 3:
					res := guard(func() { desc = "x" + fmt.Sprint(i) + ": " + mutate(x[i], t, r, cfg, 0) })
					if res.panicked {
						desc = fmt.Sprintf("x%d: mutate panicked: %s", i, res.msg)
						propFail("history-"+name+"-mutate-panic", "unexpected panic mutating a non-frozen %s: %s history=%v", name, res.msg, hist)
					}
					stats["history-mutate"]++
				case op == 4 || op == 5:
					if i == j {
						j = (i + 1) % 3
					}
					desc = fmt.Sprintf("x%d.CopyFrom(x%d)", i, j)
					res := copyFromObj(x[i], x[j])
					stats["history-copy"]++
					if res.panicked {
						propFail("panic-copyfrom-"+name, "%s panicked: %s history=%v", desc, res.msg, hist)
					} else if a, b := dataOf(x[i], t), dataOf(x[j], t); a != b {
						propFail("copy-"+name+"-not-equal", "%s: dst=%s src=%s history=%v", desc, a, b, hist)
					}
				case op == 6 && hasMethod(t, "Clone"):
					if i == j {
						j = (i + 1) % 3
					}
					desc = fmt.Sprintf("x%d = x%d.Clone()", i, j)
					cl, res := cloneObj(t, x[j])
					stats["history-clone"]++
					if res.panicked {
						propFail("panic-clone-"+name, "%s panicked: %s history=%v", desc, res.msg, hist)
					} else {
						x[i] = cl
						if a, b := dataOf(x[i], t), dataOf(x[j], t); a != b {
							sig := "clone-" + name + "-not-equal"
							if t.hasOpt && topLevelOptionalPresent(x[j], t) {
								sig = "clone-loses-optional-presence"
							}
							propFail(sig, "%s: clone=%s src=%s history=%v", desc, a, b, hist)
						}
					}
				default:
					desc = fmt.Sprintf("cmp x%d x%d", i, j)
					touched = -1
					a, b := stateOf(x[i], t), stateOf(x[j], t)
					c1, r1 := cmpObj(t, x[i], x[j])
					c2, r2 := cmpObj(t, x[j], x[i])
					stats["history-cmp"]++
					if r1.panicked || r2.panicked {
						propFail("panic-cmp-"+name, "%s panicked history=%v", desc, hist)
					} else {
						emit("cmp "+a+" "+b, fmt.Sprint(c1))
						if c1 != -c2 {
							propFail("cmp-"+name+"-antisymmetry", "Cmp(a,b)=%d Cmp(b,a)=%d a=%s b=%s", c1, c2, a, b)
						}
						if c1 == 0 && dataOf(x[i], t) != dataOf(x[j], t) {
							propFail("cmp-"+name+"-zero-different-data", "Cmp=0 a=%s b=%s", a, b)
						}
					}
				}
				hist = append(hist, desc)
				hsh = hsh*1099511628211 ^ hash(desc)
				for k := 0; k < 3; k++ {
					if k == touched {
						continue
					}
					if now := stateOf(x[k], t); now != before[k] {
						propFail("history-"+name+"-aliasing", "step %q changed x%d: before=%s after=%s history=%v", desc, k, before[k], now, hist)
					}
				}
			}
			if len(hist) >= 8 {
				note("nontrivial %x", hsh)
			}
			if round == 0 && samples < 11 {
				samples++
				h := strings.Join(hist, " ; ")
				if len(h) > 600 {
					h = h[:600] + "..."
				}
				note("sample history %s: %s", name, h)
			}
		}
	}
}

// Directed witnesses of the float defects, per type: the same value built five times with every
// float leaf set to +0, -0, NaN, 1.0, 2.0. Cmp(+0 version, -0 version) = 0 with different data and
// 2.0 <= NaN <= 1.0 but 2.0 > 1.0 were the findings cmp-<Type>-negzero-field / -nan-field (repaired
// by 05846e0; evaluated on every run as regression oracles). CopyFrom of the -0 version into the
// +0 version was the finding copy-negzero-not-copied (repaired by 59db810; same treatment).
func directedSection() {
	names := make([]string, 0, len(specialTypes))
	for n := range specialTypes {
		names = append(names, n)
	}
	sort.Strings(names)
	pats := []uint64{0, 0x8000000000000000, 0x7ff8000000000000, 0x3ff0000000000000, 0x4000000000000000}
	for _, name := range names {
		t := types[name]
		var objs []reflect.Value
		var st, da []string
		found := false
		foundSeed := uint64(0)
		for seed := uint64(0); seed < 200 && !found; seed++ {
			foundSeed = seed
			objs, st, da = nil, nil, nil
			for i := range pats {
				cfg := &genCfg{fm: fPlain, maxDepth: 2, maxLen: 2, f64: &pats[i]}
				p := newObj(t)
				fill(p, t, rng.New(rng.Seed()*977+seed), cfg, 0)
				objs = append(objs, p)
				st = append(st, stateOf(p, t))
				da = append(da, dataOf(p, t))
			}
			// the value must actually hold a float, visibly
			found = da[3] != da[4] && strings.Contains(da[1], "f8000000000000000")
		}
		if !found {
			note("note directed: no float-bearing %s found", name)
			continue
		}
		note("case directed/%s", name)
		note("nontrivial %x", hash("directed"+st[3]))
		c := func(i, j int) int {
			v, res := cmpObj(t, objs[i], objs[j])
			if res.panicked {
				propFail("panic-cmp-"+name, "Cmp%s panicked: %s", name, res.msg)
			}
			emit("cmp "+st[i]+" "+st[j], fmt.Sprint(v))
			return v
		}
		stats["directed-types"]++
		if c(0, 1) == 0 && da[0] != da[1] {
			propFail("cmp-"+name+"-negzero-field", "Cmp%s(a,b)=0 but a holds +0.0 where b holds -0.0: a=%s b=%s", name, da[0], da[1])
		}
		ab, bc, ac := c(4, 2), c(2, 3), c(4, 3)
		if ab <= 0 && bc <= 0 && ac > 0 {
			propFail("cmp-"+name+"-nan-field", "Cmp%s not transitive through NaN: cmp(a,b)=%d cmp(b,c)=%d cmp(a,c)=%d a=%s b=%s c=%s", name, ab, bc, ac, da[4], da[2], da[3])
		}
		if c(2, 3) == 0 {
			propFail("cmp-"+name+"-nan-field", "Cmp%s(a,b)=0 but a holds NaN where b holds 1.0: a=%s b=%s", name, da[2], da[3])
		}
		if e, res := isEqualObj(objs[0], objs[1]); !res.panicked {
			emit("eq "+st[0]+" "+st[1], fmt.Sprint(e))
			if e && da[0] != da[1] {
				propFail("isequal-negzero-field", "%s.IsEqual=true but a holds +0.0 where b holds -0.0: a=%s b=%s", name, da[0], da[1])
			}
		}
		// CopyFrom(-0 version) into a freshly built +0 version
		{
			mk := func(i int) reflect.Value {
				cfg := &genCfg{fm: fPlain, maxDepth: 2, maxLen: 2, f64: &pats[i]}
				p := newObj(t)
				fill(p, t, rng.New(rng.Seed()*977+foundSeed), cfg, 0)
				return p
			}
			if hasMethod(t, "CopyFrom") {
				d, src := mk(0), mk(1)
				d0 := stateOf(d, t)
				if res := copyFromObj(d, src); res.panicked {
					propFail("panic-copyfrom-"+name, "%s.CopyFrom panicked: %s", name, res.msg)
				} else {
					emit("copy "+d0+" "+st[1], stateOf(d, t))
					if a, b := dataOf(d, t), da[1]; a != b {
						sig := "copy-" + name + "-not-equal"
						if normZero(a) == normZero(b) {
							sig = "copy-negzero-not-copied"
						}
						propFail(sig, "%s: dst holding +0.0 after CopyFrom(src holding -0.0): dst=%s src=%s", name, a, b)
					}
				}
			}
		}
		if e, res := isEqualObj(objs[2], objs[2]); !res.panicked {
			emit("eq "+st[2]+" "+st[2], fmt.Sprint(e))
			if !e {
				propFail("isequal-nan-field", "%s.IsEqual(a,a)=false for a value holding NaN: a=%s", name, da[2])
			}
		}
	}
}

// nil dictionary-struct pointers: Cmp<Struct> checks nil first.
func nilSection() {
	r := rng.FromEnv(905)
	for _, name := range []string{"Resource", "Scope", "Metric"} {
		t := types[name]
		note("case nil/%s", name)
		nilp := reflect.Zero(reflect.PointerTo(t.rt))
		p := newObj(t)
		fill(p, t, r, &genCfg{fm: fPlain, maxDepth: 1, maxLen: 2}, 0)
		for _, pr := range [][2]reflect.Value{{nilp, nilp}, {nilp, p}, {p, nilp}} {
			c, res := cmpObj(t, pr[0], pr[1])
			if res.panicked {
				propFail("panic-cmp-"+name, "Cmp%s with nil panicked: %s", name, res.msg)
				continue
			}
			emit("cmp "+stateOf(pr[0], t)+" "+stateOf(pr[1], t), fmt.Sprint(c))
			c2, _ := cmpObj(t, pr[1], pr[0])
			if c != -c2 {
				propFail("cmp-"+name+"-antisymmetry", "nil pointers: Cmp(a,b)=%d Cmp(b,a)=%d", c, c2)
			}
		}
	}
}

func main() {
	defer out.Flush()
	initSchema()
	sections := map[string]bool{}
	for _, a := range os.Args[1:] {
		sections[a] = true
	}
	all := len(sections) == 0 || sections["all"]
	if all || sections["prim"] {
		primSection()
	}
	if all || sections["types"] {
		rounds := 2
		if thorough {
			rounds = 30
		}
		base := rng.Seed()
		for _, name := range typeOrder {
			t := types[name]
			for k := 0; k < rounds; k++ {
				runPool(t, fPlain, base*1000+uint64(k))
				if specialTypes[name] {
					runPool(t, fSpecial, base*1000+500+uint64(k))
				}
			}
		}
		nilSection()
		directedSection()
		optionalSection()
		prefixFamilySection()
	}
	if all || sections["frozen"] {
		frozenSection()
	}
	if all || sections["history"] {
		historySection()
	}
	if all || sections["encoded"] {
		encodedSection()
	}
	if all || sections["grouping"] {
		groupingSection()
	}
	if all || sections["shared"] {
		sharedSection()
	}
	if all || sections["oneofhist"] {
		oneofHistorySection()
	}
	keys := make([]string, 0, len(stats))
	for k := range stats {
		keys = append(keys, k)
	}
	sort.Strings(keys)
	for _, k := range keys {
		note("stat %s %d", k, stats[k])
	}
	fk := make([]string, 0, len(failCount))
	for k := range failCount {
		fk = append(fk, k)
	}
	sort.Strings(fk)
	for _, k := range fk {
		note("stat propfail-%s %d", k, failCount[k])
	}
}

// prefixFamilySection: families of multimaps (and arrays) that share a prefix and differ in length
// and in the values under the shared keys - the shape on which "compare the common prefix, then the
// lengths" and "compare keys, lengths, then values" orderings disagree. All order laws are checked
// on every pair and triple of a family, and every comparison is replayed on the model.
func prefixFamilySection() {
	names := make([]string, 0, len(types))
	for n, t := range types {
		if t.kind == kMap || t.kind == kArr {
			names = append(names, n)
		}
	}
	sort.Strings(names)
	rounds := 6
	if thorough {
		rounds = 60
	}
	for _, name := range names {
		t := types[name]
		if !hasMethod(t, "EnsureLen") {
			continue
		}
		for round := 0; round < rounds; round++ {
			r := rng.New(rng.Seed()*7919 + uint64(round)*31 + hash(name))
			cfg := &genCfg{fm: fPlain, maxDepth: 1, maxLen: 2}
			// a base of 3 elements; family members: prefixes of length 1..3 whose elements are taken
			// from two alternative fillings per index
			const L = 3
			alts := [2]reflect.Value{newObj(t), newObj(t)}
			for k := 0; k < 2; k++ {
				call(alts[k], "EnsureLen", reflect.ValueOf(L))
				for i := 0; i < L; i++ {
					if t.kind == kMap {
						setMapKV(alts[k], t, i, r, cfg, 0)
					} else if t.elem.prim() {
						continue
					} else {
						fill(call(alts[k], "At", reflect.ValueOf(i))[0], t.elem, r, cfg, 1)
					}
				}
			}
			if t.kind == kMap && t.key.prim() {
				// same key at index 0 in both alternatives (the shared prefix key)
				k0 := call(alts[0], "Key", reflect.ValueOf(0))[0]
				m := meth(alts[1], "SetKey")
				m.Call([]reflect.Value{reflect.ValueOf(0), k0.Convert(m.Type().In(1))})
			}
			var objs []reflect.Value
			var st []string
			for ln := 1; ln <= L; ln++ {
				for pick := 0; pick < 1<<uint(ln) && len(objs) < 10; pick++ {
					o := newObj(t)
					call(o, "EnsureLen", reflect.ValueOf(ln))
					okBuild := true
					for i := 0; i < ln; i++ {
						src := alts[(pick>>uint(i))&1]
						if t.kind == kMap {
							if t.key.prim() {
								m := meth(o, "SetKey")
								m.Call([]reflect.Value{reflect.ValueOf(i), call(src, "Key", reflect.ValueOf(i))[0].Convert(m.Type().In(1))})
							} else if res := copyFromObj(call(o, "Key", reflect.ValueOf(i))[0], call(src, "Key", reflect.ValueOf(i))[0]); res.panicked {
								okBuild = false
							}
							if t.val.prim() {
								m := meth(o, "SetValue")
								m.Call([]reflect.Value{reflect.ValueOf(i), call(src, "Value", reflect.ValueOf(i))[0].Convert(m.Type().In(1))})
							} else if res := copyFromObj(call(o, "Value", reflect.ValueOf(i))[0], call(src, "Value", reflect.ValueOf(i))[0]); res.panicked {
								okBuild = false
							}
						} else if !t.elem.prim() {
							if res := copyFromObj(call(o, "At", reflect.ValueOf(i))[0], call(src, "At", reflect.ValueOf(i))[0]); res.panicked {
								okBuild = false
							}
						}
					}
					if okBuild {
						objs = append(objs, o)
						st = append(st, stateOf(o, t))
					}
				}
			}
			n := len(objs)
			if n < 3 {
				continue
			}
			note("case prefix-family/%s/%d", name, round)
			note("nontrivial %x", hash("pf"+st[0]+st[n-1]))
			stats["prefix-families"]++
			c := make([][]int, n)
			for i := range c {
				c[i] = make([]int, n)
				for j := range c[i] {
					v, res := cmpObj(t, objs[i], objs[j])
					if res.panicked {
						propFail("panic-cmp-"+name, "Cmp%s panicked: %s", name, res.msg)
					}
					c[i][j] = v
					emit("cmp "+st[i]+" "+st[j], fmt.Sprint(v))
				}
			}
			sgn := func(x int) int {
				switch {
				case x < 0:
					return -1
				case x > 0:
					return 1
				}
				return 0
			}
			for i := 0; i < n; i++ {
				for j := 0; j < n; j++ {
					if sgn(c[i][j]) != -sgn(c[j][i]) {
						propFail("cmp-"+name+"-antisymmetry", "Cmp%s(a,b)=%d Cmp(b,a)=%d a=%s b=%s", name, c[i][j], c[j][i], st[i], st[j])
					}
					for k := 0; k < n; k++ {
						if c[i][j] <= 0 && c[j][k] <= 0 && c[i][k] > 0 {
							propFail("cmp-"+name+"-transitivity", "Cmp%s not transitive: cmp(a,b)=%d cmp(b,c)=%d cmp(a,c)=%d a=%s b=%s c=%s", name, c[i][j], c[j][k], c[i][k], st[i], st[j], st[k])
						}
					}
				}
			}
		}
	}
}
