package main

import (
	"fmt"
	"reflect"
	"sort"

	"verif/harness/internal/rng"
)

// oneofHistorySection (C09, independence of a clone / copy of a oneof WITH A HISTORY). A oneof keeps
// the storage of its inactive alternatives. For every oneof type and every pair (A = an alternative
// with nested storage, B = another alternative or none): the source holds A with content, is
// switched to B and is then cloned (or copied into a fresh / a used destination). Both sides are
// switched back to A and filled with DIFFERENT content, in both orders: neither side may see the
// other's writes, nothing may panic, and the clone must have been equal to the source.
func oneofHistorySection() {
	r := rng.FromEnv(931)
	rounds := 2
	if thorough {
		rounds = 12
	}
	cfg := &genCfg{fm: fPlain, maxDepth: 2, maxLen: 3}
	setType := func(p reflect.Value, k int) {
		st := meth(p, "SetType")
		st.Call([]reflect.Value{reflect.ValueOf(uint64(k)).Convert(st.Type().In(0))})
	}
	for _, name := range sortedTypeNames() {
		t := types[name]
		if t.kind != kOneof || !hasMethod(t, "Clone") {
			continue
		}
		for ai, fa := range t.fields {
			if fa.t.prim() {
				continue
			}
			for bk := 0; bk <= len(t.fields); bk++ {
				if bk == ai+1 {
					continue
				}
				for round := 0; round < rounds; round++ {
					for _, how := range []string{"clone", "copy-fresh", "copy-used"} {
						if how != "clone" && !hasMethod(t, "CopyFrom") {
							continue
						}
						cname := fmt.Sprintf("oneofhist/%s/%s-%d/%s/%d", name, fa.name, bk, how, round)
						note("case %s", cname)
						stats["oneof-history-cases"]++
						src := newObj(t)
						var cp reflect.Value
						var desc string
						res := guard(func() {
							setType(src, ai+1)
							fill(call(src, fa.name)[0], fa.t, rng.New(r.U64()), cfg, 1)
							setType(src, bk)
							if bk > 0 {
								fb := t.fields[bk-1]
								if fb.t.prim() {
									m := meth(src, "Set"+fb.name)
									m.Call([]reflect.Value{genLeafC(r, fb.t.kind, cfg).arg(m.Type().In(0))})
								} else {
									fill(call(src, fb.name)[0], fb.t, rng.New(r.U64()), cfg, 1)
								}
							}
							switch how {
							case "clone":
								var cr result
								cp, cr = cloneObj(t, src)
								if cr.panicked {
									panic("Clone: " + cr.msg)
								}
							case "copy-fresh":
								cp = newObj(t)
								call(cp, "CopyFrom", src)
							default:
								cp = newObj(t)
								fill(cp, t, rng.New(r.U64()), cfg, 1)
								call(cp, "CopyFrom", src)
							}
							if c0, s0 := dataOf(cp, t), dataOf(src, t); c0 != s0 {
								desc = fmt.Sprintf("the %s holds %s, the source %s", how, c0, s0)
								return
							}
							// both back to A, different content, both orders
							first, second, fn, sn := src, cp, "source", how
							if round%2 == 1 {
								first, second, fn, sn = cp, src, how, "source"
							}
							setType(first, ai+1)
							fill(call(first, fa.name)[0], fa.t, rng.New(r.U64()), cfg, 1)
							f0 := stateOf(first, t)
							setType(second, ai+1)
							fill(call(second, fa.name)[0], fa.t, rng.New(r.U64()), cfg, 1)
							if f1 := stateOf(first, t); f1 != f0 {
								desc = fmt.Sprintf("after both sides were switched back to %s, writing the %s changed the %s: before=%s after=%s", fa.name, sn, fn, f0, f1)
								return
							}
							s1 := stateOf(second, t)
							fill(call(first, fa.name)[0], fa.t, rng.New(r.U64()), cfg, 1)
							if s2 := stateOf(second, t); s2 != s1 {
								desc = fmt.Sprintf("after both sides were switched back to %s, writing the %s changed the %s: before=%s after=%s", fa.name, fn, sn, s1, s2)
							}
						})
						note("nontrivial %x", hash(cname))
						switch {
						case res.panicked:
							propFail("oneof-history-"+t.name+"-panic", "%s: a %s held %s with content, was switched to alternative %d and %s; using both sides afterwards panicked: %s", cname, t.name, fa.name, bk, how, res.msg)
						case desc != "":
							propFail(how+"-"+t.name+"-not-independent", "%s: a %s held %s with content, was switched to alternative %d and then %s: %s", cname, t.name, fa.name, bk, how, desc)
						}
					}
				}
			}
		}
	}
}

func sortedTypeNames() []string {
	var ns []string
	for n := range types {
		ns = append(ns, n)
	}
	sort.Strings(ns)
	return ns
}
