package main

// Reflection-driven access to the generated otelstef types: create, fill through the public setters,
// dump (the harness' OWN serialisation, read back through the public getters, floats as bit
// patterns), mutate, compare, copy, clone, freeze.

import (
	"fmt"
	"math"
	"reflect"
	"strings"

	"github.com/splunk/stef/go/otel/otelstef"

	"verif/harness/internal/rng"
)

func meth(p reflect.Value, name string) reflect.Value {
	m := p.MethodByName(name)
	if !m.IsValid() {
		panic(fmt.Sprintf("harness: %s has no method %s", p.Type(), name))
	}
	return m
}

func call(p reflect.Value, name string, args ...reflect.Value) []reflect.Value {
	return meth(p, name).Call(args)
}

func newObj(t *ty) reflect.Value {
	p := reflect.New(t.rt)
	if m := p.MethodByName("Init"); m.IsValid() {
		m.Call(nil)
	}
	return p
}

// ---------------------------------------------------------------- leaves

type leaf struct {
	k kind
	u uint64 // u64, i64 (two's complement), f64 bits, bool
	s string // str, bytes
}

func (l leaf) canon() string {
	switch l.k {
	case kU64:
		return fmt.Sprintf("u%x", l.u)
	case kI64:
		return fmt.Sprintf("i%x", l.u)
	case kBool:
		return fmt.Sprintf("b%d", l.u)
	case kF64:
		return fmt.Sprintf("f%x", l.u)
	case kStr:
		return "s" + fmt.Sprintf("%x", l.s)
	case kBytes:
		return "y" + fmt.Sprintf("%x", l.s)
	}
	panic("leaf kind")
}

// argument for a setter whose parameter type is pt
func (l leaf) arg(pt reflect.Type) reflect.Value {
	var v reflect.Value
	switch l.k {
	case kU64:
		v = reflect.ValueOf(l.u)
	case kI64:
		v = reflect.ValueOf(int64(l.u))
	case kBool:
		v = reflect.ValueOf(l.u != 0)
	case kF64:
		v = reflect.ValueOf(math.Float64frombits(l.u))
	default:
		v = reflect.ValueOf(l.s)
	}
	return v.Convert(pt)
}

func leafOf(k kind, v reflect.Value) leaf {
	switch k {
	case kU64:
		return leaf{k: k, u: v.Uint()}
	case kI64:
		return leaf{k: k, u: uint64(v.Int())}
	case kBool:
		if v.Bool() {
			return leaf{k: k, u: 1}
		}
		return leaf{k: k}
	case kF64:
		return leaf{k: k, u: math.Float64bits(v.Float())}
	default:
		return leaf{k: k, s: v.String()}
	}
}

const (
	fPlain   = 0 // no NaN, no negative zero: every property failure is a fresh violation
	fSpecial = 1 // all float classes
)

var plainFloats = []uint64{
	0, 0x3ff0000000000000, 0xbff0000000000000, 0x4004000000000000, 0x7ff0000000000000, 0xfff0000000000000,
	0x0000000000000001, 0x8000000000000001, 0x000fffffffffffff, 0x0010000000000000, 0x7fefffffffffffff,
	0xffefffffffffffff, 0x3ff0000000000001, 0xc004000000000000,
}
var specialFloats = []uint64{
	0x8000000000000000,                                                             // -0
	0x7ff8000000000000, 0x7ff8000000000001, 0xfff8000000000000, 0x7ff0000000000001, // NaNs: quiet, payload, negative, signalling
	0x7fffffffffffffff, 0xfff4000000000abc,
}

func isNaNBits(u uint64) bool     { return u&0x7fffffffffffffff > 0x7ff0000000000000 }
func isNegZeroBits(u uint64) bool { return u == 0x8000000000000000 }

var strPool = []string{"", "a", "b", "ab", "a\x00", "\xff", "k1", "http://x"}

func genLeafC(r *rng.R, k kind, c *genCfg) leaf {
	l := genLeaf(r, k, c.fm) // always drawn, so that the random stream does not depend on the override
	if k == kF64 && c.f64 != nil {
		l.u = *c.f64
	}
	return l
}

func genLeaf(r *rng.R, k kind, fm int) leaf {
	switch k {
	case kU64:
		switch r.Intn(6) {
		case 0:
			return leaf{k: k, u: 0}
		case 1:
			return leaf{k: k, u: 1}
		case 2:
			return leaf{k: k, u: 2}
		case 3:
			return leaf{k: k, u: 1 << 63}
		case 4:
			return leaf{k: k, u: math.MaxUint64}
		}
		return leaf{k: k, u: r.U64()}
	case kI64:
		switch r.Intn(7) {
		case 0:
			return leaf{k: k, u: 0}
		case 1:
			return leaf{k: k, u: 1}
		case 2:
			return leaf{k: k, u: math.MaxUint64} // -1
		case 3:
			return leaf{k: k, u: 1 << 63} // min
		case 4:
			return leaf{k: k, u: 1<<63 - 1} // max
		case 5:
			return leaf{k: k, u: math.MaxUint64 - 1} // -2
		}
		return leaf{k: k, u: r.U64()}
	case kBool:
		return leaf{k: k, u: uint64(r.Intn(2))}
	case kF64:
		if fm == fSpecial && r.Chance(2, 5) {
			return leaf{k: k, u: specialFloats[r.Intn(len(specialFloats))]}
		}
		if r.Chance(1, 6) {
			for {
				u := r.U64()
				if !isNaNBits(u) && !isNegZeroBits(u) {
					return leaf{k: k, u: u}
				}
			}
		}
		return leaf{k: k, u: plainFloats[r.Intn(len(plainFloats))]}
	default:
		if r.Chance(1, 8) {
			n := r.Intn(5)
			b := make([]byte, n)
			for i := range b {
				b[i] = byte(r.U64())
			}
			return leaf{k: k, s: string(b)}
		}
		return leaf{k: k, s: strPool[r.Intn(len(strPool))]}
	}
}

// ---------------------------------------------------------------- fill (pristine build: grows only)

type genCfg struct {
	f64      *uint64 // when set, every generated float64 leaf is this bit pattern (directed witnesses)
	fm       int     // float mode
	freeze   bool    // may freeze dictionary structs before handing them to Set<Field>
	maxDepth int
	maxLen   int
	deep     bool // prefer composite oneof alternatives and non-empty containers above maxDepth (frozen section)
}

// fill sets up a freshly created object through its public API. It never shrinks a slice and never
// switches a oneof twice, so no hidden state is left behind except stored values of optional
// fields that are set and then unset again (which the dump shows).
func fill(p reflect.Value, t *ty, r *rng.R, c *genCfg, depth int) {
	switch t.kind {
	case kStruct:
		for _, f := range t.fields {
			if r.Chance(1, 5) {
				continue // leave the default
			}
			switch {
			case f.t.prim():
				m := meth(p, "Set"+f.name)
				m.Call([]reflect.Value{genLeafC(r, f.t.kind, c).arg(m.Type().In(0))})
				if f.opt && r.Chance(1, 3) {
					call(p, "Unset"+f.name)
				}
			case f.t.dict:
				q := newObj(f.t)
				fill(q, f.t, r, c, depth+1)
				if c.freeze && r.Chance(1, 2) {
					freezeObj(q)
				}
				call(p, "Set"+f.name, q)
			default:
				fill(call(p, f.name)[0], f.t, r, c, depth+1)
			}
		}
	case kOneof:
		n := len(t.fields)
		k := r.Intn(n + 1)
		if depth >= c.maxDepth {
			// only primitive alternatives (or None) at the depth limit
			var ps []int
			for i, f := range t.fields {
				if f.t.prim() {
					ps = append(ps, i+1)
				}
			}
			ps = append(ps, 0)
			k = ps[r.Intn(len(ps))]
		} else if c.deep && r.Chance(3, 4) {
			var cs []int
			for i, f := range t.fields {
				if !f.t.prim() {
					cs = append(cs, i+1)
				}
			}
			if len(cs) > 0 {
				k = cs[r.Intn(len(cs))]
			}
		}
		if k == 0 {
			return
		}
		f := t.fields[k-1]
		if f.t.prim() {
			m := meth(p, "Set"+f.name)
			m.Call([]reflect.Value{genLeafC(r, f.t.kind, c).arg(m.Type().In(0))})
			return
		}
		st := meth(p, "SetType")
		st.Call([]reflect.Value{reflect.ValueOf(uint64(k)).Convert(st.Type().In(0))})
		fill(call(p, f.name)[0], f.t, r, c, depth+1)
	case kArr:
		n := r.Intn(c.maxLen + 1)
		if depth >= c.maxDepth && !t.elem.prim() {
			n = r.Intn(2)
		} else if c.deep && n == 0 {
			n = 1
		}
		if t.elem.prim() {
			m := meth(p, "Append")
			for i := 0; i < n; i++ {
				m.Call([]reflect.Value{genLeafC(r, t.elem.kind, c).arg(m.Type().In(0))})
			}
			return
		}
		call(p, "EnsureLen", reflect.ValueOf(n))
		for i := 0; i < n; i++ {
			fill(call(p, "At", reflect.ValueOf(i))[0], t.elem, r, c, depth+1)
		}
	case kMap:
		n := r.Intn(c.maxLen + 1)
		if depth >= c.maxDepth {
			n = r.Intn(2)
		} else if c.deep && n == 0 {
			n = 1
		}
		call(p, "EnsureLen", reflect.ValueOf(n))
		for i := 0; i < n; i++ {
			setMapKV(p, t, i, r, c, depth)
		}
	}
}

func setMapKV(p reflect.Value, t *ty, i int, r *rng.R, c *genCfg, depth int) {
	iv := reflect.ValueOf(i)
	if t.key.prim() {
		m := meth(p, "SetKey")
		m.Call([]reflect.Value{iv, genLeafC(r, t.key.kind, c).arg(m.Type().In(1))})
	} else {
		fill(call(p, "Key", iv)[0], t.key, r, c, depth+1)
	}
	if t.val.prim() {
		m := meth(p, "SetValue")
		m.Call([]reflect.Value{iv, genLeafC(r, t.val.kind, c).arg(m.Type().In(1))})
	} else {
		fill(call(p, "Value", iv)[0], t.val, r, c, depth+1)
	}
}

// ---------------------------------------------------------------- dump

// dump serialises the object as the canonical value of the Lean driver. state=true: the stored
// value of an absent optional field is included (Cmp<Struct> reads it); state=false: only the data
// (an absent field prints as "-N").
func dump(p reflect.Value, t *ty, state bool, sb *strings.Builder) {
	switch t.kind {
	case kStruct:
		if p.IsNil() {
			sb.WriteString("N")
			return
		}
		sb.WriteString("S(")
		for i, f := range t.fields {
			if i > 0 {
				sb.WriteByte(',')
			}
			absent := false
			if f.opt {
				if call(p, "Has"+f.name)[0].Bool() {
					sb.WriteByte('+')
				} else {
					sb.WriteByte('-')
					absent = true
				}
			} else {
				sb.WriteByte('!')
			}
			if absent && !state {
				sb.WriteString("N")
				continue
			}
			v := call(p, f.name)[0]
			if f.t.prim() {
				sb.WriteString(leafOf(f.t.kind, v).canon())
			} else {
				dump(v, f.t, state, sb)
			}
		}
		sb.WriteString(")")
	case kOneof:
		k := int(call(p, "Type")[0].Uint())
		if k == 0 || k > len(t.fields) {
			if k != 0 {
				panic(fmt.Sprintf("harness: %s has typ %d", t.name, k))
			}
			sb.WriteString("O")
			return
		}
		f := t.fields[k-1]
		fmt.Fprintf(sb, "C%x(", k-1)
		v := call(p, f.name)[0]
		if f.t.prim() {
			sb.WriteString(leafOf(f.t.kind, v).canon())
		} else {
			dump(v, f.t, state, sb)
		}
		sb.WriteString(")")
	case kArr:
		n := int(call(p, "Len")[0].Int())
		sb.WriteString("A[")
		for i := 0; i < n; i++ {
			if i > 0 {
				sb.WriteByte(',')
			}
			v := call(p, "At", reflect.ValueOf(i))[0]
			if t.elem.prim() {
				sb.WriteString(leafOf(t.elem.kind, v).canon())
			} else {
				dump(v, t.elem, state, sb)
			}
		}
		sb.WriteString("]")
	case kMap:
		n := int(call(p, "Len")[0].Int())
		sb.WriteString("M[")
		for i := 0; i < n; i++ {
			if i > 0 {
				sb.WriteByte(',')
			}
			iv := reflect.ValueOf(i)
			k := call(p, "Key", iv)[0]
			if t.key.prim() {
				sb.WriteString(leafOf(t.key.kind, k).canon())
			} else {
				dump(k, t.key, state, sb)
			}
			sb.WriteByte('=')
			v := call(p, "Value", iv)[0]
			if t.val.prim() {
				sb.WriteString(leafOf(t.val.kind, v).canon())
			} else {
				dump(v, t.val, state, sb)
			}
		}
		sb.WriteString("]")
	}
}

func stateOf(p reflect.Value, t *ty) string {
	var sb strings.Builder
	dump(p, t, true, &sb)
	return sb.String()
}

func dataOf(p reflect.Value, t *ty) string {
	var sb strings.Builder
	dump(p, t, false, &sb)
	return sb.String()
}

// float classes occurring in a dump
func floatsIn(d string) (nan, negzero, zero bool) {
	for i := 0; i < len(d); i++ {
		if d[i] != 'f' {
			continue
		}
		// a float leaf starts with 'f' preceded by a delimiter
		if i > 0 && !strings.ContainsRune("!+-(,[=", rune(d[i-1])) {
			continue
		}
		j := i + 1
		var u uint64
		for j < len(d) && strings.IndexByte("0123456789abcdef", d[j]) >= 0 {
			u = u<<4 | uint64(strings.IndexByte("0123456789abcdef", d[j]))
			j++
		}
		if isNaNBits(u) {
			nan = true
		}
		if isNegZeroBits(u) {
			negzero = true
		}
		if u&0x7fffffffffffffff == 0 {
			zero = true
		}
		i = j - 1
	}
	return
}

// the dump with every negative zero replaced by positive zero
func normZero(d string) string {
	return strings.NewReplacer("f8000000000000000,", "f0,", "f8000000000000000)", "f0)", "f8000000000000000]", "f0]",
		"f8000000000000000=", "f0=").Replace(d + ",")
}

func depthOf(d string) int {
	m, c := 0, 0
	for _, ch := range d {
		switch ch {
		case '(', '[':
			c++
			if c > m {
				m = c
			}
		case ')', ']':
			c--
		}
	}
	return m
}

// ---------------------------------------------------------------- operations on the real code

type result struct {
	panicked bool
	msg      string
}

func guard(f func()) (res result) {
	defer func() {
		if r := recover(); r != nil {
			res = result{panicked: true, msg: fmt.Sprint(r)}
		}
	}()
	f()
	return
}

func cmpObj(t *ty, a, b reflect.Value) (c int, res result) {
	res = guard(func() { c = int(t.cmp.Call([]reflect.Value{a, b})[0].Int()) })
	return
}

func isEqualObj(a, b reflect.Value) (e bool, res result) {
	res = guard(func() { e = call(a, "IsEqual", b)[0].Bool() })
	return
}

func hasMethod(t *ty, name string) bool {
	_, ok := reflect.PointerTo(t.rt).MethodByName(name)
	return ok
}

// cloneObj calls the exported Clone and returns a pointer to the clone.
func cloneObj(t *ty, a reflect.Value) (c reflect.Value, res result) {
	res = guard(func() {
		out := call(a, "Clone", reflect.ValueOf(&otelstef.Allocators{}))[0]
		if out.Kind() == reflect.Ptr {
			c = out
			return
		}
		c = reflect.New(t.rt)
		c.Elem().Set(out)
	})
	return
}

func copyFromObj(dst, src reflect.Value) result {
	return guard(func() { call(dst, "CopyFrom", src) })
}

// ---------------------------------------------------------------- mutation through the public API

// mutate performs one random modification somewhere inside the object, through setters only.
// Dictionary-struct fields are replaced through Set<Field> (their getter returns a read-only
// value). It returns a description of the operation.
func mutate(p reflect.Value, t *ty, r *rng.R, c *genCfg, depth int) string {
	switch t.kind {
	case kStruct:
		f := t.fields[r.Intn(len(t.fields))]
		switch {
		case f.t.prim():
			if f.opt && r.Chance(1, 3) {
				call(p, "Unset"+f.name)
				return t.name + ".Unset" + f.name
			}
			m := meth(p, "Set"+f.name)
			l := genLeafC(r, f.t.kind, c)
			m.Call([]reflect.Value{l.arg(m.Type().In(0))})
			return t.name + ".Set" + f.name + "(" + l.canon() + ")"
		case f.t.dict:
			q := newObj(f.t)
			fill(q, f.t, r, c, depth+1)
			fr := ""
			if c.freeze && r.Chance(1, 2) {
				freezeObj(q)
				fr = "frozen "
			}
			call(p, "Set"+f.name, q)
			return t.name + ".Set" + f.name + "(" + fr + stateOf(q, f.t) + ")"
		default:
			return t.name + "." + f.name + "/" + mutate(call(p, f.name)[0], f.t, r, c, depth+1)
		}
	case kOneof:
		cur := int(call(p, "Type")[0].Uint())
		if cur != 0 && !t.fields[cur-1].t.prim() && r.Chance(1, 2) && depth < c.maxDepth+2 {
			f := t.fields[cur-1]
			return t.name + "." + f.name + "/" + mutate(call(p, f.name)[0], f.t, r, c, depth+1)
		}
		k := r.Intn(len(t.fields) + 1)
		if k != 0 && t.fields[k-1].t.prim() {
			f := t.fields[k-1]
			m := meth(p, "Set"+f.name)
			l := genLeafC(r, f.t.kind, c)
			m.Call([]reflect.Value{l.arg(m.Type().In(0))})
			return t.name + ".Set" + f.name + "(" + l.canon() + ")"
		}
		st := meth(p, "SetType")
		st.Call([]reflect.Value{reflect.ValueOf(uint64(k)).Convert(st.Type().In(0))})
		if k != 0 && r.Chance(1, 2) && depth < c.maxDepth {
			f := t.fields[k-1]
			fill(call(p, f.name)[0], f.t, r, c, depth+1)
		}
		return fmt.Sprintf("%s.SetType(%d)", t.name, k)
	case kArr:
		n := int(call(p, "Len")[0].Int())
		if t.elem.prim() {
			switch r.Intn(3) {
			case 0:
				m := meth(p, "Append")
				l := genLeafC(r, t.elem.kind, c)
				m.Call([]reflect.Value{l.arg(m.Type().In(0))})
				return t.name + ".Append(" + l.canon() + ")"
			case 1:
				nn := r.Intn(4)
				call(p, "EnsureLen", reflect.ValueOf(nn))
				return fmt.Sprintf("%s.EnsureLen(%d)", t.name, nn)
			}
			m := meth(p, "CopyFromSlice")
			nn := r.Intn(4)
			sl := reflect.MakeSlice(m.Type().In(0), nn, nn)
			for i := 0; i < nn; i++ {
				sl.Index(i).Set(genLeafC(r, t.elem.kind, c).arg(m.Type().In(0).Elem()))
			}
			m.Call([]reflect.Value{sl})
			return fmt.Sprintf("%s.CopyFromSlice(len %d)", t.name, nn)
		}
		if n > 0 && r.Chance(2, 3) {
			i := r.Intn(n)
			return fmt.Sprintf("%s[%d]/", t.name, i) + mutate(call(p, "At", reflect.ValueOf(i))[0], t.elem, r, c, depth+1)
		}
		nn := r.Intn(3)
		call(p, "EnsureLen", reflect.ValueOf(nn))
		return fmt.Sprintf("%s.EnsureLen(%d)", t.name, nn)
	case kMap:
		n := int(call(p, "Len")[0].Int())
		if n > 0 && r.Chance(2, 3) {
			i := r.Intn(n)
			iv := reflect.ValueOf(i)
			if r.Chance(1, 2) {
				if t.key.prim() {
					m := meth(p, "SetKey")
					l := genLeafC(r, t.key.kind, c)
					m.Call([]reflect.Value{iv, l.arg(m.Type().In(1))})
					return fmt.Sprintf("%s.SetKey(%d,%s)", t.name, i, l.canon())
				}
				return fmt.Sprintf("%s.Key(%d)/", t.name, i) + mutate(call(p, "Key", iv)[0], t.key, r, c, depth+1)
			}
			if t.val.prim() {
				m := meth(p, "SetValue")
				l := genLeafC(r, t.val.kind, c)
				m.Call([]reflect.Value{iv, l.arg(m.Type().In(1))})
				return fmt.Sprintf("%s.SetValue(%d,%s)", t.name, i, l.canon())
			}
			return fmt.Sprintf("%s.Value(%d)/", t.name, i) + mutate(call(p, "Value", iv)[0], t.val, r, c, depth+1)
		}
		nn := r.Intn(3)
		call(p, "EnsureLen", reflect.ValueOf(nn))
		for i := n; i < nn; i++ {
			setMapKV(p, t, i, r, c, depth)
		}
		return fmt.Sprintf("%s.EnsureLen(%d)", t.name, nn)
	}
	return "?"
}

// hasFrozen reports whether a frozen dictionary struct is reachable through by-pointer fields.
func hasFrozenField(p reflect.Value, t *ty) bool {
	// only structs hold dictionary structs by pointer in this schema (Metrics, Spans)
	if t.kind != kStruct || p.IsNil() {
		return false
	}
	for _, f := range t.fields {
		if f.t.dict {
			q := call(p, f.name)[0]
			if !q.IsNil() && isFrozen(q) {
				return true
			}
		}
	}
	return false
}

// isFrozen observes frozenness through the public API: a frozen dictionary struct is handed out
// unchanged (same pointer) by its parent's cloneShared; from outside the package the only
// observable is that Freeze was called, which the harness tracks itself.
var frozenSet = map[uintptr]reflect.Value{} // keeps frozen objects alive so addresses are not reused

func isFrozen(p reflect.Value) bool { _, ok := frozenSet[p.Pointer()]; return ok }

func freezeObj(p reflect.Value) {
	call(p, "Freeze")
	frozenSet[p.Pointer()] = p
}
