// h_probe: replay one hostile input (hex) on the real readers and print where memory is allocated.
package main

import (
	"bytes"
	"encoding/hex"
	"fmt"
	"os"
	"runtime"
	"sort"

	"github.com/splunk/stef/go/otel/otelstef"
	"github.com/splunk/stef/go/pkg"
)

func main() {
	runtime.MemProfileRate = 1
	b, err := hex.DecodeString(os.Args[2])
	if err != nil {
		panic(err)
	}
	var ms runtime.MemStats
	runtime.ReadMemStats(&ms)
	before := ms.TotalAlloc
	n := 0
	var rerr error
	func() {
		defer func() {
			if e := recover(); e != nil {
				rerr = fmt.Errorf("panic: %v", e)
			}
		}()
		if os.Args[1] == "Metrics" {
			rd, err := otelstef.NewMetricsReader(bytes.NewReader(b))
			if err != nil {
				rerr = err
				return
			}
			for {
				if err := rd.Read(pkg.ReadOptions{}); err != nil {
					rerr = err
					return
				}
				n++
			}
		} else {
			rd, err := otelstef.NewSpansReader(bytes.NewReader(b))
			if err != nil {
				rerr = err
				return
			}
			for {
				if err := rd.Read(pkg.ReadOptions{}); err != nil {
					rerr = err
					return
				}
				n++
			}
		}
	}()
	runtime.ReadMemStats(&ms)
	fmt.Printf("records=%d err=%v alloc=%d MiB\n", n, rerr, (ms.TotalAlloc-before)>>20)
	runtime.GC()
	recs := make([]runtime.MemProfileRecord, 100000)
	k, _ := runtime.MemProfile(recs, true)
	recs = recs[:k]
	sort.Slice(recs, func(i, j int) bool { return recs[i].AllocBytes > recs[j].AllocBytes })
	for i := 0; i < 6 && i < len(recs); i++ {
		fmt.Printf("%d MiB in %d allocs:\n", recs[i].AllocBytes>>20, recs[i].AllocObjects)
		frames := runtime.CallersFrames(recs[i].Stack())
		for j := 0; j < 8; j++ {
			f, more := frames.Next()
			fmt.Printf("    %s %s:%d\n", f.Function, f.File, f.Line)
			if !more {
				break
			}
		}
	}
}
