package main

// burst: the data side of C14 over a REAL gRPC transport with the default limits (what
// stefreceiver and stefmockserver use): a writer created with exactly the options a successful
// Connect returned writes more than one frame's worth of records before its first Flush. The
// server's reader must accept and decode every record. grpcWriter sends a frame as ONE gRPC
// message, so this holds only while the writer cuts frames below the transport's message limit -
// the writer's default frame size limit and the transport limit live in different packages.
// The records carry unique BYTES attribute values: bytes are not dictionary encoded, so the frame
// grows and not the dictionaries (whose limit would end the frame first).

import (
	"context"
	"fmt"
	"net"
	"time"

	"google.golang.org/grpc"
	"google.golang.org/grpc/credentials/insecure"

	stefgrpc "github.com/splunk/stef/go/grpc"
	"github.com/splunk/stef/go/grpc/stef_proto"
	"github.com/splunk/stef/go/otel/otelstef"
	"github.com/splunk/stef/go/pkg"

	"verif/harness/internal/rng"
)

type burstSpec struct {
	name        string
	compression pkg.Compression
	records     int
	pad         int
	maxDict     uint64
	randomPad   bool // incompressible pad bytes
}

func burstID(i, pad int, r *rng.R, random bool) []byte {
	b := []byte(fmt.Sprintf("id-%08d-", i))
	for j := 0; j < pad; j++ {
		if random {
			b = append(b, byte(r.U64()))
		} else {
			b = append(b, byte('a'+(i+j*7)%26))
		}
	}
	return b
}

func runBurst(r *rng.R, sp burstSpec) {
	note("case %s", sp.name)
	lis, err := net.Listen("tcp", "127.0.0.1:0")
	if err != nil {
		note("note %s skipped: %v", sp.name, err)
		return
	}
	ws, _ := otelstef.MetricsWireSchema()
	type result struct {
		n     int
		bad   string
		err   error
		first string
	}
	resCh := make(chan result, 1)
	want := make([][]byte, sp.records)
	idr := rng.New(r.U64())
	for i := range want {
		want[i] = burstID(i, sp.pad, idr, sp.randomPad)
	}
	srv := stefgrpc.NewStreamServer(stefgrpc.ServerSettings{
		ServerSchema: &ws, MaxDictBytes: sp.maxDict,
		Callbacks: stefgrpc.Callbacks{OnStream: func(reader stefgrpc.GrpcReader, stream stefgrpc.STEFStream) error {
			var res result
			rd, err := otelstef.NewMetricsReader(reader)
			if err != nil {
				res.err = err
				resCh <- res
				return nil
			}
			for {
				if err := rd.Read(pkg.ReadOptions{}); err != nil {
					res.err = err
					break
				}
				i := res.n
				res.n++
				if res.bad == "" {
					a := rd.Record.Attributes()
					switch {
					case i >= len(want):
						res.bad = fmt.Sprintf("record %d: more records than were written", i)
					case a.Len() != 1 || a.Key(0) != "id" || string(a.Value(0).Bytes()) != string(want[i]):
						res.bad = fmt.Sprintf("record %d: attributes differ from what was written", i)
					case rd.Record.Point().Timestamp() != uint64(1700000000000000000+i):
						res.bad = fmt.Sprintf("record %d: timestamp %d", i, rd.Record.Point().Timestamp())
					}
				}
			}
			resCh <- res
			return nil
		}},
	})
	gs := grpc.NewServer() // default options, as otelcol/internal/stefreceiver
	stef_proto.RegisterSTEFDestinationServer(gs, srv)
	go gs.Serve(lis)
	defer gs.Stop()
	conn, err := grpc.NewClient(lis.Addr().String(), grpc.WithTransportCredentials(insecure.NewCredentials()))
	if err != nil {
		note("note %s skipped: %v", sp.name, err)
		return
	}
	defer conn.Close()
	cl, err := stefgrpc.NewClient(stefgrpc.ClientSettings{
		GrpcClient:   stef_proto.NewSTEFDestinationClient(conn),
		ClientSchema: stefgrpc.ClientSchema{RootStructName: "Metrics", WireSchema: &ws},
		Callbacks:    stefgrpc.ClientCallbacks{OnAck: func(uint64) error { return nil }},
	})
	if err != nil {
		propFail("C14 burst-client case=%s %v", sp.name, err)
		return
	}
	ctx, cancel := context.WithTimeout(context.Background(), 20*time.Second)
	defer cancel()
	cw, opts, err := cl.Connect(ctx)
	if err != nil {
		propFail("C14 burst-connect case=%s identical schemas, connect failed: %v", sp.name, err)
		return
	}
	opts.Compression = sp.compression // the one option the handshake does not decide
	w, err := otelstef.NewMetricsWriter(cw, opts)
	if err != nil {
		propFail("C14 burst-writer case=%s %v", sp.name, err)
		return
	}
	var werr error
	for i := 0; i < sp.records && werr == nil; i++ {
		w.Record.Metric().SetName("burst.metric")
		w.Record.Point().SetTimestamp(uint64(1700000000000000000 + i))
		a := w.Record.Attributes()
		a.EnsureLen(1)
		a.SetKey(0, "id")
		a.Value(0).SetBytes(pkg.Bytes(want[i]))
		werr = w.Write()
	}
	if werr == nil {
		werr = w.Flush()
	}
	time.Sleep(200 * time.Millisecond)
	cl.Disconnect(context.Background())
	stats["burst-records"] += sp.records
	note("nontrivial %x", uint64(sp.records)<<8|uint64(sp.pad))
	desc := fmt.Sprintf("case=%s compression=%d records=%d (about %d bytes of attribute values between two flushes) maxDict=%d, writer options exactly as returned by Connect",
		sp.name, sp.compression, sp.records, sp.records*(sp.pad+12), sp.maxDict)
	select {
	case res := <-resCh:
		switch {
		case res.bad != "":
			propFail("C14 burst-records-changed %s: %s", desc, res.bad)
		case res.n != sp.records:
			propFail("C14 burst-not-decoded %s: the server's reader decoded %d records, then: %v (writer error: %v)", desc, res.n, res.err, werr)
		}
	case <-time.After(20 * time.Second):
		propFail("C14 burst-timeout %s: the server's stream handler did not finish (writer error: %v)", desc, werr)
	}
}

func burstCases(r *rng.R, thorough bool) {
	specs := []burstSpec{
		{"burst-none", pkg.CompressionNone, 62000 + r.Intn(8000), 64, 0, false},
		{"burst-zstd", pkg.CompressionZstd, 62000 + r.Intn(8000), 64, 1 << 20, false},
	}
	if thorough {
		specs = append(specs,
			burstSpec{"burst-none-2", pkg.CompressionNone, 120000 + r.Intn(30000), 40 + r.Intn(60), 4096, true},
			burstSpec{"burst-zstd-random", pkg.CompressionZstd, 62000 + r.Intn(8000), 64, 0, true},
			burstSpec{"burst-none-big-records", pkg.CompressionNone, 9000 + r.Intn(1000), 700 + r.Intn(200), 0, true},
		)
	}
	for _, sp := range specs {
		runBurst(r, sp)
	}
}

// rawChunks: the ChunkWriter that Connect returns carries every chunk to the server's reader whole,
// whatever its size up to what one gRPC message may hold: sizes at and next to the round numbers a
// transport is likely to split at (exact multiples of 64 KiB / 1 MiB). The server handler reads the
// raw bytes; every chunk must arrive (a chunk whose last message is not marked as its end is never
// released to the reader).
func rawChunks(r *rng.R, thorough bool) {
	sizes := []int{1 << 20, 1<<20 - 1, 1<<20 + 1, 2 << 20, 64 << 10, 3<<20 + 17}
	if thorough {
		sizes = append(sizes, 128<<10, 512<<10, 3<<20, 1<<20+64<<10, 4<<20-2048)
	}
	note("case raw-chunks")
	lis, err := net.Listen("tcp", "127.0.0.1:0")
	if err != nil {
		note("note raw-chunks skipped: %v", err)
		return
	}
	ws, _ := otelstef.MetricsWireSchema()
	total := 0
	for _, s := range sizes {
		total += s
	}
	gotCh := make(chan int, 1)
	progress := make(chan int, 1024)
	srv := stefgrpc.NewStreamServer(stefgrpc.ServerSettings{
		ServerSchema: &ws,
		Callbacks: stefgrpc.Callbacks{OnStream: func(reader stefgrpc.GrpcReader, stream stefgrpc.STEFStream) error {
			buf := make([]byte, 256<<10)
			n := 0
			for {
				k, err := reader.Read(buf)
				n += k
				select {
				case progress <- n:
				default:
				}
				if err != nil {
					gotCh <- n
					return nil
				}
			}
		}},
	})
	gs := grpc.NewServer()
	stef_proto.RegisterSTEFDestinationServer(gs, srv)
	go gs.Serve(lis)
	defer gs.Stop()
	conn, err := grpc.NewClient(lis.Addr().String(), grpc.WithTransportCredentials(insecure.NewCredentials()))
	if err != nil {
		note("note raw-chunks skipped: %v", err)
		return
	}
	defer conn.Close()
	cl, err := stefgrpc.NewClient(stefgrpc.ClientSettings{
		GrpcClient:   stef_proto.NewSTEFDestinationClient(conn),
		ClientSchema: stefgrpc.ClientSchema{RootStructName: "Metrics", WireSchema: &ws},
		Callbacks:    stefgrpc.ClientCallbacks{OnAck: func(uint64) error { return nil }},
	})
	if err != nil {
		propFail("C14 burst-client case=raw-chunks %v", err)
		return
	}
	ctx, cancel := context.WithTimeout(context.Background(), 20*time.Second)
	defer cancel()
	cw, _, err := cl.Connect(ctx)
	if err != nil {
		propFail("C14 burst-connect case=raw-chunks %v", err)
		return
	}
	sent := 0
	for i, sz := range sizes {
		hl := 3 + r.Intn(8)
		b := make([]byte, sz)
		for x := 0; x < len(b); x += 61 {
			b[x] = byte(r.U64())
		}
		if err := cw.WriteChunk(b[:hl], b[hl:]); err != nil {
			propFail("C14 chunk-not-delivered case=raw-chunks chunk %d of %d bytes: WriteChunk returned %v", i, sz, err)
			return
		}
		sent += sz
		// the chunk must reach the reader before anything else is sent
		deadline := time.After(5 * time.Second)
		seen := 0
	wait:
		for seen < sent {
			select {
			case seen = <-progress:
			case <-deadline:
				break wait
			}
		}
		stats["raw-chunks"]++
		if seen < sent {
			propFail("C14 chunk-not-delivered case=raw-chunks chunk %d of exactly %d bytes (header %d + content %d) written through the ChunkWriter that Connect returned: the server's reader holds %d of %d bytes 5 s later", i, sz, hl, sz-hl, seen, sent)
			break
		}
	}
	note("nontrivial %x", uint64(total))
	cl.Disconnect(context.Background())
	select {
	case <-gotCh:
	case <-time.After(3 * time.Second):
	}
}
