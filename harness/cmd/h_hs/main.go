// h_hs drives schema.WireSchema.Compatible and the real stefgrpc.Client.Connect against a real
// StreamServer on loopback with generated wire-schema pairs (identical, server ahead, client
// ahead, diverged in different structs, unrelated) and dictionary limits.
package main

import (
	"bufio"
	"bytes"
	"context"
	"encoding/binary"
	"fmt"
	"net"
	"os"
	"strings"
	"time"

	"google.golang.org/grpc"
	"google.golang.org/grpc/credentials/insecure"

	stefgrpc "github.com/splunk/stef/go/grpc"
	"github.com/splunk/stef/go/grpc/stef_proto"
	"github.com/splunk/stef/go/pkg/schema"

	"verif/harness/internal/rng"
)

var out = bufio.NewWriterSize(os.Stdout, 1<<20)

func emit(op, res string)         { fmt.Fprintf(out, "%s\t%s\n", op, res) }
func note(f string, a ...any)     { fmt.Fprintf(out, "# "+f+"\n", a...) }
func propFail(f string, a ...any) { fmt.Fprintf(out, "PROP-FAIL "+f+"\n", a...) }

var stats = map[string]int{}

func mkSchema(counts []uint) *schema.WireSchema {
	var b []byte
	b = binary.AppendUvarint(b, uint64(len(counts)))
	for _, c := range counts {
		b = binary.AppendUvarint(b, uint64(c))
	}
	var w schema.WireSchema
	if err := w.Deserialize(bytes.NewBuffer(b)); err != nil {
		panic(err)
	}
	return &w
}

func countsOf(w *schema.WireSchema) []uint {
	var buf bytes.Buffer
	w.Serialize(&buf)
	n, _ := binary.ReadUvarint(&buf)
	var cs []uint
	for i := uint64(0); i < n; i++ {
		c, _ := binary.ReadUvarint(&buf)
		cs = append(cs, uint(c))
	}
	return cs
}

func cstr(c []uint) string {
	if len(c) == 0 {
		return "-"
	}
	var s []string
	for _, x := range c {
		s = append(s, fmt.Sprint(x))
	}
	return strings.Join(s, ",")
}

func verdict(c schema.Compatibility) string {
	switch c {
	case schema.CompatibilityExact:
		return "exact"
	case schema.CompatibilitySuperset:
		return "superset"
	}
	return "incompatible"
}

func eq(a, b []uint) bool {
	if len(a) != len(b) {
		return false
	}
	for i := range a {
		if a[i] != b[i] {
			return false
		}
	}
	return true
}

// genPair draws (client, server) count lists of one of five relations.
func genPair(r *rng.R) (c, s []uint, rel string) {
	n := 1 + r.Intn(6)
	base := make([]uint, n)
	for i := range base {
		base[i] = uint(r.Intn(8))
	}
	grow := func(x []uint) []uint {
		y := append([]uint(nil), x...)
		k := 1 + r.Intn(3)
		for i := 0; i < k; i++ {
			switch r.Intn(3) {
			case 0: // append a field to an existing struct
				y[r.Intn(len(y))] += uint(1 + r.Intn(3))
			case 1: // appended field of a new struct type: a new entry somewhere after position 0
				pos := 1 + r.Intn(len(y))
				y = append(y[:pos], append([]uint{uint(r.Intn(5))}, y[pos:]...)...)
				y[r.Intn(pos)]++ // the parent gained the field
			case 2:
				y[0]++
			}
		}
		return y
	}
	switch r.Intn(6) {
	case 0:
		return base, append([]uint(nil), base...), "identical"
	case 1:
		return base, grow(base), "server-ahead"
	case 2:
		return grow(base), base, "client-ahead"
	case 3:
		return grow(base), grow(base), "diverged"
	case 4: // same length, same total, different lists
		if n < 2 {
			return base, append([]uint(nil), base...), "identical"
		}
		y := append([]uint(nil), base...)
		i, j := r.Intn(n), r.Intn(n)
		if i == j {
			j = (i + 1) % n
		}
		y[i]++
		if y[j] > 0 {
			y[j]--
		} else {
			y[i]--
		}
		return base, y, "permuted-totals"
	}
	m := 1 + r.Intn(6)
	other := make([]uint, m)
	for i := range other {
		other[i] = uint(r.Intn(8))
	}
	return base, other, "unrelated"
}

func connectReal(c, s []uint, maxDict uint64) (ok bool, desc bool, sch []uint, schNil bool, dict uint) {
	lis, err := net.Listen("tcp", "127.0.0.1:0")
	if err != nil {
		panic(err)
	}
	srv := stefgrpc.NewStreamServer(stefgrpc.ServerSettings{
		ServerSchema: mkSchema(s), MaxDictBytes: maxDict,
		Callbacks: stefgrpc.Callbacks{OnStream: func(reader stefgrpc.GrpcReader, stream stefgrpc.STEFStream) error {
			buf := make([]byte, 16)
			for {
				if _, err := reader.Read(buf); err != nil {
					return nil
				}
			}
		}},
	})
	gs := grpc.NewServer()
	stef_proto.RegisterSTEFDestinationServer(gs, srv)
	go gs.Serve(lis)
	defer gs.Stop()
	conn, err := grpc.NewClient(lis.Addr().String(), grpc.WithTransportCredentials(insecure.NewCredentials()))
	if err != nil {
		panic(err)
	}
	defer conn.Close()
	cl, err := stefgrpc.NewClient(stefgrpc.ClientSettings{
		GrpcClient:   stef_proto.NewSTEFDestinationClient(conn),
		ClientSchema: stefgrpc.ClientSchema{RootStructName: "Root", WireSchema: mkSchema(c)},
		Callbacks:    stefgrpc.ClientCallbacks{OnAck: func(uint64) error { return nil }},
	})
	if err != nil {
		panic(err)
	}
	ctx, cancel := context.WithTimeout(context.Background(), 10*time.Second)
	defer cancel()
	_, opts, err := cl.Connect(ctx)
	if err != nil {
		return false, false, nil, true, 0
	}
	defer cl.Disconnect(context.Background())
	if opts.Schema == nil {
		return true, opts.IncludeDescriptor, nil, true, opts.MaxTotalDictSize
	}
	return true, opts.IncludeDescriptor, countsOf(opts.Schema), false, opts.MaxTotalDictSize
}

func main() {
	thorough := os.Getenv("VERIF_TIER") == "thorough"
	r := rng.FromEnv(14)
	n := 250
	nConn := 60
	if thorough {
		n = 6000
		nConn = 600
	}
	for i := 0; i < n; i++ {
		c, s, rel := genPair(r)
		note("case hs-%d", i)
		stats["rel-"+rel]++
		sc, ss := mkSchema(c), mkSchema(s)
		v1, _ := ss.Compatible(sc)
		v2, _ := sc.Compatible(ss)
		emit(fmt.Sprintf("hs compat %s %s", cstr(s), cstr(c)), verdict(v1))
		emit(fmt.Sprintf("hs compat %s %s", cstr(c), cstr(s)), verdict(v2))
		if rel != "identical" {
			note("nontrivial %x", r.U64())
		}
		if i%40 == 0 {
			note("sample rel=%s client=%s server=%s verdict(server,client)=%s", rel, cstr(c), cstr(s), verdict(v1))
		}
		// property: an exact verdict must mean the schemas are the same list of counts
		if v1 == schema.CompatibilityExact && !eq(c, s) {
			// the recorded finding is the class "same number of structs, same total of field counts";
			// an exact verdict for schemas with different numbers of structs is another violation
			sig := "compatible-totals"
			if len(c) != len(s) {
				sig = "compatible-exact-different-struct-count"
			}
			propFail("C14 %s client=%s server=%s are different schemas but Compatible says exact: no descriptor is sent and the server decodes with its own counts", sig, cstr(c), cstr(s))
		}
		if i < nConn {
			md := uint64([]int{0, 1, 4096, 1 << 20}[r.Intn(4)])
			ok, desc, sch, schNil, dict := connectReal(c, s, md)
			stats["connects"]++
			if !ok {
				emit(fmt.Sprintf("hs connect %s %s %d", cstr(c), cstr(s), md), "err")
				stats["connect-err"]++
				continue
			}
			ssch := "nil"
			if !schNil {
				ssch = cstr(sch)
			}
			d := 0
			if desc {
				d = 1
			}
			emit(fmt.Sprintf("hs connect %s %s %d", cstr(c), cstr(s), md), fmt.Sprintf("ok desc=%d schema=%s dict=%d", d, ssch, dict))
			if uint64(dict) != md {
				propFail("C14 dict-limit-not-applied client=%s server=%s advertised=%d got=%d", cstr(c), cstr(s), md, dict)
				// C08 quantifies over limits "configured or received from the destination"
				propFail("C08 dict-limit-not-applied client=%s server=%s advertised=%d got=%d", cstr(c), cstr(s), md, dict)
			}
			// would the server's reader accept the descriptor the writer is going to send?
			// (BaseReader.ReadVarHeader: ownSchema.Compatible(streamSchema) must not fail)
			if !schNil {
				if _, err := ss.Compatible(mkSchema(sch)); err != nil {
					sig := "descriptor-refused"
					if rel == "client-ahead" || len(c) > len(s) || (len(c) == len(s) && sum(c) > sum(s)) {
						sig = "connect-client-superset"
					}
					propFail("C14 %s connect succeeded with client=%s server=%s and tells the writer to write schema %s, which the server's reader refuses: %v", sig, cstr(c), cstr(s), cstr(sch), err)
				}
			}
		}
	}
	burstCases(r, thorough)
	rawChunks(r, thorough)
	for k, v := range stats {
		note("stat %s %d", k, v)
	}
	out.Flush()
}

func sum(x []uint) uint {
	var t uint
	for _, v := range x {
		t += v
	}
	return t
}
