package hgenlib

import (
	"bytes"
	"fmt"
	"io"
	"os"
	"reflect"
	"runtime/debug"
	"strings"

	"github.com/splunk/stef/go/pkg"

	"verif/harness/internal/recgen"
	"verif/harness/internal/rng"
)

type failure struct {
	prop, sig, desc string
}

type rtOutcome struct {
	fails []failure
	masks []uint64
	full  bool
}

const maxClones = 24

// cloneBroken: <Root>.Clone panicked or dropped optional presence once in this run (the defects
// clone-panic on a nil optional recursive field and clone-optional, both repaired by /repo 82431a4
// and kept as oracles: a recurrence is a violation): later histories skip the clone-based
// aliasing checks so that one defect is reported once.
var cloneBroken = os.Getenv("VERIF_HGEN_NOCLONE") != ""

// checkRead reads the stream with rd's package and compares every record with want (dumps in
// the READER's schema). prop/prefix select the property and signature family.
//
//	<prefix>-reader-error   constructor or Read returned an error
//	<prefix>-value          a record differs from the expected one
//	<prefix>-no-eof         no io.EOF after the last record
//	<prefix>-modified-flag  a changed top-level field without its modified bit
//	<prefix>-clone / -earlier-value   Clone() wrong / values handed out earlier changed
func checkRead(prop, prefix string, root *rootSpec, stream []byte, want []string, aliasing bool) (o rtOutcome) {
	fail := func(sig, f string, a ...any) {
		o.fails = append(o.fails, failure{prop, prefix + "-" + sig, fmt.Sprintf(f, a...)})
	}
	defer func() {
		if e := recover(); e != nil {
			site := panicSite(debug.Stack())
			short := site
			if j := strings.LastIndex(short, "."); j >= 0 {
				short = short[j+1:]
			}
			fail("reader-panic-"+short, "reader panicked: %v @ %s", e, site)
			o.full = false
		}
	}()
	rd, err := root.newReader(bytes.NewReader(stream))
	if err != nil {
		fail("reader-error", "reader constructor failed: %v", err)
		return
	}
	type held struct {
		strs []string
		sig  uint64
	}
	var helds []held
	var clones []reflect.Value
	prevFields := recgen.SplitFields(root.freshDump(), root.ty)
	n := len(want)
	for i := 0; i < n; i++ {
		if err := rd.Read(pkg.ReadOptions{}); err != nil {
			fail("reader-error", "record %d of %d: reader returned error %q (class %s)", i, n, err.Error(), errClass(err))
			return
		}
		got := recgen.Dump(rd.Rec(), root.ty)
		mask := recgen.ModifiedMask(rd.Rec(), root.ty)
		o.masks = append(o.masks, mask)
		if got != want[i] {
			diff := recgen.DiffDumps(want[i], got, root.ty)
			sig := "value"
			if strings.Contains(diff, "f8000000000000000 vs f0") {
				sig = "negzero" // -0 expected, +0 read
			}
			fail(sig, "record %d of %d differs at %s (expected vs read)", i, n, diff)
			return
		}
		fields := recgen.SplitFields(want[i], root.ty)
		for j := range fields {
			if j < len(prevFields) && fields[j] != prevFields[j] && mask&(1<<uint(j)) == 0 {
				fail("modified-flag", "record %d: field %s changed but Is%sModified()==false (mask %x)", i, root.ty.Def.Fields[j].Name, root.ty.Def.Fields[j].Name, mask)
			}
		}
		prevFields = fields
		if aliasing && !cloneBroken && i < maxClones {
			var hs []string
			recgen.CollectStrings(rd.Rec(), root.ty, &hs)
			helds = append(helds, held{hs, fnv(hs...)})
			c, cpan := safeClone(rd)
			if cpan != "" {
				g := got
				if len(g) > 160 {
					g = g[:160] + "..."
				}
				fail("clone-panic", "record %d (%s): reader.Record.Clone(&Allocators{}) panicked: %s", i, g, cpan)
				cloneBroken = true // reported once per driver run; the clone-based checks are off from here
			}
			if c.IsValid() {
				if d := recgen.Dump(c, root.ty); d != got {
					sig := "clone"
					diff := recgen.DiffDumps(got, d, root.ty)
					if strings.Contains(diff, "f8000000000000000 vs f0") {
						sig = "clone-negzero"
					} else if strings.Contains(diff, " vs _") {
						sig = "clone-optional"
					}
					fail(sig, "record %d: reader.Record.Clone() differs from the record at %s (record vs clone)", i, diff)
					c = reflect.Value{}
					if sig == "clone-optional" {
						cloneBroken = true // Clone drops optional presence (repaired by 82431a4): reported once per run
					}
				}
			}
			clones = append(clones, c)
		}
	}
	o.full = true
	err = rd.Read(pkg.ReadOptions{})
	if err != io.EOF {
		fail("no-eof", "after the last record (%d) reader returned %v instead of io.EOF", n, err)
	}
	for i, hdl := range helds {
		if fnv(hdl.strs...) != hdl.sig {
			fail("earlier-value", "strings handed out with record %d changed after later reads", i)
			break
		}
	}
	for i, c := range clones {
		if !c.IsValid() {
			continue
		}
		if d := recgen.Dump(c, root.ty); d != want[i] {
			fail("earlier-value", "clone of record %d changed after later reads at %s", i, recgen.DiffDumps(want[i], d, root.ty))
			break
		}
	}
	if rd.RecordCount() != uint64(n) {
		fail("count", "reader.RecordCount()=%d records=%d", rd.RecordCount(), n)
	}
	return
}

func safeClone(rd recReader) (c reflect.Value, pan string) {
	defer func() {
		if e := recover(); e != nil {
			c, pan = reflect.Value{}, fmt.Sprintf("%v @ %s", e, panicSite(debug.Stack()))
		}
	}()
	return rd.CloneRec(), ""
}

func writerFailure(prop, prefix string, res *runResult) *failure {
	if res.werr != "" {
		sig := prefix + "-writer-error"
		if i := strings.Index(res.werr, " @ "); i >= 0 {
			// the panic site without package and type names (pa.O2.byteSize -> byteSize)
			site := res.werr[i+3:]
			if j := strings.LastIndex(site, "."); j >= 0 {
				site = site[j+1:]
			}
			sig = prefix + "-writer-panic-" + site
		}
		return &failure{prop, sig, "writer failed: " + res.werr}
	}
	for _, p := range res.callPanics {
		return &failure{prop, prefix + "-api-panic", "public record API panicked: " + p}
	}
	return nil
}

func checkRoundtrip(root *rootSpec, res *runResult) rtOutcome {
	if f := writerFailure("C10", "roundtrip-mismatch", res); f != nil {
		return rtOutcome{fails: []failure{*f}}
	}
	o := checkRead("C10", "roundtrip-mismatch", root, res.stream, res.truths, true)
	if o.full && res.wcount != uint64(len(res.truths)) {
		o.fails = append(o.fails, failure{"C10", "roundtrip-mismatch-count", fmt.Sprintf("writer.RecordCount()=%d records=%d", res.wcount, len(res.truths))})
	}
	return o
}

// report shrinks the failing history (eval re-evaluates a candidate) and prints the PROP-FAIL.
func report(name string, h *history, f failure, ctx string, eval func(*history) []failure) {
	sigCount[f.sig]++
	stats["propfail-"+f.sig]++
	if strings.Contains(f.sig, "-clone") {
		// clone defects are reported once per run and switch the clone checks off: no replay
		propFail("%s %s case=%s %s; %s", f.prop, f.sig, name, f.desc, ctx)
		return
	}
	if sigCount[f.sig] > maxReportsPerSig {
		propFail("%s %s case=%s %s (details and shrinking suppressed after %d reports)", f.prop, f.sig, name, f.desc, maxReportsPerSig)
		return
	}
	pred := func(c *history) bool {
		for _, g := range eval(c) {
			if g.sig == f.sig && g.prop == f.prop {
				return true
			}
		}
		return false
	}
	min := h
	desc := f.desc
	if pred(h) {
		min = shrink(h, pred, 300)
		for _, g := range eval(min) {
			if g.sig == f.sig {
				desc = g.desc
				break
			}
		}
		stats["shrunk-histories"]++
	} else {
		desc += " (NOT reproducible by replay; history unshrunk)"
		stats["shrink-replay-not-reproducible"]++
	}
	propFail("%s %s case=%s %s; %s; minimal history (%d of %d steps): %s", f.prop, f.sig, name, desc, ctx, len(min.steps), len(h.steps), min.describe(50))
}

func unmodifiedSomewhere(root *rootSpec, masks []uint64) bool {
	all := uint64(1)<<uint(len(root.ty.Def.Fields)) - 1
	for _, m := range masks {
		if m&all != all {
			return true
		}
	}
	return false
}

// drawCase draws writer options, mutator configuration and history size.
func drawCase(r *rng.R, small bool) (wopts, *recgen.Cfg, genParams) {
	o := genOpts(r)
	cfg := &recgen.Cfg{DictResets: o.dictSize != 0 || o.flags&pkg.RestartDictionaries != 0, NoFrozen: r.Chance(1, 3)}
	p := genParams{writes: 2 + r.Intn(10), maxMut: 3, flushProb: r.Intn(6)}
	switch r.Intn(10) {
	case 0:
		p.writes = 1
	case 1:
		p.writes = 20 + r.Intn(30)
		cfg.NoBigLens = true
	case 2:
		cfg.DictHeavy = true
	case 3:
		cfg.NoBigLens = true
		cfg.MaxCalls = 6
	}
	if small || r.Chance(1, 2) {
		cfg.NoBigLens = true
	}
	return o, cfg, p
}

// emitDecode prints the op line for the Lean specification decoder.
func emitDecode(b *boundPkg, rootName string, stream []byte, expect string) (int, *parsedStream) {
	eq, ps, err := equivalentOf(stream)
	if err != nil {
		note("note framing parse failed for %s/%s: %v", b.ID, rootName, err)
		return 0, ps
	}
	b.printSchemaLine()
	emit(fmt.Sprintf("sd decode %s %s %s", b.ID, rootName, hx(eq)), expect)
	// the same stream through the schema-generic Lean ENCODER (Stef/SpecEnc.lean): decoded with the
	// marked decoder, every frame re-encoded from the recovered marks, frame contents compared
	// byte for byte with the real writer's
	emit(fmt.Sprintf("se reencode %s %s %s", b.ID, rootName, hx(eq)), "same")
	stats["reencode-ops"]++
	return 2*len(eq) + len(expect), ps
}

// RunC10 is the C01/C02 round trip of h_codec for the generated package p.
func RunC10(p *boundPkg, cases int) {
	r := rng.FromEnv(fnv("c10", p.ID) % 1000003)
	note("note schema %s: %s", p.ID, compactSchema(p.SchemaText))
	outBytes := 0
	if strings.HasPrefix(p.ID, "fx_dict") {
		cases = 0 // tiny fixed schemas that exist for their scripted known-defect trigger only
	}
	if strings.HasPrefix(p.ID, "fx_dictrec") || strings.HasPrefix(p.ID, "fx_dictkey") {
		cases = 4 // every history that assigns the dict struct panics in Write (known defect)
	}
	for i := 0; i < cases; i++ {
		root := p.roots[i%len(p.roots)]
		o, cfg, gp := drawCase(r, outBytes > opBudget)
		name := fmt.Sprintf("%s-rt-%d", p.ID, i)
		note("case %s", name)
		o.stat()
		stats["root-"+root.name]++
		h, res := generate(r, root, o, cfg, gp)
		stats["records"] += len(res.truths)
		stats["steps"] += len(h.steps)
		oc := checkRoundtrip(root, res)
		if len(oc.fails) > 0 {
			stats["failing-cases"]++
			reported := map[string]bool{}
			for _, f := range oc.fails {
				if reported[f.sig] {
					continue
				}
				reported[f.sig] = true
				report(name, h, f, "schema: "+compactSchema(p.SchemaText), func(c *history) []failure {
					return checkRoundtrip(c.root, replay(c)).fails
				})
			}
		}
		if !oc.full {
			continue
		}
		n, ps := emitDecode(p, root.name, res.stream, okLine(oc.masks, res.truths))
		if ps.err != nil || ps.totalRecords() != len(res.truths) {
			propFail("C10 framing-parse case=%s independent framing parser: err=%v records=%d want %d", name, ps.err, ps.totalRecords(), len(res.truths))
			continue
		}
		outBytes += n
		emitAPI(p, h, res, ps)
		stats["frames"] += len(ps.frames) - 1
		if len(res.truths) >= 2 && unmodifiedSomewhere(root, oc.masks) {
			note("nontrivial %x", fnv(res.truths...))
		}
		if i == 0 {
			sample("schema=%s root=%s opts=%s records=%d frames=%d streamBytes=%d steps=%d", p.ID, root.name, o, len(res.truths), len(ps.frames)-1, len(res.stream), len(h.steps))
		}
		if len(res.truths) > 0 {
			root.lastStream, root.lastN = res.stream, len(res.truths)
		}
	}
	if strings.HasPrefix(p.ID, "fx_") {
		runKnown(p)
	}
}

func compactSchema(text string) string {
	var parts []string
	for _, l := range strings.Split(text, "\n") {
		if i := strings.Index(l, "//"); i >= 0 {
			l = l[:i]
		}
		l = strings.TrimSpace(l)
		if l != "" {
			parts = append(parts, l)
		}
	}
	return strings.Join(parts, " ")
}
