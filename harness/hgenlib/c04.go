package hgenlib

import (
	"bytes"
	"encoding/binary"
	"fmt"
	"reflect"
	"strings"

	"github.com/splunk/stef/go/pkg"
	"github.com/splunk/stef/go/pkg/schema"

	"verif/harness/internal/recgen"
	"verif/harness/internal/rng"
)

type pair struct {
	a, b    *boundPkg
	view    *recgen.Model   // B without the optional fields appended to A-known structs
	setters map[string]bool // Set<F> of those fields
	ctx     string
}

func wireCounts(w *schema.WireSchema) []uint64 {
	var buf bytes.Buffer
	if err := w.Serialize(&buf); err != nil {
		return nil
	}
	n, err := binary.ReadUvarint(&buf)
	if err != nil {
		return nil
	}
	out := make([]uint64, 0, n)
	for i := uint64(0); i < n; i++ {
		c, err := binary.ReadUvarint(&buf)
		if err != nil {
			return nil
		}
		out = append(out, c)
	}
	return out
}

func wireFromCounts(cs []uint64) *schema.WireSchema {
	var b []byte
	b = binary.AppendUvarint(b, uint64(len(cs)))
	for _, c := range cs {
		b = binary.AppendUvarint(b, c)
	}
	w := &schema.WireSchema{}
	if err := w.Deserialize(bytes.NewBuffer(b)); err != nil {
		return nil
	}
	return w
}

func sameCounts(a, b []uint64) bool {
	if len(a) != len(b) {
		return false
	}
	for i := range a {
		if a[i] != b[i] {
			return false
		}
	}
	return true
}

func mapDumps(in []string, f func(string) (string, error)) ([]string, error) {
	out := make([]string, len(in))
	for i, s := range in {
		var err error
		if out[i], err = f(s); err != nil {
			return nil, err
		}
	}
	return out, nil
}

// RunC04 runs forward, downgrade (two generator streams) and refuse for every root of the pair.
func RunC04(a, b *boundPkg, scale int) {
	p := &pair{a: a, b: b}
	var err error
	if p.view, err = cleanView(a.model, b.SchemaText); err != nil {
		note("note HARNESS-ERROR clean view: %v", err)
		return
	}
	p.setters = bOnlyOptionalSetters(a.model, b.model)
	p.ctx = "schema A: " + compactSchema(a.SchemaText) + " ; schema B: " + compactSchema(b.SchemaText)
	note("note pair %s/%s A: %s", a.ID, b.ID, compactSchema(a.SchemaText))
	note("note pair %s/%s B: %s", a.ID, b.ID, compactSchema(b.SchemaText))
	r := rng.FromEnv(fnv("c04", a.ID) % 1000003)
	for _, ra := range a.roots {
		rb := b.root(ra.name)
		if rb == nil {
			note("note HARNESS-ERROR root %s missing in B", ra.name)
			continue
		}
		// self-check of the default model: extend(fresh A) must be the fresh B record
		if ext, err := extendDump(ra.freshDump(), ra.ty, rb.ty); err != nil || ext != rb.freshDump() {
			propFail("C04 forward-fresh-record-differs root=%s: fresh B record %s, A's fresh record extended with defaults %s (%v); %s", ra.name, rb.freshDump(), ext, err, p.ctx)
			continue
		}
		wa, errA := ra.reg.WireSchema()
		wb, errB := rb.reg.WireSchema()
		if errA != nil || errB != nil {
			propFail("C04 wire-schema-error root=%s: %v %v; %s", ra.name, errA, errB, p.ctx)
			continue
		}
		ca, cb := wireCounts(&wa), wireCounts(&wb)
		note("note root %s wire A=%v B=%v", ra.name, ca, cb)
		same := sameCounts(ca, cb)
		if same {
			stats["roots-unchanged-by-evolution"]++
		} else {
			stats["roots-changed-by-evolution"]++
			if len(ca) != len(cb) {
				stats["roots-count-list-length-changed"]++
			}
		}
		p.forward(r, ra, rb, 6*scale)
		p.downgrade(r, ra, rb, &wa, 6*scale, false)
		p.downgrade(r, ra, rb, &wa, 5*scale, true)
		if !same {
			p.refuse(r, ra, rb, 2)
		}
		p.refuseCrafted(r, ra, ca)
	}
}

// forward: written by A with its descriptor, read by B.
func (p *pair) forward(r *rng.R, ra, rb *rootSpec, cases int) {
	for i := 0; i < cases; i++ {
		o, cfg, gp := drawCase(r, true)
		o.desc = true
		name := fmt.Sprintf("%s-fwd-%s-%d", p.a.ID, ra.name, i)
		note("case %s", name)
		stats["forward-cases"]++
		h, res := generate(r, ra, o, cfg, gp)
		stats["records"] += len(res.truths)
		eval := func(res *runResult) (rtOutcome, []string) {
			if f := writerFailure("C04", "forward", res); f != nil {
				return rtOutcome{fails: []failure{*f}}, nil
			}
			want, err := mapDumps(res.truths, func(s string) (string, error) { return extendDump(s, ra.ty, rb.ty) })
			if err != nil {
				return rtOutcome{fails: []failure{{"C04", "forward-harness-dump", err.Error()}}}, nil
			}
			return checkRead("C04", "forward", rb, res.stream, want, false), want
		}
		oc, want := eval(res)
		for _, f := range dedup(oc.fails) {
			stats["failing-cases"]++
			report(name, h, f, p.ctx, func(c *history) []failure { o, _ := eval(replay(c)); return o.fails })
		}
		if !oc.full {
			continue
		}
		emitDecode(p.b, rb.name, res.stream, okLine(oc.masks, want))
		if len(res.truths) >= 2 && want[len(want)-1] != res.truths[len(res.truths)-1] {
			note("nontrivial %x", fnv(append([]string{"fwd"}, res.truths...)...))
		}
		if len(res.truths) > 0 {
			ra.lastStream, ra.lastN = res.stream, len(res.truths)
		}
	}
}

// stripTrigger removes every call that makes a B-only optional field of an A-known struct
// present (by setter name) - and every whole-value copy that could carry one in.
func (p *pair) stripTrigger(h *history) *history {
	c := *h
	c.steps = nil
	for _, s := range h.steps {
		if s.kind == 'c' && (p.setters[s.call.M] || s.call.M == "CopyFrom" || s.call.Tag == 'S') {
			continue
		}
		c.steps = append(c.steps, s)
	}
	return &c
}

// downgrade: written by B with WriterOptions.Schema = A's wire schema, read by A.
// trigger=false: the mutator is directed by the clean view of B (never sets an optional field
// that A lacks in a struct A has): every failure is a fresh violation.
// trigger=true: the full B schema; failures of histories that contain a trigger of the known
// defect are classified downgrade-presence-overflow if and only if the same history with the
// trigger calls removed does not fail.
func (p *pair) downgrade(r *rng.R, ra, rb *rootSpec, wa *schema.WireSchema, cases int, trigger bool) {
	wr := *rb // writer side root: own lastStream bookkeeping per stream kind
	wr.lastStream, wr.lastN = nil, 0
	kind := "dgt"
	if !trigger {
		kind = "dgc"
		wr.mutTy = p.view.Root(rb.name)
	}
	for i := 0; i < cases; i++ {
		o, cfg, gp := drawCase(r, true)
		o.override = wa
		name := fmt.Sprintf("%s-%s-%s-%d", p.a.ID, kind, ra.name, i)
		note("case %s", name)
		stats["downgrade-cases-"+kind]++
		h, res := generate(r, &wr, o, cfg, gp)
		stats["records"] += len(res.truths)
		eval := func(res *runResult) (rtOutcome, []string) {
			if f := writerFailure("C04", "downgrade", res); f != nil {
				return rtOutcome{fails: []failure{*f}}, nil
			}
			want, err := mapDumps(res.truths, func(s string) (string, error) { return restrictDump(s, rb.ty, ra.ty) })
			if err != nil {
				return rtOutcome{fails: []failure{{"C04", "downgrade-harness-dump", err.Error()}}}, nil
			}
			return checkRead("C04", "downgrade", ra, res.stream, want, false), want
		}
		triggered := func(res *runResult) []string {
			var ps []string
			for _, t := range res.truths {
				ps = append(ps, overflowPaths(t, rb.ty, ra.ty)...)
			}
			return ps
		}
		trig := triggered(res)
		if len(trig) > 0 {
			stats["downgrade-histories-with-overflow-trigger"]++
		}
		oc, want := eval(res)
		for _, f := range dedup(oc.fails) {
			stats["failing-cases"]++
			if len(trig) > 0 {
				// known defect? decide on the history without the trigger calls
				sh := p.stripTrigger(h)
				sres := replay(sh)
				so, _ := eval(sres)
				if len(triggered(sres)) == 0 && len(so.fails) > 0 {
					// fails without any trigger: a fresh violation, reported on the stripped history
					report(name, sh, so.fails[0], p.ctx, func(c *history) []failure { o, _ := eval(replay(c)); return o.fails })
					continue
				}
				kf := failure{"C04", "downgrade-presence-overflow", fmt.Sprintf("%s [%s]; optional field(s) beyond A's field count present at %s when the B writer encodes in schema A", f.desc, f.sig, strings.Join(uniq(trig, 4), " "))}
				report(name, h, kf, p.ctx, func(c *history) []failure {
					cr := replay(c)
					o, _ := eval(cr)
					if len(o.fails) > 0 && len(triggered(cr)) > 0 {
						return []failure{kf}
					}
					return nil
				})
				continue
			}
			report(name, h, f, p.ctx, func(c *history) []failure { o, _ := eval(replay(c)); return o.fails })
		}
		if !oc.full || len(oc.fails) > 0 {
			continue
		}
		if len(trig) > 0 {
			// optional fields beyond A's field count were present when the B writer encoded in
			// schema A (the repaired defect downgrade-presence-overflow): such streams are judged
			// by the Lean decoder like all the others
			stats["downgrade-trigger-streams-read-ok"]++
		}
		emitDecode(p.a, ra.name, res.stream, okLine(oc.masks, want))
		if len(res.truths) >= 2 && want[len(want)-1] != res.truths[len(res.truths)-1] {
			note("nontrivial %x", fnv(append([]string{"dg"}, res.truths...)...))
		}
		if len(res.truths) > 0 && len(trig) == 0 {
			wr.lastStream, wr.lastN = res.stream, len(res.truths)
		}
	}
}

func dedup(fs []failure) []failure {
	seen := map[string]bool{}
	var out []failure
	for _, f := range fs {
		if !seen[f.sig] {
			seen[f.sig] = true
			out = append(out, f)
		}
	}
	return out
}

func uniq(xs []string, max int) []string {
	seen := map[string]bool{}
	var out []string
	for _, x := range xs {
		if !seen[x] && len(out) < max {
			seen[x] = true
			out = append(out, x)
		}
	}
	return out
}

// readerRefuses hands the stream to the reader: an error from the constructor or the first Read
// is a refusal. Returns the error class ("" when the stream was accepted).
func readerRefuses(root *rootSpec, stream []byte) (cls string, detail string) {
	defer func() {
		if e := recover(); e != nil {
			cls, detail = "panic", fmt.Sprint(e)
		}
	}()
	rd, err := root.newReader(bytes.NewReader(stream))
	if err != nil {
		return errClass(err), "constructor: " + err.Error()
	}
	if err := rd.Read(pkg.ReadOptions{}); err != nil {
		return errClass(err), "first Read: " + err.Error()
	}
	return "", "first record read as " + recgen.Dump(rd.Rec(), root.ty)
}

const refusedLine = "ERR too-many-fields dv=0|END"

func (p *pair) emitRefused(root *rootSpec, stream []byte, cls string) {
	eq, _, err := equivalentOf(stream)
	if err != nil {
		return
	}
	op := fmt.Sprintf("sd decode %s %s %s", p.a.ID, root.name, hx(eq))
	if cls == "too-many-fields" {
		p.a.printSchemaLine()
		emit(op, refusedLine)
	} else {
		// Go refuses in ReadVarHeader (WireSchema.Compatible) before the decoder sees the count;
		// the Lean decoder refuses at the first larger count: both refuse, different classes.
		note("note refuse: Go class %s; Lean decoder expected %q on: %s", cls, refusedLine, op)
	}
}

// refuse: a stream written by B in its own schema, with descriptor, handed to the A reader.
func (p *pair) refuse(r *rng.R, ra, rb *rootSpec, cases int) {
	for i := 0; i < cases; i++ {
		o, cfg, gp := drawCase(r, true)
		o.desc = true
		gp.writes = 1 + r.Intn(4)
		name := fmt.Sprintf("%s-refuse-%s-%d", p.a.ID, ra.name, i)
		note("case %s", name)
		stats["refuse-cases"]++
		wr := *rb
		h, res := generate(r, &wr, o, cfg, gp)
		if f := writerFailure("C04", "refuse", res); f != nil {
			report(name, h, *f, p.ctx, func(c *history) []failure {
				if f := writerFailure("C04", "refuse", replay(c)); f != nil {
					return []failure{*f}
				}
				return nil
			})
			continue
		}
		cls, detail := readerRefuses(ra, res.stream)
		if cls == "" || cls == "panic" {
			propFail("C04 too-new-descriptor-accepted case=%s root=%s: the A reader accepted a stream whose descriptor is B's (%s); %s; history: %s", name, ra.name, detail, p.ctx, h.describe(20))
			continue
		}
		stats["refused-"+strings.SplitN(cls, ":", 2)[0]]++
		note("nontrivial %x", fnv("refuse", hx(res.stream)))
		if i == 0 {
			p.emitRefused(ra, res.stream, cls)
		}
	}
}

// entriesViaMultimapKey: for every entry of root's wire schema (structs/oneofs in depth-first
// first-encounter order, as schema.NewWireSchema lists them) whether its first encounter lies
// inside the KEY of a multimap.
func entriesViaMultimapKey(root *recgen.Type) []bool {
	var out []bool
	seen := map[*recgen.Def]bool{}
	onStack := map[*recgen.Def]bool{}
	var walk func(t *recgen.Type, inKey bool)
	walk = func(t *recgen.Type, inKey bool) {
		switch t.Kind {
		case recgen.KArray:
			walk(t.Elem, inKey)
		case recgen.KStruct, recgen.KOneof:
			if seen[t.Def] {
				return
			}
			seen[t.Def] = true
			out = append(out, inKey)
			for _, f := range t.Def.Fields {
				walk(f.Type, inKey)
			}
		case recgen.KMultimap:
			if onStack[t.Def] {
				return
			}
			onStack[t.Def] = true
			walk(t.Def.Key, true)
			walk(t.Def.Val, inKey)
			delete(onStack, t.Def)
		}
	}
	walk(root, false)
	return out
}

// refuseCrafted: descriptors of the SAME length and SAME total as A's own (so that
// WireSchema.Compatible calls them exact) in which entry x has one field more than A knows
// and the last entry one field less, for every x. The A writer emits them (Encoder.Init has no
// upper check), the A reader must refuse them in Decoder.Init.
func (p *pair) refuseCrafted(r *rng.R, ra *rootSpec, ca []uint64) {
	if len(ca) < 2 || ca[len(ca)-1] == 0 {
		stats["refuse-crafted-not-applicable"]++
		return
	}
	viaKey := entriesViaMultimapKey(ra.ty)
	if len(viaKey) != len(ca) {
		note("note HARNESS: wire schema of %s has %d entries, the schema walk %d", ra.name, len(ca), len(viaKey))
		viaKey = make([]bool, len(ca))
	}
	printed := false
	for x := 0; x < len(ca)-1; x++ {
		cs := append([]uint64(nil), ca...)
		cs[x]++
		cs[len(cs)-1]--
		w := wireFromCounts(cs)
		if w == nil {
			return
		}
		name := fmt.Sprintf("%s-refusecrafted-%s-%d", p.a.ID, ra.name, x)
		note("case %s", name)
		o, cfg, gp := drawCase(r, true)
		o.override = w
		gp.writes = 1 + r.Intn(3)
		wr := *ra
		wr.lastStream = nil
		h, res := generate(r, &wr, o, cfg, gp)
		if res.werr != "" || len(res.callPanics) > 0 {
			// the writer is not obliged to accept a descriptor that is not a prefix of its schema
			stats["refuse-crafted-writer-declined"]++
			continue
		}
		stats["refuse-crafted-cases"]++
		cls, detail := readerRefuses(ra, res.stream)
		if cls == "" || cls == "panic" {
			sig := "too-new-descriptor-accepted"
			if viaKey[x] {
				// known defect: <Multimap>Decoder.Init returns nil when its key decoder's Init fails
				sig = "too-new-descriptor-accepted-via-multimap-key"
			}
			sigCount[sig]++
			if sigCount[sig] <= maxReportsPerSig {
				propFail("C04 %s case=%s root=%s: own counts %v, descriptor %v (entry %d has one field more than the reader knows; first met inside a multimap key: %v): the reader constructor returned no error, then: %s; %s; history: %s", sig, name, ra.name, ca, cs, x, viaKey[x], detail, p.ctx, h.describe(12))
			} else {
				propFail("C04 %s case=%s root=%s: own counts %v, descriptor %v accepted (details suppressed)", sig, name, ra.name, ca, cs)
			}
			continue
		}
		stats["refused-crafted-"+strings.SplitN(cls, ":", 2)[0]]++
		note("nontrivial %x", fnv("refusecrafted", hx(res.stream)))
		if !printed {
			printed = true
			p.emitRefused(ra, res.stream, cls)
		}
	}
}

var _ = reflect.ValueOf
