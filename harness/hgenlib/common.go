package hgenlib

import (
	"reflect"
	"bufio"
	"bytes"
	"encoding/binary"
	"encoding/hex"
	"errors"
	"fmt"
	"io"
	"os"
	"runtime/debug"
	"sort"
	"strconv"
	"strings"

	"github.com/klauspost/compress/zstd"

	"github.com/splunk/stef/go/pkg"
	"github.com/splunk/stef/go/pkg/schema"

	"verif/harness/internal/recgen"
	"verif/harness/internal/rng"
)

var out = bufio.NewWriterSize(os.Stdout, 1<<20)

func emit(op, res string)         { fmt.Fprintf(out, "%s\t%s\n", op, res) }
func note(f string, a ...any)     { fmt.Fprintln(out, "# "+oneLine(fmt.Sprintf(f, a...))) }
func propFail(f string, a ...any) { fmt.Fprintln(out, "PROP-FAIL "+oneLine(fmt.Sprintf(f, a...))) }

func oneLine(s string) string {
	s = strings.ReplaceAll(s, "\r", "")
	s = strings.ReplaceAll(s, "\t", " ")
	return strings.ReplaceAll(s, "\n", " ")
}

var sigCount = map[string]int{}

var maxReportsPerSig = envInt("VERIF_HGEN_MAXREPORTS", 2)

var stats = map[string]int{}
var thorough = os.Getenv("VERIF_TIER") == "thorough"
var samples = 0

func sample(f string, a ...any) {
	if samples < 3 {
		samples++
		note("sample "+f, a...)
	}
}

func envInt(k string, d int) int {
	if v, err := strconv.Atoi(os.Getenv(k)); err == nil {
		return v
	}
	return d
}

func fnv(parts ...string) uint64 {
	h := uint64(1469598103934665603)
	for _, p := range parts {
		for i := 0; i < len(p); i++ {
			h = (h ^ uint64(p[i])) * 1099511628211
		}
		h = (h ^ 0xff) * 1099511628211
	}
	return h
}

func newByteReader(b []byte) io.Reader { return bytes.NewReader(b) }

// ---------------------------------------------------------------------------------------
// Writer options.

type wopts struct {
	zstd      bool
	frameSize uint
	dictSize  uint
	flags     pkg.FrameFlags
	desc      bool
	userData  int
	override  *schema.WireSchema // WriterOptions.Schema (C04 downgrade)
}

var frameSizes = []uint{0, 1, 7, 50, 200, 1000, 65536}
var dictSizes = []uint{0, 1, 40, 200, 5000}

func genOpts(r *rng.R) wopts {
	o := wopts{
		zstd:      r.Chance(1, 4),
		frameSize: frameSizes[r.Intn(len(frameSizes))],
		dictSize:  dictSizes[r.Intn(len(dictSizes))],
		flags:     pkg.FrameFlags(r.Intn(8)),
		desc:      r.Bool(),
		userData:  r.Intn(2),
	}
	if r.Chance(1, 3) {
		o.frameSize = 0
	}
	if r.Chance(1, 3) {
		o.flags = 0
	}
	// RestartCompression without compression panics in the writer (known C01 defect
	// writer-panic-zstd.Encoder.Reset, library code, not generated code): never drawn here.
	if !o.zstd {
		o.flags &^= pkg.RestartCompression
	}
	return o
}

func (o wopts) String() string {
	c := "none"
	if o.zstd {
		c = "zstd"
	}
	ov := ""
	if o.override != nil {
		ov = " schema=override"
	}
	return fmt.Sprintf("{compr=%s F=%d L=%d flags=%03b desc=%v userdata=%d%s}", c, o.frameSize, o.dictSize, o.flags, o.desc, o.userData, ov)
}

func (o wopts) pkg() pkg.WriterOptions {
	w := pkg.WriterOptions{
		IncludeDescriptor:            o.desc,
		MaxUncompressedFrameByteSize: o.frameSize,
		MaxTotalDictSize:             o.dictSize,
		FrameRestartFlags:            o.flags,
		Schema:                       o.override,
	}
	if o.zstd {
		w.Compression = pkg.CompressionZstd
	}
	if o.userData == 1 {
		w.UserData = map[string]string{"k1": "v1"}
	}
	return w
}

func (o wopts) stat() {
	if o.zstd {
		stats["opt-compr-zstd"]++
	} else {
		stats["opt-compr-none"]++
	}
	stats[fmt.Sprintf("opt-framesize-%d", o.frameSize)]++
	stats[fmt.Sprintf("opt-dictsize-%d", o.dictSize)]++
	stats[fmt.Sprintf("opt-flags-%03b", o.flags)]++
	stats[fmt.Sprintf("opt-desc-%v", o.desc)]++
}

// ---------------------------------------------------------------------------------------
// Chunk collector.

type chunkLog struct {
	buf  bytes.Buffer
	ends []int
}

func (c *chunkLog) WriteChunk(h, content []byte) error {
	c.buf.Write(h)
	c.buf.Write(content)
	c.ends = append(c.ends, c.buf.Len())
	return nil
}

// ---------------------------------------------------------------------------------------
// Histories.

type step struct {
	kind byte // 'c' API call on the record, 'W' Write, 'F' Flush
	call *recgen.Call
}

type history struct {
	root  *rootSpec
	opts  wopts
	cfg   *recgen.Cfg
	steps []step
	gen   *recgen.State
}

type runResult struct {
	stream     []byte
	truths     []string
	wmasks     []uint64 // the writer record's top-level modified mask just before each Write
	werr       string
	wcount     uint64
	callPanics []string
}

func safe(f func() error) (err error, pan string) {
	defer func() {
		if e := recover(); e != nil {
			pan = fmt.Sprintf("%v @ %s", e, panicSite(debug.Stack()))
		}
	}()
	return f(), ""
}

// panicSite extracts the innermost function of the code under test from a stack trace.
func panicSite(stack []byte) string {
	lines := strings.Split(string(stack), "\n")
	seenPanic := false
	for _, l := range lines {
		if strings.HasPrefix(l, "panic(") {
			seenPanic = true
			continue
		}
		if !seenPanic || strings.HasPrefix(l, "\t") || strings.HasPrefix(l, "runtime.") || strings.HasPrefix(l, "reflect.") {
			continue
		}
		if i := strings.LastIndex(l, "("); i > 0 {
			l = l[:i]
		}
		if j := strings.LastIndex(l, "/"); j >= 0 {
			l = l[j+1:]
		}
		l = strings.NewReplacer("(", "", ")", "", "*", "", " ", "").Replace(l)
		if l != "" {
			return l
		}
	}
	return "unknown"
}

func newWriterSafe(root *rootSpec, cl *chunkLog, o wopts) (w recWriter, err error, pan string) {
	err, pan = safe(func() error {
		var e error
		w, e = root.newWriter(cl, o.pkg())
		return e
	})
	return
}

type genParams struct {
	writes    int
	maxMut    int
	flushProb int
}

// generate creates a history by live execution: mutation steps are generated against the live
// writer record and recorded as replayable API calls.
func generate(r *rng.R, root *rootSpec, o wopts, cfg *recgen.Cfg, p genParams) (*history, *runResult) {
	h := &history{root: root, opts: o, cfg: cfg}
	res := &runResult{}
	cl := &chunkLog{}
	w, err, pan := newWriterSafe(root, cl, o)
	if err != nil || pan != "" {
		res.werr = fmt.Sprintf("NewWriter: %v%s", err, pan)
		return h, res
	}
	if root.lastStream != nil && cfg.ReaderStream == nil {
		cfg.ReaderStream = root.lastStream
		cfg.ReaderNRead = r.Intn(root.lastN + 1)
	}
	st := recgen.NewState(cfg, w.Rec(), root.openReader)
	h.gen = st
	for i := 0; i < p.writes; i++ {
		k := r.Intn(p.maxMut + 1)
		if i == 0 && k == 0 {
			k = 1
		}
		for j := 0; j < k; j++ {
			// a panic of a getter during generation (outside recgen's Exec) is an API panic too
			if _, pan := safe(func() error { recgen.Mutate(r, w.Rec(), root.mutType(), st); return nil }); pan != "" {
				res.callPanics = append(res.callPanics, "during mutation: "+pan)
			}
		}
		if st.LastPanic != "" {
			res.callPanics = append(res.callPanics, st.LastPanic)
			st.LastPanic = ""
		}
		for _, c := range st.TakeLog() {
			h.steps = append(h.steps, step{'c', c})
		}
		h.steps = append(h.steps, step{kind: 'W'})
		res.truths = append(res.truths, recgen.Dump(w.Rec(), root.ty))
		if m, pan := safeMask(w.Rec(), root.ty); pan == "" {
			res.wmasks = append(res.wmasks, m)
		}
		if err, pan := safe(w.Write); err != nil || pan != "" {
			res.werr = fmt.Sprintf("Write #%d: %v%s", i, err, pan)
			break
		}
		st.NextWrite()
		if r.Intn(16) < p.flushProb {
			h.steps = append(h.steps, step{kind: 'F'})
			if err, pan := safe(w.Flush); err != nil || pan != "" {
				res.werr = fmt.Sprintf("Flush: %v%s", err, pan)
				break
			}
		}
	}
	if res.werr == "" {
		if err, pan := safe(w.Flush); err != nil || pan != "" {
			res.werr = fmt.Sprintf("final Flush: %v%s", err, pan)
		}
	}
	res.wcount = w.RecordCount()
	res.stream = append([]byte(nil), cl.buf.Bytes()...)
	for k, v := range st.Stats {
		stats["mut-"+strings.ReplaceAll(k, "\x00", "plain")] += v
	}
	return h, res
}

// replay re-executes a (possibly shrunk) history on a fresh writer.
func replay(h *history) *runResult {
	res := &runResult{}
	cl := &chunkLog{}
	w, err, pan := newWriterSafe(h.root, cl, h.opts)
	if err != nil || pan != "" {
		res.werr = fmt.Sprintf("NewWriter: %v%s", err, pan)
		return res
	}
	st := recgen.ReplayState(h.cfg, h.gen)
	nw := 0
	for _, s := range h.steps {
		switch s.kind {
		case 'c':
			if st.Exec(w.Rec(), s.call) == recgen.ExecPanic {
				res.callPanics = append(res.callPanics, st.LastPanic)
			}
		case 'W':
			res.truths = append(res.truths, recgen.Dump(w.Rec(), h.root.ty))
			if err, pan := safe(w.Write); err != nil || pan != "" {
				res.werr = fmt.Sprintf("Write #%d: %v%s", nw, err, pan)
			}
			nw++
			st.NextWrite()
		case 'F':
			if err, pan := safe(w.Flush); err != nil || pan != "" {
				res.werr = fmt.Sprintf("Flush: %v%s", err, pan)
			}
		}
		if res.werr != "" {
			break
		}
	}
	if res.werr == "" {
		if err, pan := safe(w.Flush); err != nil || pan != "" {
			res.werr = fmt.Sprintf("final Flush: %v%s", err, pan)
		}
	}
	res.wcount = w.RecordCount()
	res.stream = append([]byte(nil), cl.buf.Bytes()...)
	return res
}

func (h *history) describe(max int) string {
	var sb strings.Builder
	fmt.Fprintf(&sb, "root=%s opts=%s steps=[", h.root.name, h.opts)
	seen := map[*recgen.ObjSpec]bool{}
	for i, s := range h.steps {
		if i > 0 {
			sb.WriteString("; ")
		}
		if i >= max {
			fmt.Fprintf(&sb, "...%d more steps", len(h.steps)-max)
			break
		}
		switch s.kind {
		case 'c':
			sb.WriteString(recgen.FmtCall(s.call, seen))
		case 'W':
			sb.WriteString("Write()")
		case 'F':
			sb.WriteString("Flush()")
		}
	}
	sb.WriteString("]")
	return sb.String()
}

// shrink is delta debugging over the step list: drop chunks of steps while pred still holds.
func shrink(h *history, pred func(*history) bool, budget int) *history {
	cur := h
	n := 2
	for len(cur.steps) >= 2 && budget > 0 {
		chunk := (len(cur.steps) + n - 1) / n
		reduced := false
		for start := 0; start < len(cur.steps) && budget > 0; start += chunk {
			end := start + chunk
			if end > len(cur.steps) {
				end = len(cur.steps)
			}
			cand := *cur
			cand.steps = append(append([]step(nil), cur.steps[:start]...), cur.steps[end:]...)
			budget--
			if pred(&cand) {
				cur = &cand
				if n > 2 {
					n--
				}
				reduced = true
				break
			}
		}
		if !reduced {
			if chunk == 1 {
				break
			}
			n *= 2
			if n > len(cur.steps) {
				n = len(cur.steps)
			}
		}
	}
	return cur
}

// ---------------------------------------------------------------------------------------
// Outer framing parser (independent of go/pkg) and the uncompressed-equivalent stream.

type frameInfo struct {
	flags   byte
	usize   uint64
	content []byte
	nrec    int
}

type parsedStream struct {
	hdr    []byte
	zstd   bool
	frames []frameInfo
	err    error
}

type sliceSrc struct{ b []byte }

func (s *sliceSrc) Read(p []byte) (int, error) {
	if len(s.b) == 0 {
		return 0, io.EOF
	}
	n := copy(p, s.b)
	s.b = s.b[n:]
	return n, nil
}

func parseStream(b []byte) *parsedStream {
	p := &parsedStream{}
	if len(b) < 4 || string(b[:4]) != "STEF" {
		p.err = errors.New("bad signature")
		return p
	}
	pos := 4
	sz, n := binary.Uvarint(b[pos:])
	if n <= 0 || sz < 2 || pos+n+int(sz) > len(b) {
		p.err = errors.New("bad fixed header")
		return p
	}
	pos += n
	p.hdr = b[pos : pos+int(sz)]
	pos += int(sz)
	p.zstd = p.hdr[1]&3 == 1
	var dec *zstd.Decoder
	src := &sliceSrc{}
	first := true
	if p.zstd {
		var err error
		dec, err = zstd.NewReader(nil, zstd.WithDecoderConcurrency(1))
		if err != nil {
			p.err = err
			return p
		}
		defer dec.Close()
	}
	for pos < len(b) {
		f := frameInfo{flags: b[pos]}
		q := pos + 1
		us, n := binary.Uvarint(b[q:])
		if n <= 0 {
			p.err = errors.New("truncated frame header")
			return p
		}
		q += n
		f.usize = us
		csize := us
		if p.zstd {
			cs, n := binary.Uvarint(b[q:])
			if n <= 0 {
				p.err = errors.New("truncated frame header")
				return p
			}
			q += n
			csize = cs
		}
		if csize > uint64(len(b)-q) {
			p.err = errors.New("truncated frame content")
			return p
		}
		body := b[q : q+int(csize)]
		if p.zstd {
			src.b = body
			if first || f.flags&byte(pkg.RestartCompression) != 0 {
				first = false
				if err := dec.Reset(src); err != nil {
					p.err = err
					return p
				}
			}
			if f.usize > 1<<26 {
				p.err = errors.New("frame too large")
				return p
			}
			f.content = make([]byte, f.usize)
			if _, err := io.ReadFull(dec, f.content); err != nil {
				p.err = fmt.Errorf("decompress: %w", err)
				return p
			}
		} else {
			f.content = body
		}
		if len(p.frames) > 0 {
			nr, n := binary.Uvarint(f.content)
			if n > 0 {
				f.nrec = int(nr)
			}
		}
		p.frames = append(p.frames, f)
		pos = q + int(csize)
	}
	return p
}

// equivalent re-emits the stream uncompressed.
func (p *parsedStream) equivalent() []byte {
	var o []byte
	o = append(o, "STEF"...)
	o = binary.AppendUvarint(o, uint64(len(p.hdr)))
	h := append([]byte(nil), p.hdr...)
	h[1] &^= 3
	o = append(o, h...)
	for _, f := range p.frames {
		o = append(o, f.flags)
		o = binary.AppendUvarint(o, f.usize)
		o = append(o, f.content...)
	}
	return o
}

func (p *parsedStream) totalRecords() int {
	n := 0
	for _, f := range p.frames {
		n += f.nrec
	}
	return n
}

func errClass(err error) string {
	if err == nil {
		return "nil"
	}
	if err == io.EOF {
		return "eof"
	}
	if errors.Is(err, io.EOF) {
		return "wrapped-eof"
	}
	if errors.Is(err, io.ErrUnexpectedEOF) {
		return "unexpected-eof"
	}
	if errors.Is(err, pkg.ErrTooManyFieldsToDecode) {
		return "too-many-fields"
	}
	var de *pkg.DecodeError
	if errors.As(err, &de) {
		return "decode:" + strings.ReplaceAll(de.Error(), " ", "-")
	}
	return "other:" + strings.ReplaceAll(err.Error(), " ", "-")
}

func hx(b []byte) string { return hex.EncodeToString(b) }

func printStats() {
	keys := make([]string, 0, len(stats))
	for k := range stats {
		keys = append(keys, k)
	}
	sort.Strings(keys)
	for _, k := range keys {
		note("stat %s %d", k, stats[k])
	}
}

// equivalentOf returns the uncompressed-equivalent bytes of a stream for the Lean decoder.
func equivalentOf(stream []byte) ([]byte, *parsedStream, error) {
	ps := parseStream(stream)
	if ps.err != nil {
		return nil, ps, ps.err
	}
	return ps.equivalent(), ps, nil
}

// okLine renders the expected output of "sd decode" for a fully decoded stream.
func okLine(masks []uint64, dumps []string) string {
	var sb strings.Builder
	sb.WriteString("OK dv=0")
	for k, t := range dumps {
		fmt.Fprintf(&sb, "|%x:%s", masks[k], t)
	}
	sb.WriteString("|END")
	return sb.String()
}

func (b *boundPkg) printSchemaLine() {
	if !b.printed {
		b.printed = true
		emit("sd schema "+b.ID+" "+recgen.SchemaEncoding(b.schema), "ok")
		emit("se schema "+b.ID+" "+recgen.SchemaEncoding(b.schema), "ok") // the Lean encoder sub-driver has its own table
		// the record API model: the same schema plus the types the generator stores by pointer
		emit("ap schema "+b.ID+" "+recgen.SchemaEncoding(b.schema)+" "+recgen.RecursiveNames(b.model), "ok")
	}
}

func safeMask(rec reflect.Value, ty *recgen.Type) (m uint64, pan string) {
	defer func() {
		if e := recover(); e != nil {
			pan = fmt.Sprint(e)
		}
	}()
	return recgen.ModifiedMask(rec, ty), ""
}

// emitAPI replays the history on the Lean model of the generated record API (lean/Stef/Api.lean,
// op `ap`; see cmd/h_codec emitAPI): calls, value + top-level marks at every Write, frame contents
// byte for byte. Histories with a call the model does not describe are skipped and counted.
func emitAPI(b *boundPkg, h *history, res *runResult, ps *parsedStream) {
	if h.opts.override != nil || h.root.mutTy != nil {
		stats["api-histories-unsupported"]++
		stats["api-unsupported-older-schema"]++
		return
	}
	var steps []recgen.APIStep
	for _, st := range h.steps {
		if st.kind == 'c' || st.kind == 'W' {
			steps = append(steps, recgen.APIStep{Kind: st.kind, Call: st.call})
		}
	}
	var frames []recgen.APIFrame
	for _, f := range ps.frames[1:] {
		frames = append(frames, recgen.APIFrame{Flags: f.flags, NRec: f.nrec, Content: f.content})
	}
	lines, unsupported, ok := recgen.APIOps(b.ID, h.root.name, h.root.ty, h.gen, steps, res.wmasks, res.truths, frames,
		func(stream []byte) string {
			eq, _, err := equivalentOf(stream)
			if err != nil {
				return ""
			}
			return hx(eq)
		})
	if !ok {
		stats["api-histories-unsupported"]++
		for k, v := range unsupported {
			stats["api-unsupported-"+k] += v
		}
		return
	}
	stats["api-histories-supported"]++
	stats["api-ops"] += len(lines)
	for _, l := range lines {
		emit(l[0], l[1])
	}
}
