// Package hgenlib is the shared logic of the per-schema DRIVER binaries of the h_gen vertical
// (properties C10 and C04). A driver is a tiny generated main.go (see cmd/h_gen) living in a
// temporary Go module next to one or two stefc-generated packages; it registers the generated
// constructors of every root struct and calls Main. Everything else - history generation with
// internal/recgen, writing, reading back, comparing, shrinking, op lines for the Lean
// specification decoder - is here and works through reflection on the PUBLIC API only.
//
// The package is deliberately NOT under internal/: the driver's module is outside the
// verif/harness tree. It may itself import verif/harness/internal/... (it is inside the tree).
package hgenlib

import (
	"fmt"
	"io"
	"reflect"

	"github.com/splunk/stef/go/pkg"
	"github.com/splunk/stef/go/pkg/schema"

	"verif/harness/internal/recgen"
)

// Root registers the generated constructors of one root struct.
type Root struct {
	Name       string
	NewWriter  any // func(pkg.ChunkWriter, pkg.WriterOptions) (*<Root>Writer, error)
	NewReader  any // func(io.Reader) (*<Root>Reader, error)
	WireSchema func() (schema.WireSchema, error)
}

// Pkg is one stefc-generated package with the schema text it was generated from.
type Pkg struct {
	ID         string // schema id used on "sd schema"/"sd decode" op lines
	SchemaText string
	Roots      []Root
}

type recWriter interface {
	Write() error
	Flush() error
	RecordCount() uint64
	Rec() reflect.Value // pointer to the record
}

type recReader interface {
	Read(pkg.ReadOptions) error
	RecordCount() uint64
	Rec() reflect.Value
	CloneRec() reflect.Value
}

func toErr(v reflect.Value) error {
	if v.IsNil() {
		return nil
	}
	return v.Interface().(error)
}

type rW struct{ v reflect.Value }

func (w rW) Write() error        { return toErr(w.v.MethodByName("Write").Call(nil)[0]) }
func (w rW) Flush() error        { return toErr(w.v.MethodByName("Flush").Call(nil)[0]) }
func (w rW) RecordCount() uint64 { return w.v.MethodByName("RecordCount").Call(nil)[0].Uint() }
func (w rW) Rec() reflect.Value  { return w.v.Elem().FieldByName("Record").Addr() }

type rR struct{ v reflect.Value }

func (r rR) Read(o pkg.ReadOptions) error {
	return toErr(r.v.MethodByName("Read").Call([]reflect.Value{reflect.ValueOf(o)})[0])
}
func (r rR) RecordCount() uint64 { return r.v.MethodByName("RecordCount").Call(nil)[0].Uint() }
func (r rR) Rec() reflect.Value  { return r.v.Elem().FieldByName("Record").Addr() }

// CloneRec calls Record.Clone(&Allocators{}); the generated Clone returns the struct by pointer
// (current templates) or by value (older generated packages): both are handled.
func (r rR) CloneRec() reflect.Value {
	m := r.Rec().MethodByName("Clone")
	if !m.IsValid() {
		return reflect.Value{}
	}
	var args []reflect.Value
	if m.Type().NumIn() == 1 {
		args = append(args, reflect.New(m.Type().In(0).Elem()))
	}
	c := m.Call(args)[0]
	if c.Kind() == reflect.Struct {
		p := reflect.New(c.Type())
		p.Elem().Set(c)
		return p
	}
	return c
}

// rootSpec is one root of one generated package, bound to its compiled schema.
type rootSpec struct {
	pkg        *boundPkg
	name       string
	ty         *recgen.Type
	mutTy      *recgen.Type // type graph directing the mutator (nil: ty)
	reg        Root
	initDump   string
	lastStream []byte
	lastN      int
}

type boundPkg struct {
	Pkg
	model   *recgen.Model
	roots   []*rootSpec
	schema  *schema.Schema
	printed bool
}

func bind(p Pkg) (*boundPkg, error) {
	s, err := recgen.ParseSchema([]byte(p.SchemaText), p.ID+".stef")
	if err != nil {
		return nil, fmt.Errorf("schema %s does not parse: %w", p.ID, err)
	}
	m, err := recgen.Compile(s)
	if err != nil {
		return nil, fmt.Errorf("schema %s does not compile: %w", p.ID, err)
	}
	b := &boundPkg{Pkg: p, model: m, schema: s}
	for _, r := range p.Roots {
		ty := m.Root(r.Name)
		if ty == nil {
			return nil, fmt.Errorf("schema %s has no struct %s", p.ID, r.Name)
		}
		rs := &rootSpec{pkg: b, name: r.Name, ty: ty, reg: r}
		b.roots = append(b.roots, rs)
	}
	return b, nil
}

func (rs *rootSpec) mutType() *recgen.Type {
	if rs.mutTy != nil {
		return rs.mutTy
	}
	return rs.ty
}

func (b *boundPkg) root(name string) *rootSpec {
	for _, r := range b.roots {
		if r.name == name {
			return r
		}
	}
	return nil
}

func (rs *rootSpec) newWriter(cw pkg.ChunkWriter, o pkg.WriterOptions) (recWriter, error) {
	out := reflect.ValueOf(rs.reg.NewWriter).Call([]reflect.Value{reflect.ValueOf(&cw).Elem(), reflect.ValueOf(o)})
	if err := toErr(out[1]); err != nil {
		return nil, err
	}
	return rW{out[0]}, nil
}

func (rs *rootSpec) newReader(src io.Reader) (recReader, error) {
	out := reflect.ValueOf(rs.reg.NewReader).Call([]reflect.Value{reflect.ValueOf(&src).Elem()})
	if err := toErr(out[1]); err != nil {
		return nil, err
	}
	return rR{out[0]}, nil
}

// freshDump is the dump of a freshly initialised record (obtained from a writer over a sink).
func (rs *rootSpec) freshDump() string {
	if rs.initDump == "" {
		w, err := rs.newWriter(&chunkLog{}, pkg.WriterOptions{})
		if err == nil {
			rs.initDump = recgen.Dump(w.Rec(), rs.ty)
		}
	}
	return rs.initDump
}

// openReader is the recgen callback that yields a reader's record after nread reads.
func (rs *rootSpec) openReader(stream []byte, nread int) (v reflect.Value) {
	defer func() {
		if e := recover(); e != nil {
			v = reflect.Value{}
		}
	}()
	rd, err := rs.newReader(newByteReader(stream))
	if err != nil {
		return reflect.Value{}
	}
	for i := 0; i < nread; i++ {
		if err := rd.Read(pkg.ReadOptions{}); err != nil {
			break
		}
	}
	return rd.Rec()
}
