package hgenlib

import (
	"fmt"
	"os"
	"runtime/debug"
	"strconv"
)

// opBudget bounds the volume of op lines one driver prints (bytes); beyond it histories get small.
var opBudget = 6 << 20

// Main is called by the generated driver: argv[1] = "c10" (pkgs[0]) or "c04" (pkgs[0] = A,
// pkgs[1] = B), argv[2] = number of histories (c10) / scale factor (c04), argv[3] = op-line budget.
func Main(pkgs ...Pkg) {
	defer out.Flush()
	mode, n := "", 0
	if len(os.Args) > 1 {
		mode = os.Args[1]
	}
	if len(os.Args) > 2 {
		n, _ = strconv.Atoi(os.Args[2])
	}
	if len(os.Args) > 3 {
		if b, err := strconv.Atoi(os.Args[3]); err == nil && b > 0 {
			opBudget = b
		}
	}
	// a generated Init() that recurses without bound must fail fast, not after 1 GB of stack
	debug.SetMaxStack(64 << 20)
	var bound []*boundPkg
	for _, p := range pkgs {
		b, err := bind(p)
		if err != nil {
			fmt.Fprintln(os.Stderr, "hgenlib:", err)
			out.Flush()
			os.Exit(2)
		}
		bound = append(bound, b)
	}
	switch {
	case mode == "c10" && len(bound) >= 1:
		if n <= 0 {
			n = 40
		}
		RunC10(bound[0], n)
	case mode == "c04" && len(bound) >= 2:
		if n <= 0 {
			n = 1
		}
		RunC04(bound[0], bound[1], n)
	default:
		fmt.Fprintln(os.Stderr, "usage: driver c10 <histories> | c04 <scale>")
		out.Flush()
		os.Exit(2)
	}
	printStats()
}
