package hgenlib

import (
	"fmt"
	"strings"

	"verif/harness/internal/recgen"
)

// Structural maps between dumps of two schema versions A ≼ B (B = A plus fields appended to
// structs/oneofs, new types only under appended fields). Types correspond by definition name.

func renderNode(sb *strings.Builder, n *recgen.Node) {
	t := n.T
	if t == nil || n.Txt == "_" {
		sb.WriteString(n.Txt)
		return
	}
	switch t.Kind {
	case recgen.KStruct:
		if n.Txt == "nil" {
			sb.WriteString("nil")
			return
		}
		sb.WriteByte('{')
		for i, k := range n.Kids {
			if i > 0 {
				sb.WriteByte(',')
			}
			renderNode(sb, k)
		}
		sb.WriteByte('}')
	case recgen.KOneof:
		if len(n.Kids) == 0 {
			sb.WriteString("<0>")
			return
		}
		sb.WriteString(n.Txt[:len(n.Txt)-1]) // "<k"
		sb.WriteByte(':')
		renderNode(sb, n.Kids[0])
		sb.WriteByte('>')
	case recgen.KArray:
		sb.WriteByte('[')
		for i, k := range n.Kids {
			if i > 0 {
				sb.WriteByte(',')
			}
			renderNode(sb, k)
		}
		sb.WriteByte(']')
	case recgen.KMultimap:
		sb.WriteByte('(')
		for i := 0; i+1 < len(n.Kids); i += 2 {
			if i > 0 {
				sb.WriteByte(',')
			}
			renderNode(sb, n.Kids[i])
			sb.WriteByte('=')
			renderNode(sb, n.Kids[i+1])
		}
		sb.WriteByte(')')
	default:
		sb.WriteString(n.Txt)
	}
}

func render(n *recgen.Node) string {
	var sb strings.Builder
	renderNode(&sb, n)
	return sb.String()
}

// defaultNode is the value a freshly initialised record holds at a position of type t:
// primitives zero/empty, arrays and multimaps empty, oneofs none, optional fields absent,
// structs (dictionary structs too) with all fields at their defaults.
func defaultNode(t *recgen.Type, depth int) *recgen.Node {
	n := &recgen.Node{T: t}
	switch t.Kind {
	case recgen.KBool:
		n.Txt = "F"
	case recgen.KInt64, recgen.KUint64:
		n.Txt = "x0"
	case recgen.KFloat64:
		n.Txt = "f0"
	case recgen.KString, recgen.KBytes:
		n.Txt = "s"
	case recgen.KOneof:
		n.Txt = "<0>"
	case recgen.KStruct:
		if depth > 40 {
			n.Txt = "nil"
			return n
		}
		for _, f := range t.Def.Fields {
			if f.Optional {
				n.Kids = append(n.Kids, &recgen.Node{Txt: "_", T: f.Type})
			} else {
				n.Kids = append(n.Kids, defaultNode(f.Type, depth+1))
			}
			n.Lbl = append(n.Lbl, f.Name)
		}
	}
	return n
}

// extendNode maps a value of A's type ta to B's type tb: A fields kept, B-only fields default.
func extendNode(n *recgen.Node, ta, tb *recgen.Type) *recgen.Node {
	o := &recgen.Node{T: tb, Txt: n.Txt}
	if n.Txt == "_" || n.Txt == "nil" {
		return o
	}
	switch ta.Kind {
	case recgen.KStruct:
		for i, f := range tb.Def.Fields {
			if i < len(ta.Def.Fields) {
				o.Kids = append(o.Kids, extendNode(n.Kids[i], ta.Def.Fields[i].Type, f.Type))
			} else if f.Optional {
				o.Kids = append(o.Kids, &recgen.Node{Txt: "_", T: f.Type})
			} else {
				o.Kids = append(o.Kids, defaultNode(f.Type, 0))
			}
			o.Lbl = append(o.Lbl, f.Name)
		}
	case recgen.KOneof:
		if len(n.Kids) == 1 {
			var k int
			fmt.Sscanf(n.Txt, "<%d>", &k)
			o.Kids = []*recgen.Node{extendNode(n.Kids[0], ta.Def.Fields[k-1].Type, tb.Def.Fields[k-1].Type)}
			o.Lbl = n.Lbl
		}
	case recgen.KArray:
		for _, k := range n.Kids {
			o.Kids = append(o.Kids, extendNode(k, ta.Elem, tb.Elem))
		}
		o.Lbl = n.Lbl
	case recgen.KMultimap:
		for i, k := range n.Kids {
			if i%2 == 0 {
				o.Kids = append(o.Kids, extendNode(k, ta.Def.Key, tb.Def.Key))
			} else {
				o.Kids = append(o.Kids, extendNode(k, ta.Def.Val, tb.Def.Val))
			}
		}
		o.Lbl = n.Lbl
	}
	return o
}

// restrictNode maps a value of B's type tb to A's type ta: B-only fields dropped, oneof choices
// unknown to A become none.
func restrictNode(n *recgen.Node, tb, ta *recgen.Type) *recgen.Node {
	o := &recgen.Node{T: ta, Txt: n.Txt}
	if n.Txt == "_" || n.Txt == "nil" {
		return o
	}
	switch tb.Kind {
	case recgen.KStruct:
		for i, f := range ta.Def.Fields {
			o.Kids = append(o.Kids, restrictNode(n.Kids[i], tb.Def.Fields[i].Type, f.Type))
			o.Lbl = append(o.Lbl, f.Name)
		}
	case recgen.KOneof:
		if len(n.Kids) == 1 {
			var k int
			fmt.Sscanf(n.Txt, "<%d>", &k)
			if k > len(ta.Def.Fields) {
				o.Txt = "<0>"
			} else {
				o.Kids = []*recgen.Node{restrictNode(n.Kids[0], tb.Def.Fields[k-1].Type, ta.Def.Fields[k-1].Type)}
				o.Lbl = n.Lbl
			}
		}
	case recgen.KArray:
		for _, k := range n.Kids {
			o.Kids = append(o.Kids, restrictNode(k, tb.Elem, ta.Elem))
		}
		o.Lbl = n.Lbl
	case recgen.KMultimap:
		for i, k := range n.Kids {
			if i%2 == 0 {
				o.Kids = append(o.Kids, restrictNode(k, tb.Def.Key, ta.Def.Key))
			} else {
				o.Kids = append(o.Kids, restrictNode(k, tb.Def.Val, ta.Def.Val))
			}
		}
		o.Lbl = n.Lbl
	}
	return o
}

// extendDump: expected dump in schema B of a record written in schema A.
func extendDump(a string, ta, tb *recgen.Type) (string, error) {
	n, err := recgen.ParseDump(a, ta)
	if err != nil {
		return "", err
	}
	return render(extendNode(n, ta, tb)), nil
}

// restrictDump: expected dump in schema A of a record written by B downgraded to A.
func restrictDump(b string, tb, ta *recgen.Type) (string, error) {
	n, err := recgen.ParseDump(b, tb)
	if err != nil {
		return "", err
	}
	return render(restrictNode(n, tb, ta)), nil
}

// overflowPaths lists the positions of a B record (dump b) that trigger the known defect
// downgrade-presence-overflow when the record is written downgraded to A: a struct that A also
// has (with fewer fields), at a position the downgraded encoder reaches (every ancestor is an
// A-known field / alternative), holding a PRESENT optional field whose index is beyond A's
// field count. Only such values make WriteBits(optionalFieldsPresent, optionalFieldCount)
// receive a value wider than its bit count.
func overflowPaths(b string, tb, ta *recgen.Type) []string {
	n, err := recgen.ParseDump(b, tb)
	if err != nil {
		return nil
	}
	var out []string
	var walk func(n *recgen.Node, tb, ta *recgen.Type, path string)
	walk = func(n *recgen.Node, tb, ta *recgen.Type, path string) {
		if n.Txt == "_" || n.Txt == "nil" {
			return
		}
		switch tb.Kind {
		case recgen.KStruct:
			for i, f := range tb.Def.Fields {
				if i < len(ta.Def.Fields) {
					walk(n.Kids[i], f.Type, ta.Def.Fields[i].Type, path+"/"+f.Name)
				} else if f.Optional && n.Kids[i].Txt != "_" {
					out = append(out, path+"/"+f.Name)
				}
			}
		case recgen.KOneof:
			if len(n.Kids) == 1 {
				var k int
				fmt.Sscanf(n.Txt, "<%d>", &k)
				if k <= len(ta.Def.Fields) {
					walk(n.Kids[0], tb.Def.Fields[k-1].Type, ta.Def.Fields[k-1].Type, path+"/"+tb.Def.Fields[k-1].Name)
				}
			}
		case recgen.KArray:
			for i, k := range n.Kids {
				walk(k, tb.Elem, ta.Elem, fmt.Sprintf("%s/%d", path, i))
			}
		case recgen.KMultimap:
			for i, k := range n.Kids {
				if i%2 == 0 {
					walk(k, tb.Def.Key, ta.Def.Key, fmt.Sprintf("%s/%d.key", path, i/2))
				} else {
					walk(k, tb.Def.Val, ta.Def.Val, fmt.Sprintf("%s/%d.val", path, i/2))
				}
			}
		}
	}
	walk(n, tb, ta, "")
	return out
}

// bOnlyOptionalSetters returns the setter names (Set<Field>) of optional fields that B appended
// to structs A also has.
func bOnlyOptionalSetters(ma, mb *recgen.Model) map[string]bool {
	out := map[string]bool{}
	for name, db := range mb.Defs {
		da := ma.Defs[name]
		if da == nil || db.Kind != recgen.KStruct {
			continue
		}
		for i := len(da.Fields); i < len(db.Fields); i++ {
			if db.Fields[i].Optional {
				out["Set"+recgen.Cap(db.Fields[i].Name)] = true
			}
		}
	}
	return out
}

// cleanView returns a copy of B's model whose A-known structs lack the optional fields appended
// by B: a mutator directed by it never makes such a field present.
func cleanView(ma *recgen.Model, textB string) (*recgen.Model, error) {
	s, err := recgen.ParseSchema([]byte(textB), "b.stef")
	if err != nil {
		return nil, err
	}
	v, err := recgen.Compile(s)
	if err != nil {
		return nil, err
	}
	for name, d := range v.Defs {
		da := ma.Defs[name]
		if da == nil || d.Kind != recgen.KStruct {
			continue
		}
		kept := d.Fields[:len(da.Fields):len(da.Fields)]
		for i := len(da.Fields); i < len(d.Fields); i++ {
			if !d.Fields[i].Optional {
				kept = append(kept, d.Fields[i])
			}
		}
		d.Fields = kept
	}
	return v, nil
}
