module verif/harness

go 1.25.0

require (
	github.com/klauspost/compress v1.18.4
	github.com/splunk/stef/go/grpc v0.1.1
	github.com/splunk/stef/go/otel v0.1.1
	github.com/splunk/stef/go/pdata v0.0.0
	github.com/splunk/stef/go/pkg v0.1.1
	go.opentelemetry.io/collector/pdata v1.52.0
	google.golang.org/grpc v1.79.1
)

require (
	github.com/hashicorp/go-version v1.8.0 // indirect
	github.com/json-iterator/go v1.1.12 // indirect
	github.com/modern-go/concurrent v0.0.0-20180306012644-bacd9c7ef1dd // indirect
	github.com/modern-go/reflect2 v1.0.3-0.20250322232337-35a7c28c31ee // indirect
	go.opentelemetry.io/collector/featuregate v1.52.0 // indirect
	go.uber.org/multierr v1.11.0 // indirect
	golang.org/x/net v0.48.0 // indirect
	golang.org/x/sys v0.39.0 // indirect
	golang.org/x/text v0.32.0 // indirect
	google.golang.org/genproto/googleapis/rpc v0.0.0-20251222181119-0a764e51fe1b // indirect
	google.golang.org/protobuf v1.36.11 // indirect
	modernc.org/b/v2 v2.1.10 // indirect
)

replace (
	github.com/splunk/stef/go/grpc => /repo/go/grpc
	github.com/splunk/stef/go/otel => /repo/go/otel
	github.com/splunk/stef/go/pdata => /repo/go/pdata
	github.com/splunk/stef/go/pkg => /repo/go/pkg
)
