module verif/harness

go 1.25.0

require (
	github.com/splunk/stef/go/grpc v0.1.1
	github.com/splunk/stef/go/otel v0.1.1
	github.com/splunk/stef/go/pdata v0.0.0
	github.com/splunk/stef/go/pkg v0.1.1
)

require (
	github.com/klauspost/compress v1.18.4 // indirect
	modernc.org/b/v2 v2.1.10 // indirect
)

replace (
	github.com/splunk/stef/go/grpc => /repo/go/grpc
	github.com/splunk/stef/go/otel => /repo/go/otel
	github.com/splunk/stef/go/pdata => /repo/go/pdata
	github.com/splunk/stef/go/pkg => /repo/go/pkg
)
