#!/usr/bin/env python3
"""Shared machinery of /verif/bin/check.

Pipeline of one check (DESIGN.md section 3.2):
  1. extract   regenerate lean/Stef/Gen from /repo (Go program in /verif/extract)
  2. prove     lake build of the property module(s) + the model driver
  3. audit     axioms of every theorem of the property module(s)
  4. harness   go build -tags verif from /repo's working tree, run with VERIF_SEED
  5. correspond  op lines -> stefmodel, outputs diffed against the implementation's
  6. decide    PROP-FAIL lines (property evaluated on the implementation) are matched against
               known_findings.txt; anything else is a VIOLATION
  7. evidence  /verif/evidence/<id>.json
"""
import fcntl
import hashlib
import json
import os
import re
import shutil
import subprocess
import sys
import tempfile
import time

VERIF = os.path.dirname(os.path.dirname(os.path.abspath(__file__)))
REPO = os.environ.get("VERIF_REPO", "/repo")
LEAN = os.path.join(VERIF, "lean")
BUILD = os.path.join(VERIF, "build")
ALLOWED_AXIOMS = {"propext", "Classical.choice", "Quot.sound"}


def goenv():
    e = dict(os.environ)
    e["GOFLAGS"] = "-mod=mod"
    e["GOPROXY"] = "off"
    e.pop("GOTOOLCHAIN", None)  # the repo needs the cached go1.25 toolchain switch
    e.pop("GOSUMDB", None)
    e.setdefault("GOMAXPROCS", "16")
    return e


def run(cmd, cwd=None, env=None, timeout=None, stdin=None):
    p = subprocess.run(cmd, cwd=cwd, env=env, timeout=timeout, input=stdin,
                       stdout=subprocess.PIPE, stderr=subprocess.PIPE)
    return p.returncode, p.stdout.decode("utf-8", "replace"), p.stderr.decode("utf-8", "replace")


class Lock:
    def __init__(self, name):
        os.makedirs(BUILD, exist_ok=True)
        self.path = os.path.join(BUILD, name + ".lock")

    def __enter__(self):
        self.f = open(self.path, "w")
        fcntl.flock(self.f, fcntl.LOCK_EX)
        return self

    def __exit__(self, *a):
        fcntl.flock(self.f, fcntl.LOCK_UN)
        self.f.close()


class Result:
    """Accumulates what a check run found."""

    def __init__(self, prop, tier, seed):
        self.prop = prop
        self.tier = tier
        self.seed = seed
        self.t0 = time.time()
        self.violations = []      # dicts: kind, name, detail, witness
        self.known = []           # (sig, text)
        self.notes = []
        self.stats = {}
        self.samples = []
        self.theorems = []        # audit records
        self.checker_cmds = []
        self.evaluations = 0
        self.nontrivial = set()
        self.corr_lines = 0
        self.corr_mismatch = 0
        self.extra = {}

    def violation(self, kind, name, detail, witness=None):
        self.violations.append({"kind": kind, "name": name, "detail": detail, "witness": witness})


# ---------------------------------------------------------------- step 1: extract

def step_extract(res, needs=("Tables", "Consts", "CallSites")):
    """Regenerate lean/Stef/Gen. Each generator is independent: a generator that does not
    understand the current source fails loudly, and only the properties whose models need
    its output (cfg["needs_gen"]) lose their tie."""
    with Lock("extract"):
        exe = os.path.join(BUILD, "extract")
        rc, out, err = run(["go", "build", "-o", exe, "."], cwd=os.path.join(VERIF, "extract"), env=goenv())
        if rc != 0:
            res.violation("tie-broken", "extractor-build", err[-2000:])
            return False
        tmp = tempfile.mkdtemp(prefix="gen-", dir=BUILD)
        try:
            rc, out, err = run([exe, REPO, tmp])
            failed = re.findall(r"extract: FAILED (\S+): (.*)", err)
            if rc != 0 and not failed:
                res.violation("tie-broken", "extractor", (out + err)[-3000:])
                return False
            gen = os.path.join(LEAN, "Stef", "Gen")
            os.makedirs(gen, exist_ok=True)
            new = sorted(os.listdir(tmp))
            failed_names = set(n for n, _ in failed)
            for f in os.listdir(gen):
                # a failed generator's previous output is kept so that the shared driver and the
                # other properties still build; the properties that need it are flagged below.
                if f not in new and f[:-5] not in failed_names:
                    os.remove(os.path.join(gen, f))
            for f in new:
                a = open(os.path.join(tmp, f), "rb").read()
                p = os.path.join(gen, f)
                if not os.path.exists(p) or open(p, "rb").read() != a:
                    open(p, "wb").write(a)
            res.extra["gen_files"] = new
            ok = True
            for name, msg in failed:
                res.extra.setdefault("gen_failed", []).append(name + ": " + msg)
                if name in needs:
                    res.violation("tie-broken", "extractor:" + name, msg)
                    ok = False
            return ok
        finally:
            shutil.rmtree(tmp, ignore_errors=True)
    return True


# ---------------------------------------------------------------- step 2+3: prove, audit

def step_prove(res, modules, thorough=False):
    ok = True
    with Lock("lake"):
        cmd = ["lake", "build"] + modules + ["stefmodel"]
        res.checker_cmds.append("cd /verif/lean && " + " ".join(cmd))
        rc, out, err = run(cmd, cwd=LEAN, timeout=3600)
        if rc != 0:
            txt = out + err
            # name the first failing declaration / file:line
            m = re.search(r"error: (\S+\.lean):(\d+):(\d+): (.*)", txt)
            where = "%s:%s" % (m.group(1), m.group(2)) if m else "unknown"
            thm = None
            if m:
                thm = enclosing_decl(os.path.join(LEAN, m.group(1)), int(m.group(2)))
            res.violation("broken-proof", thm or where,
                          "lake build failed at %s\n%s" % (where, txt[-3000:]))
            ok = False
        if ok:
            cmd = ["lake", "env", "lean", "--run", "Audit.lean"] + modules
            res.checker_cmds.append("cd /verif/lean && " + " ".join(cmd))
            rc, out, err = run(cmd, cwd=LEAN, timeout=1800)
            if rc != 0:
                res.violation("broken-proof", "audit", (out + err)[-2000:])
                ok = False
            for line in out.splitlines():
                line = line.strip()
                if not line.startswith("{"):
                    continue
                rec = json.loads(line)
                res.theorems.append(rec)
                badax = [a for a in rec["axioms"] if a not in ALLOWED_AXIOMS]
                if badax:
                    res.violation("broken-proof", rec["theorem"], "disallowed axioms: %s" % badax)
                    ok = False
            if ok and not res.theorems:
                res.violation("broken-proof", "audit", "no theorems found in %s" % modules)
                ok = False
        if ok and thorough:
            for m in modules:
                cmd = ["lake", "env", "leanchecker", m]
                res.checker_cmds.append("cd /verif/lean && " + " ".join(cmd))
                rc, out, err = run(cmd, cwd=LEAN, timeout=3600)
                if rc != 0:
                    res.violation("broken-proof", "leanchecker:" + m, (out + err)[-2000:])
                    ok = False
            bad = grep_sources()
            if bad:
                res.violation("broken-proof", "source-grep", "\n".join(bad[:20]))
                ok = False
    return ok


def enclosing_decl(path, line):
    try:
        lines = open(path).read().splitlines()
    except OSError:
        return None
    for i in range(min(line, len(lines)) - 1, -1, -1):
        m = re.match(r"\s*(?:private\s+|protected\s+)?(theorem|lemma|def|example|instance)\s+(\S+)?", lines[i])
        if m:
            mod = os.path.relpath(path, LEAN)[:-5].replace("/", ".")
            return "%s:%s" % (mod, m.group(2) or "example")
    return None


def grep_sources():
    bad = []
    pat = re.compile(r"\bsorry\b|\badmit\b|^\s*axiom\s|native_decide|bv_decide|implemented_by|\bunsafe\s|maxHeartbeats\s+0")
    for root, _, files in os.walk(os.path.join(LEAN, "Stef")):
        for f in files:
            if not f.endswith(".lean"):
                continue
            p = os.path.join(root, f)
            incomment = False
            for n, l in enumerate(open(p), 1):
                s = l
                if "/-" in s and "-/" not in s:
                    incomment = True
                    continue
                if "-/" in s:
                    incomment = False
                    continue
                if incomment:
                    continue
                s = s.split("--")[0]
                if pat.search(s):
                    bad.append("%s:%d: %s" % (os.path.relpath(p, VERIF), n, l.strip()))
    return bad


# ---------------------------------------------------------------- step 4: harness

def prebuild_otelcol_mod(res, module_dir):
    """harness_otelcol/go.mod + go.sum are derived from <repo>/otelcol/go.mod (lib/mk_otelcol_mod.py)."""
    import mk_otelcol_mod
    try:
        mk_otelcol_mod.derive(REPO, os.path.join(VERIF, module_dir))
    except (SystemExit, OSError) as e:
        res.violation("tie-broken", "harness-prebuild:" + module_dir, str(e))
        return False
    return True


PREBUILD = {"otelcol_mod": prebuild_otelcol_mod}


def build_harness(res, name, module_dir="harness", tags="verif", prebuild=None):
    exe = os.path.join(BUILD, name)
    with Lock("go-" + module_dir.replace("/", "_")):
        if prebuild and not PREBUILD[prebuild](res, module_dir):
            return None
        cmd = ["go", "build", "-tags", tags, "-o", exe]
        mdir = os.path.join(VERIF, module_dir)
        if module_dir == "harness" and os.path.abspath(REPO) != "/repo":
            # harness/go.mod replaces the repository's modules by /repo/...: for another tree
            # (VERIF_REPO: scratch worktrees, snapshots) build with a rewritten copy of go.mod
            alt = os.path.join(BUILD, "harness-altrepo.mod")
            os.makedirs(BUILD, exist_ok=True)
            data = open(os.path.join(mdir, "go.mod")).read().replace("=> /repo/", "=> %s/" % os.path.abspath(REPO))
            if not os.path.exists(alt) or open(alt).read() != data:
                open(alt, "w").write(data)
            shutil.copyfile(os.path.join(mdir, "go.sum"), alt[:-4] + ".sum")
            cmd.append("-modfile=" + alt)
        rc, out, err = run(cmd + ["./cmd/" + name], cwd=mdir, env=goenv(), timeout=1800)
    if rc != 0:
        res.violation("tie-broken", "harness-build:" + name, (out + err)[-3000:])
        return None
    return exe


def run_harness(res, exe, args, env_extra=None, timeout=3600):
    env = goenv()
    env["VERIF_SEED"] = str(res.seed)
    env["VERIF_TIER"] = res.tier
    env.setdefault("GOMEMLIMIT", "8GiB")
    if env_extra:
        env.update(env_extra)
    try:
        rc, out, err = run([exe] + args, env=env, timeout=timeout)
    except subprocess.TimeoutExpired:
        res.violation("impl-violation", "harness-timeout:" + os.path.basename(exe),
                      "harness did not finish in %ds" % timeout)
        return None
    if rc != 0:
        key = ""
        for line in err.splitlines():
            if line.startswith(("panic:", "fatal error:", "runtime: goroutine stack exceeds")):
                key = " (" + line.strip()[:160] + ")"
                break
        res.violation("impl-violation", "harness-crash:" + os.path.basename(exe),
                      "the harness process died with exit %d%s while it ran the implementation; last case: %s\n%s" % (
                          rc, key, next((l for l in reversed(out.splitlines()) if l.startswith("# case")), "?"), err[-3000:]),
                      witness={"stderr": err[-3000:], "last_lines": out.splitlines()[-20:]})
        # still analyse what was printed
    return out


def model_outputs(ops):
    exe = os.path.join(LEAN, ".lake", "build", "bin", "stefmodel")
    data = ("\n".join(ops) + "\n").encode()
    p = subprocess.run([exe], input=data, stdout=subprocess.PIPE, stderr=subprocess.PIPE, timeout=3600)
    if p.returncode != 0:
        return None, p.stderr.decode("utf-8", "replace")
    return p.stdout.decode("utf-8", "replace").splitlines(), ""


def analyse(res, name, out, findings, model=True, oracle_prefixes=(), as_props=()):
    """Split harness output, run the model on the op lines, diff, collect PROP-FAILs."""
    ops, impl, case_of = [], [], []
    case = None
    case_start = {}
    propfails = []
    for line in out.splitlines():
        if line.startswith("# "):
            body = line[2:]
            if body.startswith("stat "):
                _, k, v = body.split(" ", 2)
                try:
                    res.stats[k] = res.stats.get(k, 0) + int(v)
                except ValueError:
                    res.stats[k] = v
            elif body.startswith("case "):
                case = body[5:].strip()
                case_start[case] = len(ops)
                res.evaluations += 1
            elif body.startswith("nontrivial "):
                res.nontrivial.add(body[11:].strip())
            elif body.startswith("sample "):
                if len(res.samples) < 12:
                    res.samples.append(body[7:])
            elif body.startswith("note "):
                res.notes.append(body[5:])
            continue
        if line.startswith("PROP-FAIL "):
            propfails.append((line[10:], case))
            continue
        if "\t" in line:
            op, r = line.split("\t", 1)
            ops.append(op)
            impl.append(r)
            case_of.append(case)
    # correspondence
    if model and ops:
        mo, err = model_outputs(ops)
        res.corr_lines += len(ops)
        if mo is None:
            res.violation("broken-correspondence", name + ":model-crash", err[-2000:])
        else:
            if len(mo) != len(impl):
                res.violation("broken-correspondence", name + ":length",
                              "model printed %d lines for %d ops" % (len(mo), len(impl)))
            n = min(len(mo), len(impl))
            first = None
            for i in range(n):
                if mo[i] != impl[i]:
                    res.corr_mismatch += 1
                    hit = [pfx for pfx in oracle_prefixes if ops[i].startswith(pfx.split("=>")[0])]
                    if hit and "=>" in hit[0]:
                        # an op whose Lean model is PROVED equal to the specification (encoders: C20
                        # gorilla_is_spec, uvc_is_spec_table; the bit reader: bitsreader_refines_spec -
                        # what is read is the bits of the buffer): the op with the implementation's
                        # answer is a concrete input on which the implementation is not bit-exact.
                        sig = hit[0].split("=>")[1]
                        res.violation("impl-violation", sig,
                                      "case %s: op %s: implementation=%s | specification (model)=%s" %
                                      (case_of[i], ops[i][:200], impl[i][:200], mo[i][:200]),
                                      {"signature": sig, "case": case_of[i], "op": ops[i][:200000],
                                       "implementation": impl[i][:20000], "model": mo[i][:20000],
                                       # the operations of the case up to the differing one (the values
                                       # that were encoded): feed them to stefmodel / the harness to replay
                                       "ops": ops[max(case_start.get(case_of[i], i), i - 400):i + 1]})
                        continue
                    if hit:
                        # the model's answer IS the property oracle here (e.g. the independent
                        # specification decoder run on bytes the real writer produced): the op
                        # line itself is a concrete failing input.
                        sig = "spec-decoder-mismatch"
                        if mo[i].startswith("ERR"):
                            sig = "spec-decoder-rejects:" + mo[i].split(" ")[1].split("|")[0]
                        elif mo[i].startswith("OK dv=") and not mo[i].startswith("OK dv=0|"):
                            sig = "dict-ref-missing"
                        kf = findings.match(res.prop, sig)
                        if kf is not None:
                            if sig not in [s for s, _ in res.known]:
                                res.known.append((sig, kf))
                        else:
                            res.violation("impl-violation", sig,
                                          "case %s: independent decoder disagrees with the records written: model=%s | expected=%s" %
                                          (case_of[i], mo[i][:300], impl[i][:300]),
                                          {"signature": sig, "case": case_of[i], "op": ops[i][:200000],
                                           "expected": impl[i][:20000], "model": mo[i][:20000]})
                        continue
                    if first is None:
                        first = i
            if first is not None:
                c = case_of[first]
                start = case_start.get(c, max(0, first - 40))
                start = max(start, first - 400)
                witness = {
                    "correspondence": name, "case": c, "first_diff_index": first - start,
                    "op": ops[first], "impl": impl[first], "model": mo[first],
                    "ops": ops[start:first + 1],
                    "impl_outputs": impl[start:first + 1],
                    "model_outputs": mo[start:first + 1],
                    "mismatching_lines": res.corr_mismatch,
                }
                res.violation("broken-correspondence", name, "first differing op: %s | impl=%s | model=%s" %
                              (ops[first][:200], impl[first][:200], mo[first][:200]), witness)
    # property failures observed on the implementation
    seen_known = set()
    for text, c in propfails:
        parts = text.split(" ", 2)
        prop = parts[0]
        sig = parts[1] if len(parts) > 1 else ""
        desc = parts[2] if len(parts) > 2 else ""
        if prop != res.prop and prop not in as_props:
            # a harness may serve several properties; only this property's failures count here
            # (as_props: failures the harness files under another property that this property's
            # statement covers as well, e.g. the limiter checks of C08 under C14's "the advertised
            # dictionary limit is in force")
            continue
        kf = findings.match(prop, sig)
        if kf is not None:
            if sig not in seen_known:
                seen_known.add(sig)
                res.known.append((sig, kf))
            continue
        start = case_start.get(c)
        w = {"signature": sig, "case": c, "description": desc}
        if start is not None:
            end = len(ops)
            later = [v for v in case_start.values() if v > start]
            if later:
                end = min(later)
            w["ops"] = ops[start:end][:2000]
        res.violation("impl-violation", sig, desc, w)
    return propfails


# ---------------------------------------------------------------- known findings

class Findings:
    def __init__(self):
        self.items = []   # (prop, sig, text)
        self.fixed = []
        p = os.path.join(VERIF, "known_findings.txt")
        if os.path.exists(p):
            for l in open(p):
                l = l.strip()
                if l.startswith("finding:"):
                    m = re.match(r"finding:\s+property=(\S+)\s+sig=(\S+)\s+(.*)", l)
                    if m:
                        self.items.append((m.group(1), m.group(2), m.group(3)))
                elif l.startswith("fixed:"):
                    self.fixed.append(l)

    def match(self, prop, sig):
        for p, s, t in self.items:
            if p == prop and s == sig:
                return t
        return None

    def for_prop(self, prop):
        return [(s, t) for p, s, t in self.items if p == prop]


# ---------------------------------------------------------------- finish

def finish(res, cfg):
    os.makedirs(os.path.join(VERIF, "evidence"), exist_ok=True)
    os.makedirs(os.path.join(VERIF, "replays"), exist_ok=True)
    wall = time.time() - res.t0
    nthm = len(res.theorems)
    bad_thms = set(v["name"] for v in res.violations if v["kind"] == "broken-proof")
    discharged = len([t for t in res.theorems if t["theorem"] not in bad_thms])
    if any(v["kind"] == "broken-proof" and not res.theorems for v in res.violations):
        discharged = 0
    axioms = sorted(set(a for t in res.theorems for a in t["axioms"]))
    samples = list(res.samples)
    for t in res.theorems[:6]:
        samples.append({"obligation": t["theorem"], "axioms": t["axioms"]})
    if not samples:
        samples = ["(none)"]
    cov = {
        "obligations": max(nthm, 1 if res.violations else 0),
        "discharged": discharged,
        "checker_cmd": " ; ".join(res.checker_cmds) or "(not reached)",
        "trusted_base": cfg.get("trusted_base", []) + ["axioms used by the theorems: " + ", ".join(axioms)],
        "theorems": [t["theorem"] for t in res.theorems],
        "evaluations": res.evaluations,
        "distinct_nontrivial": len(res.nontrivial),
        "rule": cfg.get("rule", ""),
        "samples": samples,
        "correspondence_lines_compared": res.corr_lines,
        "correspondence_mismatches": res.corr_mismatch,
        "input_distribution": res.stats,
        "known_findings_reproduced": [s for s, _ in res.known],
        "notes": res.notes[:50],
    }
    cov.update(res.extra)
    ev = {
        "property_id": res.prop, "tier": res.tier, "seed": res.seed, "level": "proof",
        "coverage": cov,
        "assumptions": cfg.get("assumptions", []),
        "wall_s": round(wall, 2),
        "violations": len(res.violations),
    }
    # evidence/<id>.json describes runs against /repo itself; a run against another tree (VERIF_REPO:
    # seeded changes, reversal experiments, snapshots) writes its evidence under build/ instead
    evdir = os.path.join(VERIF, "evidence")
    if os.path.abspath(REPO) != "/repo" and not os.environ.get("VP_RUN_REPO"):
        evdir = os.path.join(BUILD, "evidence-altrepo")
        os.makedirs(evdir, exist_ok=True)
    with open(os.path.join(evdir, res.prop + ".json"), "w") as f:
        json.dump(ev, f, indent=1, sort_keys=True)
        f.write("\n")
    for sig, text in res.known:
        print("KNOWN-FINDING: property=%s %s (%s)" % (res.prop, text, sig))
    if not res.violations:
        print("OK property=%s tier=%s seed=%d theorems=%d/%d corr_lines=%d cases=%d nontrivial=%d wall=%.1fs" % (
            res.prop, res.tier, res.seed, discharged, nthm, res.corr_lines, res.evaluations,
            len(res.nontrivial), wall))
        return 0
    # prefer a concrete failing input as the replay
    impl = [v for v in res.violations if v["kind"] == "impl-violation"]
    others = [v for v in res.violations if v["kind"] != "impl-violation"]
    tag = "%s-seed%d-%s" % (res.prop, res.seed, hashlib.sha1(json.dumps(res.violations, sort_keys=True, default=str).encode()).hexdigest()[:8])
    path = os.path.join(VERIF, "replays", tag + ".json")
    replay = {
        "property": res.prop, "seed": res.seed, "tier": res.tier,
        "kind": impl[0]["kind"] if impl else others[0]["kind"],
        "broken": [{"kind": v["kind"], "name": v["name"], "detail": v["detail"][:4000]} for v in others],
        "failing_inputs": [{"signature": v["name"], "detail": v["detail"][:4000], "witness": v["witness"]} for v in impl[:10]],
        "correspondence_witness": [v["witness"] for v in others if v.get("witness")][:3],
        "rerun": "VERIF_SEED=%d VERIF_TIER=%s /verif/bin/check %s" % (res.seed, res.tier, res.prop),
    }
    with open(path, "w") as f:
        json.dump(replay, f, indent=1, default=str)
        f.write("\n")
    for v in res.violations[:8]:
        print("  %s %s: %s" % (v["kind"], v["name"], v["detail"].splitlines()[0][:300] if v["detail"] else ""))
    suffix = "" if impl else " no-failing-input-found"
    print("VIOLATION property=%s replay=%s%s" % (res.prop, path, suffix))
    return 1
