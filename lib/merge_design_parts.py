import re,sys
D='/verif/design_parts/'
names=sys.argv[1:]
sections=[]; regen=[]
for name in names:
    t=open(D+name+'.md').read()
    m=re.search(r'^### (0\.2[a-z]) (.*)$',t,re.M)
    start=m.start()
    m2=re.search(r'^(## \(b\)|\(b\) )',t[start:],re.M)
    body=t[start:start+m2.start()].rstrip()+"\n"
    sections.append(body)
    rest=t[start+m2.start():]
    mc=re.search(r'^(## \(c\)[^\n]*\n|\(c\) [^:]*: *(add: *)?)',rest,re.M)
    c=rest[mc.end():].strip().strip('"').lstrip('., ').rstrip('.').rstrip('"')
    regen.append(c)
p='/verif/DESIGN.md'
s=open(p).read()
marker='### 0.3 Repairs made in splunk/stef'
assert s.count(marker)==1
s=s.replace(marker,"\n".join(sections)+"\n"+marker)
old=" A construct outside a\n  generator's subset makes that generator fail loudly"
assert s.count(old)==1
s=s.replace(old,"; "+"; ".join(regen)+"."+old)
open(p,'w').write(s)
print([x[:60] for x in regen])
