"""Per-property configuration of /verif/bin/check."""

COMMON_TB = [
    "Lean 4.33.0 kernel (thorough tier: re-checked by leanchecker)",
    "extractor /verif/extract (go/parser based; regenerates Stef/Gen from /repo on every run)",
    "correspondence harness + Lean driver line protocol (lean/Driver/Main.lean)",
]

PROPS = {}

PROPS["C20"] = {
    "lean_modules": ["Stef.Props.C20"],
    "harness": [{"bin": "h_prim", "args": ["all"]}],
    "rule": ("cases = operation sequences on go/pkg BitsWriter/BitsReader and go/pkg/codecs, replayed on the Lean "
             "model; generated from all 65 leading-zero classes x 64 alignments x boundary/random payloads, every "
             "WriteBits width x alignment, random mixed sequences, raw-buffer readers, codec value sequences; a case "
             "is non-trivial when it spills the 64-bit register (more than 64 bits written) or exercises a codec "
             "state transition; distinct by hash of its op lines"),
    "trusted_base": COMMON_TB + [
        "Impl model of bitstream.go/membuffer.go/codecs is a hand transcription, tied by h_prim correspondence",
        "lookup tables and codec constants are regenerated (Stef/Gen/Tables.lean, Consts.lean)",
    ],
    "assumptions": ["Go shift semantics (shift >= 64 yields 0) as BitVec shifts", "encoding/binary varint as modelled in Stef/Varint.lean"],
}

PROPS["C20"]["level_text"] = (
    "Theorems for all inputs: BitsWriter register refinement at every alignment (writeBits_appends, writeBit_appends, "
    "writeBits_sequence), uvarint_roundtrip / varint_roundtrip / zigzag_roundtrip on all 64-bit values, uvc_roundtrip "
    "for every value < 2^48 against the regenerated Go write tables with the specification's prefix table as decoder, "
    "uvc_write_every_alignment, uvc_is_spec_table (whole finite tables), dod_roundtrip and gorilla_roundtrip for every "
    "sequence from any synchronised state, gorilla_is_spec (register-level encoder = spec bits), bool/string round "
    "trips, dictstring_sync, dict_ref_always, overread_reported_spec; overread_reported is proved FALSE for the Go "
    "BitsReader (finding overread-56). Not yet proved: refinement of the BitsReader register to bit lists (the reader "
    "side is tied by op-for-op correspondence only).")

PROPS["C09"] = {
    "lean_modules": ["Stef.Props.C09"],
    "harness": [{"bin": "h_cmp", "args": ["all"]}],
    "rule": ("cases = (a) each primitive domain of go/pkg/types.go (all pairs and triples over boundary + random values; for "
             "float64 every class: NaNs with payloads and either sign, +-0, +-inf, subnormals, extremes), (b) per generated "
             "otelstef type (all 30 structs/oneofs/arrays/multimaps) pools of values built through the public setters - "
             "equal copies, near-equal mutants, optional fields set/unset, frozen dictionary structs - with Cmp/IsEqual on "
             "all pairs, transitivity on all triples, Clone and CopyFrom (into fresh and into used destinations) with "
             "equality and two-way independence under further mutation, once with plain floats (no NaN, no -0: every "
             "failure is a fresh violation) and for 10 types again with all float classes (failures explained by NaN/-0 go "
             "to the listed signatures), (c) mutation attempts on frozen Resource/Scope/Metric, (d) random histories of "
             "mutate/CopyFrom/Clone/compare over three variables with an aliasing check after every step; op lines "
             "(prim/cmp/eq/clone/copy) are replayed on the Lean model; a value case is non-trivial when its canonical dump "
             "nests at least two levels (or one level with more than 24 characters); a history is non-trivial with >= 8 "
             "steps; distinct by hash of the dump / of the op descriptions"),
    "trusted_base": COMMON_TB + [
        "primitive comparators pkg.{Uint64,Int64,Bool,Float64}{Compare,Equal} are REGENERATED from go/pkg/types.go "
        "(Stef/Gen/Funcs.lean); String/BytesCompare are checked by the extractor to be strings.Compare and modelled by hand",
        "Stef.Flt (IEEE-754 <, >, == on bit patterns) is hand-written, tied to Go's float64 operators by the `prim fltops` lines",
        "Stef/Cmp.lean (generic Cmp/IsEqual/copyToNew/Clone/CopyFrom over value trees) is a hand transcription of "
        "stefc/templates/go/{struct,oneof,array,multimap}.go.tmpl, tied to go/otel/otelstef by h_cmp correspondence "
        "(cmp/eq/clone/copy lines on dumps read back through the public getters)",
        "the harness' schema table of otelstef (field order, optional flags) is a transcription of go/otel/otel.stef; "
        "setters/getters are resolved by name through reflection (a mismatch crashes the harness)",
    ],
    "assumptions": [
        "Go float64 <, >, == are IEEE-754 binary64 (NaN unordered, -0 == +0)",
        "copy independence and frozen-value behaviour (pointer aliasing) are evaluated on the implementation only; the Lean "
        "model is value-level (Clone/CopyFrom results), it has no heap",
        "CopyFrom correspondence lines are emitted only for destinations that were never shrunk and sources without frozen "
        "dictionary structs (hidden slice slots / pointer sharing are outside the value model); the equality and "
        "independence checks run on all of them",
    ],
}

PROPS["C09"]["level_text"] = (
    "Theorems (Stef/Props/C09.lean): each regenerated comparator (uint64, int64, bool, string/bytes) is a total order "
    "(reflexive-zero, antisymmetric, transitive, =0 iff identical); generic lifting theorem: leaf total order => the "
    "generated structural Cmp over ANY record tree (struct with optional presence, oneof, array, multimap, nil dict "
    "pointer) is a total order with Cmp=0 iff identical; IsEqual iff same visible data; CopyFrom/copyToNew yield the "
    "source's data for every prior destination; Clone for values without top-level optionals. Refuted from witnesses "
    "(genuine defects, kept as known findings): Float64Compare with NaN / -0 (so Cmp is not transitive / not exact), "
    "Clone drops optional presence, Cmp compares stored values of absent optionals; `_partial` theorems carry the "
    "excluding hypotheses (no NaN, no -0; no top-level optional; clean absent fields). Tied to the code by regenerated "
    "comparators and op-for-op differential runs on all 30 otelstef types.")

HOOK_COMMITS = ["dfe47e0", "f85f827"]
NOT_CLAIMED = {
    "C11": ("byte equality between checked-in files and the output of text/template + gofmt (and the Java templates): "
            "no Lean model short of a semantics of text/template and gofmt can state it; a theorem about less would be a diff "
            "under another name (DESIGN.md section 7)"),
}

PROPS["C15"] = {
    "lean_modules": ["Stef.Props.C15"],
    "harness": [{"bin": "h_grpc", "args": []}],
    "rule": ("cases = generated chunk lists (empty, 1-byte, small, 4 KiB+ chunks) x random splittings of each chunk into "
             "messages (empty messages included, optional incomplete trailing chunk) x random read sizes (0, 1, small, 64, "
             "4096) driven through the real chunkAssembler via the verif hook and replayed on the Lean model; plus "
             "grpcWriter.WriteChunk cases and one end-to-end run over loopback gRPC; non-trivial = at least one chunk split "
             "over several messages and at least one non-empty chunk; distinct by generator draw"),
    "trusted_base": COMMON_TB + [
        "Stef/Chunk.lean is a hand transcription of chunkAssembler.Read/recvMsg and grpcWriter.WriteChunk, tied by h_grpc",
        "go/grpc/verif_hooks.go (add-only constructors, build tag verif)",
        "gRPC itself (message order and integrity) is assumed reliable FIFO; exercised once end-to-end",
    ],
    "assumptions": ["a message source that fails stays failed (closed gRPC stream)",
                    "an empty chunk makes Read return (0,nil); bufio gives up after 100 such reads - consumer behaviour, not claimed"],
    "level_text": ("Theorems over all message sequences and all read-size sequences (induction over the interleaved run): "
                   "bytes_unchanged, delivered_is_prefix, chunk_aligned, writer_one_message_per_chunk, split_irrelevant. "
                   "Model tied to the Go code by op-for-op differential runs through the verif hook."),
}

PROPS["C08"] = {
    "lean_modules": ["Stef.Props.C08"],
    "harness": [{"bin": "h_prim", "args": ["limiter"]}],
    "rule": ("cases = random operation sequences on the real pkg.SizeLimiter (limits 0,1,2,17,100,4096 x adds x resets) "
             "replayed on the Lean model; non-trivial = a limit flag went up during the case; distinct by generator draw. "
             "(writer-level limit behaviour on real streams is exercised by the h_codec `limits` mode when present)"),
    "trusted_base": COMMON_TB + [
        "Stef/Limiter.lean: SizeLimiter is a hand transcription tied op-for-op by h_prim limiter; the Write/Flush/restartFrame "
        "control flow is a hand transcription of stefc/templates/go/writer.go.tmpl at the level of sizes",
    ],
    "assumptions": ["sizes stay below 2^64 (Go uint arithmetic does not wrap)",
                    "frame bound excludes the per-frame size table, record count and byte rounding of bit columns"],
    "level_text": ("Theorems by invariant over all operation histories, limits and flags: dict_below_limit_between_writes, "
                   "dict_peak_bound (never exceeds L by what one record adds), reset_announced (reader and writer dictionary "
                   "epochs agree for every record), frame_bound, open_frame_below_limit."),
}

PROPS["C14"] = {
    "lean_modules": ["Stef.Props.C14"],
    "harness": [{"bin": "h_hs", "args": []}],
    "rule": ("cases = generated (client, server) wire-schema pairs of six relations (identical, server ahead, client ahead, "
             "diverged, equal-length-equal-total permutations, unrelated) x dictionary limits; Compatible verdicts in both "
             "directions and the options returned by the real Client.Connect against a real StreamServer over loopback gRPC, "
             "replayed on the Lean model; non-trivial = the two schemas differ; distinct by generator draw"),
    "trusted_base": COMMON_TB + [
        "Stef/Handshake.lean is a hand transcription of WireSchema.Compatible, of the decision part of Client.Connect and "
        "of the option handling of New<Root>Writer, tied by h_hs",
        "gRPC transport of the capabilities message",
    ],
    "assumptions": ["the data path across generated packages of two schema versions is covered by C04 (h_gen), not here"],
    "level_text": ("Decision logic stated outright on wire schemas: connect_dict_limit, writer_dict_limit, connect_exact, "
                   "compatible_exact_iff, connect_sound_partial (exact and server-ahead branches), "
                   "connect_fails_when_both_incompatible; the full soundness statement is proved FALSE from two witnesses "
                   "(compatible_totals_witness, connect_client_superset_witness, connect_sound_false) - both are recorded "
                   "known findings."),
}
