"""Per-property configuration of /verif/bin/check."""

COMMON_TB = [
    "Lean 4.33.0 kernel (thorough tier: re-checked by leanchecker)",
    "extractor /verif/extract (go/parser based; regenerates Stef/Gen from /repo on every run)",
    "correspondence harness + Lean driver line protocol (lean/Driver/Main.lean)",
]

PROPS = {}

PROPS["C20"] = {
    "lean_modules": ["Stef.Props.C20"],
    # the Lean encoders behind the `ce` (codec encode) and `bw` (bit writer) ops are proved equal to the
    # specification's bit strings (gorilla_is_spec, dod/uvarint/uvc theorems, BitsWriter refinement): a
    # differing line is a value sequence on which the implementation is not bit-exact
    "harness": [{"bin": "h_prim", "args": ["all"], "oracle_prefixes": ["ce =>encoding-not-spec-bits", "bw =>bitwriter-not-spec-bits", "br =>bitsreader-not-spec-bits"]}],
    "rule": ("cases = operation sequences on go/pkg BitsWriter/BitsReader and go/pkg/codecs, replayed on the Lean "
             "model; generated from all 65 leading-zero classes x 64 alignments x boundary/random payloads, every "
             "WriteBits width x alignment, random mixed sequences, raw-buffer readers, codec value sequences; a case "
             "is non-trivial when it spills the 64-bit register (more than 64 bits written) or exercises a codec "
             "state transition; distinct by hash of its op lines"),
    "trusted_base": COMMON_TB + [
        "Impl model of bitstream.go/membuffer.go/codecs is a hand transcription, tied by h_prim correspondence",
        "lookup tables and codec constants are regenerated (Stef/Gen/Tables.lean, Consts.lean)",
    ],
    "assumptions": ["Go shift semantics (shift >= 64 yields 0) as BitVec shifts", "encoding/binary varint as modelled in Stef/Varint.lean"],
}

PROPS["C20"]["level_text"] = (
    "Theorems for all inputs: BitsWriter register refinement at every alignment (writeBits_appends, writeBit_appends, "
    "writeBits_sequence), uvarint_roundtrip / varint_roundtrip / zigzag_roundtrip on all 64-bit values, uvc_roundtrip "
    "for every value < 2^48 against the regenerated Go write tables with the specification's prefix table as decoder, "
    "uvc_write_every_alignment, uvc_is_spec_table (whole finite tables), dod_roundtrip and gorilla_roundtrip for every "
    "sequence from any synchronised state, gorilla_is_spec (register-level encoder = spec bits), bool/string round "
    "trips, dictstring_sync, dict_ref_always, overread_reported_spec; register-level BitsReader (fast refill path, slow "
    "path near the end of the buffer, 56 padding bits, widths up to 64): bitsreader_refines_spec (ReadBits = the "
    "specification's bit reader at every reachable state), overread_reported_bitsreader (every buffer, every sequence of "
    "widths: Error() is nil exactly while the reads stay inside the buffer, and then the values are the buffer's bits; "
    "holds since fix f47ea21), bits_roundtrip (WriteBits* ; Close ; ReadBits* returns the values), "
    "uvc_reader_refines_spec / uvc_register_roundtrip (ReadUvarintCompact: peek 56, clz, regenerated READ tables = the "
    "specification's prefix reader at every reachable state). The codec models above the bit layer (dod, gorilla, "
    "strings) are stated against bit/byte lists; their Go bodies are tied by op-for-op correspondence.")

PROPS["C09"] = {
    "lean_modules": ["Stef.Props.C09"],
    "harness": [{"bin": "h_cmp", "args": ["all"]}],
    "rule": ("cases = (a) each primitive domain of go/pkg/types.go (all pairs and triples over boundary + random values; for "
             "float64 every class: NaNs with payloads and either sign, +-0, +-inf, subnormals, extremes), (b) per generated "
             "otelstef type (all 30 structs/oneofs/arrays/multimaps) pools of values built through the public setters - "
             "equal copies (the second copy of every base with other values stored in its absent optional fields: "
             "Set(v)+Unset), near-equal mutants, optional fields present / absent after Set+Unset / absent untouched, "
             "frozen dictionary structs - with Cmp/IsEqual on "
             "all pairs, transitivity on all triples, Clone and CopyFrom (into fresh and into used destinations) with "
             "equality and two-way independence under further mutation, once with plain floats (no NaN, no -0: every "
             "failure is a fresh violation) and for 10 types again with all float classes (failures explained by NaN/-0 go "
             "to the listed signatures), plus directed pairs of HistogramValue / ExpHistogramValue / PointValue / Point "
             "with the same data and different hidden state for every presence pattern (all present, all absent, mixed): "
             "IsEqual, Cmp = 0 both ways, Clone keeps presence (the oracles of the repaired clone-loses-optional-presence "
             "and cmp-stale-optional), (c) frozen Resource/Scope/Metric (built by setters: modified bits already set; "
             "Init only: no bit set; filled by CopyFrom; Clone() of a built value; every other round with containers "
             "nested 4-5 deep): EVERY single mutating call of the public API on the struct and on everything reachable "
             "through its getters (struct Set<F>/CopyFrom, multimap SetKey/SetValue/EnsureLen(n+-1)/CopyFrom, oneof "
             "SetType(k)/Set<Alt>/CopyFrom, array Append/EnsureLen(n+-1)/CopyFromSlice, the struct's CopyFrom with a "
             "source differing in one member) is made on a fresh frozen subject and on an unfrozen twin: a call that "
             "changes the twin MUST panic on the frozen subject, which must be unchanged in every case, (d) random histories of "
             "mutate/CopyFrom/Clone/compare over three variables with an aliasing check after every step; op lines "
             "(prim/cmp/eq/clone/copy) are replayed on the Lean model; a value case is non-trivial when its canonical dump "
             "nests at least two levels (or one level with more than 24 characters); a history is non-trivial with >= 8 "
             "steps; distinct by hash of the dump / of the op descriptions"),
    "trusted_base": COMMON_TB + [
        "primitive comparators pkg.{Uint64,Int64,Bool,Float64}{Compare,Equal} are REGENERATED from go/pkg/types.go "
        "(Stef/Gen/Funcs.lean); String/BytesCompare are checked by the extractor to be strings.Compare and modelled by hand",
        "Stef.Flt (IEEE-754 <, >, == on bit patterns) is hand-written, tied to Go's float64 operators by the `prim fltops` lines",
        "Stef/Cmp.lean (generic Cmp/IsEqual/copyToNew/Clone/CopyFrom over value trees) is a hand transcription of "
        "stefc/templates/go/{struct,oneof,array,multimap}.go.tmpl, tied to go/otel/otelstef by h_cmp correspondence "
        "(cmp/eq/clone/copy lines on dumps read back through the public getters)",
        "the harness' schema table of otelstef (field order, optional flags) is a transcription of go/otel/otel.stef; "
        "setters/getters are resolved by name through reflection (a mismatch crashes the harness)",
    ],
    "assumptions": [
        "Go float64 <, >, == are IEEE-754 binary64 (NaN unordered, -0 == +0)",
        "copy independence and frozen-value behaviour (pointer aliasing) are evaluated on the implementation only; the Lean "
        "model is value-level (Clone/CopyFrom results), it has no heap",
        "CopyFrom correspondence lines are emitted only for destinations that were never shrunk and sources without frozen "
        "dictionary structs (hidden slice slots / pointer sharing are outside the value model); the equality and "
        "independence checks run on all of them",
    ],
}

PROPS["C09"]["level_text"] = (
    "Theorems (Stef/Props/C09.lean), all for ALL values, none with an excluding hypothesis (every float bit pattern, "
    "every shape, optional fields present or absent with any stale stored value, nil dict pointers): each regenerated "
    "comparator (uint64, int64, bool, float64 by IEEE totalOrder key, string/bytes) is a total order (reflexive-zero, "
    "antisymmetric, transitive, =0 iff identical); generic lifting theorem cmp_total_order: leaf total order => the "
    "generated structural Cmp over ANY record tree (struct with optional presence, oneof, array, multimap, nil dict "
    "pointer) is reflexive-zero, antisymmetric, transitive and Cmp=0 iff the trees hold the same data (`data` erases the "
    "values STORED in absent optional fields: hidden state; on trees without absent optionals Cmp=0 iff identical, "
    "cmp_zero_identical); cmp_prim_total_order: the same over the real primitives; IsEqual iff same data; "
    "cmp_zero_iff_isEqual: Cmp=0 iff IsEqual; clone_equal, copyNew_equal, copyFrom_equal: Clone / copyToNew / CopyFrom "
    "(over every prior destination) results hold the source's data, are IsEqual to it and compare 0. Nothing is "
    "refuted any more: the model follows /repo 82431a4 (Clone keeps optional presence, Cmp skips absent optionals) and "
    "d9a1aae (copy<Multimap> compares primitive keys/values with pkg.<T>Equal: copyFrom_equal lost its `no -0.0 float "
    "directly as multimap key/value` hypothesis, copyFrom_equal_false is gone; no Go != / == on a field value is left "
    "in the struct/oneof/array/multimap templates; go/otel has no float-keyed/valued multimap, so this last change is "
    "tied to the code by transcription only). Harness only (the model is value-level, it has no heap): copy "
    "independence, aliasing in histories, frozen values reject mutation - since 1d57428 a panic is required for "
    "every call that would change a frozen value; residual genuine defects recorded as findings: "
    "frozen-nested-multimap-silent-mutation, frozen-clone-silent-mutation, frozen-copyfrom-mutation-before-panic. "
    "Tied to the code by regenerated comparators and op-for-op differential runs (cmp/eq/clone/copy) on all 30 "
    "otelstef types.")

RECV_TB = COMMON_TB + [
    "Impl model lean/Stef/Receiver.lean is a hand transcription of otelcol/internal/stefreceiver/stef.go (onStream) and "
    "internal/responder.go (Run, composeBadDataResponse) as a labelled transition system; tie: event traces recorded from "
    "the real code by h_recv must be accepted event by event by the compiled model (stefmodel, tokens rv/ls/pl)",
    "the interleaving handed to the model is reconstructed by the harness from the two per-goroutine event sequences "
    "(values observed on the real code: batch sizes, outcomes, AckRecordId and ranges of every response, exit reason) - "
    "it is a certificate checked by the Lean model, the Go mirror that finds it is not trusted",
    "badDataMaxBatchSize = 10 and the 10 ms tick are transcribed, not extracted",
    "hooks otelcol/verifhooks (build tag verif) re-export the internal Responder, onStream and exporter unchanged",
]

PROPS["C16"] = {
    "lean_modules": ["Stef.Props.C16"],
    "harness": [{"bin": "h_recv", "args": ["c16"], "module_dir": "harness_otelcol", "prebuild": "otelcol_mod", "timeout": 900}],
    "rule": ("cases = (i) the real Responder against a scripted STEFStream (held sends, sticky send failures) with the "
             "harness playing onStream's schedule calls, delays randomised around the 10 ms tick; (ii) the real onStream "
             "loop fed by a real otelstef.MetricsWriter through an in-memory chunk pipe and through loopback gRPC "
             "(stefgrpc.Client -> StreamServer) with a scripted consumer (accept / consumererror.NewPermanent / transient "
             "per batch, batches delimited by Flush); (iii) writer/reader RecordCount lockstep with small frame limits. "
             "Each case records an event trace which must be a run of the Lean LTS (the tick branch is three observable "
             "steps: load of nextAckID, at most one bad-data response, acknowledgement; where the log does not tell whether "
             "a bad-data response was sent from the tick branch or from the outer select the lineariser tries both) and is "
             "evaluated directly against the property (ack-regress, ack-before-bad-report, ack-ahead, bad-range-*, ...). "
             "The schedules that provoked the two races repaired by 3888867 (a response held by the stream while a rejected "
             "and then an accepted batch arrive) are still generated: stat race-windows counts their occurrences, "
             "tick-branch-bad-data the traces certified through the tick branch's own bad-data path. A case is "
             "non-trivial when it has at least one permanently rejected batch and at least two "
             "responses; distinct by hash of its event trace"),
    "trusted_base": RECV_TB,
    "assumptions": [
        "a failed SendDataResponse is terminal for the stream (gRPC ServerStream semantics): sendOk is not enabled after sendFail",
        "record ids are 1-based: the k-th record has id k = RecordCount() after reading it (how receiver and exporter use them)",
        "Go select picks any ready branch; time.Ticker may fire at any moment (tick always enabled when Run is idle)",
    ],
}
PROPS["C16"]["level_text"] = (
    "PARTIAL. Theorems over every run (every interleaving of decoding loop, the Responder's outer select and the inner "
    "select of its tick branch, and the response stream; every consumer-outcome sequence, batch size and send-failure "
    "point) of the Lean LTS transcribing onStream + Responder.Run / sendBadDataResponse as written: lockstep of "
    "writer/reader record counters; ack_le_decoded; ack_after_consume (+ per record id) and ack_history (every "
    "successfully sent AckRecordId k: each id 1..k lies in a batch that was accepted, or permanently rejected and whose "
    "exact range is in a successfully sent response no later than that ack), ack_monotone, last_acked_monotone - all "
    "unconditional invariants of the LTS since fix 3888867 (before it their negations were proved from a race run; "
    "findings ack-before-bad-report, ack-regress, and bad-range-off-by-one fixed by 3f3aa6e, are now 'fixed:'); "
    "bad_batch_once_exact; bad_ack_never_clamped (the new clamp is dead code in reachable states); stream_continues. "
    "Real goroutine interleavings are only sampled by h_recv (the recorded traces must be runs of the model and are "
    "checked directly against the property); the theorems are about every interleaving of the model, not of the Go runtime.")

PROPS["C19"] = {
    "lean_modules": ["Stef.Props.C19"],
    "harness": [{"bin": "h_recv", "args": ["c19"], "module_dir": "harness_otelcol", "prebuild": "otelcol_mod", "timeout": 1200}],
    "rule": ("cases = one to three real exporters (verifhooks.NewExporter, compression none/zstd) connected over loopback "
             "gRPC to one real receiver (stefgrpc.NewStreamServer + verifhooks.OnStream per stream) with an accepting "
             "consumer; 1..6 goroutines per exporter call PushMetrics concurrently with random pauses around the 100 ms "
             "flusher and the 10 ms responder tick; every data point carries a unique id. Checked per case: multiset of "
             "canonical data points delivered = pushed, pushes not interleaved inside a stream, every delivered batch id <= "
             "last ack seen by the exporter (bounded wait), acks non-decreasing; the per-stream trace (push/emit/deliver/"
             "accept/tick/ackrecv) must be a run of the Lean pipeline model incl. the exporter's final (lastSent, lastAcked, "
             "len(sentPendingAck)). A case is non-trivial when at least two pushes shared one frame or one push was "
             "concurrent with another; distinct by hash of the per-stream trace"),
    "trusted_base": RECV_TB + [
        "Impl model lean/Stef/Pipeline.lean: message-level model of exporter.go (pushMetrics under writeMutex, flusher, "
        "onGrpcAck/sentPendingAck), FIFO chunk stream, receiver loop with an accepting consumer and the Responder tick",
    ],
    "assumptions": [
        "gRPC stream = reliable FIFO of chunks in both directions, no transport failure (exactly_once, eventually_acked)",
        "OTLP -> sorted STEF records -> OTLP is content preserving per data point (property C17) and chunk transport is byte exact (C15)",
        "flusher and responder tick are fair (liveness is stated as: the canonical continuation is always enabled)",
        "the consumer accepts every batch",
    ],
}
PROPS["C19"]["level_text"] = (
    "PARTIAL. Theorems over every run of a message-level Lean model (pushes serialised by the write mutex and keyed by record "
    "ids, flusher, FIFO chunk stream, receiver, consumer, responder tick, exporter ack bookkeeping): exactly_once (list "
    "equality pushed = delivered ++ in-flight ++ unflushed per stream, hence multiset equality at quiescence), "
    "eventually_acked (from every reachable state the canonical continuation flush, deliver*, tick, ackrecv* is enabled and "
    "ends with every delivered batch id <= last ack received), pending map lags one ack (pending-ack-off-by-one, not a "
    "violation of C19 as stated). Real goroutine interleavings (concurrent PushMetrics, flusher, per-stream receiver "
    "goroutines, gRPC) are only sampled by h_recv; the theorems are about every interleaving of the model.")

PROPS["C12"] = {
    "lean_modules": ["Stef.Props.C12"],
    "harness": [{"bin": "h_schema", "args": ["c12"]}],
    "rule": ("cases = input texts given to the real idl.Parse and (ASCII ones) replayed on the Lean model Stef.Idl.parse: all "
             "checked-in .stef files, every single-token deletion / duplication / replacement (whole token vocabulary) and every "
             "token prefix of a schema covering all grammar productions and of the small checked-in schemas, sampled token and "
             "byte mutations of the large ones and of grammar-generated schemas, generated schemas in which one enum repeats a "
             "member name, token soups, random ASCII, non-ASCII (real code only); a case is non-trivial when the parser gets past the package clause (an accepted schema with at least one "
             "struct, a panic, or an error other than at the package clause); distinct by hash of the input text"),
    "trusted_base": COMMON_TB + [
        "Stef/Idl.lean is a hand transcription of go/pkg/idl/{lexer,parser,utils}.go and of ResolveRefs/computeRecursive/"
        "PruneUnused in go/pkg/schema/schema.go, tied by h_schema: outcome class, canonical schema dump (incl. recursion flags), "
        "error line:col:offset and message class must agree for every ASCII input",
        "ASCII restriction of unicode.IsLetter/IsDigit/IsSpace in the model; other runes are exercised on the real code only",
        "error message texts are compared by class (the type name in 'unknown type' depends on Go map order)",
    ],
    "assumptions": ["bufio.Reader.ReadRune over a bytes.Buffer never fails (invalid UTF-8 yields U+FFFD)",
                    "strconv.ParseUint(s, 0, 64) as modelled in Stef/Idl.lean (parseUint) on the lexer's number alphabet"],
}
PROPS["C12"]["level_text"] = (
    "Theorems over the transcribed lexer+parser+post-processing for every input (Stef/Props/C12.lean): accepted schemas are "
    "well-formed (references resolve uniquely, top-level names, struct field names and enum member names unique, roots non-empty, "
    "no field without a type), errors carry a position inside the input, no panic site is reachable (full statement since "
    "a64277c), enum member uniqueness (full statement since ed6fa67), the model's loop fuel is never exhausted; tied to go/pkg/idl "
    "by op-for-op differential runs (outcome, schema dump, error position and class).")

PROPS["C13"] = {
    "lean_modules": ["Stef.Props.C13"],
    "harness": [{"bin": "h_schema", "args": ["c13"]}],
    "rule": ("cases = schemas (all checked-in .stef files, explicit witnesses, grammar-generated schemas with structs, oneofs, "
             "multimaps, enums, arrays, optional, dict modifiers, several roots, recursion; pass A without the triggers of recorded "
             "findings, pass B with them) run through the real Parse -> PrettyPrint -> Parse and NewWireSchema for every root, and "
             "count lists / byte strings run through the real Deserialize -> Serialize; the generated otelstef package is compared "
             "with NewWireSchema(otel.stef) and with the count order its Encoder.Init code fetches (read off the Go source); every "
             "op is replayed on the Lean model; a case is non-trivial when the schema keeps at least one struct / the count list is "
             "non-empty; distinct by hash"),
    "trusted_base": COMMON_TB + [
        "Stef/SchemaPrint.lean, Stef/WireSchema.lean are hand transcriptions of PrettyPrint, NewWireSchema/structCountTree, "
        "Serialize/Deserialize (binary.ReadUvarint incl. overflow) tied by h_schema (printed text, counts and bytes must agree)",
        "initCounts models the generated Init order from stefc/templates/go/*.tmpl; tied for otelstef by simulating the Init "
        "call structure read from go/otel/otelstef/*.go with go/ast",
        "maxStructCount is regenerated from wireschema.go (Stef/Gen/Consts.lean)",
    ],
    "assumptions": ["encoding/binary AppendUvarint/ReadUvarint as modelled in Stef/WireSchema.lean"],
}
PROPS["C13"]["level_text"] = (
    "Theorems (Stef/Props/C13.lean): Deserialize(Serialize w) = w for every list of at most 1024 counts below 2^64 and refusal "
    "above the limit; NewWireSchema order = generated Init consumption order for ALL schemas, recursive ones included (wire_order, "
    "wire_order_parsed); print->parse: for EVERY schema returned by parse, parse(prettyPrint s) = ok "
    "(s sorted by name), hence equivalent with the same wire schema for every root (print_parse, print_parse_safe, "
    "print_parse_empty; no exclusion since the parser accepts the printed form of the empty schema, repo ae9fe8f); tied to go/pkg/schema and the "
    "generated otelstef code by op-for-op differential runs.")

PROPS["C17"] = {
    "lean_modules": ["Stef.Props.C17"],
    "harness": [{"bin": "h_otlp", "args": ["metrics"]}],
    "rule": ("cases = generated pmetric.Metrics batches (pools of 1-3 resources, 1-3 scopes, 1-4 metric identities of the five types, "
             "combined with repetition and interleaving; attributes of every AnyValue kind with nested arrays and maps of 0-4 entries, "
             "growing re-used attribute lists; points of all five types flagged NoRecordedValue, with exemplars, number points also without "
             "a value; histogram points without buckets; per-point bounds incl. pairs differing only in a NaN or the sign of a zero; "
             "exemplars; float classes NaN payloads, -0.0, inf, subnormal, max), converted by go/pdata/metrics in all four "
             "combinations (unsorted|sorted writer x unsorted|sorted reader) and compared as multisets of data points by the harness's own "
             "flattening; a clean stream (no known trigger; any failure is a fresh violation) plus one stream per known trigger class; "
             "a case is non-trivial when it has at least two data points, a metric with two or more points (record carry-over) and a "
             "point with attributes; distinct by hash of the encoded input. Op lines replay the input on the Lean model: records written "
             "(m2s-u, m2s-s) and flattened round trips (rt-uu/us/su/ss)"),
    "trusted_base": COMMON_TB + [
        "Impl model Stef/Otlp/*.lean is a hand transcription of go/pdata/metrics, go/pdata/internal/otlptools and of the generated "
        "otelstef setters/EnsureLen/CopyFrom the converters call; tied by h_otlp op-for-op (records written and round trips)",
        "the byte codec is not part of this model (a record read is the logical value written: property C01); the RestartDictionaries "
        "class (a codec defect) gets no op lines; sorted conversions of more than 12 points get none either (slices.SortFunc stability)",
        "stefToOtlpSorted is unexported without constructor: the harness repeats its 15-line loop on the exported sortedbyresource package",
    ],
    "assumptions": ["pcommon.Map keys are distinct (pdata API invariant)", "slices.SortFunc is stable below 12 elements (insertion sort)",
                    "modernc.org/b trees with a consistent comparator behave as sorted association lists"],
}
PROPS["C17"]["level_text"] = (
    "Theorems over the converter models (Stef/Props/C17.lean): one record per data point for both writers (every batch, no side "
    "condition), AnyValue conversion round trip at full "
    "strength (every value, any re-used destination), round trip of flattened data points through the unsorted converters for every clean "
    "batch (general, by induction over the trees with the writer's re-used record as state; `clean` excludes only the recorded findings); "
    "sorting converters: for every clean batch with 64-bit typed keys the sorting writer's records read back as a permutation of "
    "the data points and all four writer x reader combinations return the same multiset of data points (comparator faithfulness, "
    "tree insertion = permutation, ToStef / ToOtlp visit every entry once; the sorting reader's theorem holds for ANY stream of typed "
    "records); the model is tied to go/pdata by op-for-op differential runs of all four converter combinations; the property oracle "
    "(own multiset flattening) runs on a trigger-free stream and on one stream per recorded finding.")

PROPS["C18"] = {
    "lean_modules": ["Stef.Props.C18"],
    "harness": [{"bin": "h_otlp", "args": ["traces"]}],
    "rule": ("cases = generated ptrace.Traces batches (repeated resources and scopes that the sorting mode merges, spans with 0-3 events "
             "and links varying in sequence, attributes of every kind, status, trace state, flags, parent ids, empty ids), converted by "
             "go/pdata/traces in both modes (resource and scope attributes of every kind, twins differing only in the dropped-attributes "
             "count), records read back with otelstef.SpansReader and compared field by field with the source span "
             "(sorting mode: as multisets); a case is non-trivial when it has at least two spans and two consecutive spans of a scope differ "
             "in their number of events or links (array re-use); distinct by hash of the encoded input"),
    "trusted_base": COMMON_TB + [
        "Impl model Stef/Otlp/Traces.lean is a hand transcription of go/pdata/traces/otlp2stef_unsorted.go and otlptools/compare.go; tied "
        "by h_otlp op-for-op (t2s-u, t2s-s: the records as read back)",
        "ids are compared through the representation the converter uses (hex text of the id, empty for the all-zero id); the harness also "
        "checks that every id is exactly recoverable from the record",
    ],
    "assumptions": ["sort.SliceStable with a consistent order is the stable sort", "pcommon.Map keys are distinct"],
}
PROPS["C18"]["level_text"] = (
    "Theorems over the traces converter model (Stef/Props/C18.lean): one record per span (every batch, both modes), content of every "
    "record at full strength (every batch; ids as injective hex text), the sorting mode writes a permutation of the spans of every batch whose resource/scope attribute "
    "numbers are 64-bit patterns (the comparison model is total and compares the dropped counts since 679d5d5; merging only equal "
    "resources/scopes is derived from the comparator, not assumed); tied to go/pdata/traces by op-for-op differential runs in both modes.")


HOOK_COMMITS = ["dfe47e0", "f85f827"]
NOT_CLAIMED = {
    "C11": ("byte equality between checked-in files and the output of text/template + gofmt (and the Java templates): "
            "no Lean model short of a semantics of text/template and gofmt can state it; a theorem about less would be a diff "
            "under another name (DESIGN.md section 7)"),
}

PROPS["C15"] = {
    "lean_modules": ["Stef.Props.C15"],
    "harness": [{"bin": "h_grpc", "args": []}],
    "rule": ("cases = generated chunk lists (empty, 1-byte, small, 4 KiB+ chunks) x random splittings of each chunk into "
             "messages (empty messages included, optional incomplete trailing chunk) x random read sizes (0, 1, small, 64, "
             "4096) driven through the real chunkAssembler via the verif hook and replayed on the Lean model; plus "
             "grpcWriter.WriteChunk cases and one end-to-end run over loopback gRPC; non-trivial = at least one chunk split "
             "over several messages and at least one non-empty chunk; distinct by generator draw"),
    "trusted_base": COMMON_TB + [
        "Stef/Chunk.lean is a hand transcription of chunkAssembler.Read/recvMsg and grpcWriter.WriteChunk, tied by h_grpc",
        "go/grpc/verif_hooks.go (add-only constructors, build tag verif)",
        "gRPC itself (message order and integrity) is assumed reliable FIFO; exercised once end-to-end",
    ],
    "assumptions": ["a message source that fails stays failed (closed gRPC stream)",
                    "an empty chunk makes Read return (0,nil); bufio gives up after 100 such reads - consumer behaviour, not claimed"],
    "level_text": ("Theorems over all message sequences and all read-size sequences (induction over the interleaved run): "
                   "bytes_unchanged, delivered_is_prefix, chunk_aligned, writer_one_message_per_chunk, split_irrelevant; liveness "
                   "by a progress measure: drain_delivers_everything (any positive read size reaches the end of the source within "
                   "bytes + messages + 1 reads and has then delivered every complete chunk exactly once), read_sizes_irrelevant, "
                   "resplit_irrelevant, gen_drain_delivers_everything for the regenerated Read. "
                   "Model tied to the Go code by op-for-op differential runs through the verif hook."),
}

PROPS["C08"] = {
    "lean_modules": ["Stef.Props.C08"],
    "harness": [{"bin": "h_prim", "args": ["limiter"]}],
    "rule": ("cases = random operation sequences on the real pkg.SizeLimiter (limits 0,1,2,17,100,4096 x adds x resets) "
             "replayed on the Lean model; non-trivial = a limit flag went up during the case; distinct by generator draw. "
             "(writer-level limit behaviour on real streams is exercised by the h_codec `limits` mode); h_hs: the options returned by "
             "the real Client.Connect over loopback gRPC for generated schema pairs x advertised limits must carry the limit"),
    "trusted_base": COMMON_TB + [
        "Stef/Limiter.lean: SizeLimiter is a hand transcription tied op-for-op by h_prim limiter; the Write/Flush/restartFrame "
        "control flow is a hand transcription of stefc/templates/go/writer.go.tmpl at the level of sizes",
    ],
    "assumptions": ["sizes stay below 2^64 (Go uint arithmetic does not wrap)",
                    "frame bound excludes the per-frame size table, record count and byte rounding of bit columns"],
    "level_text": ("Theorems by invariant over all operation histories, limits and flags: dict_below_limit_between_writes, "
                   "dict_peak_bound (never exceeds L by what one record adds), reset_announced (reader and writer dictionary "
                   "epochs agree for every record), frame_bound, open_frame_below_limit; destination_limit_in_force (for every schema "
                   "pair, the writer created from the options of a successful Connect runs with the limit the destination "
                   "advertised; tied to the real Client.Connect / New<Root>Writer by h_hs)."),
}

PROPS["C14"] = {
    "lean_modules": ["Stef.Props.C14"],
    "harness": [{"bin": "h_hs", "args": []}],
    "rule": ("cases = generated (client, server) wire-schema pairs of six relations (identical, server ahead, client ahead, "
             "diverged, equal-length-equal-total permutations, unrelated) x dictionary limits; Compatible verdicts in both "
             "directions and the options returned by the real Client.Connect against a real StreamServer over loopback gRPC, "
             "replayed on the Lean model; non-trivial = the two schemas differ; distinct by generator draw"),
    "trusted_base": COMMON_TB + [
        "Stef/Handshake.lean is a hand transcription of WireSchema.Compatible, of the decision part of Client.Connect and "
        "of the option handling of New<Root>Writer, tied by h_hs AND proved equal (Proofs/HandshakeGen) to the functions that "
        "extract/handshake.go translates statement by statement from the current source (Gen/Handshake.lean); trusted there: "
        "the translator (schema = list of its structCounts, uint = Nat, error = Bool) and Stef/HandshakeSem.lean",
        "gRPC transport of the capabilities message",
    ],
    "assumptions": ["the data path across generated packages of two schema versions is covered by C04 (h_gen), not here"],
    "level_text": ("Decision logic stated outright on wire schemas: connect_dict_limit, writer_dict_limit, connect_exact, "
                   "compatible_exact_iff, connect_sound_partial (exact and server-ahead branches), "
                   "connect_fails_when_both_incompatible; the full soundness statement is proved FALSE from two witnesses "
                   "(compatible_totals_witness, connect_client_superset_witness, connect_sound_false) - both are recorded "
                   "known findings."),
}

PROPS["C03"] = {
    "lean_modules": ["Stef.Props.C03"],
    "harness": [{"bin": "h_prim", "args": ["alloc"]}, {"bin": "h_otlp", "args": ["hostile"]}],
    "rule": ("cases = (i) random request sequences on the real pkg.AllocSizeChecker (sizes around RecordAllocLimit, 2^31, 2^32, "
             "2^62, 2^63, MaxUint; products that overflow) replayed on the Lean model; (ii) the real pkg.ReadBufs.ReadFrom over "
             "random column trees and hostile size tables (sibling columns each claiming the whole budget, sizes over the "
             "limit, 2^32..2^64-1, tables shorter/longer than the tree, truncated data), outcome class and every allocated "
             "column buffer replayed on Stef.Sizes.readFrom and checked directly against readLimit; (iii) h_codec `hostile`: "
             "byte corruptions, inflated size fields, removed/duplicated ranges, arbitrary bytes and crafted sibling-size "
             "tables against both readers with a 2 s watchdog and an allocation bound of 3x64 MiB + 1 MiB per KiB of input; "
             "(iv) h_otlp `hostile`: well-formed STEF streams with values out of range for OTLP (unknown metric type / "
             "temporality numbers, point value type not matching the metric type, exemplar ids of wrong length) and "
             "corrupted valid streams through the STEF->OTLP converters (unsorted in both read modes, sorted) with a 5 s "
             "watchdog; non-trivial = at least one request refused / a refused size table with two or more allocated columns / "
             "an out-of-range record; distinct by draw"),
    "trusted_base": COMMON_TB + [
        "Stef/Alloc.lean, Stef/Reader.lean and Stef/Sizes.lean are hand transcriptions (allocsizechecker.go; basereader.go, "
        "frame.go; recordbuf.go ReadBufs.ReadFrom / ReadSizesFrom / ReadDataFrom) tied by correspondence",
        "Go memory safety, stack depth and the decoder bodies are NOT modelled: covered only by hostile-input runs",
    ],
    "assumptions": ["bits.Add / bits.Mul as 64-bit carry / high-word arithmetic"],
    "level_text": ("PARTIAL. Theorems for all inputs on the modelled parts: frame_load_consumes_input (progress: no spinning), "
                   "frame_load_bounded (<= FrameSizeLimit whatever the size fields say), alloc_bound (granted requests of a "
                   "record sum to <= RecordAllocLimit), alloc_counter_saturates, frame_columns_alloc_bounded (size-table buffer "
                   "plus all column buffers ReadBufs.ReadFrom allocates, on error paths too, <= readLimit for every column tree "
                   "and input; model tied op-for-op to the real ReadFrom). Panics / over-allocation inside decoders "
                   "and converters are searched for by hostile-input runs against the real code, not proved absent."),
}

CODEC_TB = COMMON_TB + [
    "harness/internal/recgen: schema-directed reflective mutator/dumper over the PUBLIC API of the generated package",
    "zstd: the harness re-frames zstd streams into their uncompressed equivalent (klauspost/compress) before the Lean decoder sees them",
    "Stef/Spec.lean (independent decoder) follows stef-spec/specification.md + DESIGN.md appendix D",
]

PROPS["C01"] = {
    "lean_modules": ["Stef.Props.C01", "Stef.Props.C01Enc", "Stef.Props.C01Api"],
    "harness": [{"bin": "h_codec", "args": ["roundtrip"], "oracle_prefixes": ["sd decode", "sd values"]}],
    "rule": ("cases = type-directed random histories on otelstef Metrics and Spans writers (wide value distributions: all "
             "float classes, integer extremes/wrapping deltas, repeated strings, lengths across 0/1/62/63/64/65, nested "
             "AnyValue, frozen shared dict structs, CopyFrom) x writer options (none/zstd, frame limits 0..64K, dict limits, "
             "all restart-flag subsets, descriptor, user data) x Flush placement; each stream is decoded by the Go reader AND by "
             "the Lean specification decoder and both must equal the records set; non-trivial = >= 2 writes with a top-level "
             "field left unmodified and a dictionary reference; distinct by hash of the stream. Every history is also replayed call by call on the Lean record API model (op `ap`, harness/internal/recgen/serialize.go): same top-level mask and record dump at every Write, same frame contents byte for byte; histories with a call the model does not describe are dropped whole and counted (input_distribution api-histories-unsupported, api-unsupported-<reason>)"),
    "trusted_base": CODEC_TB + ["Stef/Api.lean: hand transcription of stefc/templates/go/{struct,oneof,array,multimap}.go.tmpl and pkg/modifiedfields.go (record state with hidden parts and marks, public calls, Write), tied by op `ap`; two branches are NOT in the templates and dead on every tied history (checked by replacing them with state-destroying ones: 0 disagreements): `unshare` checks that the copy of a shared dictionary struct compares equal to it (else: marked in full, parent told), `copy<Struct>` into a shared (frozen) dictionary struct changes nothing and tells the parent (Go: panic; reached by ill-typed states only - the struct, array and multimap templates replace a shared destination first)"],
    "assumptions": ["memory aliasing (values of earlier records staying unchanged) is checked by the harness only",
                    "record API theorems: in-place modification of a dictionary struct through a getter is outside the model "
                    "(multimap keys / values of dictionary-struct type are modelled AND tied since repo 6d8ea73 / 75ab748: SetKey / "
                    "SetValue with objects, CopyFrom, EnsureLen over shared members; the serializer only drops arrays of non-struct "
                    "composites)"],
    "level_text": ("Proved for all inputs (Props/C01Enc.lean, over the schema-generic encoder model Stef/SpecEnc.lean and the "
                   "specification decoder Stef/Spec.lean): encode_decode_node(_framed) - for every schema, node kind (primitive, "
                   "struct with mask and optional fields, dictionary struct, oneof, array, multimap in its three forms, recursion), "
                   "previous value, codec/dictionary state, value and mark tree, the decoder applied to the encoder's column events "
                   "returns the encoder's effective value and reaches the encoder's state; roundtrip_node (sound marks => the value "
                   "written); encode_decode_records / roundtrip_records (record sequences), frame(s)_cols_roundtrip (any restart "
                   "flags), size_table_roundtrip, stream_roundtrip (uncompressed streams: decodeStream (encodeStream ins) returns the "
                   "effective values, no error, no dictionary violation). Props/C01.lean keeps roundtrip_struct_of_primitives over "
                   "the register-level codecs and setter_marks_changes. Tie: `se reencode` regenerates every frame of every harness "
                   "stream byte-exactly with the model encoder from the marks the model decoder recorded, and `sd decode` decodes "
                   "it. Record API (Props/C01Api.lean over the model Stef/Api.lean, DESIGN 0.2b): call_preserves_sound (every public call, "
                   "CopyFrom included, any path / arguments / schema / state, keeps the marks sound against the reader's value), "
                   "copyFrom_preserves_sound / copy_preserves (CopyFrom for every schema, dictionary structs included: shared frozen "
                   "children, owned children, unshare, stale hidden values), write_sound (sound marks => the "
                   "proved encoder's effective value shows the record; record left unmarked and in sync; dictionaries in step), "
                   "write_keeps_value, tree_ok, new_record_in_sync, api_marks_sound and api_stream_roundtrip (every "
                   "history over any frames / restart flags, no hypothesis on calls or schema: decodeStream returns records that show "
                   "exactly the records written). The model is tied to the generated code "
                   "call by call and byte for byte (op `ap`). NOT a theorem: encoder totality; zstd; in-place modification of "
                   "dictionary structs (outside the model)."),
}

PROPS["C02"] = {
    "lean_modules": ["Stef.Props.C02"],
    "harness": [{"bin": "h_codec", "args": ["golden"], "oracle_prefixes": ["sd decode", "sd values"]},
                {"bin": "h_codec", "args": ["roundtrip"], "oracle_prefixes": ["sd decode", "sd values"]}],
    "rule": ("golden corpus corpus/C02/*.golden (150 streams of both roots recorded at the pinned commit; the current Go reader and "
             "the Lean specification decoder must both return the recorded records) + the generated histories of C01 decoded by the "
             "independent Lean decoder, which also counts the specification violations that do not stop decoding - direct encodings "
             "of values already in their dictionary and values-only multimap encodings of more than 62 pairs (dv must be 0); "
             "non-trivial = stream with >= 2 records; distinct by stream hash"),
    "trusted_base": CODEC_TB + ["the Java peer is represented by the Lean specification decoder, it is not run"],
    "assumptions": [],
    "level_text": ("Theorems: fixed_header_layout, frame_layout (model framing = specification parser), dict_ref_always, "
                   "dict_admission, values_only_over_62_is_violation (a values-only multimap header against a previous value of "
                   "more than 62 pairs raises the decoder's violation counter, at most 62 does not; the counter never decreases), "
                   "specenc_values_only_within_62 / specenc_stream_counts_nothing (the proved encoder never does that), "
                   "plus the value-format theorems of C20. The statement 'an independent decoder decodes the bytes "
                   "to the records written' is decided per generated history by running Stef.Spec.decodeStream (core Lean, shares "
                   "no code with the library) on the bytes the real writer produced; `se reencode` additionally regenerates each frame "
                   "byte-exactly with the model encoder (Stef/SpecEnc.lean), whose round trip against that decoder is proved "
                   "(Props/C01Enc.lean: stream_roundtrip)."),
}

PROPS["C05"] = {
    "lean_modules": ["Stef.Props.C05"],
    "harness": [{"bin": "h_codec", "args": ["cuts"]}],
    "rule": ("cases = small histories (all restart-flag subsets, none/zstd, Flush placement); EVERY cut offset of streams <= ~600 "
             "bytes and sampled offsets of larger ones is read with the real reader until error: exactly the records of complete "
             "frames, then an error, never a panic; non-trivial = cut strictly inside a frame; distinct by (stream, offset)"),
    "trusted_base": CODEC_TB + ["Stef/Reader.lean: hand transcription of the frame state machine (CompressionNone), read call-site "
                                "table regenerated (Gen/CallSites.lean)"],
    "assumptions": ["zstd: a truncated compressed frame never decompresses to the full announced length (harness only)"],
    "level_text": ("Theorems over all frame lists, all cut offsets, all schedules: prefix_reads_complete_frames, "
                   "truncated_frame_is_error (model of NextFrame/ReadBufs.ReadFrom/Read loop, frame content loaded with "
                   "full-read semantics per regenerated call-site table). zstd truncation is correspondence-only."),
}

PROPS["C06"] = {
    "lean_modules": ["Stef.Props.C06"],
    "harness": [{"bin": "h_codec", "args": ["flush"]}],
    "rule": ("cases = random interleavings of Write, Flush, unrestricted Read, Read with TillEndOfFrame and later appends over an "
             "instrumented growing source that counts accesses; non-trivial = a frame-restricted read returned ErrEndOfFrame; "
             "distinct by history hash"),
    "trusted_base": CODEC_TB + ["Stef/Reader.lean, Stef/Limiter.lean (hand transcriptions)"],
    "assumptions": ["bufio.Reader retries the source after io.EOF (observed by the harness)"],
    "level_text": ("Theorems: till_end_of_frame_no_io (source untouched, for every state), till_end_of_frame_outcome, "
                   "complete_frames_all_readable, flush_leaves_nothing_open, resume_at_boundary."),
}

PROPS["C07"] = {
    "lean_modules": ["Stef.Props.C07", "Stef.Props.C07IO", "Stef.Props.C07IOBig"],
    "harness": [{"bin": "h_codec", "args": ["chunking"]}],
    "rule": ("cases = valid streams (random histories; streams whose last column is larger than bufio's buffer) read through "
             "iotest.OneByteReader, HalfReader, DataErrReader, random short reads, sources that return io.EOF together with the "
             "last bytes (whole / 64 KiB / 5000-byte reads), sources that return 0,nil up to 3 (and once 99) times in a row, "
             "sources that end with a non-EOF error (with or after the last byte), and the same streams CUT at random offsets, "
             "vs a whole-buffer read; outcomes (record dumps or error class) must be identical. Every run over an uncompressed "
             "stream (all small streams, a sample of the large ones; zstd is skipped with a stat) is replayed on the Lean model "
             "of the read path (`rio` ops): the Read calls the real reader made on the source are logged by a recorder and the "
             "model, given the stream and the behaviour of every call, must predict the same sequence of requests len(p) and "
             "the same outcome. Tie-only cases (no property): 100 empty reads in a row (io.ErrNoProgress), a malformed last "
             "frame whose size table overruns the frame. non-trivial = a short read inside the header; distinct by (stream, schedule)"),
    "trusted_base": CODEC_TB + [
        "Stef/Reader.lean with the regenerated read call-site table (io.ReadFull vs bare Read) for the C07/C05/C06 theorems over read SIZES",
        "Stef/ReaderIO.lean: the Go standard library functions on the read path are MODELLED code, transcribed from go1.25 "
        "(io.ReadAtLeast / io.ReadFull, binary.ReadUvarint, bufio.Reader.fill / Read / ReadByte / readErr with the 100-empty-reads "
        "limit, the large-read bypass and the stored error), together with limitedReader, FrameDecoder (CompressionNone), "
        "BaseReader, ReadBufs.ReadFrom / ReadDataFrom and the generated Read loop; hand transcriptions tied call for call by the "
        "`rio` correspondence (request sequence on the source + outcome), not trusted library behaviour any more",
        "the reader's column tree shape and the size of its bufio.Reader are read from the real reader by reflection (harness) "
        "and are parameters of the model; the theorems hold for every tree and every buffer size above 4096",
        "zstd streams: the decompressor between FrameDecoder and the source is not modelled (differential runs only)",
    ],
    "assumptions": ["sources keep the io.Reader contract in the form: fewer than 100 consecutive `0, nil` results (bufio.Reader "
                    "reports io.ErrNoProgress at 100; that branch is modelled and tied, and excluded by the hypothesis `Contract`)"],
    "level_text": ("Theorems (Props/C07): chunking_independent, chunking_independent_frames, chunking_independent_current over schedules "
                   "of read SIZES with trusted full-read semantics. Theorems (Props/C07IO) over the whole io.Reader contract, library "
                   "code modelled: readFull_spec (io.ReadFull over ANY behaviour schedule - 0,nil results, short reads, error with or "
                   "after the last byte, io.EOF or another error - returns exactly the next n bytes or the documented short result), "
                   "bufio_read_spec / bufio_reads_in_order / bufio_readByte_spec / bufio_readFull_spec (what bufio delivers is the "
                   "source's bytes in order, nothing lost, an error only after the last byte and together with bytes only through the "
                   "large-read bypass), frameDecoder_read_passthrough (FrameDecoder.Read returns every byte its underlying read "
                   "returned, with or without an error, and accounts for exactly those), frameDecoder_readFull_spec, "
                   "chunking_independent_io (EVERY data, terminal error, column tree, buffer size > 4096 and every two contract-abiding "
                   "schedules: same constructor result, same records, same frames handed to the decoders, same final error unless both "
                   "runs ended in an io.ReadFull that overran a malformed frame), chunking_independent_io_partial / _reader (exact "
                   "equality under the explicit no-overrun hypothesis), unconditional_statement_false (the unconditional statement is "
                   "FALSE as the code is written: ReadBufs.ReadFrom takes its limit before reading the size-table size, a malformed last "
                   "frame ends in `end of frame` or io.ErrUnexpectedEOF depending on the source; confirmed on the real code by the "
                   "overrun tie cases; outside C07's quantifier, which ranges over valid streams). Non-vacuity: one stream under "
                   "one-byte reads, one eager full read, lazy reads, 0,nil-interleaved reads; a failing source; a cut stream; the bypass "
                   "with eager EOF at buffer size 4100 and (Props/C07IOBig) at the real 64 KiB."),
}

PROPS["C08"]["harness"].append({"bin": "h_codec", "args": ["limits"]})
# "a limit ... received from the destination": the real Client.Connect against a real StreamServer
PROPS["C08"]["harness"].append({"bin": "h_hs", "args": []})
# C14: "... and the dictionary limit advertised by the server is in force": the limit the options carry is
# enforced by pkg.SizeLimiter and the writer's restart logic - the machinery of C08 (its limiter failures count here)
PROPS["C14"]["harness"].append({"bin": "h_prim", "args": ["limiter"], "as_props": ["C08"]})
PROPS["C14"]["harness"].append({"bin": "h_codec", "args": ["limits"], "as_props": ["C08"]})
PROPS["C14"]["lean_modules"].append("Stef.Props.C08")
# C14: "... produces a stream that the server's reader - generated for the server's schema - accepts and
# decodes with every field common to both schemas intact": the cross-version data path is the machinery of
# C04 (code generated for both versions, forward / downgrade / refuse runs); its failures count here
PROPS["C14"]["runner"] = "hgen"
PROPS["C14"]["runner_args"] = ["c04"]
PROPS["C14"]["oracle_prefixes"] = ["sd decode", "sd values"]
PROPS["C14"]["runner_as_props"] = ["C04"]
PROPS["C14"]["lean_modules"].append("Stef.Props.C04")
# C14: the decision logic is REGENERATED from the source on every run (generator Handshake -> Gen/Handshake.lean) and
# proved equal to the hand model; Props/C14Gen restates the handshake theorems for the regenerated functions
PROPS["C14"]["lean_modules"].append("Stef.Props.C14Gen")
PROPS["C14"]["needs_gen"] = ["Tables", "Consts", "CallSites", "Handshake"]
PROPS["C14"]["level_text"] += (" Props/C14Gen: the same theorems for the functions REGENERATED from the current source "
                               "(WireSchema.Compatible, the decision part of Client.Connect, the option handling of New<Root>Writer, "
                               "translated statement by statement by extract/handshake.go and proved equal to the hand model in "
                               "Proofs/HandshakeGen: compatibleE_eq, connect_eq, writerOpts_eq): gen_connect_dict_limit, "
                               "gen_connect_frame_unset, gen_writer_dict_limit, gen_writer_frame_limit, gen_connect_exact, "
                               "gen_compatible_exact_iff, gen_compatible_err_iff, gen_connect_sound_partial, gen_connect_sound_false, "
                               "gen_connect_total (the error return of the incompatible branch is dead), and "
                               "gen_writer_limiter_defaulted (regenerated fact: writer.state.Init gets &writer.opts, the copy with the "
                               "defaults applied - a writer made from Connect's options cuts frames at DefaultMaxFrameSize and enforces "
                               "the advertised dictionary limit).")
PROPS["C03"]["harness"].append({"bin": "h_codec", "args": ["hostile"]})

PROPS["C09"]["needs_gen"] = ["Funcs"]

# the reader's allocation budget is per record (Props/Budget.lean over the regenerated facts of
# Gen/Budget.lean): part of "every record written can be read back" (C01) and of "whether flushed records
# can be read does not depend on where the Flush calls fall" (C06); the checker itself is tied op for op
# by h_prim alloc (filed under C03), which these two run as well.
for _p in ("C01", "C06"):
    PROPS[_p]["lean_modules"].append("Stef.Props.Budget")
    PROPS[_p]["needs_gen"] = ["Tables", "Consts", "CallSites", "Budget"]
    PROPS[_p]["harness"].append({"bin": "h_prim", "args": ["alloc"], "as_props": ["C03"]})
    PROPS[_p]["level_text"] += (" Props/Budget: read_budget_per_record (the reader loop of the CURRENT source - regenerated facts: "
                                "ResetAllocSize() precedes every Decode call of the generated readers and zeroes the counter - decodes "
                                "every stream whose records each stay within RecordAllocLimit, however many records and wherever the "
                                "frames end), budget_accumulates_without_reset (witness), over_limit_record_refused; long-stream cases "
                                "(560+ records alternating a 20 000-element and an empty array, as one frame and as many) run the real reader.")
PROPS["C03"]["lean_modules"].append("Stef.Props.Budget")
PROPS["C03"]["needs_gen"] = ["Tables", "Consts", "CallSites", "Budget"]

# the writer's control flow is REGENERATED (DESIGN 0.2d): extract/writerflow.go translates the bodies of Write() /
# Flush() / restartFrame() of the checked-in generated writers statement by statement into Gen/WriterFlow.lean (data
# of the statement language of Stef/WriterFlowSem.lean) and the methods of go/pkg/dictlimiter.go into Lean functions;
# Proofs/WriterFlow proves them equal to the hand model of Stef/Limiter.lean on every state, Props/C08Flow restates
# the C08 / C06 writer theorems for them. C14 ("the advertised limit is in force") and C06 (flush_leaves_nothing_open)
# rest on the same machinery.
for _p in ("C08", "C14", "C06"):
    PROPS[_p]["lean_modules"].append("Stef.Props.C08Flow")
    PROPS[_p]["needs_gen"] = list(PROPS[_p].get("needs_gen", ("Tables", "Consts", "CallSites"))) + ["WriterFlow"]
PROPS["C08"]["trusted_base"] = COMMON_TB + [
    "Stef/Limiter.lean: SizeLimiter and the Write/Flush/restartFrame control flow are no longer trusted as transcriptions: "
    "both are regenerated from the current source (Gen/WriterFlow.lean) and proved equal to Limiter.lean on every state "
    "(Proofs/WriterFlow); what is trusted instead is the meaning given to each whitelisted statement / call in "
    "Stef/WriterFlowSem.lean (at the level of sizes: error returns, RestartCodecs and the bytes of a frame are not modelled) "
    "and the translator extract/writerflow.go; SizeLimiter is additionally tied op-for-op by h_prim limiter",
]
PROPS["C08"]["level_text"] += (" Props/C08Flow: the same statements for the REGENERATED control flow - flow_is_hand_model (the bodies of "
                               "Write() / Flush() / restartFrame() of the current metricswriter.go / spanswriter.go, translated statement by "
                               "statement, equal the model on every state and history), flow_state_between_calls (frameRecordCount agrees "
                               "with the open frame, nothing pending in the buffers, record counts right), dict_below_limit_between_writes, "
                               "dict_peak_bound, reset_announced, frame_bound, open_frame_below_limit, flush_leaves_nothing_open; "
                               "limiter_is_hand_model (the methods of the current dictlimiter.go equal SizeLimiter.* of the model).")

HGEN_TB = CODEC_TB + [
    "lib/hgen.py + harness/cmd/h_gen (schema generator, append-only evolver, driver template) + harness/hgenlib (driver "
    "logic over the PUBLIC API of the generated packages via reflection); stefc is built from the repository's working tree, "
    "every schema is first accepted by the repository's own idl parser",
    "go build of each generated package in a temporary module (replace => the repository's go/pkg)",
]

PROPS["C10"] = {
    "lean_modules": ["Stef.Props.C10"],
    "harness": [],
    "runner": "hgen", "runner_args": ["c10"], "oracle_prefixes": ["sd decode", "sd values"],
    "rule": ("cases = schemas drawn from VERIF_SEED by harness/cmd/h_gen (1..3 roots, <= 10 types x <= 6 fields: structs with "
             "dict modifier, oneofs, multimaps with primitive/struct/oneof/array/multimap keys and values, arrays of "
             "primitives/enums/structs/oneofs/multimaps, enums, optional primitive and composite fields, string/bytes "
             "dictionaries shared between fields, self and mutual recursion through array, multimap key/value, oneof "
             "alternative and optional field; quick 4 + stefc's all_features.stef, thorough 60 + 8 of stefc's test schemas; one "
             "draw in four is 'wild': it keeps / plants a shape that stefc refuses since 90dfff4 - dict on an array element, "
             "optional field or oneof alternative of dictionary-struct type, recursive dictionary struct, struct dictionary not "
             "named after the struct, one dictionary on string and bytes, non-optional self containment - and is expected to be "
             "REFUSED by the compiler: a refusal by stefc's validation (before any file is generated) is counted, it is outside "
             "the quantifier 'every schema the compiler accepts'; h_gen draws until the stated number of schemas is accepted; "
             "any other stefc failure is the violation stefc-generation-failed; the two shapes stefc still accepts and generates "
             "broken code for are removed by the generator's sanitize pass and triggered by fixed schemas; 12 fixed tiny "
             "regression schemas expect their refusal (the old signature fires if one is accepted again and fails), 2 still fail "
             "to compile (name clashes); fixed schemas with scripted histories for the remaining runtime findings), "
             "each accepted by the repository's idl parser, generated by stefc built from the tree, compiled, and driven by "
             "type-directed histories (recgen: wide value distributions, frame/dict limits, restart flags, none/zstd): the "
             "generated reader AND the Lean specification decoder must return the records set; a case is a history or a build; non-trivial = history with >= 2 "
             "records and a top-level field left unmodified in some record; distinct by hash of the records"),
    "trusted_base": HGEN_TB,
    "assumptions": ["'the generated package compiles' and 'generated code = model instantiated at the schema' are observed "
                    "per drawn schema, not proved (template text is not translated)",
                    "the mutator no longer avoids any call sequence (the C01-family defects of the generated record API are "
                    "repaired in /repo); the former triggers stay as scripted regression cases"],
    "level_text": ("PARTIAL. Lean: the C01 round-trip theorem restated with the field count and the primitive codec as parameters "
                   "(roundtrip_generic, _int, _float); the specification decoder is generic in the schema. The template text of "
                   "stefc is NOT translated: that generated code is the model instantiated at a schema, and that it compiles, is "
                   "only observed on the drawn schemas (compile, run, Lean decoder as independent oracle on every stream). Since the record-API "
                   "model (Stef/Api.lean, Props/C01Api.lean) the observation is sharper: for every generated schema whose calls the "
                   "serializer supports, each history is replayed call by call on the schema-generic Lean model of the generated "
                   "API and the frames it encodes must equal the real frames byte for byte (op `ap`), and `se reencode` regenerates "
                   "every frame with the proved encoder - the generated package is checked to BE the model instantiated at its "
                   "schema on every history, and the model's round trip is a theorem (api_stream_roundtrip: every schema, every history of the modelled calls, CopyFrom included)."),
}

PROPS["C04"] = {
    "lean_modules": ["Stef.Props.C04", "Stef.Props.C04Down"],
    "harness": [],
    "runner": "hgen", "runner_args": ["c04"], "oracle_prefixes": ["sd decode", "sd values"],
    "rule": ("cases = pairs (A, B) where B is A plus 1..4 fields appended to the end of random structs/oneofs (primitives, "
             "optional primitives, dict strings, existing struct/oneof/multimap types, arrays, NEW struct/oneof/multimap types "
             "that insert entries in the middle of the depth-first count list), both generated by stefc into one temporary "
             "module (quick 3 + 1 fixed pair, thorough 40 + 1); per root: forward (A writer with descriptor -> B reader = A "
             "records extended with B defaults; Lean decoder with schema B on the same bytes), downgrade (B writer with "
             "WriterOptions.Schema = A's wire schema -> A reader = records restricted to A, unknown oneof choices none; two "
             "generator streams: without / with optional fields that A lacks), refuse (B stream with descriptor and a crafted "
             "same-length same-total descriptor -> A reader must return an error); a case is a history; non-trivial = the "
             "expected record differs from the written one (forward/downgrade) or a refusal; distinct by hash"),
    "trusted_base": HGEN_TB + ["hgenlib.extendDump / restrictDump: structural maps between dumps of the two schema versions"],
    "assumptions": ["the record-level forward statement is proved for schemas that are Closed (every type name mentioned is defined) and "
                    "DictInj (no two structs share a struct dictionary) - both hold for every schema the idl parser and stefc accept "
                    "(references resolve: C12 parse_ok_wf; a struct's dictionary must carry the struct's name: stefc validate.go) but "
                    "that implication is not itself a Lean theorem (different schema types); without them the statement is FALSE "
                    "(forward_needs_dictInj, forward_needs_closed: two kernel-checked counterexamples at the level of the "
                    "specification decoder, not reachable from IDL-generated schemas)",
                    "downgrade: the theorems are about the Lean encoder model on A's tree fed the PROJECTED history (restrict / "
                    "restrictMk = what the Go writer's keepFieldMask, presence masking and `typ > fieldCount -> None` do; "
                    "keep_mask_is_projection, keepFieldMask_is_go); that the Go writer of package B run with WriterOptions.Schema = A "
                    "IS this model is tied by the runs (sd decode expects restrictDump of the truths, se reencode regenerates every "
                    "downgraded stream byte-exactly with the A encoder, equal to the downgrade encoding by downgrade_stream_bytes)",
                    "init_with_override is a theorem about the Lean specification decoder's traversal (Spec.mkNode); that the "
                    "generated Init of the Go packages performs this traversal is tied by the runs (column layout agreement on "
                    "every stream), not proved", "a pair that stefc refuses is counted and skipped",
                    "a compile failure of a pair is reported under C10 and the pair is skipped here"],
    "level_text": ("PARTIAL. Lean, for ALL schema pairs A <= B (append-only), all positions, by induction over the mutual traversal: "
                   "init_with_override (a B reader initialised with A's descriptor builds exactly A's column tree and consumes "
                   "the descriptor exactly), init_mono (same under any descriptor A accepts), own_descriptor_exact, "
                   "accepted_counts_within_own (a descriptor with more fields than the reader knows for any visited struct is "
                   "refused), refuse_root_partial, plus the one-step theorems (fetch_consumes, refuse, fetch_again, fetch_twice, "
                   "fetch_own). RECORD LEVEL (forward direction): forward_records - for every A <= B with A Closed and DictInj, every "
                   "stream that the A decoder reads without error under ANY descriptor it accepts is read by the B decoder without "
                   "error to the same number of records, the same root masks and, record by record, A's value extended by B-only "
                   "fields (simulation of decodeNode / the list decoders / decodeRecords / the frame loop with restart flags / "
                   "decodeStream over a typed relation KRel, Proofs/Forward*.lean); the unrestricted ForwardStatement is proved "
                   "FALSE (forwardStatement_false) with the two counterexamples that show why each hypothesis is needed. DOWNGRADE "
                   "(Props/C04Down.lean, same hypotheses): downgrade_records - the stream the B encoder produces on A's tree from the "
                   "projected history is byte for byte the ordinary A encoding (downgrade_stream_bytes), decodeStream A reads it "
                   "without error, dictViolations = 0, to the restricted records (downgrade_records_sound, under sound marks) with "
                   "root masks taken mod 2^|A's fields| (downgrade_root_masks); the unprojected history is REFUSED by the encoder "
                   "model (encode_refuses_wide_mask / _presence / _alternative). Both directions are also evaluated on code generated "
                   "for both versions with the Lean decoder as independent oracle. The two defects this found (downgrade-presence-overflow, "
                   "too-new-descriptor-accepted-via-multimap-key) are repaired in /repo (891ea3b, 6e4a662) and tracked as fixed."),
}



# Drop-in extensions: every lib/props_d/*.py is executed here with PROPS in scope (sorted by name), so
# that a new regenerated model / property module can be wired in without editing this file.
import glob as _glob
import os as _os
for _f in sorted(_glob.glob(_os.path.join(_os.path.dirname(_os.path.abspath(__file__)), "props_d", "*.py"))):
    exec(compile(open(_f).read(), _f, "exec"))
