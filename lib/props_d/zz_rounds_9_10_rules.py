# What the harness cases added after mutation rounds 9 and 10 cover (appended to the rule texts; DESIGN 0.6).
_add = {
    "C01": " Also: streams written in an OLDER schema (WriterOptions.Schema; the reader must return the kept fields of every record), "
           "one column above RecordAllocLimit in one frame (48 MiB frame limit, 640 x 64 KiB strings).",
    "C02": " Also: histories written with WriterOptions.Schema = an older wire schema (trailing fields / alternatives cut, cuts forced "
           "inside the optional fields of the histogram values), read back and compared on the kept fields (harness oracle).",
    "C04": " Also a fixed pair whose oneof grows from 65 to 67 alternatives (more alternatives than a struct may have fields).",
    "C06": " Also: 92 million records equal to their predecessor and ONE Flush (the writer must cut frames itself; 3 million read "
           "back in the quick tier, all of them in the thorough tier).",
    "C09": " Also section oneofhist: a oneof that held an alternative with nested storage, was switched away, is cloned / copied and "
           "then both sides are switched back and written; section shared: SetResource / CopyFrom between frozen values whose "
           "attribute lists are prefixes of one another.",
    "C10": " Also fixed schemas with field-less structs (fx_emptystruct) and with root + dict(..) on one struct (hazards).",
    "C12": " Also SEQUENCES of parses in one process: every first text ends the parse in a particular lexer state (after CR, inside "
           "a comment, at an error), every second text starts with the character that state is sensitive to.",
    "C15": " Also one chunk near the 64 MiB frame limit split over many messages (real assembler, scripted source).",
    "C16": " A report or acknowledgement that has not been sent 12 s after the last batch is a failure (response-never-sent); the "
           "scripted consumer's permanent / transient errors carry varied causes (gRPC statuses of retryable and non-retryable "
           "codes, wrapped errors).",
    "C18": " Also attribute maps that hold one key several times (built through the OTLP/JSON unmarshaler; inputs the JSON round "
           "trip does not keep exactly are skipped and counted), judged by the harness's multiset oracle only.",
    "C19": " Also Responder liveness scripts against a scripted stream (an accepted batch handed over while the previous response "
           "is held, then silence: its acknowledgement must still go out within 12 s).",
    "C20": " Every decoded string is kept and compared again after ALL frames of its case were loaded and decoded.",
}
for _p, _t in _add.items():
    if _t not in PROPS[_p]["rule"]:
        PROPS[_p]["rule"] = PROPS[_p]["rule"] + _t

# round 11
_add11 = {
    "C01": " One small frame in which a struct array grows again and again (per-record allocation budget).",
    "C02": " One small frame in which a struct array grows again and again: a valid stream keeps decoding whatever its records "
           "allocate in total.",
    "C03": " Every byte of the variable header of streams with a descriptor lowered (0, 1, one less), on random bases and on "
           "hand-built ones whose dictionary-struct columns are long.",
    "C05": " Also: a small frame in which a struct array grows again and again; frames whose last column bypasses the reader's "
           "64 KiB buffer with prefixes that end at a frame end, read from a source that reports its end together with the last bytes.",
    "C08": " Also dictionaries of thousands of entries, reset at a large limit (1 MiB, 256 KiB), the same values written again.",
    "C13": " Also texts with the field modifiers in the other order (`optional dict(..)`, refused by the grammar): a parser that "
           "accepts them is judged on print -> parse like any accepted schema.",
    "C19": " Histogram points without buckets and bounds (count and sum only) are part of the generated batches.",
    "C20": " The signed codec is driven on its own over sequences that wrap (consecutive values 2^63 apart), extremes and sign changes.",
}
for _p, _t in _add11.items():
    if _t not in PROPS[_p]["rule"]:
        PROPS[_p]["rule"] = PROPS[_p]["rule"] + _t
