# C15 (and the data path of C14): the gRPC chunk transport is REGENERATED from the source on every run.
# extract/chunkflow.go translates grpcChunkSource.recvMsg, chunkAssembler.recvMsg / Read (go/grpc/server.go) and
# grpcWriter.WriteChunk (go/grpc/client.go) statement by statement into Gen/ChunkFlow.lean (data of the statement
# language of Stef/ChunkFlowSem.lean), checks the shape of newChunkAssembler / Stats / newGrpcChunkSource and that
# StreamServer.Stream hands a NEW assembler over a NEW source to the callback; Proofs/ChunkGen proves the
# interpreted bodies equal to the hand model Stef/Chunk.lean on every state; Props/C15Gen restates the C15
# theorems for them. (design_parts/chunkflow.md)
PROPS["C15"]["lean_modules"].append("Stef.Props.C15Gen")
PROPS["C15"]["needs_gen"] = list(PROPS["C15"].get("needs_gen", ("Tables", "Consts", "CallSites"))) + ["ChunkFlow"]
PROPS["C15"]["level_text"] += (
    " Props/C15Gen: the same theorems for the functions REGENERATED from the current source (grpcChunkSource.recvMsg, "
    "chunkAssembler.recvMsg and Read, grpcWriter.WriteChunk, translated statement by statement by extract/chunkflow.go "
    "and proved equal to the hand model on every state in Proofs/ChunkGen: srcRecvMsg_eq, asmRecvMsg_eq + recvSpec_chunk, "
    "read_eq, run_eq, writeChunk_eq): gen_read_is_hand_model, gen_run_is_hand_model, gen_writeChunk_is_hand_model, "
    "gen_bytes_unchanged, gen_delivered_is_prefix, gen_chunk_aligned, gen_writer_one_message_per_chunk, gen_end_to_end "
    "(regenerated writer -> FIFO -> regenerated assembler), gen_read_safe (no slice out of range, the accumulation loop "
    "ends, statsMux used correctly, n <= len(p), from every state), gen_fresh_per_stream (regenerated facts: "
    "StreamServer.Stream makes a new zero assembler over a new source for each stream; no goroutine, channel, defer or "
    "sync.Pool in the transport functions - the generator fails on those), gen_writer_shape (one Send per chunk, no loop, "
    "the message is built in the request's own buffer), gen_source_counts.")
PROPS["C15"]["trusted_base"] = [
    t for t in PROPS["C15"].get("trusted_base", [])
    if not t.startswith("Stef/Chunk.lean is a hand transcription")
] + [
    "Stef/Chunk.lean is no longer trusted as a transcription: chunkAssembler.Read / recvMsg, grpcChunkSource.recvMsg and "
    "grpcWriter.WriteChunk are regenerated from the current source (Gen/ChunkFlow.lean) and proved equal to Chunk.lean on "
    "every state (Proofs/ChunkGen); trusted instead: the meaning given to each whitelisted statement / expression in "
    "Stef/ChunkFlowSem.lean (value semantics of []byte as nil-or-content: capacity and aliasing are not modelled; int / "
    "uint64 as Nat; an error is a Bool; the gRPC stream is the finite list of messages still to arrive and Recv on the "
    "empty list fails for good; Send succeeds or fails as an input) and the translator extract/chunkflow.go; the hand "
    "model is additionally tied op-for-op by h_grpc",
]
# the data path of C14 ("a stream that the server's reader accepts") runs over the same transport
if "C14" in PROPS:
    PROPS["C14"]["lean_modules"].append("Stef.Props.C15Gen")
    PROPS["C14"]["needs_gen"] = list(PROPS["C14"].get("needs_gen", ("Tables", "Consts", "CallSites"))) + ["ChunkFlow"]
    PROPS["C14"]["level_text"] += (" Props/C15Gen (the chunk transport under the handshake's data path, regenerated from "
                                   "go/grpc/server.go and client.go): gen_end_to_end, gen_bytes_unchanged, gen_chunk_aligned.")
