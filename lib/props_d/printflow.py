# C13, printer + wire-schema construction: Schema.PrettyPrint with its helpers (sortedList, prettyPrintEnum / Multimap / Struct /
# StructField / FieldType) and NewWireSchema / schemaToStructCountTree / setStructCountsFromTree are REGENERATED from the source on
# every run (generator PrintFlow = extract/printflow.go -> lean/Stef/Gen/PrintFlow.lean), proved equal to the hand models
# (Proofs/PrintFlowGen) and the print/parse and wire-order theorems are restated for the regenerated functions (Props/C13PrintGen).
PROPS["C13"]["lean_modules"].append("Stef.Props.C13PrintGen")
PROPS["C13"]["needs_gen"] = list(PROPS["C13"].get("needs_gen", ("Tables", "Consts", "CallSites"))) + ["PrintFlow"]
PROPS["C13"]["level_text"] += (
    " Props/C13PrintGen: the print/parse and wire-order theorems for the functions REGENERATED from the current source "
    "(Schema.PrettyPrint, sortedList, prettyPrintEnum, prettyPrintMultimap, prettyPrintStruct, prettyPrintStructField, "
    "prettyPrintFieldType as `Id.run do` blocks; NewWireSchema, schemaToStructCountTree, setStructCountsFromTree in `Except GErr`, "
    "translated statement by statement by extract/printflow.go over the vocabulary of Stef/PrintFlowSem.lean and proved equal to "
    "Idl.prettyPrint (for every schema whose maps have distinct keys: prettyPrint_eq) and to the counts of Idl.wireEntries "
    "(whenever the hand model succeeds: newWireSchema_eq) in Proofs/PrintFlowGen): gen_prettyPrint_parsed, gen_print_parse "
    "(parse(Gen.prettyPrint s) = ok (s sorted by name) for every parsed s), gen_print_parse_empty, gen_print_parse_print, "
    "gen_newWireSchema (no panic, the hand model's counts), gen_wire_order_counts + gen_wire_order_parsed (the generated Init "
    "consumes exactly the counts the regenerated NewWireSchema lists, in order, recursion included), gen_print_parse_safe "
    "(the full statement with the regenerated printer and NewWireSchema on both schemas).")
PROPS["C13"]["trusted_base"] = PROPS["C13"].get("trusted_base", []) + [
    "PrettyPrint and NewWireSchema/structCountTree of Stef/SchemaPrint.lean, Stef/WireSchema.lean are no longer trusted as "
    "transcriptions: they are regenerated (Gen/PrintFlow.lean) and proved equal to the hand models (Proofs/PrintFlowGen: the printer "
    "on every schema whose maps have distinct keys, the wire schema on every input for which the hand model returns counts); trusted "
    "instead: the translator extract/printflow.go and the vocabulary Stef/PrintFlowSem.lean (Go strings = List Char with literals "
    "spelled out; FieldType read through Go's field names on the FType representation of Stef/Schema.lean, arrays one level deep; "
    "map[string]*T = list of values keyed by .Name, range over it only to collect keys that are sorted next; StructDef/MultimapDef "
    "= lookup by name in the schema; map[string]bool = list of keys; %s/%d/strings.Join/sort.Strings as defined there; written-through "
    "pointer parameters as value-in/value-out; the recursion of schemaToStructCountTree and setStructCountsFromTree runs on fuel)",
]
