# LoadFlow: the header / frame LOADING functions of the reader - ReadColumnSet.ResetData/ReadSizesFrom/ReadDataFrom,
# ReadBufs.ReadFrom (go/pkg/recordbuf.go), BaseReader.NextFrame/ReadFixedHeader/ReadVarHeader (go/pkg/basereader.go) -
# regenerated as Lean terms (extract/loadflow.go -> Stef/Gen/LoadFlow.lean, vocabulary Stef/LoadFlowSem.lean, on top of the
# regenerated frame decoder Gen/FrameFlow.lean), proved equal to the hand models Stef.Sizes.readSizes and
# Stef.ReaderIO.readCols/readFrom/nextFrame/readFixedHeader/readVarHeaderBytes (Proofs/LoadFlowGen.lean); the C03 / C05 /
# C07 theorems restated for the regenerated functions (Props/C03Gen.lean). (design_parts/loadflow.md, section 0.2k)
for _p in ("C03", "C05", "C07"):
    if _p not in PROPS:
        continue
    PROPS[_p]["lean_modules"].append("Stef.Props.C03Gen")
    _g = list(PROPS[_p].get("needs_gen", ("Tables", "Consts", "CallSites")))
    for _n in ("FrameFlow", "LoadFlow"):   # Gen/LoadFlow.lean is built on Gen/FrameFlow.lean
        if _n not in _g:
            _g.append(_n)
    PROPS[_p]["needs_gen"] = _g
    PROPS[_p]["level_text"] += (
        " Props/C03Gen: the bodies of ReadColumnSet.ResetData/ReadSizesFrom/ReadDataFrom, ReadBufs.ReadFrom and "
        "BaseReader.NextFrame/ReadFixedHeader/ReadVarHeader (up to the bytes handed to VarHeader.Deserialize) of the CURRENT "
        "go/pkg/recordbuf.go and basereader.go, translated statement by statement (Gen/LoadFlow.lean; the recursion over the "
        "column tree and the loops over s.subColumns as mutual structural recursion), equal the hand models Stef.Sizes.readSizes "
        "and Stef.ReaderIO.readCols/readFrom/nextFrame/readFixedHeader/readVarHeaderBytes on every tree and every state of an "
        "uncompressed stream (gen_sizes_is_hand_model, gen_load_is_hand_model); restated for them: gen_column_budget_conserved, "
        "gen_frame_columns_alloc_bounded (every EnsureLen of one ReadFrom call, error paths included, within readLimit - also "
        "for a compressed stream), gen_nextFrame_progress, gen_nextFrame_chunking, gen_readFixedHeader_chunking, "
        "gen_readVarHeader_chunking.")
    PROPS[_p]["trusted_base"] = PROPS[_p].get("trusted_base", []) + [
        "Stef/LoadFlowSem.lean: the vocabulary of the LoadFlow translation (Go integers as Nat; a []byte as its content, "
        "make/EnsureLen give zeros - what a reused buffer holds before the ReadFull that fills it is not modelled; the two "
        "pointer parameters of ReadSizesFrom as the hand model's Sizes.St; a ByteAndBlockReader parameter as the frame "
        "decoder; io.ReadFull / binary.ReadUvarint as the standard library models of Stef/ReaderIO.lean over the regenerated "
        "FrameDecoder.Read / ReadByte; r.Source as the bufio model inside the decoder state); extract/loadflow.go: the "
        "translator (whitelisted subset, dies on anything else); ReadVarHeader after `bytes.NewBuffer(hdrBytes)` is only "
        "checked not to mention r.FrameDecoder / r.Source"]
