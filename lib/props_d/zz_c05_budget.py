# C05: "a reader of the surviving prefix returns exactly the records of the frames that are completely contained in it":
# a frame that is complete must be readable whatever its records allocate in total - the per-record budget theorem
# (Props/Budget over the regenerated facts of Gen/Budget) is part of that.
if "Stef.Props.Budget" not in PROPS["C05"]["lean_modules"]:
    PROPS["C05"]["lean_modules"].append("Stef.Props.Budget")
_ng = list(PROPS["C05"].get("needs_gen", ("Tables", "Consts", "CallSites")))
if "Budget" not in _ng:
    _ng.append("Budget")
PROPS["C05"]["needs_gen"] = _ng
