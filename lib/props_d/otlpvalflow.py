# C18 / C17, attribute values: the comparison functions the sorting modes merge by (otlptools/compare.go: Map2attrs, CmpBool,
# CmpInt64, CmpAttrs, CmpVal, CmpResourceSpans, CmpScopeSpans) and the OTLP -> STEF value conversion (otlptools/otlpval2tef.go:
# otlpValueToTefAnyValue, MapUnsorted, MapSorted) are REGENERATED from the source on every run (generator OtlpValFlow =
# extract/otlpvalflow.go -> lean/Stef/Gen/OtlpValFlow.lean), proved equal to the hand models of Stef/Otlp/Value.lean and
# Stef/Otlp/Traces.lean (Proofs/OtlpValGen) and the theorems that rest on them are restated for the regenerated functions
# (Props/C18ValGen); so is the way back, otlptools/tef2otlpval.go (tefAnyValueToOtlp, TefToOtlpMap).
for _p in ("C18", "C17"):
    PROPS[_p]["lean_modules"].append("Stef.Props.C18ValGen")
    PROPS[_p]["needs_gen"] = list(PROPS[_p].get("needs_gen", ("Tables", "Consts", "CallSites"))) + ["OtlpValFlow"]
    PROPS[_p]["trusted_base"] = PROPS[_p].get("trusted_base", []) + [
        "CmpVal/CmpAttrs/CmpBool/CmpInt64/CmpResourceSpans/CmpScopeSpans of Stef/Otlp/Traces.lean and otlpToTef/"
        "SAttrs.mapUnsorted/SAttrs.mapSorted/tefToOtlp/SAttrs.toOtlp of Stef/Otlp/Value.lean are no longer trusted as transcriptions: they are regenerated "
        "(Gen/OtlpValFlow.lean) and proved equal to the hand models on every input and state (Proofs/OtlpValGen); trusted instead: "
        "the translator extract/otlpvalflow.go and the vocabulary Stef/OtlpValFlowSem.lean (pcommon.Value/Map/Slice read through "
        "pdata's accessor names on the value tree, pcommon.ValueType numbering; the generated otelstef setters, SetType, EnsureLen, "
        "At, Value, SetKey as the primitives of Stef/Otlp/Value.lean on store + visible length, reached through pointers = partial "
        "lenses; strings.Compare/bytes.Compare, pkg.Float64Compare = the model's float64Compare, cmp.Compare on uint32/int64/"
        "float64, pkg.EnsureLen, slices.SortFunc = insertion sort, Map.Range in stored order; a written pcommon.Value/Slice/Map = "
        "pointer to the value tree with SetStr.., SetEmptySlice/Map/Bytes, AppendEmpty, PutEmpty (first entry with the key is reset, "
        "else appended) as defined there; recursion on fuel)",
    ]
PROPS["C18"]["level_text"] += (
    " Props/C18ValGen: the comparison functions REGENERATED from the current source (CmpVal and CmpAttrs as a mutual recursion on "
    "fuel, CmpBool, CmpInt64, Map2attrs, CmpResourceSpans, CmpScopeSpans; translated statement by statement by extract/otlpvalflow.go "
    "into the monad of Stef/OtlpValFlowSem.lean and proved equal to Otlp.cmpVal / cmpAttrs / cmpResourceSpans / cmpScopeSpans for ALL "
    "operands in Proofs/OtlpValGen: cmp_eq, cmpResourceSpans_eq, cmpScopeSpans_eq - in particular CmpVal never panics): "
    "gen_cmpVal_eq, gen_cmpAttrs_eq, gen_cmpResourceSpans_eq, gen_cmpScopeSpans_eq, gen_cmpVal_faithful, "
    "gen_merge_only_equal_resources, gen_merge_only_equal_scopes (the sorting mode merges only what a record cannot tell apart, for "
    "the comparison functions as the source has them), gen_sort_comparators; and MapSorted / MapUnsorted / otlpValueToTefAnyValue "
    "(gen_mapSorted_stored: span attributes in key order whatever the re-used destination and the scratch slice held).")
PROPS["C17"]["level_text"] += (
    " Props/C18ValGen: the OTLP -> STEF value conversion REGENERATED from the current source (otlpValueToTefAnyValue on fuel, "
    "MapUnsorted, MapSorted; extract/otlpvalflow.go, proved equal to otlpToTef / SAttrs.mapUnsorted / SAttrs.mapSorted on every value "
    "and every re-used destination in Proofs/OtlpValGen: otlpValueToTefAnyValue_eq, mapUnsorted_eq, mapSorted_eq): "
    "gen_otlpValueToTefAnyValue_eq, gen_anyvalue_stored, gen_anyvalue_roundtrip, gen_mapUnsorted_stored, gen_attributes_roundtrip, "
    "gen_mapSorted_stored; and the way back (tefAnyValueToOtlp on fuel, TefToOtlpMap; proved equal to tefToOtlp / SAttrs.toOtlp for "
    "every well-formed otelstef value written into an empty destination: tefAnyValueToOtlp_eq, tefToOtlpMap_eq, with wf_otlpToTef: "
    "whatever otlpValueToTefAnyValue writes is well-formed): gen_tefAnyValueToOtlp_eq (never errDecode, never a panic), "
    "gen_anyvalue_roundtrip_both and gen_attributes_roundtrip_both (the round trips of Props/C17 with BOTH directions as the source "
    "has them).")
