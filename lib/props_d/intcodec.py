# The integer, bool, string and dictionary-string codecs AND the byte buffers under them are REGENERATED
# (design_parts/intcodec.md): extract/intcodec.go translates, statement by statement, BytesWriter.{Bytes,WriteStringBytes,
# WriteUvarint,WriteVarint} and BytesReader.{ReadVarint,ReadStringMapped} of go/pkg/membuffer.go and the Encode / Decode /
# Reset / IsEqual bodies of go/pkg/codecs/{uint64,int64,bool,string,stringdict}.go into Gen/IntCodec.lean (vocabulary:
# Stef/IntCodecSem.lean); Proofs/IntCodecGen proves them equal to the hand model of Stef/Codec.lean (Dod, boolEncodeW /
# boolDecodeR, strEncode / strDecode, strDictEncode / strDictDecode, Varint) on every state; Props/C20IntGen restates
# the C20 theorems for them. C01 (integer / string fields round-trip), C02 (the bytes are the specification's, dictionary
# admission and reference numbers) and C03 (no Decode panics on hostile bytes) rest on the same codecs.
for _p in ("C20", "C01", "C02", "C03"):
    PROPS[_p]["lean_modules"].append("Stef.Props.C20IntGen")
    PROPS[_p]["needs_gen"] = list(PROPS[_p].get("needs_gen", ("Tables", "Consts", "CallSites"))) + ["IntCodec"]

PROPS["C20"]["level_text"] += (
    " Props/C20IntGen: the integer / bool / string / dictionary-string codecs and the byte buffer methods under them "
    "REGENERATED from the current go/pkg/membuffer.go and go/pkg/codecs/{uint64,int64,bool,string,stringdict}.go "
    "(extract/intcodec.go, one Lean let / if / Option.bind per Go statement; int wrapped at 64 bits, int64 and uint64 as "
    "BitVec 64 with signed resp. unsigned operators, string and []byte as byte lists, map[string]int as an association "
    "list, slice / index out of range as `none`) and proved equal to the hand model in Proofs/IntCodecGen "
    "(writeVarint_eq, readVarint_none/some against binary.Uvarint as modelled, readStringMapped_*, u64_encode_eq, "
    "u64_decode_none/some, i64_*, bool_*, str_encode_eq, str_decode_eq, sd_encode_eq with the Go map as the list of the "
    "model, sd_decode_eq): gen_varint_roundtrip, gen_readVarint_total, gen_readUvarint_total, gen_dod_encode_is_model, gen_int64_is_uint64, "
    "gen_dod_reset, gen_dod_roundtrip (every sequence, regenerated Encode then regenerated Decode), gen_dod_decode_total, "
    "gen_bool_roundtrip, gen_string_roundtrip, gen_string_decode_total, gen_dict_reset, gen_dict_encode_is_model (bytes, "
    "dictionary, frame bytes and len+16 dictionary bytes accounted exactly), gen_dict_admission (present => reference and "
    "never re-added; absent => added at len(dict) iff longer than 1 byte), gen_dictstring_sync (both sides end with the "
    "same dictionary), gen_dict_decode_total (no panic - d.dict.dict[refNum] never out of range - on every dictionary and "
    "every input).")
PROPS["C20"]["trusted_base"] = PROPS["C20"].get("trusted_base", []) + [
    "integer / bool / string / dictionary-string codecs and the BytesWriter / BytesReader methods they call are no longer "
    "trusted as transcriptions: they are regenerated from the current source (Gen/IntCodec.lean) and proved equal to "
    "Stef/Codec.lean; trusted instead: the meaning given to each Go type / operator / whitelisted call in "
    "Stef/IntCodecSem.lean (64-bit int / int64 / uint64; string and []byte as byte lists - aliasing, capacity and "
    "unsafe.String's sharing of the buffer are not modelled; map[string]int as an association list with distinct keys, a "
    "nil map is not distinguished from an empty one; pointers to structs of the package and embedded structs as nested "
    "values, so the sharing of one dictionary or limiter between codecs is not modelled; binary.Uvarint / AppendUvarint as "
    "written in IntCodecSem.uvarintAux / Stef/Varint.lean; *SizeLimiter as Stef/Limiter.lean with sizes in Nat; lengths "
    "below 2^62 resp. 2^63 as hypotheses) and the translator extract/intcodec.go (which checks the signatures of the "
    "bit-stream and limiter methods it maps and that ErrInvalidRefNum is an errors.New variable)",
]
for _p, _t in (("C01", " Props/C20IntGen (integer, bool, string and dictionary-string codecs regenerated from the source): "
                       "gen_dod_roundtrip, gen_string_roundtrip, gen_dictstring_sync, gen_bool_roundtrip."),
               ("C02", " Props/C20IntGen (codecs regenerated from the source): gen_dod_encode_is_model, gen_dict_encode_is_model, "
                       "gen_dict_admission, gen_dict_reset - the bytes, the admission rule `longer than 1 byte`, the reference "
                       "numbers and the accounted sizes are those of the model for the code as it is now."),
               ("C03", " Props/C20IntGen (decoders regenerated from the source): gen_readVarint_total, gen_readUvarint_total, gen_dod_decode_total, "
                       "gen_string_decode_total, gen_dict_decode_total - no Decode of these codecs panics on any bytes.")):
    if "level_text" in PROPS[_p]:
        PROPS[_p]["level_text"] += _t
