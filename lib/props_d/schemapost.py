# C12 (and C13, which parses what it prints), schema post-processing: Schema.ResolveRefs / resolveFieldType, computeRecursive /
# computeRecursiveStruct / Multimap / Type / markRecursive / findLast and Schema.PruneUnused / markReachableFromStruct / Multimap /
# FieldType of go/pkg/schema/schema.go are REGENERATED from the source on every run (generator SchemaPost = extract/schemapost.go ->
# lean/Stef/Gen/SchemaPost.lean), proved equal to the hand models of Stef/Idl.lean (Proofs/SchemaPostResolve, SchemaPostRec,
# SchemaPostReach, SchemaPostGen) and the C12 theorems are restated for the parser with the regenerated post-processing
# (Props/C12PostGen, Props/C13PostGen).
PROPS["C12"]["lean_modules"].append("Stef.Props.C12PostGen")
PROPS["C12"]["needs_gen"] = list(PROPS["C12"].get("needs_gen", ("Tables", "Consts", "CallSites"))) + ["SchemaPost"]
PROPS["C12"]["level_text"] += (
    " Props/C12PostGen: the same theorems for genPostParse = the hand lexer and grammar phase followed by the post-processing "
    "REGENERATED from the current schema.go (ResolveRefs, resolveFieldType, computeRecursive, computeRecursiveStruct / Multimap / "
    "Type, markRecursive, findLast, PruneUnused, markReachableFromStruct / Multimap / FieldType, translated statement by statement "
    "by extract/schemapost.go into `Except PErr` do blocks over the vocabulary of Stef/SchemaPostSem.lean - Go errors, panics, nil "
    "dereferences and index errors as distinct outcomes, pointers written through as value-in/value-out with write-back to the "
    "enclosing objects, recursion on fuel - and proved equal to Idl.resolveRefs / computeRecursive / pruneUnused in "
    "Proofs/SchemaPostResolve (resolveFieldType_ok/_err, resolveRefs_ok/_err), Proofs/SchemaPostRec (findLast_eq, markRecursive_eq, "
    "computeRecursive_eq), Proofs/SchemaPostReach (pruneUnused_eq_full) and put together in Proofs/SchemaPostGen "
    "(genParseTokens_eq): gen_post_parse_eq (for EVERY input the same schema, the same positioned error, never a panic, the fuel "
    "postFuel is enough), gen_post_parse_ok_wf, gen_post_parse_err_pos, gen_post_parse_no_panic, gen_resolveFieldType_ok / _err "
    "(one reference: accepted exactly when it names one definition, 'unknown type: N' / 'ambiguous type: N' otherwise), "
    "gen_computeRecursive_eq, gen_pruneUnused_eq (what is kept, and the unused definitions returned sorted by name).")
PROPS["C12"]["trusted_base"] = PROPS["C12"].get("trusted_base", []) + [
    "the post-processing part of Stef/Idl.lean (resolveRefs, computeRecursive, pruneUnused) is no longer trusted as a transcription: "
    "it is regenerated (Gen/SchemaPost.lean) and proved equal to the hand model on every schema the grammar phase can produce "
    "(Proofs/SchemaPostGen); trusted instead: the translator extract/schemapost.go and the vocabulary Stef/SchemaPostSem.lean + "
    "Stef/PrintFlowSem.lean (FieldType on the FType representation, arrays one level deep, writes that leave it are a distinct "
    "error; StructDef/MultimapDef = lookup by name, the assignments to them in resolveFieldType store nothing; map[string]*T = "
    "list of values keyed by .Name, ranged over in LIST order in ResolveRefs / computeRecursive / PruneUnused (Go: unspecified "
    "order; order independence is argued in Stef/Idl.lean, not proved); *StructField / *MultimapField identified by owner and "
    "index; the unexported `recursive` flags kept in the side table Idl.Marks during computeRecursive and applied at its end; the "
    "three SetRecursive methods and the interface recursable are NOT translated - their meaning is Recursable.setRecursive = "
    "Idl.setRecursive, and the generator fails when their source text changes or the flag is written elsewhere; "
    "sort.Slice by .Name = insertion sort by name; int = Int). PrunedForRoot / copyPruned* are not on the parser path and not "
    "translated. The grammar phase (parser.go, utils.go) stays a hand transcription.",
]

PROPS["C13"]["lean_modules"].append("Stef.Props.C13PostGen")
PROPS["C13"]["needs_gen"] = list(PROPS["C13"].get("needs_gen", ("Tables", "Consts", "CallSites"))) + ["SchemaPost"]
PROPS["C13"]["level_text"] += (
    " Props/C13PostGen: gen_post_print_parse, the print -> parse round trip with ResolveRefs / computeRecursive / PruneUnused "
    "regenerated from schema.go in both parses (genPostParse of Proofs/SchemaPostGen, see C12).")
