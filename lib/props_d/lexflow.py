# C12, lexer half (and C13, which parses what it prints): the IDL lexer of go/pkg/idl/lexer.go is REGENERATED from the source on
# every run (generator LexFlow = extract/lexflow.go -> lean/Stef/Gen/LexFlow.lean), proved equal to the hand lexer of Stef/Idl.lean
# (Proofs/LexFlowGen) and the C12 theorems are restated for the hand parser fed by the regenerated lexer (Props/C12Gen).
PROPS["C12"]["lean_modules"].append("Stef.Props.C12Gen")
PROPS["C12"]["needs_gen"] = list(PROPS["C12"].get("needs_gen", ("Tables", "Consts", "CallSites"))) + ["LexFlow"]
PROPS["C12"]["level_text"] += (
    " Props/C12Gen: the same theorems for genParse = the hand parser fed by the lexer REGENERATED from the current lexer.go (the "
    "token constants, the keyword table, isDigit, isNumberContinuation, NewLexer, Next, skipWhiteSpaceOrComment, skipComment, "
    "readNextRune, readIdentOrKeyword, readUint64Number and the getters, translated statement by statement by extract/lexflow.go "
    "into the monad of Stef/LexFlowSem.lean - loops with break, early returns - and proved equal to LexSt.adv, skipComment, skipWs, "
    "readIdentChars + kwOfName, readNumChars + parseUint, nextTok and lex on every lexer object without pending read error in "
    "Proofs/LexFlowGen: readNextRune_run, skipComment_run, skipWs_run, readIdent_run, readNum_run, next_run, newLexer_run, "
    "genLex_eq): gen_lex_eq (NewLexer + Next until EOF, read through Token/Ident/Uint64Number/TokenStartPos, is the hand model's "
    "token sequence for EVERY input), gen_lex_never_stuck (no translated for loop exceeds len(unread input)+1 rounds, EOF is "
    "reached within len(input)+2 calls of Next), gen_parse_eq, gen_parse_ok_wf, gen_parse_err_pos, gen_parse_no_panic, "
    "gen_parse_fuel_sufficient, gen_enum_members_unique, gen_next_eq, gen_keywords_eq (the keyword table in any order).")
PROPS["C12"]["trusted_base"] = PROPS["C12"].get("trusted_base", []) + [
    "the lexer part of Stef/Idl.lean (LexSt.adv .. lex) is no longer trusted as a transcription: it is regenerated "
    "(Gen/LexFlow.lean) and proved equal to the hand model on every lexer object (Proofs/LexFlowGen); trusted instead: the "
    "translator extract/lexflow.go, the vocabulary Stef/LexFlowSem.lean (the Lexer object field by field; ReadRune delivers the next "
    "Char with size 1 and fails only with io.EOF; unicode.IsLetter/IsDigit/IsSpace = their ASCII restrictions; "
    "strconv.ParseUint(s, 0, 64) = Stef.Idl.parseUint; uint position counters without wrap-around; fmt.Sprintf kept symbolically) "
    "and the reading of a token code + Ident()/Uint64Number() as a Tok (tokOf in Proofs/LexFlowGen: how parser.go compares "
    "Token() with the t* constants). The parser, utils.go and the schema post-processing stay a hand transcription.",
]

PROPS["C13"]["lean_modules"].append("Stef.Props.C13Lex")
PROPS["C13"]["needs_gen"] = list(PROPS["C13"].get("needs_gen", ("Tables", "Consts", "CallSites"))) + ["LexFlow"]
PROPS["C13"]["level_text"] += (
    " Props/C13Lex: gen_print_parse, the print -> parse round trip with the lexer regenerated from lexer.go as the token source of "
    "both parses (genParse of Proofs/LexFlowGen, see C12).")
