# The receiver's Responder is REGENERATED (design_parts/responderflow.md): extract/responderflow.go translates the
# bodies of Run / sendBadDataResponse / composeBadDataResponse / ScheduleAck / ScheduleBadDataResponse / Stop of
# otelcol/internal/stefreceiver/internal/responder.go and the loop of onStream (stef.go) statement by statement into
# Gen/ResponderFlow.lean (data of the statement languages of Stef/ResponderFlowSem.lean); Proofs/ResponderGen proves
# that the small-step machine running this data makes exactly the Responder transitions of the hand LTS
# (Stef/Receiver.lean), Props/C16Gen restates the C16 theorems for the receiver with the regenerated Responder.
PROPS["C16"]["lean_modules"].append("Stef.Props.C16Gen")
PROPS["C16"]["needs_gen"] = list(PROPS["C16"].get("needs_gen", ("Tables", "Consts", "CallSites"))) + ["ResponderFlow"]
PROPS["C16"]["trusted_base"] = list(PROPS["C16"].get("trusted_base", [])) + [
    "Stef/Receiver.lean: the Responder half of the LTS (Run's select loop and its tick arm, sendBadDataResponse, "
    "composeBadDataResponse, ScheduleAck / ScheduleBadDataResponse / Stop, the channel capacity) and the per-iteration "
    "behaviour of onStream's loop are no longer trusted as transcriptions: they are regenerated from the current source "
    "(Gen/ResponderFlow.lean) and proved to make exactly the LTS's transitions (Proofs/ResponderGen: sim, grun_sound, "
    "lts_step_is_machine_step, loopIter_eq, iter_is_lts). Trusted instead: the meaning given to each whitelisted statement "
    "in Stef/ResponderFlowSem.lean - in particular its GRANULARITY (one step = one potentially blocking operation: a select, "
    "a channel send, SendDataResponse, followed by all non-blocking statements up to the next one, so the atomic load after "
    "`<-t.C` and the lastError.Store after a failed send belong to the step before them, exactly as in the hand LTS), uint64 "
    "as Nat, Go's select = any ready arm / default only when no channel arm is ready, a ticker that may fire at any time - "
    "and the translator extract/responderflow.go. 'badDataMaxBatchSize = 10 is transcribed, not extracted' no longer holds: "
    "it is extracted (chan_cap); the 10 ms interval stays outside the model.",
]
PROPS["C16"]["level_text"] += (
    " Props/C16Gen: the Responder REGENERATED from responder.go (arms of Run's select loop, sendBadDataResponse, "
    "composeBadDataResponse, ScheduleAck, ScheduleBadDataResponse, Stop, channel capacity; statement by statement from the "
    "Go AST) makes exactly the Responder transitions of the LTS - responder_is_lts (every outcome of every blocking "
    "operation, enabledness and effect, program counter by program counter), lts_has_no_other_step, "
    "responder_runs_are_lts_runs (every interleaving with the decoding loop); facts stop_arm_sends_nothing, "
    "schedule_bad_blocks (a blocking send, capacity = the model's), tick_loads_before_drain, schedule_ack_stores, "
    "run_never_panics; gen_ack_monotone, gen_ack_history, gen_ack_after_consume, gen_ack_le_decoded, "
    "gen_bad_batch_once_exact, gen_bad_data_gets_reported for the receiver with the regenerated Responder; "
    "onstream_loop_is_lts (one iteration of the regenerated loop body of onStream = one pass of the LTS's decoding loop "
    "with the same data: ScheduleAck(to), BadData{from+1, to}). A change of responder.go / the loop that is not an "
    "equivalent rewriting breaks a named proof of Proofs/ResponderGen, one outside the subset fails generator ResponderFlow.")
