# The per-point functions of the metrics converters are REGENERATED (design_parts/pointflow.md, DESIGN 0.2v): extract/pointflow.go
# translates, statement by statement, EVERY function of go/pdata/metrics/internal/baseotlptostef.go (ConvertNumDatapoint,
# ConvertExemplars, ConvertHistogram, ConvertExpHistogram, ConvertSummary, expBucketsToStef, AggregationTemporalityToStef) and of
# go/pdata/metrics/internal/basesteftotolp.go (convertNumberPoint, convertExemplars, ConvertExemplar, AppendOTLPPoint,
# aggregationTemporalityToOtlp, convertHistogramPoint, convertExpHistogramPoint, expBucketsFromStef, convertSumaryPoint,
# quantilesFromStef) into Gen/PointFlow.lean (vocabulary: Stef/PointFlowSem.lean). Proofs/PointFlowGen proves them equal to the
# point functions of the hand model Stef/Otlp/Metrics.lean on every input and every state of the re-used destination;
# Props/C17Gen restates that and derives the per-point round trips of C17 for the regenerated functions.
PROPS["C17"]["lean_modules"].append("Stef.Props.C17Gen")
PROPS["C17"]["needs_gen"] = list(PROPS["C17"].get("needs_gen", ("Tables", "Consts", "CallSites"))) + ["PointFlow"]
PROPS["C17"]["level_text"] += (
    " Props/C17Gen: the per-point conversion REGENERATED from the current source (extract/pointflow.go: one Lean statement per Go "
    "statement in a state monad with early return and panic; written objects - the re-used otelstef.Point on the way in, the pdata "
    "point on the way out - are lenses into the heap, accessors compose lenses, setters are updates; every method, conversion and "
    "constant is whitelisted in a table, the signatures of the 92 otelstef methods used are checked against go/otel/otelstef, the "
    "otelstef enumeration values are regenerated). Proved equal to the hand model on EVERY source point and EVERY previous content of "
    "the re-used destination (Proofs/PointFlowGen; loops by induction, no At(i) out of range, no slice-to-array panic): "
    "gen_convertNumDatapoint / Histogram / ExpHistogram / Summary / Exemplars_is_hand_model (OTLP -> STEF: SetType then Set / Unset "
    "of the optional sum, min, max against a stale histogram, the bucket length check, quantile and exemplar loops with the scratch "
    "TempAttrs), gen_convertNumberPoint / HistogramPoint / ExpHistogramPoint / SumaryPoint / Exemplar_is_hand_model (STEF -> OTLP: "
    "all bucket counts of the Point, all bounds of the Metric, ids of length 0 / 16 / 8), gen_temporality; corollaries "
    "gen_number_ / gen_histogram_ / gen_exp_histogram_ / gen_summary_point_roundtrip: for every clean point and every writer state "
    "that shows the metric, the regenerated writer functions followed by the regenerated reader function return the data point "
    "(exemplar attributes in key order). gen_convertHistogramPoint_ignores_value_type records where code and hand model differ: the Go "
    "readers do not check that the point's value type matches the metric type (the hand model answers value-type-mismatch).")
PROPS["C17"]["trusted_base"] = PROPS["C17"].get("trusted_base", []) + [
    "the point functions of internal/baseotlptostef.go and internal/basesteftotolp.go are no longer trusted as transcriptions: they are "
    "regenerated (Gen/PointFlow.lean) and proved equal to convNumber / convHistogram / convExpHistogram / convSummary / convExemplars / "
    "pointToOtlp / exemplarToOtlp of Stef/Otlp/Metrics.lean; trusted instead: the translator extract/pointflow.go and the vocabulary "
    "Stef/PointFlowSem.lean (one line per pdata / otelstef method on the records of the hand model: SetType resets on a change of type, "
    "float setters compare bit patterns, EnsureLen as exEnsureLen, CopyFromSlice, AppendEmpty, MoveTo; otlptools.MapSorted / "
    "TefToOtlpMap as the hand model's functions; error values are their format strings; alternatives of a PointValue other than the "
    "current one and modified-marks are not modelled); AppendOTLPPoint is translated but its switch over the metric type is not "
    "proved equal to the hand model's dispatch (metric-level fields and the tree stay with the hand model and h_otlp)",
]
