# BitFlow: the bit stream is REGENERATED (design_parts/bitflow.md): extract/bitflow.go translates the struct declarations
# BitsWriter / BitsReader of go/pkg/bitstream.go and the bodies of their methods (reader: Reset, Error, Consume, PeekBits,
# PeekBit, refillAndPeekBits, refillSlow and its loop, ReadBits, readBitsMoreThan56, ReadBit, readBitSlow,
# ReadUvarintCompact, ReadVarintCompact; writer: Reset, Close, Bytes, BitCount, WriteBits, WriteBit, writeBitsSlow,
# WriteUvarintCompact, WriteVarintCompact) statement by statement into Gen/BitFlow.lean (vocabulary: Stef/BitFlowSem.lean);
# Proofs/BitFlowGen proves them equal to the register-level hand model Stef/BitStream.lean, Props/C20BitGen restates the
# bit-layer theorems of C20 for the regenerated methods.
PROPS["C20"]["lean_modules"].append("Stef.Props.C20BitGen")
PROPS["C20"]["needs_gen"] = list(PROPS["C20"].get("needs_gen", ("Tables", "Consts", "CallSites"))) + ["BitFlow"]

PROPS["C20"]["level_text"] += (
    " Props/C20BitGen: the bit stream REGENERATED from the current go/pkg/bitstream.go (extract/bitflow.go, one Lean let / "
    "if / match per Go statement; uint as Nat modulo 2^64, uint64 as BitVec 64, int as wrapped Int, every index / slice "
    "expression and binary.BigEndian.Uint64 with its panic test, panic(..) as `none`, the refillSlow loop as a "
    "fuel-recursive function) and proved equal to the hand model Stef/BitStream.lean in Proofs/BitFlowGen (reader: "
    "reset_eq, error_eq, consume_eq, refillSlow_loop_eq, refillSlow_eq, refillAndPeekBits_sim, peekBits_sim, "
    "readBitsMoreThan56_sim, readBits_sim, readBit_sim, peekBit_eq, readUvarintCompact_sim, readVarintCompact_sim on "
    "every well-formed state (buffer < 2^63 bytes, index < 2^63, bit count a uint; kept by every method) and every width "
    "<= 64, where `none` (a Go panic) corresponds exactly to the hand model's `panicked` flag; writer: w_reset_eq, "
    "close_eq, bytes_eq, bitCount_eq, writeBitsSlow_eq, writeBits_eq, writeBit_eq, writeUvarintCompact_eq, "
    "writeVarintCompact_eq on every register with at most 64 bits used): gen_readBits_is_model, gen_reset_is_model, "
    "gen_error_is_model, gen_writeBits_is_model, gen_close_is_model, gen_bitsreader_refines_spec, gen_overread_reported "
    "(inside the buffer: no panic, Error() nil, the buffer's bits; past it: a panic or Error() set, never silent data), "
    "gen_uvc_reader_refines_spec, gen_readBit_is_readBits_one, gen_peekBit_is_peekBits_one, gen_writeBits_appends, "
    "gen_writeBit_appends, gen_uvc_write_every_alignment, gen_bits_roundtrip (Reset; WriteBits*; Close; Bytes; "
    "Reset(bytes); ReadBits* returns the values, no panic, Error() nil).")
PROPS["C20"]["trusted_base"] = PROPS["C20"].get("trusted_base", []) + [
    "bit stream: the methods of BitsWriter / BitsReader are no longer trusted as transcriptions: they are regenerated from "
    "the current source (Gen/BitFlow.lean) and proved equal to Stef/BitStream.lean; trusted instead: the meaning given to "
    "each Go type / operator / whitelisted call in Stef/BitFlowSem.lean (64-bit uint / int arithmetic, []byte as a list "
    "whose len is the bound of s[:n] - cap is not modelled -, binary.BigEndian.Uint64 / AppendUint64 as 8 bytes big endian, "
    "bits.LeadingZeros64 as BitVec clz, io.EOF as the only error value, loop fuel 64) and the translator extract/bitflow.go; "
    "NewBitsWriter, NewBitsReader and MapBytesFromMemBuf are not translated",
]
