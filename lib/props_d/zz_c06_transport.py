# C06 ("after Flush every record written so far can be read"): over the gRPC transport a flushed frame is one chunk, and it
# is readable only once the message marked as the end of that chunk has arrived. The transport cases of C15 (chunks around and at
# exact multiples of the message size, real writer and real assembler) therefore also decide C06 for chunks sent through it.
if not any(h.get("bin") == "h_grpc" for h in PROPS["C06"]["harness"]):
    PROPS["C06"]["harness"].append({"bin": "h_grpc", "args": [], "as_props": ["C15"]})
    PROPS["C06"]["rule"] += (" Also the transport cases of C15 (h_grpc: chunks around and at exact multiples of 4 MiB - 1 KiB written through the "
                             "real gRPC writer and reassembled): a flushed frame that the receiver cannot complete is not readable.")
