# Props/C15Frames: composition of the chunk transport (C15) with the frame reader (C05):
# an interruption of the transport after any number of messages leaves the receiving reader at a
# frame boundary (records of the frames whose message arrived, then eof).
for _p in ("C15", "C05"):
    PROPS[_p]["lean_modules"].append("Stef.Props.C15Frames")
    PROPS[_p]["level_text"] += (
        " Props/C15Frames: transport_interruption_frame_aligned / interrupted_transport_delivers_whole_frames "
        "(the writer hands each frame to the transport as one chunk; when the transport breaks after ANY number j of "
        "messages the draining consumer holds exactly the encoding of the first j frames and the reader returns their "
        "records and then eof - composition of bytes_unchanged, writer_one_message_per_chunk and readAll_exact).")
