# The float64 codec is REGENERATED (design_parts/floatcodec.md): extract/floatcodec.go translates the struct
# declarations and the bodies of Float64Encoder.{IsEqual,Encode,Reset} and Float64Decoder.{Decode,Reset} of
# go/pkg/codecs/float64.go statement by statement into Gen/FloatCodec.lean (vocabulary: Stef/FloatCodecSem.lean);
# Proofs/FloatCodecGen proves them equal to the hand model of Stef/Codec.lean (F64.encodeW / F64.decodeR / the zero
# state), Props/C20Gen restates gorilla_is_spec / gorilla_roundtrip for the regenerated encoder.
# C01 (float fields round-trip), C02 (the bits are the specification's, also after a codec reset) and C03 (Decode
# of hostile headers never panics) rest on the same codec.
for _p in ("C20", "C01", "C02", "C03"):
    PROPS[_p]["lean_modules"].append("Stef.Props.C20Gen")
    PROPS[_p]["needs_gen"] = list(PROPS[_p].get("needs_gen", ("Tables", "Consts", "CallSites"))) + ["FloatCodec"]

PROPS["C20"]["level_text"] += (
    " Props/C20Gen: the float64 codec REGENERATED from the current go/pkg/codecs/float64.go (extract/floatcodec.go, one Lean "
    "let / if per Go statement; Go int arithmetic wrapped at 64 bits, uint64 as BitVec 64, panic(..) and negative shift "
    "counts as `none`) and proved equal to the hand model in Proofs/FloatCodecGen (encode_eq on every state with "
    "non-negative window fields, every writer register and value; decode_eq on every reader state and header for every "
    "decoder state reachable from Reset; encoder_reset_eq, decoder_reset_eq): gen_encode_is_model, gen_encode_never_panics, "
    "gen_gorilla_is_spec (Encode appends exactly the specification's bits at every alignment, keeps the window invariant and "
    "accounts in the limiter exactly the number of bits appended), gen_reset_window, gen_gorilla_roundtrip (every sequence "
    "from every state with a real window, decoded by the specification's decoder), gen_decode_is_model, "
    "gen_decode_invariant.")
PROPS["C20"]["trusted_base"] = PROPS["C20"].get("trusted_base", []) + [
    "float64 codec: Float64Encoder.Encode/Reset and Float64Decoder.Decode/Reset are no longer trusted as transcriptions: they "
    "are regenerated from the current source (Gen/FloatCodec.lean) and proved equal to Stef/Codec.lean; trusted instead: the "
    "meaning given to each Go type / operator / whitelisted call in Stef/FloatCodecSem.lean (64-bit int and uint, "
    "math.Float64bits as the identity on bit patterns, bits.LeadingZeros64/TrailingZeros64 as BitVec clz/ctz, the "
    "BitsWriter/BitsReader calls as the models of Stef/BitStream.lean, *SizeLimiter as a counter of accounted bits) and the "
    "translator extract/floatcodec.go (which checks the signatures of the bit-stream methods it maps)",
]
