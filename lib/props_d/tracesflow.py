# C18: the OTLP traces converter is REGENERATED from the source on every run. extract/tracesflow.go translates
# OtlpToStefUnsorted.Convert, sortSpans, span2span, link2link, event2event (go/pdata/traces/otlp2stef_unsorted.go) and
# Otlp2Stef.ResourceUnsorted / ScopeUnsorted (go/pdata/internal/otlptools/otlpval2tef.go) statement by statement into `do`
# blocks of the monad of Stef/TracesFlowSem.lean (Gen/TracesFlow.lean); Proofs/TracesFlowGen proves them equal to the hand
# model Stef/Otlp/Traces.lean on every batch and every state of the re-used record; Props/C18Gen restates the C18 theorems
# for them. (design_parts/tracesflow.md)
PROPS["C18"]["lean_modules"].append("Stef.Props.C18Gen")
PROPS["C18"]["needs_gen"] = list(PROPS["C18"].get("needs_gen", ("Tables", "Consts", "CallSites"))) + ["TracesFlow"]
PROPS["C18"]["level_text"] += (
    " Props/C18Gen: the same theorems for the converter REGENERATED from the current source (Convert with its sort / merge / "
    "RemoveIf loops in both modes, sortSpans, span2span, link2link, event2event, ResourceUnsorted, ScopeUnsorted, translated "
    "statement by statement by extract/tracesflow.go over a typed whitelist of every method, function, conversion and field, "
    "and proved equal to the hand model on every batch and every state of the re-used record in Proofs/TracesFlowGen: "
    "event2event_eq, link2link_eq, resourceUnsorted_eq, scopeUnsorted_eq, span2span_eq, sortSpans_eq, res_merge, scopes_merge, "
    "convert_eq, convert_records): gen_is_hand_model (with any fuel above the number of nodes of the batch the regenerated "
    "Convert returns nil and has written exactly tracesToStef), gen_convert_total (no index out of range, every loop ends, "
    "the batch is left untouched / as sortTraces), gen_one_record_per_span, gen_span_content, gen_span_content_sorted, "
    "gen_sorted_same_multiset, gen_sorted_batch, gen_span2span_content, gen_event_link_content.")
PROPS["C18"]["trusted_base"] = [
    t for t in PROPS["C18"].get("trusted_base", [])
    if not t.startswith("Impl model Stef/Otlp/Traces.lean is a hand transcription")
] + [
    "Stef/Otlp/Traces.lean is no longer trusted as a transcription of go/pdata/traces/otlp2stef_unsorted.go: Convert, sortSpans, "
    "span2span, link2link, event2event and otlptools' ResourceUnsorted / ScopeUnsorted are regenerated from the current source "
    "(Gen/TracesFlow.lean) and proved equal to it on every batch and record state (Proofs/TracesFlowGen); trusted instead: the "
    "translator extract/tracesflow.go (its typed whitelist and the rule that a handle local is a path that stays valid while no "
    "slice above it changes structurally) and the vocabulary Stef/TracesFlowSem.lean (pdata slices as lists: Sort = the stable "
    "insertion sort with the translated less, RemoveIf / MoveAndAppendTo / At / Len; otelstef setters store their argument, "
    "EnsureLen / At of the generated arrays as in Traces.lean, Write appends the record's logical value and returns nil; "
    "numbers are the values after the converter's uint64(..) / SpanKind(..) conversions; pdata objects never alias otelstef "
    "objects). Still hand transcriptions, tied by h_otlp only: otlptools.MapSorted / MapUnsorted / CmpResourceSpans / "
    "CmpScopeSpans (Stef/Otlp/Value.lean, compare.go part of Traces.lean); the hand model is additionally tied op-for-op by "
    "h_otlp (t2s-u, t2s-s: the records as read back)",
]
