# C13, serde half: WireSchema.Serialize / Deserialize / WireSchemaIter and internal.WriteUvarint are REGENERATED from the
# source on every run (generator WireSerde = extract/wireserde.go -> lean/Stef/Gen/WireSerde.lean), proved equal to the hand
# model (Proofs/WireSerdeGen) and the serde theorems are restated for the regenerated functions (Props/C13Gen).
PROPS["C13"]["lean_modules"].append("Stef.Props.C13Gen")
PROPS["C13"]["needs_gen"] = list(PROPS["C13"].get("needs_gen", ("Tables", "Consts", "CallSites"))) + ["WireSerde"]
PROPS["C13"]["level_text"] += (
    " Props/C13Gen: the serde theorems for the functions REGENERATED from the current source (WireSchema.Serialize, "
    "WireSchema.Deserialize, internal.WriteUvarint, NewWireSchemaIter, NextFieldCount, Done, translated statement by statement by "
    "extract/wireserde.go into the heap monad of Stef/WireSerdeSem.lean and proved equal to Idl.serialize / Idl.deserialize on every "
    "heap in Proofs/WireSerdeGen: serialize_eq, deserialize_eq, writeUvarint_eq): gen_wire_serde (Serialize then Deserialize into a "
    "receiver that held ANY counts gives the original counts), gen_wire_serde_limit, gen_deserialize_total (never a panic), "
    "gen_deserialize_receiver_independent (error value and resulting counts do not depend on what the receiver held), "
    "gen_serialize_appends, gen_iter_new + gen_iter_enumerates + gen_iter_end (a fresh iterator hands out every count once, in "
    "order), and the regenerated facts gen_counts_width (structCounts and NextFieldCount use types of at least 64 bit) and "
    "gen_no_mutable_package_state (the bodies refer to no package-level variable other than errors.New values).")
PROPS["C13"]["trusted_base"] = PROPS["C13"].get("trusted_base", []) + [
    "Serialize/Deserialize/WireSchemaIter of Stef/WireSchema.lean are no longer trusted as transcriptions: they are regenerated "
    "(Gen/WireSerde.lean) and proved equal to the hand model on every heap (Proofs/WireSerdeGen); trusted instead: the translator "
    "extract/wireserde.go and the vocabulary Stef/WireSerdeSem.lean (heap = receiver's structCounts + buffer contents + reader "
    "bytes + structIdx; uint/int are 64 bit; binary.AppendUvarint/ReadUvarint, (*bytes.Buffer).Write, make and indexing as "
    "modelled there; io.ByteReader = a byte list)",
]
