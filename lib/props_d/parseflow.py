# C12, parser half (and C13, which parses what it prints): the IDL parser of go/pkg/idl/parser.go (every method of *Parser except the
# getters) and NewStruct / HasField / AddField of go/pkg/schema/schema.go are REGENERATED from the source on every run (generator
# ParseFlow = extract/parseflow.go -> lean/Stef/Gen/ParseFlow.lean, on top of the regenerated lexer Gen/LexFlow.lean), proved equal to
# the hand parser of Stef/Idl.lean (Proofs/ParseFlowGen) and the C12 theorems are restated for the regenerated parser running on the
# regenerated lexer (Props/C12ParseGen).
PROPS["C12"]["lean_modules"].append("Stef.Props.C12ParseGen")
PROPS["C12"]["needs_gen"] = list(PROPS["C12"].get("needs_gen", ("Tables", "Consts", "CallSites"))) + \
    [g for g in ("LexFlow", "ParseFlow") if g not in PROPS["C12"].get("needs_gen", ())]
PROPS["C12"]["level_text"] += (
    " Props/C12ParseGen: the same theorems for genParse2 = the parser REGENERATED from the current parser.go running on the lexer "
    "regenerated from lexer.go (Parse, parsePackage, parseStruct, parseOneof, parseMultimap, parseMultimapField, parseEnum, "
    "parseEnumFields, parseEnumField, parseStructModifiers, parseStructModifier, parseDictModifier, parseStructFields, "
    "parseStructField, parseFieldType, parseStructFieldModifiers, parseStructFieldModifier, eat, error, isTopLevelNameUsed of "
    "parser.go and NewStruct, HasField, AddField of schema.go, translated statement by statement by extract/parseflow.go into `do` "
    "blocks of the monad of Stef/ParseFlowSem.lean - Go's return / break / if / assignments to locals are Lean's own, `for` is a "
    "loop granted len(unread input)+4 rounds, pointers are pointers into typed heaps so that aliasing is Go's - and proved equal to "
    "the hand functions of Stef/Idl.lean on every parser object in Proofs/ParseFlowGen: eat_run, parseDictModifier_run, "
    "parseFieldType_run, parseStructFieldModifier_run, hasField_run, addField_run, parseStructField_run, parseStructFields_run, "
    "parseStructModifier_run, parseStruct_run, parseOneof_run, parseMultimapField_run, parseMultimap_run, parseEnumField_run, "
    "parseEnumFields_loop, parseEnum_run, parsePackage_run, defStep_run, defLoop, parse_run, absSchema_enc, genParse2_eq): "
    "gen2_parse_eq (idl.Parse with both halves regenerated is the hand model for EVERY input), gen2_parse_run (on every parser "
    "object with an empty heap), gen2_parse_ok_wf, gen2_parse_err_pos, gen2_parse_no_panic + gen2_parse_returns (no nil "
    "dereference, nil-map write, index error, unrepresentable heap, loop out of rounds, unclassified message or schema panic), "
    "gen2_parse_fuel_sufficient, gen2_enum_members_unique, gen2_parseFieldType, gen2_parseStructFields, gen2_prim_codes, "
    "gen2_absSchema.")
PROPS["C12"]["trusted_base"] = PROPS["C12"].get("trusted_base", []) + [
    "the parser part of Stef/Idl.lean (eat .. grammar) is no longer trusted as a transcription: it is regenerated "
    "(Gen/ParseFlow.lean) and proved equal to the hand model on every parser object (Proofs/ParseFlowGen); trusted instead: the "
    "translator extract/parseflow.go, the vocabulary Stef/ParseFlowSem.lean (the Go objects field by field; *Struct / *StructField "
    "/ *Multimap / *Enum as pointers into four typed heaps, interior pointers as paths, *PrimitiveType / *ArrayType as Options of "
    "the value, Go maps as Option of an association list in insertion order; identifiers as List Char, error messages kept "
    "symbolically; len(unread input)+4 rounds per loop with a visible `stuck`; ResolveRefs / PruneUnused = the hand model's "
    "resolveRefs + computeRecursive / pruneUnused run on absSchema = the heap read back as a schema of Stef/Schema.lean, "
    "createUnusedWarnings opaque) and the reading of the result (classifyMsg in Proofs/ParseFlowGen: which message text of "
    "parser.go is which error class of the hand model; the error position is the one recorded in the error value). NewParser, "
    "idl.Parse (utils.go), the getters and the message formatting are not translated; ResolveRefs / computeRecursive / "
    "PruneUnused stay a hand transcription.",
]

PROPS["C13"]["lean_modules"].append("Stef.Props.C13ParseGen")
PROPS["C13"]["needs_gen"] = list(PROPS["C13"].get("needs_gen", ("Tables", "Consts", "CallSites"))) + \
    [g for g in ("LexFlow", "ParseFlow") if g not in PROPS["C13"].get("needs_gen", ())]
PROPS["C13"]["level_text"] += (
    " Props/C13ParseGen: gen2_print_parse, the print -> parse round trip with the lexer AND the parser regenerated from go/pkg/idl "
    "in both parses (genParse2 of Proofs/ParseFlowGen, see C12).")
