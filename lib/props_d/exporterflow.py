# The exporter side of the C19 pipeline is REGENERATED (design_parts/exporterflow.md): extract/exporterflow.go translates
# the bodies of pushMetrics / onGrpcAck and the two arms of the flusher's select loop of
# otelcol/internal/stefexporter/exporter.go statement by statement into Gen/ExporterFlow.lean (data of the statement
# language of Stef/ExporterFlowSem.lean); Proofs/ExporterGen proves that they make exactly the exporter-side steps of the
# hand model Stef/Pipeline.lean (push, emit of everything open, the exporter half of ackrecv), Props/C19Gen restates the C19
# theorems for the pipeline with the regenerated exporter and adds the locking / acknowledgement / flusher facts.
PROPS["C19"]["lean_modules"].append("Stef.Props.C19Gen")
PROPS["C19"]["needs_gen"] = list(PROPS["C19"].get("needs_gen", ("Tables", "Consts", "CallSites"))) + ["ExporterFlow"]
PROPS["C19"]["trusted_base"] = list(PROPS["C19"].get("trusted_base", [])) + [
    "Stef/Pipeline.lean: the exporter-side transitions (push, emit of everything open = a flusher tick, the exporter half of "
    "ackrecv) are no longer trusted as transcriptions of exporter.go: they are regenerated from the current source "
    "(Gen/ExporterFlow.lean) and proved equal to the hand steps on every state (Proofs/ExporterGen: push_char, ack_eq, "
    "flushTick_char, gstep_eq, grun_eq). Trusted instead: the meaning given to each whitelisted statement in "
    "Stef/ExporterFlowSem.lean - one call runs to its end as ONE step (that other holders of the same sync.Mutex cannot run "
    "inside a Lock..Unlock span is the meaning of the mutex, not proved; the spans themselves are: "
    "push_holds_write_lock_throughout; an onGrpcAck between ToStef and ackMutex.Lock of a push is not interleaved in the "
    "model), uint64 as Nat, sorted.ToStef(writer) = Write() once per record in order and the first error ends it, "
    "OtlpToSortedTree = the batch's points (C17), Flush() = the open frame leaves iff it has records (Gen/WriterFlow "
    "flushBody), a frame leaving inside Write() stays the hand model's `emit k` - and the translator extract/exporterflow.go. "
    "Start / Shutdown / startGrpcClient are covered only by extracted facts (remoteWriter set before `go flusher()`, OnAck = "
    "onGrpcAck, nobody else touches the guarded fields).",
]
PROPS["C19"]["level_text"] += (
    " Props/C19Gen: the exporter REGENERATED from exporter.go (pushMetrics, onGrpcAck, the arms of the flusher's select loop; "
    "statement by statement from the Go AST) makes exactly the exporter-side steps of the pipeline model - "
    "gen_step_is_hand_step, gen_runs_are_hand_runs - so gen_exactly_once, gen_delivered_at_most_once, "
    "gen_exactly_once_quiescent, gen_eventually_acked, gen_exporter_ack_monotone hold for the pipeline whose exporter is the "
    "regenerated code; facts for every state and every outcome of the callees: push_holds_write_lock_throughout (writeMutex "
    "from before ToStef to the return, on every path: records of one push contiguous), push_nil_has_written_everything, "
    "push_error_keeps_ack_state, push_without_writer_returns_nil_and_writes_nothing (recorded), ack_is_hand_ackrecv, "
    "ack_never_moves_backwards (any id), ack_touches_only_ack_fields, flusher_only_calls_flush, flusher_arms_static, "
    "who_writes_and_who_flushes, package_facts. A change of exporter.go that is not an equivalent rewriting breaks a named "
    "proof of Proofs/ExporterGen, one outside the subset fails generator ExporterFlow.")
