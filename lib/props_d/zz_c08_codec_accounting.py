# C08's frame bound ("no frame's uncompressed content exceeds F by more than the encoding of its last record
# plus the size table") rests on the codecs telling the size limiter what they really wrote: the regenerated
# codecs carry that accounting (FloatCodecGen.encodeW_bits_count: the number passed to AddFrameBits is the number
# of bits appended; IntCodecGen str_encode_eq / sd_encode_eq: AddFrameBytes / AddDictElemSize arguments), so a codec
# that under-reports breaks a theorem of C08's check too.
for _m, _g in (("Stef.Props.C20Gen", "FloatCodec"), ("Stef.Props.C20IntGen", "IntCodec")):
    if _m not in PROPS["C08"]["lean_modules"]:
        PROPS["C08"]["lean_modules"].append(_m)
    _ng = list(PROPS["C08"].get("needs_gen", ("Tables", "Consts", "CallSites")))
    if _g not in _ng:
        _ng.append(_g)
    PROPS["C08"]["needs_gen"] = _ng
PROPS["C08"]["level_text"] += (" The accounting of the codecs (what they report to the size limiter) is part of the regenerated float / "
                               "integer / string / dictionary codecs (Props/C20Gen, Props/C20IntGen), which this check builds as well.")
