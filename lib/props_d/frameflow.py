# FrameFlow: go/pkg/frame.go (limitedReader, FrameDecoder.nextFrame/Next/Read/ReadByte) regenerated as Lean
# terms (extract/frameflow.go -> Stef/Gen/FrameFlow.lean), proved equal to the hand model Stef.ReaderIO.Fd
# (Proofs/FrameFlowGen.lean); the frame theorems restated for the regenerated functions (Props/C05Gen.lean).
for _p in ("C05", "C07"):
    PROPS[_p]["lean_modules"].append("Stef.Props.C05Gen")
    PROPS[_p]["needs_gen"] = list(PROPS[_p].get("needs_gen", ("Tables", "Consts", "CallSites"))) + ["FrameFlow"]
    PROPS[_p]["level_text"] += (
        " Props/C05Gen: the bodies of limitedReader.ReadByte/Read and FrameDecoder.nextFrame/Next/Read/ReadByte of the "
        "CURRENT go/pkg/frame.go, translated statement by statement (Gen/FrameFlow.lean), equal the hand model "
        "Stef.ReaderIO.Fd on every state of an uncompressed stream (gen_is_hand_model); restated for them: "
        "gen_read_passthrough, gen_read_end_of_frame, gen_skip_tail, gen_next_loads_bounded_frame, gen_next_cut_is_error, "
        "gen_next_no_zstd_uncompressed; the compressed branch of nextFrame (both size limits, decoder reset exactly on "
        "the first frame or RestartCompression): gen_nextFrame_zstd.")
    PROPS[_p]["trusted_base"] = PROPS[_p].get("trusted_base", []) + [
        "Stef/FrameFlowSem.lean: the vocabulary of the FrameFlow translation (Go integers as Nat, a destination buffer as "
        "its length, d.src as the bufio model, zstd calls recorded only); extract/frameflow.go: the translator (whitelisted "
        "subset, dies on anything else)"]
