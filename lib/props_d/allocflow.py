# The small arithmetic cores many properties lean on are REGENERATED (design_parts/allocflow.md, DESIGN 0.2o): extract/allocflow.go
# translates, statement by statement, (1) go/pkg/allocsizechecker.go - the struct AllocSizeChecker and ALL of its methods, receiver
# kind included - and (2) go/pkg/membuffer.go - BytesReader.{ReadByte,ReadUvarint,ReadVarint,ReadStringBytes,ReadBytesMapped,
# ReadStringMapped} and BytesWriter.{WriteByte,WriteBytes,WriteStringBytes,WriteUvarint,WriteVarint} - into Gen/AllocFlow.lean
# (vocabulary: Stef/AllocFlowSem.lean). Proofs/AllocFlowGen proves the checker equal to the hand model Stef/Alloc.lean on every state,
# Proofs/AllocFlowBufGen proves the reader / writer methods equal to Varint.decode / decodeSigned / encode / encodeSigned and the string
# decoder over them equal to Codec.strDecode, for every well-formed reader; Props/C03AllocGen restates the C03 / Budget theorems.
# C01 and C06 rest on the per-record budget (Props/Budget), C20 on the varint writer / reader.
for _p in ("C03", "C01", "C06", "C20"):
    PROPS[_p]["lean_modules"].append("Stef.Props.C03AllocGen")
    PROPS[_p]["needs_gen"] = list(PROPS[_p].get("needs_gen", ("Tables", "Consts", "CallSites"))) + ["AllocFlow"]
    if "Budget" not in PROPS[_p]["needs_gen"]:
        PROPS[_p]["needs_gen"].append("Budget")  # Props/C03AllocGen imports Props/Budget (Gen/Budget.lean)

PROPS["C03"]["level_text"] += (
    " Props/C03AllocGen: the arithmetic cores REGENERATED from the current source (extract/allocflow.go, one Lean let / if per Go "
    "statement; uint / uint64 / int64 as BitVec 64, int wrapped at 64 bits, []byte / string as byte lists, index / slice panics and an "
    "unsafe.String beyond its slice as `none`; a pointer receiver returns the receiver variable, a value receiver its input). "
    "AllocSizeChecker, all methods, proved equal to Stef/Alloc.lean on every state (Proofs/AllocFlowGen: reset_eq, addAllocSize_eq, "
    "isOverLimit_eq, prepAllocSize_eq, prepAllocSizeN_eq, genGrant_eq, genReadRecords_eq): gen_checker_is_model, gen_reset_zeroes, "
    "gen_alloc_bound (granted requests since a ResetAllocSize sum to <= RecordAllocLimit as natural numbers - no size hypotheses left), "
    "gen_grant_counter, gen_grant_complete, gen_alloc_counter_saturates, gen_read_budget_per_record, gen_over_limit_record_refused, "
    "gen_overflowing_product_refused. BytesReader / BytesWriter (Proofs/AllocFlowBufGen: binary.Uvarint with its n = 0 / n < 0 results "
    "linked to Varint.decode by uvarintLoop_spec; readUvarint_eq, readVarint_eq, readByte_eq, readBytesMapped_eq, readStringBytes_eq, "
    "readStringMapped_eq, stringDecode_eq, writeVarint_eq): gen_read_uvarint_is_model, gen_read_varint_is_model, gen_reader_safe (for "
    "every reader with 0 <= byteIndex <= len(buf) and EVERY int argument no translated method panics, the unsafe.String stays inside "
    "the buffer, the index stays in range), gen_string_decode_within_column + gen_string_decode_is_model (StringDecoder.Decode over "
    "the regenerated ReadVarint / ReadStringMapped = Codec.strDecode on the unread part), gen_write_varint_is_model, "
    "gen_varint_roundtrip.")
PROPS["C03"]["trusted_base"] = PROPS["C03"].get("trusted_base", []) + [
    "AllocSizeChecker and the byte-level BytesReader / BytesWriter methods are no longer trusted as transcriptions: they are regenerated "
    "from the current source (Gen/AllocFlow.lean) and proved equal to Stef/Alloc.lean / Stef/Varint.lean / Codec.strDecode; trusted "
    "instead: the translator extract/allocflow.go and the vocabulary Stef/AllocFlowSem.lean (bits.Add / bits.Mul as 64-bit carry / high "
    "word, binary.Uvarint as the loop of encoding/binary with its (value, n) result, binary.AppendUvarint as Varint.encode, slices as "
    "values with cap = len and no aliasing, unsafe.String(&s[i], n) as s[i:i+n] that fails outside s, the two sentinel errors as an "
    "enumeration); the three lines of StringDecoder.Decode above the reader are transcribed by hand (AllocFlowGen.stringDecode)",
]
for _p in ("C01", "C06"):
    PROPS[_p]["level_text"] += (
        " Props/C03AllocGen: read_budget_per_record for the REGENERATED AllocSizeChecker (gen_read_budget_per_record: ResetAllocSize, "
        "PrepAllocSize, PrepAllocSizeN translated from the current go/pkg/allocsizechecker.go, receiver kind included, and proved equal "
        "to Stef/Alloc.lean on every state); that ResetAllocSize resets is now the translated method (gen_reset_zeroes), not only the "
        "fact Gen.resetAllocSizeResets.")
PROPS["C20"]["level_text"] += (
    " Props/C03AllocGen: BytesWriter.WriteUvarint / WriteVarint and BytesReader.ReadUvarint / ReadVarint REGENERATED from the current "
    "go/pkg/membuffer.go and proved equal to Varint.encode / encodeSigned / decode / decodeSigned (gen_write_varint_is_model, "
    "gen_read_varint_is_model, gen_varint_roundtrip).")
PROPS["C20"]["trusted_base"] = PROPS["C20"].get("trusted_base", []) + [
    "membuffer.go: the varint writer / reader methods are regenerated (Gen/AllocFlow.lean) and proved equal to Stef/Varint.lean; "
    "trusted instead: extract/allocflow.go and Stef/AllocFlowSem.lean (binary.Uvarint / AppendUvarint as modelled there)",
]
