#!/usr/bin/env python3
"""Orchestration of the h_gen vertical (properties C10 and C04), called from bin/check through
the `runner` key of a props entry.

  1. build stefc from the working tree of the repository (VERIF_REPO or /repo)
  2. harness/cmd/h_gen draws schemas (C10) or append-only evolution pairs (C04) from VERIF_SEED,
     validates them with the repository's idl parser and writes one temporary Go module per
     schema / pair (outside /repo and /verif) with a generated main.go driver
  3. per module, in parallel: stefc generates the package(s) - a REFUSAL by stefc's schema
     validation (repo 90dfff4, before any file is generated) puts the schema outside "every schema
     the compiler accepts": it is counted (# stat refused-*), not a violation; any other stefc
     failure is PROP-FAIL stefc-generation-failed -, `go build` builds the driver
     (a compile failure of generated code is a PROP-FAIL C10), the driver (harness/hgenlib) runs
     the histories and prints the harness protocol (op lines `sd decode ...` for the Lean
     specification decoder, PROP-FAIL lines, stats)
  4. the concatenated output is returned to bin/check, which runs cl.analyse on it
Every temporary directory is removed at the end, also on failure.
"""
import json
import os
import re
import shutil
import subprocess
import tempfile
from concurrent.futures import ThreadPoolExecutor

import checklib as cl

QUICK = {"c10": (4, 40), "c04": (3, 1)}        # (schemas | pairs, histories per schema | scale)
THOROUGH = {"c10": (60, 80), "c04": (40, 2)}
WORKERS = 8

KNOWN_COMPILE_CLASSES = [
    (re.compile(r"e\.state\.\w+ undefined \(type \*WriterState"), "array-elem-dict-undeclared"),
    (re.compile(r"cannot use val\.\w+ \(variable of type \*\w+\) as \*\*\w+ value"), "recursive-dict-struct"),
    (re.compile(r"not enough arguments in call to s\.Set\w+"), "optional-dict-struct"),
    (re.compile(r"undefined: \w+(Encoder|Decoder)Dict"), "struct-dict-name"),
    (re.compile(r"cannot use &state\.\w+ \(.*codecs\.(Bytes|String)Dict"), "dict-shared-string-bytes"),
    (re.compile(r"redeclared in this block|already declared|field and method with the same name"), "name-clash"),
    (re.compile(r"syntax error: unexpected keyword"), "go-keyword-field"),
]


# Refusals of stefc/generator/validate.go (repo commit 90dfff4): schemas the compiler does not
# accept. C10 quantifies over "every schema the compiler accepts": a refusal with one of these
# messages BEFORE anything was generated is counted, it is not a violation.
REFUSALS = [
    (re.compile(r"the dictionary of a struct must be named after the struct"), "struct-dict-name"),
    (re.compile(r"dictionary \S+ is used with fields of different types"), "dict-shared-string-bytes"),
    (re.compile(r"a dictionary modifier on an array element type is not supported"), "array-elem-dict"),
    (re.compile(r"an optional field of a dictionary struct type is not supported"), "optional-dict-struct"),
    (re.compile(r"a oneof alternative of a dictionary struct type is not supported"), "oneof-alt-dict-struct"),
    (re.compile(r"dictionary struct \S+ is recursive, this is not supported"), "recursive-dict-struct"),
    (re.compile(r"the name is a Go keyword"), "go-keyword-field"),
    (re.compile(r"struct \S+ contains itself through non-optional fields"), "self-containment"),
    (re.compile(r"must start with an upper case letter"), "lowercase-field"),
    (re.compile(r"both need the Go identifier|clashes with the generated constant"), "name-clash"),
]
GENERATING_FILE = re.compile(r"^Generating \S+\.\w+\s*$", re.M)     # "Generating modifiedfields.go"


def refusal_class(output):
    """class of a validation refusal, or None when stefc failed in any other way (template
    execution, gofmt, file system ... or after the first generated file)."""
    if GENERATING_FILE.search(output):
        return None
    for rx, cls in REFUSALS:
        if rx.search(output):
            return cls
    return None


def one_line(s):
    return " ".join(s.split())


def first_compile_error(text):
    for l in text.splitlines():
        if re.search(r"\.go:\d+:\d+:", l):
            return l.strip()
    return (text.strip().splitlines() or ["(no compiler output)"])[0]


def process(entry, mode, arg, stefc, env, tier_budget):
    """stefc + go build + run for one module. Returns (protocol text, harness_error or None)."""
    d = entry["dir"]
    eid = entry["id"]
    out = []
    schema_txt = " ;; ".join(one_line(open(os.path.join(d, s)).read()) for s in entry["schemas"])
    props = ["C10"] if mode == "c10" else ["C10", "C04"]

    def fail(sig, text):
        for p in props:
            out.append("PROP-FAIL %s %s %s" % (p, sig, one_line(text)))

    out.append("# case %s-build" % eid)
    for s in entry["schemas"]:
        rc, o, e = cl.run([stefc, "--lang=go", "--outdir=" + os.path.join(d, "gen"), os.path.join(d, s)], cwd=d, env=env, timeout=300)
        if rc != 0:
            cls = refusal_class(o + e)
            if cls is None:
                fail("stefc-generation-failed", "schema %s: stefc exit %d: %s ;; schema: %s" % (eid, rc, (o + e)[-600:], schema_txt))
                return "\n".join(out) + "\n", None
            # refused by the compiler: outside the quantifier of C10 (and of C04 for a pair)
            msg = one_line((o + e).split("\n", 1)[-1])[-240:]
            out.append("# stat refused-by-compiler 1")
            out.append("# stat refused-%s 1" % cls)
            if entry["kind"] == "hazard" or entry.get("expect"):
                out.append("# stat hazards-refused-as-expected 1")
                out.append("# note regression %s (was %s): refused by stefc [%s]: %s" % (eid, entry.get("expect"), cls, msg))
                want = entry.get("refusal")
                if want and cls not in want.split("|"):
                    out.append("# note regression %s: refusal class %s, expected %s" % (eid, cls, want))
            elif entry["kind"] == "c04":
                out.append("# stat pairs-refused-by-compiler 1")
            else:
                out.append("# stat generated-schemas-refused 1")
            if not entry.get("expect") and entry["kind"] != "hazard":
                out.append("# note refused %s [%s]: %s ;; schema: %s" % (eid, cls, msg, schema_txt[:600]))
            return "\n".join(out) + "\n", None
    for root, _, files in os.walk(os.path.join(d, "gen")):
        for f in files:
            if f.endswith("_test.go"):
                os.remove(os.path.join(root, f))
    rc, o, e = cl.run(["go", "build", "-o", "drv", "."], cwd=d, env=env, timeout=900)
    if rc != 0:
        err = first_compile_error(o + e)
        if not re.match(r"(\./)?gen/", err):
            # not in generated code: the driver template / hgenlib does not build - a harness problem
            return "\n".join(out) + "\n", "driver of %s does not build: %s" % (eid, (o + e)[-1500:])
        sig = "generated-code-does-not-compile"
        for rx, cls in KNOWN_COMPILE_CLASSES:
            if rx.search(o + e):
                sig += ":" + cls
                break
        if entry["kind"] == "hazard":
            if entry["expect"].startswith("generated-code-does-not-compile") and sig == "generated-code-does-not-compile":
                sig = entry["expect"]
            out.append("PROP-FAIL C10 %s [deliberate trigger %s: %s] first compiler error: %s ;; schema: %s" % (
                sig, eid, entry["why"], err, schema_txt))
        else:
            fail(sig, "schema %s accepted by the idl parser, generated package does not compile: %s ;; schema: %s" % (eid, err, schema_txt))
        out.append("# stat compile-failures 1")
        return "\n".join(out) + "\n", None
    out.append("# stat packages-compiled %d" % len(entry["schemas"]))
    if entry["kind"] == "hazard" and entry["expect"].startswith("generated-code-does-not-compile"):
        out.append("# note hazard %s (%s) did not reproduce: the package compiles" % (eid, entry["expect"]))
        return "\n".join(out) + "\n", None
    cmd = [os.path.join(d, "drv"), "c10" if entry["kind"] != "c04" else "c04", str(arg if entry["kind"] != "hazard" else 2), str(tier_budget)]
    try:
        p = subprocess.run(cmd, cwd=d, env=env, timeout=1500, stdout=subprocess.PIPE, stderr=subprocess.PIPE)
    except subprocess.TimeoutExpired:
        fail("driver-timeout", "driver of %s did not finish in 1500 s ;; schema: %s" % (eid, schema_txt))
        return "\n".join(out) + "\n", None
    txt = p.stdout.decode("utf-8", "replace")
    err = p.stderr.decode("utf-8", "replace")
    if p.returncode != 0:
        if "stack overflow" in err or "stack exceeds" in err:
            site = ""
            m = re.search(r"^(\S+\.\(\*\w+\)\.\w+)\(", err, re.M)
            if m:
                site = " in " + m.group(1).split("/")[-1]
            text = "schema %s: initialising a record never terminates (stack overflow%s) ;; schema: %s" % (eid, site, schema_txt)
            if entry["kind"] == "hazard":
                out.append("PROP-FAIL C10 %s [deliberate trigger %s: %s] %s" % (entry["expect"], eid, entry["why"], text))
            else:
                fail("init-never-terminates", text)
        elif re.search(r"^panic: |^fatal error: ", err, re.M) and re.search(r"^\S*/gen/\w+\.", err, re.M):
            # an unrecovered Go panic whose stack passes through the GENERATED package (package
            # initialisation, or a goroutine the driver cannot recover): the schema itself is the
            # failing input, not a broken tie.
            m = re.search(r"^(\S*/gen/\w+\.\S+?)\(", err, re.M)
            site = m.group(1).split("/")[-1] if m else "?"
            phase = "at package initialisation" if re.search(r"\.init\.\d+\(\)|\.init\(\)", err) else "while the driver ran"
            out.append(txt)
            fail("generated-package-panics", "schema %s: the generated package panicked %s in %s: %s ;; schema: %s" % (
                eid, phase, site, one_line(err)[:300], schema_txt))
        else:
            out.append(txt)
            return "\n".join(out) + "\n", "driver of %s crashed (exit %d): %s" % (eid, p.returncode, err[-1500:])
    elif entry["kind"] == "hazard":
        out.append("# note hazard %s (%s) did not reproduce" % (eid, entry["expect"]))
    if entry["kind"] == "c10" and entry.get("wire"):
        txt = wire_hazard(entry, txt, schema_txt)
    out.append(txt)
    return "\n".join(out) + "\n", None


def wire_hazard(entry, txt, schema_txt):
    """A fixed schema that triggers a known WIRE-FORMAT defect: its op lines are evaluated here
    against the Lean specification decoder and taken out of the stream; one PROP-FAIL with the
    entry's signature is printed if the decoder disagrees with the records written."""
    keep, ops, impl = [], [], []
    for l in txt.splitlines():
        if "\t" in l and not l.startswith("#"):
            op, r = l.split("\t", 1)
            ops.append(op)
            impl.append(r)
        else:
            keep.append(l)
    mo, err = cl.model_outputs(ops) if ops else ([], "")
    bad = None
    if mo is None:
        keep.append("# note wire hazard %s: model crashed: %s" % (entry["id"], one_line(err)[:300]))
    else:
        for o, i, m in zip(ops, impl, mo):
            if i != m:
                bad = (o, i, m)
                break
    if bad:
        keep.append("PROP-FAIL C10 %s [deliberate trigger %s: %s] the Lean specification decoder on the writer's bytes: %s ; records written: %s ;; schema: %s" % (
            entry["expect"], entry["id"], entry["why"], bad[2][:200], bad[1][:200], schema_txt))
    elif mo is not None:
        keep.append("# note wire hazard %s (%s) did not reproduce on %d streams" % (entry["id"], entry["expect"], len(ops)))
    return "\n".join(keep) + "\n"


def run(res, cfg, findings, args):
    mode = args[0]
    n, arg = (THOROUGH if res.tier == "thorough" else QUICK)[mode]
    if os.environ.get("VERIF_HGEN_N"):
        n = int(os.environ["VERIF_HGEN_N"])
    budget = (3 << 20) if res.tier == "thorough" else (6 << 20)
    env = cl.goenv()
    env["VERIF_SEED"] = str(res.seed)
    env["VERIF_TIER"] = res.tier
    env["VERIF_REPO"] = cl.REPO
    env["VERIF_HARNESS_DIR"] = os.path.join(cl.VERIF, "harness")
    env.setdefault("GOMEMLIMIT", "4GiB")
    tmp = tempfile.mkdtemp(prefix="hgen-%s-" % mode)
    try:
        stefc = os.path.join(tmp, "stefc")
        rc, o, e = cl.run(["go", "build", "-o", stefc, "."], cwd=os.path.join(cl.REPO, "stefc"), env=env, timeout=900)
        if rc != 0:
            res.violation("impl-violation", "stefc-does-not-build", (o + e)[-3000:])
            return None
        exe = cl.build_harness(res, "h_gen")
        if exe is None:
            return None
        mods = os.path.join(tmp, "mods")
        os.makedirs(mods)
        penv = dict(env)
        penv["VERIF_STEFC"] = stefc      # h_gen draws until n schemas / pairs are ACCEPTED by this stefc
        rc, prep, e = cl.run([exe, "prepare", mode, str(n), mods], cwd=os.path.join(cl.VERIF, "harness"), env=penv, timeout=900)
        if rc != 0:
            res.violation("tie-broken", "h_gen-prepare", (prep + e)[-3000:])
            return None
        entries = json.load(open(os.path.join(mods, "manifest.json")))
        res.extra["hgen_modules"] = [x["id"] for x in entries]
        with ThreadPoolExecutor(max_workers=WORKERS) as ex:
            results = list(ex.map(lambda en: process(en, mode, arg, stefc, env, budget), entries))
        outs = [prep]
        for (txt, herr), en in zip(results, entries):
            outs.append(txt)
            if herr:
                res.violation("tie-broken", "hgen-driver:" + en["id"], herr)
        return "".join(outs)
    finally:
        shutil.rmtree(tmp, ignore_errors=True)
