#!/usr/bin/env python3
"""Derives harness_otelcol/go.mod + go.sum from <repo>/otelcol/go.mod.

The otelcol module of the repository carries many `replace` directives which do not apply to
modules that merely `require` it. The harness module therefore takes over that go.mod:
  * module line          -> verif/harness_otelcol
  * `=> ../go/<m>`       -> `=> <repo>/go/<m>` (absolute)
  * added                   require github.com/splunk/stef/otelcol v0.0.0
                            replace github.com/splunk/stef/otelcol => <repo>/otelcol
  * go.sum               copied from <repo>/otelcol/go.sum
Files are rewritten only when their content changes (keeps the Go build cache warm).

usage: mk_otelcol_mod.py [repo (default $VERIF_REPO or /repo)] [module dir]
"""
import os
import re
import sys

VERIF = os.path.dirname(os.path.dirname(os.path.abspath(__file__)))


def write_if_changed(path, data):
    if os.path.exists(path) and open(path).read() == data:
        return False
    with open(path, "w") as f:
        f.write(data)
    return True


def derive(repo=None, moddir=None):
    repo = os.path.abspath(repo or os.environ.get("VERIF_REPO", "/repo"))
    moddir = moddir or os.path.join(VERIF, "harness_otelcol")
    src = open(os.path.join(repo, "otelcol", "go.mod")).read()
    out, n_mod = re.subn(r"(?m)^module\s+\S+\s*$", "module verif/harness_otelcol", src, count=1)
    if n_mod != 1:
        raise SystemExit("mk_otelcol_mod: no module line in otelcol/go.mod")
    out, n_rep = re.subn(r"=>\s*\.\./go/(\w+)", lambda m: "=> %s/go/%s" % (repo, m.group(1)), out)
    if n_rep < 4:
        raise SystemExit("mk_otelcol_mod: expected 4 relative ../go/* replaces, found %d" % n_rep)
    out += ("\n// added by /verif/lib/mk_otelcol_mod.py\n"
            "require github.com/splunk/stef/otelcol v0.0.0\n\n"
            "replace github.com/splunk/stef/otelcol => %s/otelcol\n" % repo)
    os.makedirs(moddir, exist_ok=True)
    a = write_if_changed(os.path.join(moddir, "go.mod"), out)
    b = write_if_changed(os.path.join(moddir, "go.sum"), open(os.path.join(repo, "otelcol", "go.sum")).read())
    return a or b


if __name__ == "__main__":
    changed = derive(*(sys.argv[1:3]))
    print("harness_otelcol/go.mod %s" % ("rewritten" if changed else "up to date"))
