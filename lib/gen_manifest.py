#!/usr/bin/env python3
"""Regenerates /verif/MANIFEST.json from lib/props.py (kept valid at all times)."""
import json
import os
import sys

sys.path.insert(0, os.path.dirname(os.path.abspath(__file__)))
import props

VERIF = os.path.dirname(os.path.dirname(os.path.abspath(__file__)))
ALL = ["C%02d" % i for i in range(1, 21)]

BASELINE_OFF = ("for m in go/grpc go/otel go/pdata go/pkg otelcol stefc; do "
                "(cd /repo/$m && GOFLAGS=-mod=mod GOPROXY=off go test -json -vet=off -count=1 -timeout 25m ./...) || exit 1; done")

checks = []
for pid in ALL:
    cfg = props.PROPS.get(pid)
    if not cfg:
        continue
    checks.append({
        "property_id": pid,
        "quick_cmd": "bin/check %s --tier quick" % pid,
        "thorough_cmd": "bin/check %s --tier thorough" % pid,
        "evidence_file": "/verif/evidence/%s.json" % pid,
        "replay_cmd_template": "bin/check %s --replay {path}" % pid,
        "engine": "lean4-proof+correspondence",
        "level_claimed": {
            "category": "proof",
            "text": cfg.get("level_text", ""),
            "design_ref": "DESIGN.md section 6, " + pid,
        },
        "level_note": cfg.get("level_note", "; ".join(cfg.get("trusted_base", []))),
        "technique": cfg.get("technique", "Lean 4 theorems over a model of the code + differential correspondence of the model against the Go implementation"),
    })

na = []
for pid in ALL:
    if pid not in props.PROPS:
        na.append({"property_id": pid, "reason": props.NOT_CLAIMED.get(pid, "check not built yet (work in progress); not claimed")})

manifest = {
    "version": 1,
    "setup_cmd": "bin/setup",
    "hooks": {
        "guard": "verif",
        "enable": "go build -tags verif (harness modules under /verif/harness replace the repo modules with /repo/...)",
        "baseline_off_cmd": BASELINE_OFF,
        "source_commits": props.HOOK_COMMITS,
        "add_only": True,
    },
    "engines": [
        {"name": "lean4-proof+correspondence", "path": "/verif/lean, /verif/extract, /verif/harness, /verif/bin/check",
         "serves_properties": [c["property_id"] for c in checks],
         "kind_free_text": "Lean 4 model + theorems (kernel-checked), regenerated constants/tables/functions from /repo, Go differential harnesses against the compiled Lean driver"},
    ],
    "checks": checks,
    "not_applicable": na,
    "notes": "See DESIGN.md. Known genuine defects are listed in known_findings.txt.",
}
with open(os.path.join(VERIF, "MANIFEST.json"), "w") as f:
    json.dump(manifest, f, indent=1)
    f.write("\n")
print("wrote MANIFEST.json with %d checks, %d not claimed" % (len(checks), len(na)))
