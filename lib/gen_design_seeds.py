#!/usr/bin/env python3
"""Regenerates the seeded-changes table of DESIGN.md (section 0.5) from seeded/*/meta.json."""
import json, os, re
V = os.path.dirname(os.path.dirname(os.path.abspath(__file__)))
rows = []
missed = 0
for n in sorted(os.listdir(V + "/seeded")):
    d = os.path.join(V, "seeded", n)
    if not os.path.isdir(d):
        continue
    m = json.load(open(d + "/meta.json"))
    co = m["check_output"].replace("|", "/").replace("\n", " ")
    first = "caught"
    if "MISSED" in co or co.startswith("missed at first"):
        first = "missed, then caught after strengthening"
        missed += 1
    elif "no-failing-input-found" in co and ("first only" in co or "could not see" in co or "first reported without" in co):
        first = "caught without a concrete input at first; oracle strengthened"
    rows.append("| %s | %s | %s | %s |" % (n, m["property"], first, co[:430]))
table = ("| seeded change | property | first run | what the check reports |\n|---|---|---|---|\n" + "\n".join(rows) + "\n")
p = V + "/DESIGN.md"
s = open(p).read()
b, e = "<!-- SEEDTABLE-BEGIN -->\n", "<!-- SEEDTABLE-END -->\n"
if b in s:
    i, j = s.index(b) + len(b), s.index(e)
    s = s[:i] + table + s[j:]
else:
    i = s.index("| seeded change | property | first run | what the check reports |")
    j = s.index("\n### 0.6")
    s = s[:i] + b + table + e + s[j:]
open(p, "w").write(s)
print("seeds: %d, missed at first: %d" % (len(rows), missed))
