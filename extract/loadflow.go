package main

// genLoadFlow regenerates lean/Stef/Gen/LoadFlow.lean: the header and frame LOADING functions of the
// reader, translated statement by statement from the Go AST (go/parser + go/ast only) into Lean
// terms over the vocabulary of lean/Stef/LoadFlowSem.lean (and the regenerated frame decoder
// Stef/Gen/FrameFlow.lean):
//
//	resetData (+ loop)          <- go/pkg/recordbuf.go  func (s *ReadColumnSet) ResetData
//	readSizesFrom (+ loops)     <-                      func (s *ReadColumnSet) ReadSizesFrom
//	readDataFrom (+ loop)       <-                      func (s *ReadColumnSet) ReadDataFrom
//	readFrom                    <-                      func (s *ReadBufs) ReadFrom
//	nextFrame                   <- go/pkg/basereader.go func (r *BaseReader) NextFrame
//	readFixedHeader             <-                      func (r *BaseReader) ReadFixedHeader
//	readVarHeader               <-                      func (r *BaseReader) ReadVarHeader, up to the statement
//	                               `x := bytes.NewBuffer(hdrBytes)`; the rest must not mention r.FrameDecoder / r.Source
//	hdrSignatureBytes           <- const HdrSignature (go/pkg/writeropts.go)
//	initWiring : Bool           <- BaseReader.Init (r.Source = source; ReadFixedHeader; FrameDecoder.Init(r.Source,
//	                               r.FixedHeader.Compression)) and FrameDecoder.RemainingSize (return d.uncompressedSize)
//
// The order of the statements, the conditions, the assigned fields, which reads are io.ReadFull and
// the returned values are those of the source. A statement list becomes a nested term in
// continuation style (what follows an `if`/`switch` that can fall through is repeated in the
// branches). A ReadColumnSet method is a function by structural recursion over the column tree; a
// loop over `s.subColumns` (the three forms `for i := 0; i < len(s.subColumns); i++`, `for i := range
// s.subColumns`, `for _, x := range s.subColumns`) is a function over the list of sub-columns in the same
// mutual block. The translated subset:
//
//	stmt  ::= x := nat | x = nat | x := make([]byte, nat) | P (= | += | -=) nat | D = nil | D = EnsureLen(D, nat)
//	        | [x | _ | P], err (:= | =) call2 | err (:= | =) call1 | if [err := call1; | _, err := call2;] cond {..} [else ..]
//	        | switch nat { case nat, ..: .. default: .. } | for <sub-columns> {..} | E.ResetData()
//	        | s.tempBuf.Reset(s.tempBufBytes) | return [vals] | return call1
//	call2 ::= binary.ReadUvarint(H) | io.ReadFull(H, D) (value must be _) | r.FrameDecoder.Next()
//	        | x := B.ReadUvarintCompact() (one value, no error)
//	call1 ::= E.ReadSizesFrom(B, L) | E.ReadDataFrom(H) | s.Columns.ReadSizesFrom(&s.tempBuf, &s.readLimit)
//	        | s.Columns.ReadDataFrom(H) | r.ReadBufs.ReadFrom(&r.FrameDecoder, r.FrameDecoder.RemainingSize())
//	H     ::= the ByteAndBlockReader parameter | &r.FrameDecoder | r.Source
//	B, L  ::= the *BitsReader / *uint64 parameters of ReadSizesFrom          E ::= the loop's sub-column
//	D     ::= s.column.data | s.tempBufBytes | a []byte local
//	P     ::= *L | s.readLimit | r.FrameRecordCount | r.FixedHeader.Compression
//	nat   ::= literal | local | P | constant of Gen/Consts | len(HdrSignature) | len(D) | D[literal]
//	        | r.FrameDecoder.RemainingSize() | T(nat) for T in int, int64, uint, uint64, Compression, FrameFlags
//	        | nat (| & + -) nat
//	cond  ::= nat (> < >= <= == !=) nat | err (== | !=) nil | string(D) (== | !=) HdrSignature | !cond | cond && cond | cond || cond
//	err   ::= nil | err local | ErrColumnSizeLimitExceeded | ErrTotalColumnSizeLimitExceeded | ErrInvalidHeaderSignature
//	        | ErrInvalidHeader | ErrInvalidFormatVersion | ErrInvalidCompression | ErrInvalidVarHeader
//
// Every construct outside of it makes this generator fail (die) with a message naming the construct;
// that costs C03/C05/C07 the tie of Props/C03Gen and nothing else.

import (
	"fmt"
	"go/ast"
	"go/constant"
	"go/printer"
	"go/token"
	"regexp"
	"strings"
)

func init() { register("LoadFlow", genLoadFlow) }

type lfKind int

const (
	lfNat   lfKind = iota // Go integer / byte -> Nat
	lfBytes               // []byte -> Bytes
	lfErr                 // error -> Option Err
	lfCols                // the sub-column of a loop -> Cols
)

func (k lfKind) leanType() string { return [...]string{"Nat", "Bytes", "Option Err", "Cols"}[k] }

type lfVar struct {
	lean string
	kind lfKind
}

type lfScope struct {
	parent *lfScope
	m      map[string]*lfVar
	loop   bool
}

// a field of the receiver (or what a pointer parameter points to)
type lfField struct {
	lean string // Lean field name (struct receivers) or variable name (cols receiver)
	kind lfKind
}

type lfSpec struct {
	file, recvType, goName, lean string
	params                       []string // expected parameter types
	results                      []string // expected result types
	cut                          bool     // ReadVarHeader: stop at `x := bytes.NewBuffer(<bytes local>)`
}

var lfConsts = map[string]string{
	"FixedHdrContentSizeLimit": "Stef.Gen.fixedHdrContentSizeLimit", "VarHdrContentSizeLimit": "Stef.Gen.varHdrContentSizeLimit",
	"HdrFormatVersionMask": "Stef.Gen.hdrFormatVersionMask", "HdrFormatVersion": "Stef.Gen.hdrFormatVersion",
	"HdrFlagsCompressionMethod": "Stef.Gen.hdrFlagsCompressionMethod", "CompressionNone": "Stef.Gen.compressionNone",
	"CompressionZstd": "Stef.Gen.compressionZstd", "FrameSizeLimit": "Stef.Gen.frameSizeLimit",
}

var lfErrs = map[string]string{
	"ErrColumnSizeLimitExceeded": ".columnSizeLimit", "ErrTotalColumnSizeLimitExceeded": ".totalColumnSizeLimit",
	"ErrInvalidHeaderSignature": ".invalidSignature", "ErrInvalidHeader": ".invalidHeader",
	"ErrInvalidFormatVersion": ".invalidVersion", "ErrInvalidCompression": ".invalidCompression",
	"ErrInvalidVarHeader": ".invalidVarHeader",
}

var lfConversions = map[string]bool{"int": true, "int64": true, "uint": true, "uint64": true, "Compression": true, "FrameFlags": true}

var lfReserved = map[string]bool{
	"at": true, "end": true, "from": true, "fun": true, "have": true, "show": true, "then": true, "do": true,
	"let": true, "match": true, "with": true, "in": true, "by": true, "open": true, "def": true, "theorem": true,
	"where": true, "mut": true, "if": true, "else": true, "some": true, "none": true, "true": true, "false": true,
	"mutual": true, "node": true, "rest": true, "returned": true, "kid": true, "st": true, "fuel": true,
	"St": true, "Err": true, "Nat": true, "Bytes": true, "Byte": true, "Option": true, "Cols": true, "Bufs": true, "Rs": true,
	"resetData": true, "readSizesFrom": true, "readDataFrom": true, "readFrom": true, "nextFrame": true,
	"readFixedHeader": true, "readVarHeader": true, "hdrSignatureBytes": true, "initWiring": true,
	"mkBytes": true, "ensureLen": true, "noteAlloc": true, "noteAllocB": true, "byteAt": true, "fillBuf": true,
	"bitsReadUvarintCompact": true, "sizesArgs": true, "sizesBack": true, "fdByte": true, "fdReadUvarint": true,
	"fdReadFull": true, "srcReadFull": true, "srcReadUvarint": true, "srcReadByte": true, "srcRead": true,
}

var lfFreshLike = regexp.MustCompile(`_[0-9]+$`)

type lfTr struct {
	fset     *token.FileSet
	where    string
	spec     lfSpec
	recv     string // Go receiver name = Lean name of the receiver
	recvKind string // cols | bufs | reader
	recvType string // Cols | Bufs | Rs
	fields   map[string]lfField
	env      string // Lean name of the threaded environment ("" = none)
	envType  string // Sizes.St | St
	brParam  string // Go name of the *BitsReader parameter (ReadSizesFrom)
	limParam string // Go name of the *uint64 parameter (ReadSizesFrom)
	decParam string // Go name of the ByteAndBlockReader parameter
	results  []lfKind
	aux      []string
	nloops   int
	fresh    int
	inLoop   bool
	elemGo   string // Go text of the loop's sub-column
	elemVar  *lfVar
	known    map[string]bool // Lean functions that may be called (emitted before, or this one)
}

func (t *lfTr) fail(n ast.Node, f string, a ...any) {
	die("%s at %s: %s (outside the translated Go subset)", t.where, t.fset.Position(n.Pos()), fmt.Sprintf(f, a...))
}

func (t *lfTr) str(n ast.Node) string {
	var sb strings.Builder
	printer.Fprint(&sb, t.fset, n)
	return sb.String()
}

func (t *lfTr) freshName(base string) string {
	t.fresh++
	return fmt.Sprintf("%s_%d", base, t.fresh)
}

// ---- scopes

func (s *lfScope) lookup(name string) (*lfVar, bool) {
	crossed := false
	for c := s; c != nil; c = c.parent {
		if v, ok := c.m[name]; ok {
			return v, crossed
		}
		if c.loop {
			crossed = true
		}
	}
	return nil, false
}

func (t *lfTr) use(n ast.Node, sc *lfScope, name string) *lfVar {
	v, crossed := sc.lookup(name)
	if v == nil {
		t.fail(n, "identifier `%s` is not a local of the translated function", name)
	}
	if crossed {
		t.fail(n, "local `%s` is declared outside the loop that uses it", name)
	}
	return v
}

func (t *lfTr) checkName(n ast.Node, name string) {
	if lfReserved[name] || name == t.recv || name == t.env || strings.HasPrefix(name, t.recv+"_") || lfFreshLike.MatchString(name) {
		t.fail(n, "local name `%s` collides with the generated Lean text", name)
	}
	for _, r := range name {
		if !(r == '_' || r >= '0' && r <= '9' || r >= 'a' && r <= 'z' || r >= 'A' && r <= 'Z') {
			t.fail(n, "local name `%s`", name)
		}
	}
}

func (t *lfTr) declare(n ast.Node, sc *lfScope, name string, kind lfKind) *lfVar {
	if name == "_" {
		return &lfVar{"_", kind}
	}
	t.checkName(n, name)
	if v, ok := sc.m[name]; ok {
		if v.kind != kind {
			t.fail(n, "local `%s` is used with two different types", name)
		}
		return v
	}
	lean := name
	if v, _ := sc.lookup(name); v != nil {
		lean = t.freshName(name)
	}
	v := &lfVar{lean, kind}
	sc.m[name] = v
	return v
}

func (t *lfTr) assign(n ast.Node, sc *lfScope, name string, kind lfKind) *lfVar {
	if name == "_" {
		return &lfVar{"_", kind}
	}
	v := t.use(n, sc, name)
	if v.kind != kind {
		t.fail(n, "assignment to `%s`: a %s is assigned to a %s", name, kind.leanType(), v.kind.leanType())
	}
	return v
}

// ---- places

// a place that can be read and assigned: a local, a field of the receiver, `*L`
type lfPlace struct {
	kind  lfKind
	read  string              // Lean expression of the current value
	isVar bool                // a Lean variable: can be rebound by a pattern
	write func(val string) string // the Lean line that assigns val
}

func (t *lfTr) fieldPlace(f lfField) *lfPlace {
	if t.recvKind == "cols" {
		return &lfPlace{f.kind, f.lean, true, func(val string) string {
			return fmt.Sprintf("let %s : %s := %s", f.lean, f.kind.leanType(), val)
		}}
	}
	return &lfPlace{f.kind, t.recv + "." + f.lean, false, func(val string) string {
		return fmt.Sprintf("let %s : %s := { %s with %s := %s }", t.recv, t.recvType, t.recv, f.lean, val)
	}}
}

// place: nil if e is not an assignable place of the subset. Receiver fields are not available
// inside a loop body (the loop function only has the sub-columns and the environment).
func (t *lfTr) place(e ast.Expr, sc *lfScope) *lfPlace {
	switch v := e.(type) {
	case *ast.Ident:
		if x, _ := sc.lookup(v.Name); x != nil && x.kind != lfCols {
			x = t.use(v, sc, v.Name)
			return &lfPlace{x.kind, x.lean, true, func(val string) string {
				return fmt.Sprintf("let %s : %s := %s", x.lean, x.kind.leanType(), val)
			}}
		}
	case *ast.StarExpr:
		if id, ok := v.X.(*ast.Ident); ok && t.limParam != "" && id.Name == t.limParam {
			return &lfPlace{lfNat, t.env + ".limit", false, func(val string) string {
				return fmt.Sprintf("let %s : Sizes.St := { %s with limit := %s }", t.env, t.env, val)
			}}
		}
	case *ast.SelectorExpr:
		if f, ok := t.fields[t.str(v)]; ok {
			if t.inLoop {
				t.fail(e, "field `%s` of the receiver inside a loop over the sub-columns", t.str(v))
			}
			return t.fieldPlace(f)
		}
	}
	return nil
}

// ---- expressions

func (t *lfTr) nat(e ast.Expr, sc *lfScope) string {
	switch v := e.(type) {
	case *ast.ParenExpr:
		return t.nat(v.X, sc)
	case *ast.BasicLit:
		if v.Kind == token.INT {
			return bigOf(constant.MakeFromLiteral(v.Value, v.Kind, 0)).String()
		}
	case *ast.Ident:
		if c, ok := lfConsts[v.Name]; ok {
			if x, _ := sc.lookup(v.Name); x == nil {
				return c
			}
		}
		if p := t.place(v, sc); p != nil && p.kind == lfNat {
			return p.read
		}
		t.fail(e, "`%s` is not an integer here", v.Name)
	case *ast.StarExpr, *ast.SelectorExpr:
		if p := t.place(e, sc); p != nil && p.kind == lfNat {
			return p.read
		}
	case *ast.IndexExpr:
		if p := t.place(v.X, sc); p != nil && p.kind == lfBytes {
			if lit, ok := v.Index.(*ast.BasicLit); ok && lit.Kind == token.INT {
				return fmt.Sprintf("byteAt %s %s", p.read, bigOf(constant.MakeFromLiteral(lit.Value, lit.Kind, 0)).String())
			}
		}
	case *ast.CallExpr:
		if t.recvKind == "reader" && !t.inLoop && t.str(v) == t.recv+".FrameDecoder.RemainingSize()" {
			return t.recv + ".dec.fd.remaining"
		}
		if len(v.Args) == 1 && !v.Ellipsis.IsValid() {
			if id, ok := v.Fun.(*ast.Ident); ok {
				switch {
				case lfConversions[id.Name]:
					return t.nat(v.Args[0], sc)
				case id.Name == "len":
					if t.str(v.Args[0]) == "HdrSignature" {
						if x, _ := sc.lookup("HdrSignature"); x == nil {
							return "hdrSignatureBytes.length"
						}
					}
					if p := t.place(v.Args[0], sc); p != nil && p.kind == lfBytes {
						return p.read + ".length"
					}
				}
			}
		}
	case *ast.BinaryExpr:
		op := map[token.Token]string{token.OR: "|||", token.AND: "&&&", token.ADD: "+", token.SUB: "-"}[v.Op]
		if op != "" {
			return fmt.Sprintf("(%s %s %s)", t.nat(v.X, sc), op, t.nat(v.Y, sc))
		}
	}
	t.fail(e, "integer expression `%s`", t.str(e))
	return ""
}

func (t *lfTr) isErrExpr(e ast.Expr, sc *lfScope) bool {
	s := t.str(e)
	if s == "nil" {
		return true
	}
	if id, ok := e.(*ast.Ident); ok {
		if x, _ := sc.lookup(id.Name); x != nil {
			return x.kind == lfErr
		}
		_, is := lfErrs[s]
		return is
	}
	return false
}

func (t *lfTr) errVal(e ast.Expr, sc *lfScope) string {
	if id, ok := e.(*ast.Ident); ok {
		if x, _ := sc.lookup(id.Name); x != nil {
			if x = t.use(id, sc, id.Name); x.kind == lfErr {
				return x.lean
			}
			t.fail(e, "`%s` is not an error here", id.Name)
		}
		if id.Name == "nil" {
			return "none"
		}
		if c, ok := lfErrs[id.Name]; ok {
			return "some " + c
		}
	}
	t.fail(e, "error value `%s`", t.str(e))
	return ""
}

// string(D) of a []byte place, or the constant HdrSignature: as Bytes
func (t *lfTr) bytesCmp(e ast.Expr, sc *lfScope) (string, bool) {
	if id, ok := e.(*ast.Ident); ok && id.Name == "HdrSignature" {
		if x, _ := sc.lookup(id.Name); x == nil {
			return "hdrSignatureBytes", true
		}
	}
	if ce, ok := e.(*ast.CallExpr); ok && len(ce.Args) == 1 && t.str(ce.Fun) == "string" {
		if p := t.place(ce.Args[0], sc); p != nil && p.kind == lfBytes {
			return p.read, true
		}
	}
	return "", false
}

func (t *lfTr) cond(e ast.Expr, sc *lfScope) string {
	switch v := e.(type) {
	case *ast.ParenExpr:
		return t.cond(v.X, sc)
	case *ast.UnaryExpr:
		if v.Op == token.NOT {
			return "(¬ " + t.cond(v.X, sc) + ")"
		}
	case *ast.BinaryExpr:
		switch v.Op {
		case token.LAND:
			return "(" + t.cond(v.X, sc) + " ∧ " + t.cond(v.Y, sc) + ")"
		case token.LOR:
			return "(" + t.cond(v.X, sc) + " ∨ " + t.cond(v.Y, sc) + ")"
		}
		op := map[token.Token]string{token.GTR: ">", token.LSS: "<", token.GEQ: "≥", token.LEQ: "≤", token.EQL: "=", token.NEQ: "≠"}[v.Op]
		if op == "" {
			break
		}
		eq := v.Op == token.EQL || v.Op == token.NEQ
		if a, ok := t.bytesCmp(v.X, sc); ok && eq {
			if b, ok := t.bytesCmp(v.Y, sc); ok {
				return fmt.Sprintf("(%s %s %s)", a, op, b)
			}
			break
		}
		if t.isErrExpr(v.X, sc) || t.isErrExpr(v.Y, sc) {
			if !eq {
				break
			}
			return fmt.Sprintf("(%s %s %s)", t.errVal(v.X, sc), op, t.errVal(v.Y, sc))
		}
		return fmt.Sprintf("(%s %s %s)", t.nat(v.X, sc), op, t.nat(v.Y, sc))
	}
	t.fail(e, "condition `%s`", t.str(e))
	return ""
}

// ---- calls

// the translation of a call that threads state: `match <text> with | (<pats>, [val,] [err]) =>` + posts
type lfCall struct {
	text   string
	pats   []string // state outputs, in order
	posts  []string // write-backs after the match
	hasVal bool     // a value result (before the error)
	valK   lfKind
	noGoVal bool // the Go call has a first result that must be discarded (the n of io.ReadFull)
	hasErr bool
}

// handle: an expression that denotes a reader. Returns the Lean state expression, the pattern that
// receives the new state and the write-back, and whether it is the bufio reader (r.Source).
func (t *lfTr) handle(e ast.Expr) (state, pat string, posts []string, isSrc bool) {
	s := t.str(e)
	switch {
	case t.decParam != "" && s == t.decParam:
		return t.env, t.env, nil, false
	case t.recvKind == "reader" && !t.inLoop && (s == "&"+t.recv+".FrameDecoder" || s == t.recv+".Source"):
		p := t.freshName("dec")
		return t.recv + ".dec", p, []string{fmt.Sprintf("let %s : Rs := { %s with dec := %s }", t.recv, t.recv, p)}, s == t.recv+".Source"
	}
	t.fail(e, "`%s` is not a reader of the subset (the ByteAndBlockReader parameter, &%s.FrameDecoder, %s.Source)", s, t.recv, t.recv)
	return
}

// colsTarget: the receiver expression of a ReadColumnSet method call: the loop's sub-column, or s.Columns
func (t *lfTr) colsTarget(e ast.Expr) (arg, pat string, posts []string) {
	s := t.str(e)
	switch {
	case t.inLoop && s == t.elemGo:
		return t.elemVar.lean, t.elemVar.lean, nil
	case t.recvKind == "bufs" && s == t.recv+".Columns":
		p := t.freshName("cols")
		return t.recv + ".columns", p, []string{fmt.Sprintf("let %s : Bufs := { %s with columns := %s }", t.recv, t.recv, p)}
	}
	t.fail(e, "`%s` is not a column set of the subset (the loop's sub-column, %s.Columns)", s, t.recv)
	return
}

func (t *lfTr) callee(n ast.Node, lean string) {
	if !t.known[lean] {
		t.fail(n, "call of `%s`, which is not translated before this function", lean)
	}
}

func (t *lfTr) call(e ast.Expr, sc *lfScope) *lfCall {
	ce, ok := e.(*ast.CallExpr)
	if !ok || ce.Ellipsis.IsValid() {
		t.fail(e, "`%s` is not a whitelisted call", t.str(e))
	}
	fun := t.str(ce.Fun)
	switch {
	case fun == "binary.ReadUvarint" && len(ce.Args) == 1:
		st, pat, posts, isSrc := t.handle(ce.Args[0])
		fn := "fdReadUvarint"
		if isSrc {
			fn = "srcReadUvarint"
		}
		return &lfCall{text: fn + " " + st, pats: []string{pat}, posts: posts, hasVal: true, valK: lfNat, hasErr: true}
	case fun == "io.ReadFull" && len(ce.Args) == 2:
		st, pat, posts, isSrc := t.handle(ce.Args[0])
		fn := "fdReadFull"
		if isSrc {
			fn = "srcReadFull"
		}
		p := t.place(ce.Args[1], sc)
		if p == nil || p.kind != lfBytes {
			t.fail(ce.Args[1], "buffer argument `%s`", t.str(ce.Args[1]))
		}
		bp := p.read
		if !p.isVar {
			bp = t.freshName("filled")
			posts = append(posts, p.write(bp))
		}
		return &lfCall{text: fmt.Sprintf("%s %s %s", fn, st, p.read), pats: []string{pat, bp}, posts: posts, noGoVal: true, hasErr: true}
	case t.recvKind == "reader" && !t.inLoop && fun == t.recv+".FrameDecoder.Next" && len(ce.Args) == 0:
		p := t.freshName("dec")
		return &lfCall{text: "Stef.Gen.FrameFlow.next " + t.recv + ".dec", pats: []string{p},
			posts: []string{fmt.Sprintf("let %s : Rs := { %s with dec := %s }", t.recv, t.recv, p)}, hasVal: true, valK: lfNat, hasErr: true}
	case t.brParam != "" && fun == t.brParam+".ReadUvarintCompact" && len(ce.Args) == 0:
		return &lfCall{text: "bitsReadUvarintCompact " + t.env, pats: []string{t.env}, hasVal: true, valK: lfNat}
	case t.recvKind == "reader" && !t.inLoop && fun == t.recv+".ReadBufs.ReadFrom" && len(ce.Args) == 2 &&
		t.str(ce.Args[0]) == "&"+t.recv+".FrameDecoder":
		t.callee(e, "readFrom")
		b, d := t.freshName("bufs"), t.freshName("dec")
		return &lfCall{text: fmt.Sprintf("readFrom %s.bufs %s.dec %s", t.recv, t.recv, t.natArg(ce.Args[1], sc)), pats: []string{b, d},
			posts: []string{fmt.Sprintf("let %s : Rs := { %s with bufs := %s, dec := %s }", t.recv, t.recv, b, d)}, hasErr: true}
	}
	if sel, ok := ce.Fun.(*ast.SelectorExpr); ok {
		switch sel.Sel.Name {
		case "ReadSizesFrom":
			if len(ce.Args) != 2 {
				break
			}
			if t.brParam != "" && t.str(ce.Args[0]) == t.brParam && t.str(ce.Args[1]) == t.limParam {
				t.callee(e, "readSizesFrom")
				arg, pat, posts := t.colsTarget(sel.X)
				return &lfCall{text: fmt.Sprintf("readSizesFrom %s %s", arg, t.env), pats: []string{pat, t.env}, posts: posts, hasErr: true}
			}
			if t.recvKind == "bufs" && !t.inLoop && t.str(sel.X) == t.recv+".Columns" &&
				t.str(ce.Args[0]) == "&"+t.recv+".tempBuf" && t.str(ce.Args[1]) == "&"+t.recv+".readLimit" {
				t.callee(e, "readSizesFrom")
				c, s := t.freshName("cols"), t.freshName("st")
				return &lfCall{text: fmt.Sprintf("readSizesFrom %s.columns (sizesArgs %s)", t.recv, t.recv), pats: []string{c, s},
					posts: []string{fmt.Sprintf("let %s : Bufs := sizesBack %s %s %s", t.recv, t.recv, c, s)}, hasErr: true}
			}
		case "ReadDataFrom":
			if len(ce.Args) == 1 && t.decParam != "" && t.str(ce.Args[0]) == t.decParam {
				t.callee(e, "readDataFrom")
				arg, pat, posts := t.colsTarget(sel.X)
				return &lfCall{text: fmt.Sprintf("readDataFrom %s %s", arg, t.env), pats: []string{pat, t.env}, posts: posts, hasErr: true}
			}
		}
	}
	t.fail(e, "call `%s`", t.str(e))
	return nil
}

func (t *lfTr) natArg(e ast.Expr, sc *lfScope) string {
	s := t.nat(e, sc)
	if strings.ContainsAny(s, " ") && !strings.HasPrefix(s, "(") {
		return "(" + s + ")"
	}
	return s
}

// ---- statements

type lfCont func(ind string) string

func (t *lfTr) recvExpr() string {
	if t.recvKind == "cols" {
		return fmt.Sprintf(".node %s_data %s_kids", t.recv, t.recv)
	}
	return t.recv
}

func lfTuple(parts ...string) string {
	var ps []string
	for _, p := range parts {
		if p != "" {
			ps = append(ps, p)
		}
	}
	return "(" + strings.Join(ps, ", ") + ")"
}

func (t *lfTr) retTypes() string {
	var rts []string
	for _, r := range t.results {
		rts = append(rts, r.leanType())
	}
	if len(rts) == 0 {
		return "Unit"
	}
	return strings.Join(rts, " × ")
}

// wrap: the value of the enclosing Lean function for `return vals`
type lfWrap func(vals []string) string

func (t *lfTr) fnWrap(vals []string) string {
	parts := append([]string{t.recvExpr(), t.env}, vals...)
	if t.spec.cut {
		parts = append(parts, "none")
	}
	return lfTuple(parts...)
}

func (t *lfTr) retVal(kind lfKind, e ast.Expr, sc *lfScope) string {
	switch kind {
	case lfErr:
		return t.errVal(e, sc)
	case lfNat:
		return t.nat(e, sc)
	}
	t.fail(e, "returned value `%s`", t.str(e))
	return ""
}

// emitCall: the lines of `match call with | (..) =>` followed by the write-backs. valPat/errPat are the
// pattern variables for the value and the error ("" = the call has none).
func (t *lfTr) emitCall(c *lfCall, valPat, errPat, ind string) string {
	pats := append([]string{}, c.pats...)
	if c.hasVal {
		pats = append(pats, valPat)
	}
	if c.hasErr {
		pats = append(pats, errPat)
	}
	out := ind + "match " + c.text + " with\n" + ind + "| " + lfTuple(pats...) + " =>\n"
	for _, p := range c.posts {
		out += ind + p + "\n"
	}
	return out
}

func (t *lfTr) stmts(list []ast.Stmt, sc *lfScope, ind string, wrap lfWrap, k lfCont, top bool) string {
	if len(list) == 0 {
		if k == nil {
			die("%s: control can reach the end of the function without a return (outside the translated Go subset)", t.where)
		}
		return k(ind)
	}
	st, rest := list[0], list[1:]
	next := func(ind string) string { return t.stmts(rest, sc, ind, wrap, k, top) }
	line := func(s string) string { return ind + s + "\n" }
	switch v := st.(type) {
	case *ast.ReturnStmt:
		if len(rest) != 0 {
			t.fail(rest[0], "statement after return")
		}
		out := line("-- " + t.str(v))
		if len(v.Results) == 1 && len(t.results) == 1 && t.results[0] == lfErr {
			if _, isCall := v.Results[0].(*ast.CallExpr); isCall {
				c := t.call(v.Results[0], sc)
				if c.hasVal || c.noGoVal || !c.hasErr {
					t.fail(v, "`%s` does not return the function's result", t.str(v.Results[0]))
				}
				e := t.freshName("err")
				return out + t.emitCall(c, "", e, ind) + line(wrap([]string{e}))
			}
		}
		if len(v.Results) != len(t.results) {
			t.fail(v, "return with %d values", len(v.Results))
		}
		var vals []string
		for i, r := range v.Results {
			vals = append(vals, t.retVal(t.results[i], r, sc))
		}
		return out + line(wrap(vals))
	case *ast.ExprStmt:
		ce, ok := v.X.(*ast.CallExpr)
		if !ok {
			t.fail(v, "statement `%s`", t.str(v))
		}
		if sel, ok := ce.Fun.(*ast.SelectorExpr); ok && sel.Sel.Name == "ResetData" && len(ce.Args) == 0 && t.inLoop && t.str(sel.X) == t.elemGo {
			t.callee(v, "resetData")
			return line("-- "+t.str(v)) + line(fmt.Sprintf("let %s : Cols := resetData %s", t.elemVar.lean, t.elemVar.lean)) + next(ind)
		}
		if t.recvKind == "bufs" && !t.inLoop && t.str(v.X) == fmt.Sprintf("%s.tempBuf.Reset(%s.tempBufBytes)", t.recv, t.recv) {
			return line("-- "+t.str(v)) + line(fmt.Sprintf("let %s : Bufs := { %s with tempBuf := %s.tempBuf.reset %s.tempBufBytes }", t.recv, t.recv, t.recv, t.recv)) + next(ind)
		}
		t.fail(v, "statement `%s`", t.str(v))
	case *ast.AssignStmt:
		if t.spec.cut && top && !t.inLoop && len(v.Lhs) == 1 && len(v.Rhs) == 1 && v.Tok == token.DEFINE {
			if ce, ok := v.Rhs[0].(*ast.CallExpr); ok && t.str(ce.Fun) == "bytes.NewBuffer" && len(ce.Args) == 1 {
				return t.cutHere(v, ce.Args[0], list, sc, ind)
			}
		}
		return t.assignStmt(v, sc, ind, next)
	case *ast.IfStmt:
		return t.ifStmt(v, sc, ind, wrap, next)
	case *ast.SwitchStmt:
		return t.switchStmt(v, sc, ind, wrap, next)
	case *ast.ForStmt, *ast.RangeStmt:
		return t.loopStmt(st, sc, ind, wrap, next)
	}
	t.fail(st, "statement `%s`", t.str(st))
	return ""
}

// cutHere: ReadVarHeader from `x := bytes.NewBuffer(hdrBytes)` on is not translated; it must not touch the source.
func (t *lfTr) cutHere(v *ast.AssignStmt, arg ast.Expr, tail []ast.Stmt, sc *lfScope, ind string) string {
	p := t.place(arg, sc)
	id, isId := arg.(*ast.Ident)
	if p == nil || p.kind != lfBytes || !isId {
		t.fail(v, "`%s`: the argument is not a []byte local", t.str(v))
	}
	uses := 0
	for _, s := range tail {
		ast.Inspect(s, func(n ast.Node) bool {
			switch x := n.(type) {
			case *ast.SelectorExpr:
				if s := t.str(x); s == t.recv+".FrameDecoder" || s == t.recv+".Source" {
					t.fail(x, "`%s` is used after the header bytes were handed to Deserialize", s)
				}
			case *ast.Ident:
				if x.Name == id.Name {
					uses++
				}
			}
			return true
		})
	}
	if uses != 1 {
		t.fail(v, "the header bytes `%s` are used again after `%s`", id.Name, t.str(v))
	}
	out := ind + "-- " + t.str(v) + "   [from here on the function does not mention " + t.recv + ".FrameDecoder / " + t.recv + ".Source: not translated]\n"
	return out + ind + lfTuple(t.recvExpr(), t.env, "none", "some "+p.read) + "\n"
}

func (t *lfTr) assignStmt(v *ast.AssignStmt, sc *lfScope, ind string, next lfCont) string {
	line := func(s string) string { return ind + s + "\n" }
	if v.Tok != token.DEFINE && v.Tok != token.ASSIGN && v.Tok != token.ADD_ASSIGN && v.Tok != token.SUB_ASSIGN {
		t.fail(v, "assignment `%s`", t.str(v))
	}
	// the target of a value: a pattern variable, or a fresh one plus a write-back line
	target := func(e ast.Expr, kind lfKind) (pat string, post string) {
		if id, ok := e.(*ast.Ident); ok {
			if v.Tok == token.DEFINE {
				return t.declare(e, sc, id.Name, kind).lean, ""
			}
			if id.Name == "_" {
				return "_", ""
			}
		}
		if v.Tok == token.DEFINE {
			t.fail(e, "`:=` to `%s`", t.str(e))
		}
		p := t.place(e, sc)
		if p == nil || p.kind != kind {
			t.fail(e, "assignment target `%s`", t.str(e))
		}
		if p.isVar {
			return p.read, ""
		}
		f := t.freshName("val")
		return f, p.write(f)
	}
	switch {
	case len(v.Lhs) == 2 && len(v.Rhs) == 1 && (v.Tok == token.DEFINE || v.Tok == token.ASSIGN):
		c := t.call(v.Rhs[0], sc)
		if !c.hasErr || !(c.hasVal || c.noGoVal) {
			t.fail(v, "`%s` does not have two results", t.str(v.Rhs[0]))
		}
		valPat, valPost := "", ""
		if c.noGoVal {
			if t.str(v.Lhs[0]) != "_" {
				t.fail(v, "the count returned by `%s` is used", t.str(v.Rhs[0]))
			}
		} else {
			valPat, valPost = target(v.Lhs[0], c.valK)
		}
		errPat, _ := target(v.Lhs[1], lfErr)
		out := line("-- "+t.str(v)) + t.emitCall(c, valPat, errPat, ind)
		if valPost != "" {
			out += line(valPost)
		}
		return out + next(ind)
	case len(v.Lhs) == 1 && len(v.Rhs) == 1:
		lhs, rhs := v.Lhs[0], v.Rhs[0]
		if ce, ok := rhs.(*ast.CallExpr); ok && (v.Tok == token.DEFINE || v.Tok == token.ASSIGN) {
			switch fun := t.str(ce.Fun); {
			case fun == "make" && len(ce.Args) == 2 && t.str(ce.Args[0]) == "[]byte":
				pat, post := target(lhs, lfBytes)
				if post != "" {
					t.fail(v, "make into `%s`", t.str(lhs))
				}
				return line("-- "+t.str(v)) + line(fmt.Sprintf("let %s : Bytes := mkBytes %s", pat, t.natArg(ce.Args[1], sc))) + next(ind)
			case fun == "EnsureLen" && len(ce.Args) == 2 && v.Tok == token.ASSIGN:
				p := t.place(lhs, sc)
				if p == nil || p.kind != lfBytes || t.str(ce.Args[0]) != t.str(lhs) {
					t.fail(v, "`%s`: EnsureLen of a buffer into a different place", t.str(v))
				}
				n := t.natArg(ce.Args[1], sc)
				note := ""
				switch {
				case t.envType == "Sizes.St":
					note = fmt.Sprintf("let %s : Sizes.St := noteAlloc %s %s", t.env, t.env, n)
				case t.recvKind == "bufs" && !t.inLoop:
					note = fmt.Sprintf("let %s : Bufs := noteAllocB %s %s", t.recv, t.recv, n)
				default:
					t.fail(v, "EnsureLen in a function without the allocation ghost")
				}
				return line("-- "+t.str(v)) + line(note) + line(p.write(fmt.Sprintf("ensureLen %s %s", p.read, n))) + next(ind)
			case strings.HasSuffix(fun, ".ReadSizesFrom") || strings.HasSuffix(fun, ".ReadDataFrom") || strings.HasSuffix(fun, ".ReadFrom"):
				// err (:= | =) call1
				c := t.call(rhs, sc)
				if c.hasVal || c.noGoVal || !c.hasErr {
					t.fail(v, "`%s` does not return one error", t.str(rhs))
				}
				pat, _ := target(lhs, lfErr)
				return line("-- "+t.str(v)) + t.emitCall(c, "", pat, ind) + next(ind)
			case t.brParam != "" && fun == t.brParam+".ReadUvarintCompact":
				c := t.call(rhs, sc)
				pat, post := target(lhs, lfNat)
				out := line("-- "+t.str(v)) + t.emitCall(c, pat, "", ind)
				if post != "" {
					out += line(post)
				}
				return out + next(ind)
			}
		}
		if t.str(rhs) == "nil" && v.Tok == token.ASSIGN {
			if p := t.place(lhs, sc); p != nil && p.kind == lfBytes {
				return line("-- "+t.str(v)) + line(p.write("[]")) + next(ind)
			}
		}
		// integers
		val := ""
		switch v.Tok {
		case token.DEFINE, token.ASSIGN:
			val = t.nat(rhs, sc)
		case token.ADD_ASSIGN:
			val = fmt.Sprintf("%s + %s", t.nat(lhs, sc), t.nat(rhs, sc))
		case token.SUB_ASSIGN:
			val = fmt.Sprintf("%s - %s", t.nat(lhs, sc), t.nat(rhs, sc))
		}
		if v.Tok == token.DEFINE {
			pat, _ := target(lhs, lfNat)
			return line("-- "+t.str(v)) + line(fmt.Sprintf("let %s : Nat := %s", pat, val)) + next(ind)
		}
		p := t.place(lhs, sc)
		if p == nil || p.kind != lfNat {
			t.fail(v, "assignment target `%s`", t.str(lhs))
		}
		return line("-- "+t.str(v)) + line(p.write(val)) + next(ind)
	}
	t.fail(v, "assignment `%s`", t.str(v))
	return ""
}

func (t *lfTr) ifStmt(v *ast.IfStmt, sc *lfScope, ind string, wrap lfWrap, next lfCont) string {
	line := func(s string) string { return ind + s + "\n" }
	out := ""
	inner := &lfScope{parent: sc, m: map[string]*lfVar{}}
	if v.Init != nil {
		as, ok := v.Init.(*ast.AssignStmt)
		if !ok || as.Tok != token.DEFINE || len(as.Rhs) != 1 || len(as.Lhs) < 1 || len(as.Lhs) > 2 {
			t.fail(v.Init, "if-initialiser `%s`", t.str(v.Init))
		}
		c := t.call(as.Rhs[0], inner)
		if !c.hasErr {
			t.fail(v.Init, "if-initialiser `%s`", t.str(v.Init))
		}
		errLhs := as.Lhs[len(as.Lhs)-1]
		id, ok := errLhs.(*ast.Ident)
		if !ok {
			t.fail(v.Init, "if-initialiser `%s`", t.str(v.Init))
		}
		valPat := ""
		switch {
		case len(as.Lhs) == 1 && !c.hasVal && !c.noGoVal:
		case len(as.Lhs) == 2 && (c.hasVal || c.noGoVal) && t.str(as.Lhs[0]) == "_":
			valPat = "_"
		default:
			t.fail(v.Init, "if-initialiser `%s`: results of the call", t.str(v.Init))
		}
		x := t.declare(as, inner, id.Name, lfErr)
		out += line("-- if "+t.str(v.Init)+"; ..") + t.emitCall(c, valPat, x.lean, ind)
	}
	out += line("-- if " + t.str(v.Cond))
	out += line("if " + t.cond(v.Cond, inner) + " then")
	thenSc := &lfScope{parent: inner, m: map[string]*lfVar{}}
	out += line("  (") + t.stmts(v.Body.List, thenSc, ind+"   ", wrap, next, false) + line("  )")
	out += line("else")
	switch e := v.Else.(type) {
	case nil:
		out += line("  (") + next(ind+"   ") + line("  )")
	case *ast.BlockStmt:
		elseSc := &lfScope{parent: inner, m: map[string]*lfVar{}}
		out += line("  (") + t.stmts(e.List, elseSc, ind+"   ", wrap, next, false) + line("  )")
	case *ast.IfStmt:
		out += line("  (") + t.ifStmt(e, inner, ind+"   ", wrap, next) + line("  )")
	default:
		t.fail(v.Else, "else branch")
	}
	return out
}

// switch tag { case a, b: .. default: .. } -> if tag = a ∨ tag = b then .. else .. (cases in source order, default last)
func (t *lfTr) switchStmt(v *ast.SwitchStmt, sc *lfScope, ind string, wrap lfWrap, next lfCont) string {
	if v.Init != nil || v.Tag == nil {
		t.fail(v, "switch with initialiser or without tag")
	}
	tag := t.nat(v.Tag, sc)
	var cases []*ast.CaseClause
	var def *ast.CaseClause
	for _, c := range v.Body.List {
		cc := c.(*ast.CaseClause)
		for _, s := range cc.Body {
			if b, ok := s.(*ast.BranchStmt); ok {
				t.fail(b, "`%s` in a switch", t.str(b))
			}
		}
		if cc.List == nil {
			if def != nil {
				t.fail(cc, "two default clauses")
			}
			def = cc
		} else {
			cases = append(cases, cc)
		}
	}
	var rec func(i int, ind string) string
	rec = func(i int, ind string) string {
		line := func(s string) string { return ind + s + "\n" }
		if i == len(cases) {
			if def == nil {
				return next(ind)
			}
			return line("-- default:") + t.stmts(def.Body, &lfScope{parent: sc, m: map[string]*lfVar{}}, ind, wrap, next, false)
		}
		var alts []string
		for _, e := range cases[i].List {
			alts = append(alts, fmt.Sprintf("(%s = %s)", tag, t.nat(e, sc)))
		}
		c := alts[0]
		if len(alts) > 1 {
			c = "(" + strings.Join(alts, " ∨ ") + ")"
		}
		hdr := "-- case"
		for j, e := range cases[i].List {
			if j > 0 {
				hdr += ","
			}
			hdr += " " + t.str(e)
		}
		out := line(hdr+":") + line("if "+c+" then")
		out += line("  (") + t.stmts(cases[i].Body, &lfScope{parent: sc, m: map[string]*lfVar{}}, ind+"   ", wrap, next, false) + line("  )")
		out += line("else")
		out += line("  (") + rec(i+1, ind+"   ") + line("  )")
		return out
	}
	return ind + "-- switch " + t.str(v.Tag) + "\n" + rec(0, ind)
}

// loopStmt: one of the three forms of "for every sub-column, in order".
func (t *lfTr) loopStmt(st ast.Stmt, sc *lfScope, ind string, wrap lfWrap, next lfCont) string {
	if t.recvKind != "cols" {
		t.fail(st, "loop in a function that is not a ReadColumnSet method")
	}
	if t.inLoop {
		t.fail(st, "nested loop")
	}
	subs := t.recv + ".subColumns"
	var body *ast.BlockStmt
	elemGo, elemName, hdr := "", "kid", ""
	switch v := st.(type) {
	case *ast.ForStmt:
		body = v.Body
		init, ok1 := v.Init.(*ast.AssignStmt)
		post, ok2 := v.Post.(*ast.IncDecStmt)
		if !ok1 || !ok2 || v.Cond == nil || init.Tok != token.DEFINE || len(init.Lhs) != 1 || len(init.Rhs) != 1 || t.str(init.Rhs[0]) != "0" {
			t.fail(st, "for statement (not `for i := 0; i < len(%s); i++`)", subs)
		}
		i := t.str(init.Lhs[0])
		if _, isId := init.Lhs[0].(*ast.Ident); !isId || post.Tok != token.INC || t.str(post.X) != i || t.str(v.Cond) != i+" < len("+subs+")" {
			t.fail(st, "for statement (not `for i := 0; i < len(%s); i++`)", subs)
		}
		elemGo = subs + "[" + i + "]"
		hdr = fmt.Sprintf("for %s; %s; %s { .. }", t.str(v.Init), t.str(v.Cond), t.str(v.Post))
	case *ast.RangeStmt:
		body = v.Body
		if v.Tok != token.DEFINE || t.str(v.X) != subs || v.Key == nil {
			t.fail(st, "range statement (not over %s)", subs)
		}
		if v.Value == nil {
			if _, isId := v.Key.(*ast.Ident); !isId || t.str(v.Key) == "_" {
				t.fail(st, "range statement `%s`", t.str(v.Key))
			}
			elemGo = subs + "[" + t.str(v.Key) + "]"
			hdr = fmt.Sprintf("for %s := range %s { .. }", t.str(v.Key), subs)
		} else {
			id, isId := v.Value.(*ast.Ident)
			if !isId || t.str(v.Key) != "_" || id.Name == "_" {
				t.fail(st, "range statement with key and value")
			}
			t.checkName(id, id.Name)
			elemGo, elemName = id.Name, id.Name
			hdr = fmt.Sprintf("for _, %s := range %s { .. }", id.Name, subs)
		}
	}
	t.nloops++
	name := fmt.Sprintf("%sLoop%d", t.spec.lean, t.nloops)
	envArg, envTy, envPat := "", "", ""
	if t.env != "" {
		envArg, envTy, envPat = " "+t.env, t.envType+" → ", ", "+t.env
	}
	resTy := "List Cols × "
	if t.env != "" {
		resTy += t.envType + " × "
	}
	resTy += "Option (" + t.retTypes() + ")"
	bodySc := &lfScope{parent: sc, m: map[string]*lfVar{}, loop: true}
	t.inLoop, t.elemGo, t.elemVar = true, elemGo, &lfVar{elemName, lfCols}
	loopWrap := func(vals []string) string {
		r := "()"
		if len(vals) > 0 {
			r = strings.Join(vals, ", ")
		}
		return lfTuple(elemName+" :: rest", t.env, "some ("+r+")")
	}
	var sb strings.Builder
	fmt.Fprintf(&sb, "/-- the loop `%s` of %s over the list of sub-columns: `none` = the loop ended, `some r` = `return r` inside it -/\n", hdr, t.where)
	fmt.Fprintf(&sb, "def %s : List Cols → %s%s\n", name, envTy, resTy)
	fmt.Fprintf(&sb, "  | []%s => %s\n", envPat, lfTuple("[]", t.env, "none"))
	fmt.Fprintf(&sb, "  | %s :: rest%s =>\n", elemName, envPat)
	sb.WriteString(t.stmts(body.List, bodySc, "    ", loopWrap, func(ind string) string {
		return ind + fmt.Sprintf("match %s rest%s with\n", name, envArg) + ind + "| " + lfTuple("rest", t.env, "returned") + " => " + lfTuple(elemName+" :: rest", t.env, "returned") + "\n"
	}, false))
	t.inLoop, t.elemGo, t.elemVar = false, "", nil
	t.aux = append(t.aux, sb.String())
	kids := t.recv + "_kids"
	retd := "returned"
	if len(t.results) == 0 {
		retd = ""
	}
	out := ind + "-- " + hdr + "\n" + ind + fmt.Sprintf("match %s %s%s with\n", name, kids, envArg)
	out += ind + "| " + lfTuple(kids, t.env, "some returned") + " => " + lfTuple(t.recvExpr(), t.env, retd) + "\n"
	out += ind + "| " + lfTuple(kids, t.env, "none") + " =>\n"
	return out + next(ind)
}

// ---- functions

func lfTranslate(fset *token.FileSet, fd *ast.FuncDecl, spec lfSpec, known map[string]bool) string {
	t := &lfTr{fset: fset, where: spec.file + " func (" + spec.recvType + ") " + spec.goName, spec: spec, known: known}
	str := t.str
	if fd.Recv == nil || len(fd.Recv.List) != 1 || len(fd.Recv.List[0].Names) != 1 {
		t.fail(fd, "receiver")
	}
	t.recv = fd.Recv.List[0].Names[0].Name
	if lfReserved[t.recv] {
		t.fail(fd, "receiver name `%s` collides with the generated Lean text", t.recv)
	}
	switch spec.recvType {
	case "*ReadColumnSet":
		t.recvKind, t.recvType = "cols", "Cols"
		t.fields = map[string]lfField{t.recv + ".column.data": {t.recv + "_data", lfBytes}}
	case "*ReadBufs":
		t.recvKind, t.recvType = "bufs", "Bufs"
		t.fields = map[string]lfField{t.recv + ".tempBufBytes": {"tempBufBytes", lfBytes}, t.recv + ".readLimit": {"readLimit", lfNat}}
	case "*BaseReader":
		t.recvKind, t.recvType = "reader", "Rs"
		t.fields = map[string]lfField{t.recv + ".FrameRecordCount": {"frameRecordCount", lfNat}, t.recv + ".FixedHeader.Compression": {"compression", lfNat}}
	}
	// parameters: the types must be exactly those of the spec
	var ptypes, pnames []string
	for _, p := range fd.Type.Params.List {
		if len(p.Names) == 0 {
			t.fail(p, "unnamed parameter")
		}
		for _, n := range p.Names {
			ptypes = append(ptypes, str(p.Type))
			pnames = append(pnames, n.Name)
		}
	}
	if strings.Join(ptypes, ", ") != strings.Join(spec.params, ", ") {
		t.fail(fd, "parameters (%s), expected (%s)", strings.Join(ptypes, ", "), strings.Join(spec.params, ", "))
	}
	var rtypes []string
	if fd.Type.Results != nil {
		for _, r := range fd.Type.Results.List {
			if len(r.Names) != 0 {
				t.fail(r, "named results")
			}
			rtypes = append(rtypes, str(r.Type))
		}
	}
	if strings.Join(rtypes, ", ") != strings.Join(spec.results, ", ") {
		t.fail(fd, "results (%s), expected (%s)", strings.Join(rtypes, ", "), strings.Join(spec.results, ", "))
	}
	for _, r := range rtypes {
		t.results = append(t.results, map[string]lfKind{"error": lfErr, "FrameFlags": lfNat}[r])
	}
	top := &lfScope{m: map[string]*lfVar{}}
	leanParams := ""
	for i, ty := range ptypes {
		n := pnames[i]
		switch ty {
		case "*BitsReader":
			t.brParam, t.env, t.envType = n, "st", "Sizes.St"
		case "*uint64":
			t.limParam = n
		case "ByteAndBlockReader":
			if lfReserved[n] || n == t.recv {
				t.fail(fd, "parameter name `%s` collides with the generated Lean text", n)
			}
			t.decParam, t.env, t.envType = n, n, "St"
		case "uint64":
			x := t.declare(fd, top, n, lfNat)
			leanParams += fmt.Sprintf(" (%s : Nat)", x.lean)
		case "schema.WireSchema":
			// not used by the translated part (the cut checks nothing of the source is touched after it)
		default:
			t.fail(fd, "parameter type `%s`", ty)
		}
	}
	if (t.brParam == "") != (t.limParam == "") {
		t.fail(fd, "the *BitsReader and *uint64 parameters come together")
	}
	known[spec.lean] = true
	body := t.stmts(fd.Body.List, top, "    ", t.fnWrap, func() lfCont {
		if len(t.results) == 0 {
			return func(ind string) string { return ind + t.fnWrap(nil) + "\n" }
		}
		return nil
	}(), true)
	// result type
	rt := []string{t.recvType}
	if t.env != "" {
		rt = append(rt, t.envType)
	}
	for _, r := range t.results {
		rt = append(rt, r.leanType())
	}
	if spec.cut {
		rt = append(rt, "Option Bytes")
	}
	var sb strings.Builder
	doc := fmt.Sprintf("/-- %s `func (%s %s) %s`", spec.file, t.recv, spec.recvType, spec.goName)
	if spec.cut {
		doc += "; the last component: the bytes handed to `VarHeader.Deserialize` when control gets there (the rest of the function is not translated)"
	}
	doc += " -/\n"
	if t.recvKind == "cols" {
		envTy, envPat := "", ""
		if t.env != "" {
			envTy, envPat = t.envType+" → ", ", "+t.env
		}
		sb.WriteString("mutual\n" + doc)
		fmt.Fprintf(&sb, "def %s : Cols → %s%s\n  | .node %s_data %s_kids%s =>\n%s", spec.lean, envTy, strings.Join(rt, " × "), t.recv, t.recv, envPat, body)
		for _, a := range t.aux {
			sb.WriteString(a)
		}
		sb.WriteString("end\n")
		return sb.String()
	}
	envParam := ""
	if t.env != "" {
		envParam = fmt.Sprintf(" (%s : %s)", t.env, t.envType)
	}
	sb.WriteString(doc)
	fmt.Fprintf(&sb, "def %s (%s : %s)%s%s : %s :=\n%s", spec.lean, t.recv, t.recvType, envParam, leanParams, strings.Join(rt, " × "), body)
	return sb.String()
}

func lfDecls(fset *token.FileSet, f *ast.File) map[string]*ast.FuncDecl {
	decls := map[string]*ast.FuncDecl{}
	for _, dd := range f.Decls {
		fd, ok := dd.(*ast.FuncDecl)
		if !ok || fd.Recv == nil || len(fd.Recv.List) != 1 || fd.Body == nil {
			continue
		}
		var sb strings.Builder
		printer.Fprint(&sb, fset, fd.Recv.List[0].Type)
		decls[sb.String()+"."+fd.Name.Name] = fd
	}
	return decls
}

// lfInitWiring: the facts the vocabulary relies on: BaseReader.Init hands r.Source (and the compression of
// the fixed header) to FrameDecoder.Init, after ReadFixedHeader; RemainingSize is the field uncompressedSize.
func lfInitWiring(fsetB *token.FileSet, base map[string]*ast.FuncDecl, fsetF *token.FileSet, frame map[string]*ast.FuncDecl) bool {
	str := func(fset *token.FileSet, n ast.Node) string {
		var sb strings.Builder
		printer.Fprint(&sb, fset, n)
		return strings.Join(strings.Fields(sb.String()), " ")
	}
	ini, rem := base["*BaseReader.Init"], frame["*FrameDecoder.RemainingSize"]
	if ini == nil || rem == nil || len(ini.Recv.List[0].Names) != 1 || len(rem.Recv.List[0].Names) != 1 {
		die("go/pkg: BaseReader.Init / FrameDecoder.RemainingSize not found")
	}
	r, d := ini.Recv.List[0].Names[0].Name, rem.Recv.List[0].Names[0].Name
	if len(ini.Type.Params.List) != 1 || len(ini.Type.Params.List[0].Names) != 1 {
		return false
	}
	src := ini.Type.Params.List[0].Names[0].Name
	want := []string{
		fmt.Sprintf("%s.Source = %s", r, src),
		fmt.Sprintf("if err := %s.ReadFixedHeader(); err != nil { return err }", r),
		fmt.Sprintf("if err := %s.FrameDecoder.Init(%s.Source, %s.FixedHeader.Compression); err != nil { return err }", r, r, r),
		"return nil",
	}
	if len(ini.Body.List) != len(want) {
		return false
	}
	for i, st := range ini.Body.List {
		if str(fsetB, st) != want[i] {
			return false
		}
	}
	return len(rem.Body.List) == 1 && str(fsetF, rem.Body.List[0]) == "return "+d+".uncompressedSize"
}

func genLoadFlow() {
	fsetR, fR := parseFile("go/pkg/recordbuf.go")
	fsetB, fB := parseFile("go/pkg/basereader.go")
	fsetF, fF := parseFile("go/pkg/frame.go")
	_, fW := parseFile("go/pkg/writeropts.go")
	consts := map[string]constant.Value{}
	collectConsts(fW, &constEnv{vals: map[string]constant.Value{}}, consts)
	sig, ok := consts["HdrSignature"]
	if !ok || sig.Kind() != constant.String {
		die("go/pkg/writeropts.go: string constant HdrSignature not found")
	}
	var sigBytes []string
	for _, b := range []byte(constant.StringVal(sig)) {
		sigBytes = append(sigBytes, fmt.Sprintf("0x%02x#8", b))
	}
	declsR, declsB, declsF := lfDecls(fsetR, fR), lfDecls(fsetB, fB), lfDecls(fsetF, fF)
	var sb strings.Builder
	sb.WriteString("/- GENERATED by /verif/extract (loadflow.go) from go/pkg/recordbuf.go and go/pkg/basereader.go: the bodies of\n")
	sb.WriteString("   ReadColumnSet.ResetData/ReadSizesFrom/ReadDataFrom, ReadBufs.ReadFrom, BaseReader.NextFrame/ReadFixedHeader/ReadVarHeader,\n")
	sb.WriteString("   one Lean line (or match/if) per Go statement, in continuation style. Do not edit. Vocabulary: Stef/LoadFlowSem.lean. -/\n")
	sb.WriteString("import Stef.LoadFlowSem\nimport Stef.Gen.Consts\n\nset_option linter.unusedVariables false\n\nnamespace Stef.Gen.LoadFlow\nopen Stef.ReaderIO Stef.FrameFlowSem Stef.LoadFlowSem\n\n")
	fmt.Fprintf(&sb, "/-- go/pkg/writeropts.go `const HdrSignature = %s` as bytes -/\ndef hdrSignatureBytes : Bytes := [%s]\n\n", sig.ExactString(), strings.Join(sigBytes, ", "))
	known := map[string]bool{}
	const rb, br = "go/pkg/recordbuf.go", "go/pkg/basereader.go"
	for _, spec := range []lfSpec{
		{rb, "*ReadColumnSet", "ResetData", "resetData", nil, nil, false},
		{rb, "*ReadColumnSet", "ReadSizesFrom", "readSizesFrom", []string{"*BitsReader", "*uint64"}, []string{"error"}, false},
		{rb, "*ReadColumnSet", "ReadDataFrom", "readDataFrom", []string{"ByteAndBlockReader"}, []string{"error"}, false},
		{rb, "*ReadBufs", "ReadFrom", "readFrom", []string{"ByteAndBlockReader", "uint64"}, []string{"error"}, false},
		{br, "*BaseReader", "NextFrame", "nextFrame", nil, []string{"FrameFlags", "error"}, false},
		{br, "*BaseReader", "ReadFixedHeader", "readFixedHeader", nil, []string{"error"}, false},
		{br, "*BaseReader", "ReadVarHeader", "readVarHeader", []string{"schema.WireSchema"}, []string{"error"}, true},
	} {
		fset, decls := fsetR, declsR
		if spec.file == br {
			fset, decls = fsetB, declsB
		}
		fd := decls[spec.recvType+"."+spec.goName]
		if fd == nil {
			die("%s: func (%s) %s not found", spec.file, spec.recvType, spec.goName)
		}
		sb.WriteString(lfTranslate(fset, fd, spec, known))
		sb.WriteString("\n")
	}
	sb.WriteString("/-- go/pkg/basereader.go Init is exactly `r.Source = source`, `ReadFixedHeader`, `r.FrameDecoder.Init(r.Source,\n")
	sb.WriteString("    r.FixedHeader.Compression)` (with the error returns): the frame decoder reads from r.Source and is told the compression of\n")
	sb.WriteString("    the fixed header; go/pkg/frame.go RemainingSize is exactly `return d.uncompressedSize`. -/\n")
	fmt.Fprintf(&sb, "def initWiring : Bool := %v\n\n", lfInitWiring(fsetB, declsB, fsetF, declsF))
	sb.WriteString("end Stef.Gen.LoadFlow\n")
	writeOut("LoadFlow.lean", sb.String())
}
